#!/usr/bin/env python3
"""Regenerates /verif/MANIFEST.json from the claim table below (properties.jsonl is never touched).
Run: python3 manifest_gen.py && validate."""
import json, subprocess

IDS = [json.loads(l)['id'] for l in open('/verif/properties.jsonl')]

# property -> (technique, level text, level note, design ref)
CLAIMS = {
 'C04': ("typestate over condition variables on SSA (predicate write => Broadcast; Broadcast holds the cond's locker), path-sensitive lock-state simulation with inlining",
         "Necessary conditions of 'no state change is lost to the cleaner', checked on every path and calling context: every write to Buffer.cond's predicate fields is broadcast before the lock is released; every Broadcast (incl. the cooldown timer's re-broadcast) holds Buffer.mutex; the cooldown cells share one lock. Not a proof of the delay bound.",
         "go/types + go/ssa; modelled sync semantics; time-related clauses (the bound itself) are not decided", "DESIGN.md 4/C04"),
 'C11': ("lockset (guarded-by) analysis over SSA with path-sensitive lock simulation and in-package inlining; field-class, escape and captured-cell audits",
         "Lockset discipline (a sufficient condition for race freedom on the tabled fields) for every shared field and captured cell in every calling context, plus who-may-write audits for init-once fields; exceptions are five named symbols with happens-before reasons.",
         "go/types + go/ssa; the guarded-by table and five reasoned exceptions in tool/internal/props/tables.go; user callbacks not followed", "DESIGN.md 4/C11"),
}

NA_REASON = "interim: the rules for this property are not built yet (DESIGN.md section 9 build order); no claim is made until they are validated"

def main():
    checks = []
    for i in IDS:
        if i not in CLAIMS:
            continue
        tech, text, note, ref = CLAIMS[i]
        checks.append({
            "property_id": i,
            "quick_cmd": f"./check.sh {i} quick",
            "thorough_cmd": f"./check.sh {i} thorough",
            "evidence_file": f"/verif/evidence/{i}.json",
            "replay_cmd_template": "./check.sh --replay {path}",
            "engine": "bbcheck",
            "level_claimed": {"category": "other", "text": text, "design_ref": ref},
            "level_note": note,
            "technique": "static analysis: " + tech,
        })
    m = {
        "version": 1,
        "setup_cmd": "cd /verif/tool && GOFLAGS=-mod=mod GOPROXY=off GOSUMDB=off GOTOOLCHAIN=local GOWORK=off go build -o /verif/bin/bbcheck ./cmd/bbcheck",
        "hooks": {"guard": "verif", "enable": "none: static analysis reads /repo's source; no instrumentation exists in /repo",
                  "baseline_off_cmd": "cd /repo && go test -mod=mod -json -vet=off -count=1 -timeout 25m ./...",
                  "source_commits": [], "add_only": True},
        "engines": [{"name": "bbcheck", "path": "/verif/tool", "serves_properties": [c["property_id"] for c in checks],
                     "kind_free_text": "repository-specific static analyser over go/types + go/ssa (x/tools v0.29.0): lock-state simulation, CFG path rules, symbolic forms, intervals, lifecycle and reflect-validity rules, audits"}],
        "checks": checks,
        "not_applicable": [{"property_id": i, "reason": NA_REASON} for i in IDS if i not in CLAIMS],
        "notes": "All checks decide properties from /repo's current source without running it. Genuine defects found and repaired: see known_findings.json (four 'fixed' entries) and DESIGN.md section 5.",
    }
    json.dump(m, open('/verif/MANIFEST.json', 'w'), indent=1)
    print("claimed", [c["property_id"] for c in checks])

main()
