#!/usr/bin/env python3
"""Regenerates /verif/MANIFEST.json from the claim table below (properties.jsonl is never touched).
Run: python3 manifest_gen.py && validate."""
import json, subprocess

IDS = [json.loads(l)['id'] for l in open('/verif/properties.jsonl')]

# claims come from the checker's own registry (bbcheck list): technique, what is decided, what is not
REG = {r['id']: r for r in json.loads(subprocess.run(['/verif/bin/bbcheck', 'list'], capture_output=True, text=True, check=True).stdout)}
CLAIMS = {}
for i, r in REG.items():
    CLAIMS[i] = (r['technique'],
                 "Necessary structural conditions of the property, decided on every path and calling context of the SSA program: " + r['explanation'] + " NOT decided: " + r['not_decided'],
                 "trusted: go/types + go/ssa (x/tools v0.29.0), the modelled semantics of sync/context/time/reflect, the documented caller contracts, and the reasoned exception tables in tool/internal/props; the composition of the checked premises into the behavioural statement is a manual argument (DESIGN.md section 4)",
                 "DESIGN.md section 4/" + i)

NA_REASON = "interim: the rules for this property are not built yet (DESIGN.md section 9 build order); no claim is made until they are validated"

def main():
    checks = []
    for i in IDS:
        if i not in CLAIMS:
            continue
        tech, text, note, ref = CLAIMS[i]
        checks.append({
            "property_id": i,
            "quick_cmd": f"./check.sh {i} quick",
            "thorough_cmd": f"./check.sh {i} thorough",
            "evidence_file": f"/verif/evidence/{i}.json",
            "replay_cmd_template": "./check.sh --replay {path}",
            "engine": "bbcheck",
            "level_claimed": {"category": "other", "text": text, "design_ref": ref},
            "level_note": note,
            "technique": "static analysis: " + tech,
        })
    m = {
        "version": 1,
        "setup_cmd": "cd /verif/tool && GOFLAGS=-mod=mod GOPROXY=off GOSUMDB=off GOTOOLCHAIN=local GOWORK=off go build -o /verif/bin/bbcheck ./cmd/bbcheck",
        "hooks": {"guard": "verif", "enable": "none: static analysis reads /repo's source; no instrumentation exists in /repo",
                  "baseline_off_cmd": "cd /repo && go test -mod=mod -json -vet=off -count=1 -timeout 25m ./...",
                  "source_commits": [], "add_only": True},
        "engines": [{"name": "bbcheck", "path": "/verif/tool", "serves_properties": [c["property_id"] for c in checks],
                     "kind_free_text": "repository-specific static analyser over go/types + go/ssa (x/tools v0.29.0): lock-state simulation, CFG path rules, symbolic forms, intervals, lifecycle and reflect-validity rules, audits"}],
        "checks": checks,
        "not_applicable": [{"property_id": i, "reason": NA_REASON} for i in IDS if i not in CLAIMS],
        "notes": "All checks decide properties from /repo's current source without running it. Genuine defects found and repaired: see known_findings.json (four 'fixed' entries) and DESIGN.md section 5.",
    }
    json.dump(m, open('/verif/MANIFEST.json', 'w'), indent=1)
    print("claimed", [c["property_id"] for c in checks])

main()
