#!/bin/bash
# usage: ./check.sh <property-id> <quick|thorough>      ./check.sh --replay <violation.json>
# Decides one property by static analysis of /repo's current working tree (nothing is executed).
export GOFLAGS=-mod=mod GOPROXY=off GOSUMDB=off GOTOOLCHAIN=local
unset GOWORK
cd "$(dirname "$0")"
VERIF="$(pwd)"
if [ ! -x "$VERIF/bin/bbcheck" ] || [ -n "$(find "$VERIF/tool" -name '*.go' -newer "$VERIF/bin/bbcheck" 2>/dev/null | head -1)" ]; then
  (cd "$VERIF/tool" && go build -o "$VERIF/bin/bbcheck" ./cmd/bbcheck) || { echo "check.sh: cannot build bbcheck"; exit 2; }
fi
if [ "$1" = "--replay" ]; then
  exec "$VERIF/bin/bbcheck" replay -file "$2" -verif "$VERIF"
fi
exec "$VERIF/bin/bbcheck" check -prop "$1" -tier "${2:-${VERIF_TIER:-quick}}" -verif "$VERIF"
