// Package an holds the analysis engines of bbcheck: the loader and resolved
// program (E0), the lock-state simulator (E1), CFG path queries (E2), symbolic
// forms (E3), intervals (E4), lifecycle rules (E5), reflect validity (E6) and
// audits (E7). Nothing in this package executes code from /repo.
package an

import (
	"fmt"
	"go/token"
	"go/types"
	"os"
	"regexp"
	"sort"
	"strings"
	"sync"

	"golang.org/x/tools/go/packages"
	"golang.org/x/tools/go/ssa"
	"golang.org/x/tools/go/ssa/ssautil"
)

const PkgPath = "github.com/joeycumines/go-bigbuff"

// Prog is the resolved program for one build configuration of /repo.
type Prog struct {
	Dir    string
	Fset   *token.FileSet
	PP     *packages.Package
	SSA    *ssa.Program
	Pkg    *ssa.Package
	Types  *types.Package
	Funcs  []*ssa.Function // source functions of the package (incl. anonymous), sorted by name
	byName map[string]*ssa.Function
	Files  int
	Arch   string

	storesToAlloc map[*ssa.Alloc][]*ssa.Store
	fieldStores   map[ssa.Value]map[int][]*ssa.Store // alloc -> field index -> stores through FieldAddr(alloc, idx)
	globalInit    map[*ssa.Global][]ssa.Value
	concCaptured  map[*ssa.Alloc]bool
	sccCache      map[*ssa.Function]map[*ssa.BasicBlock]int
	rpoCache      map[*ssa.Function]map[*ssa.BasicBlock]int
	inPhi         map[*ssa.Phi]bool
	inLinPhi      map[*ssa.Phi]bool
	phiFeasible   func(*ssa.Phi) []int // set during SourcesAt
	siteIndex     map[*ssa.Function][]ssa.CallInstruction
	valueUse      map[*ssa.Function]bool
	throughParams bool
	phiEnv        map[*ssa.Phi]ssa.Value // set during PathCond: join phis resolved along the current path
	localFlag     map[*ssa.Alloc]bool
	linAt         ssa.Instruction
	versionDefs   map[versionKey][]ssa.Instruction
	writesCache   map[writesKey]bool
	linFrame      *Frame
	linArgs       map[*ssa.Parameter]Lin
}

var tyArgs = regexp.MustCompile(`\[[^\[\]]*\]`)

// FuncName is the stable, type-argument-free name of a function:
// "(*Buffer).get", "DefaultCleaner", "(*ChanPubSub).Send". An anonymous function is named after its ROLE in
// the enclosing function, not after its ordinal among all closures: "(*Exclusive).call$go1" (the first closure
// started with go), "(*Buffer).Close$Do1" (first closure passed to a callee named Do), "$defer1", "$call1"
// (invoked on the spot), "$ret1" (returned), "$fn1" (stored / anything else). Adding, say, a deferred closure
// to a function therefore does not rename the goroutine closure the tables anchor on.
func FuncName(fn *ssa.Function) string {
	if fn == nil {
		return "<nil>"
	}
	if fn.Origin() != nil {
		fn = fn.Origin()
	}
	if v, ok := fnNames.Load(fn); ok {
		return v.(string)
	}
	var s string
	if par := fn.Parent(); par != nil {
		role := closureRole(par, fn)
		n := 0
		for _, sib := range par.AnonFuncs {
			if closureRole(par, sib) == role {
				n++
			}
			if sib == fn {
				break
			}
		}
		// closures of a helper that is analysed as part of its caller share the caller's name space: they are numbered
		// after the caller's own closures of the same role (and after those of the caller's earlier helpers)
		if IsTransparent(par) {
			host := Host(par)
			for _, sib := range host.AnonFuncs {
				if sib != par && !IsTransparent(sib) && closureRole(host, sib) == role {
					n++
				}
			}
			for _, kid := range transparentKids[host] {
				if kid == par {
					break
				}
				for _, sib := range kid.AnonFuncs {
					if closureRole(kid, sib) == role {
						n++
					}
				}
			}
		}
		s = FuncName(par) + "$" + role + fmt.Sprint(n)
		// a goroutine body that used to be a named function started by this parent (go x.cleanup() turned into
		// go func() { ... }()): when that function is gone and this is the parent's only new go-closure, it keeps the
		// function's name, so that the rows confirmed for the goroutine still find it
		if role == "go" && KnownFuncs != nil && !KnownFuncs[s] && fn.Pkg != nil {
			var missing []string
			for k, f := range KnownGoTargets {
				if f == FuncName(par) && !funcDeclared(fn.Pkg, k) {
					missing = append(missing, k)
				}
			}
			unknownGo := 0
			m := 0
			for _, sib := range par.AnonFuncs {
				if closureRole(par, sib) == "go" {
					m++
					if !KnownFuncs[FuncName(par)+"$go"+fmt.Sprint(m)] {
						unknownGo++
					}
				}
			}
			if len(missing) == 1 && unknownGo == 1 {
				s = missing[0]
			}
		}
	} else {
		if fn.Pkg != nil {
			s = fn.RelString(fn.Pkg.Pkg)
		} else {
			s = fn.String()
		}
		for {
			t := tyArgs.ReplaceAllString(s, "")
			if t == s {
				break
			}
			s = t
		}
	}
	fnNames.Store(fn, s)
	return s
}

// OrdinalName is the x/tools name of a function ("call$1"): used only to report both names.
func OrdinalName(fn *ssa.Function) string {
	if fn.Pkg != nil {
		return fn.RelString(fn.Pkg.Pkg)
	}
	return fn.String()
}

var fnNames, fnRoles sync.Map

// KnownGoTargets: named functions that the confirmed tree starts with a go statement -> the function that starts them.
var KnownGoTargets map[string]string

// funcDeclared: a function or method with that (FuncName-style) name is declared in the package.
func funcDeclared(pkg *ssa.Package, name string) bool {
	for _, m := range pkg.Members {
		switch x := m.(type) {
		case *ssa.Function:
			if x.Name() == name {
				return true
			}
		case *ssa.Type:
			for _, t := range []types.Type{x.Type(), types.NewPointer(x.Type())} {
				ms := pkg.Prog.MethodSets.MethodSet(t)
				for i := 0; i < ms.Len(); i++ {
					if f := pkg.Prog.MethodValue(ms.At(i)); f != nil && f.Synthetic == "" {
						n := f.RelString(pkg.Pkg)
						for {
							t2 := tyArgs.ReplaceAllString(n, "")
							if t2 == n {
								break
							}
							n = t2
						}
						if n == name {
							return true
						}
					}
				}
			}
		}
	}
	return false
}

// KnownFuncs is the frozen list of function names (role-based) of the tree the tables were confirmed against; nil
// disables the transparent-closure view.
var KnownFuncs map[string]bool

var (
	transparentKids = map[*ssa.Function][]*ssa.Function{}
	transparentSite = map[*ssa.Function]*ssa.Call{}
)

// AllFuncs lists the library functions including the transparent ones (which are absent from Funcs).
func (p *Prog) AllFuncs() []*ssa.Function {
	out := append([]*ssa.Function{}, p.Funcs...)
	var ts []*ssa.Function
	for fn := range transparentSite {
		ts = append(ts, fn)
	}
	sort.Slice(ts, func(i, j int) bool { return OrdinalName(ts[i]) < OrdinalName(ts[j]) })
	return append(out, ts...)
}

// Host is the function a (possibly transparent) function is analysed as part of: fn itself unless it is transparent.
func Host(fn *ssa.Function) *ssa.Function {
	fn = Canon(fn)
	for fn != nil && transparentSite[fn] != nil {
		fn = Canon(transparentSite[fn].Parent())
	}
	return fn
}

// TransparentSite is the only call site of a transparent function.
func TransparentSite(fn *ssa.Function) *ssa.Call { return transparentSite[Canon(fn)] }

// IsTransparent reports whether fn is analysed as part of its enclosing function.
func IsTransparent(fn *ssa.Function) bool { return fn != nil && transparentSite[fn] != nil }

// TransparentCallee returns the transparent closure invoked by in, if any.
func TransparentCallee(in ssa.Instruction) *ssa.Function {
	call, ok := in.(*ssa.Call)
	if !ok || call.Call.IsInvoke() {
		return nil
	}
	v := call.Call.Value
	if mc, isMC := v.(*ssa.MakeClosure); isMC {
		v = mc.Fn
	}
	if fn, isF := v.(*ssa.Function); isF {
		if fn = Canon(fn); transparentSite[fn] == call {
			return fn
		}
	}
	return nil
}

// ClosureRole is the role part of an anonymous function's name ("go", "defer", "ret", "Do", ...).
func ClosureRole(fn *ssa.Function) string {
	if fn == nil || fn.Parent() == nil {
		return ""
	}
	return closureRole(fn.Parent(), fn)
}

// closureRole classifies how the enclosing function first uses the anonymous function.
func closureRole(par, fn *ssa.Function) string {
	if v, ok := fnRoles.Load(fn); ok {
		return v.(string)
	}
	isIt := func(v ssa.Value) bool {
		if v == nil {
			return false
		}
		for {
			switch x := v.(type) {
			case *ssa.ChangeType:
				v = x.X
				continue
			case *ssa.MakeInterface:
				v = x.X
				continue
			}
			break
		}
		if mc, ok := v.(*ssa.MakeClosure); ok {
			return mc.Fn == ssa.Value(fn)
		}
		return v == ssa.Value(fn)
	}
	role := ""
	common := func(c *ssa.CallCommon, direct string) {
		if role != "" {
			return
		}
		if !c.IsInvoke() && isIt(c.Value) {
			role = direct
			return
		}
		for _, a := range c.Args {
			if isIt(a) {
				switch {
				case c.IsInvoke():
					role = c.Method.Name()
				case c.StaticCallee() != nil:
					role = c.StaticCallee().Name()
				default:
					role = "arg"
				}
				return
			}
		}
	}
	for _, b := range par.Blocks {
		for _, in := range b.Instrs {
			switch x := in.(type) {
			case *ssa.Go:
				common(&x.Call, "go")
			case *ssa.Defer:
				common(&x.Call, "defer")
			case *ssa.Call:
				common(&x.Call, "call")
			case *ssa.Return:
				for _, r := range x.Results {
					if isIt(r) && role == "" {
						role = "ret"
					}
				}
			case *ssa.Store:
				if !isIt(x.Val) || role != "" {
					break
				}
				// a package-level function variable: named after the variable
				if g, ok := x.Addr.(*ssa.Global); ok {
					role = g.Name()
				}
				// a result spilled because the function has a defer: still "returned"
				if al, ok := x.Addr.(*ssa.Alloc); ok {
					for _, r := range *al.Referrers() {
						if ld, ok := r.(*ssa.UnOp); ok && ld.Op == token.MUL {
							for _, rr := range *ld.Referrers() {
								if _, isRet := rr.(*ssa.Return); isRet {
									role = "ret"
								}
							}
						}
					}
				}
			}
			if role != "" {
				break
			}
		}
		if role != "" {
			break
		}
	}
	if role == "" {
		role = "fn"
		// never used at all (e.g. assigned to the blank identifier)
		used := false
		for _, b := range par.Blocks {
			for _, in := range b.Instrs {
				for _, op := range in.Operands(nil) {
					if *op != nil && isIt(*op) {
						if mc, isMC := in.(*ssa.MakeClosure); isMC && mc.Fn == ssa.Value(fn) {
							continue
						}
						used = true
					}
				}
				if mc, isMC := in.(*ssa.MakeClosure); isMC && mc.Fn == ssa.Value(fn) && mc.Referrers() != nil && len(*mc.Referrers()) > 0 {
					used = true
				}
			}
		}
		if !used {
			role = "unused"
		}
	}
	fnRoles.Store(fn, role)
	return role
}

// LoadEnv is the environment of every go/packages load (offline, module mode, optional GOARCH).
func LoadEnv(goarch string) []string {
	env := append(os.Environ(), "GOFLAGS=-mod=mod", "GOPROXY=off", "GOSUMDB=off", "GOTOOLCHAIN=local", "GOWORK=off")
	if goarch != "" {
		env = append(env, "GOARCH="+goarch, "CGO_ENABLED=0")
	}
	return env
}

// Load type-checks and builds SSA for the package in dir. overlay maps absolute
// file names to replacement contents (used by the sensitivity harness).
func Load(dir string, overlay map[string][]byte, goarch string) (*Prog, error) {
	env := LoadEnv(goarch)
	cfg := &packages.Config{
		Mode:    packages.LoadAllSyntax,
		Dir:     dir,
		Env:     env,
		Overlay: overlay,
		Tests:   false,
	}
	pkgs, err := packages.Load(cfg, "./...")
	if err != nil {
		return nil, fmt.Errorf("load: %w", err)
	}
	if len(pkgs) == 0 {
		return nil, fmt.Errorf("load: zero packages matched in %s", dir)
	}
	var pp *packages.Package
	for _, p := range pkgs {
		if p.PkgPath == PkgPath {
			pp = p
		}
	}
	if pp == nil {
		return nil, fmt.Errorf("load: package %s not found in %s", PkgPath, dir)
	}
	var errs []string
	packages.Visit(pkgs, nil, func(p *packages.Package) {
		for _, e := range p.Errors {
			errs = append(errs, e.Error())
		}
	})
	if len(errs) > 0 {
		return nil, fmt.Errorf("load: type errors: %s", strings.Join(errs, "; "))
	}
	IntBits = 64
	if goarch == "386" || goarch == "arm" {
		IntBits = 32
	}
	prog, _ := ssautil.AllPackages(pkgs, ssa.BuilderMode(0))
	prog.Build()
	sp := prog.Package(pp.Types)
	if sp == nil {
		return nil, fmt.Errorf("load: no SSA package")
	}
	p := &Prog{Dir: dir, Fset: pp.Fset, PP: pp, SSA: prog, Pkg: sp, Types: pp.Types, Files: len(pp.CompiledGoFiles), Arch: goarch,
		byName: map[string]*ssa.Function{}}
	seen := map[*ssa.Function]bool{}
	var add func(fn *ssa.Function)
	add = func(fn *ssa.Function) {
		if fn == nil || seen[fn] || fn.Blocks == nil {
			return
		}
		if fn.Synthetic != "" && !strings.HasPrefix(fn.Synthetic, "package init") {
			return
		}
		seen[fn] = true
		p.Funcs = append(p.Funcs, fn)
		for _, a := range fn.AnonFuncs {
			add(a)
		}
	}
	for _, m := range sp.Members {
		switch m := m.(type) {
		case *ssa.Function:
			add(m)
		case *ssa.Type:
			for _, T := range []types.Type{m.Type(), types.NewPointer(m.Type())} {
				ms := prog.MethodSets.MethodSet(T)
				for i := 0; i < ms.Len(); i++ {
					if f, ok := ms.At(i).Obj().(*types.Func); ok && f.Pkg() == pp.Types {
						add(prog.FuncValue(f))
					}
				}
			}
			// methods of generic named types are reached through their objects
			if n, ok := m.Type().(*types.Named); ok {
				for i := 0; i < n.NumMethods(); i++ {
					add(prog.FuncValue(n.Method(i)))
				}
			}
		}
	}
	// transparent closures: immediately invoked function literals that did not exist when the tables were confirmed
	// (typically produced by the un-extraction pre-pass). They are analysed as part of their enclosing function:
	// same name, their instructions are found by the site finders, and path queries step into them.
	transparentKids = map[*ssa.Function][]*ssa.Function{}
	transparentSite = map[*ssa.Function]*ssa.Call{}
	if KnownFuncs != nil {
		inLib := map[*ssa.Function]bool{}
		for _, fn := range p.Funcs {
			inLib[fn] = true
		}
		// candidates: unexported / anonymous functions that are not in the frozen list
		cand := map[*ssa.Function]bool{}
		for _, fn := range p.Funcs {
			if KnownFuncs[FuncName(fn)] {
				continue
			}
			if fn.Parent() != nil {
				if ClosureRole(fn) == "call" {
					cand[fn] = true
				}
				continue
			}
			if obj := fn.Object(); obj != nil && !obj.Exported() {
				cand[fn] = true
			}
		}
		// their static call sites (plain calls only; a use as a value, in go or in defer disqualifies)
		sites := map[*ssa.Function][]*ssa.Call{}
		other := map[*ssa.Function]bool{}
		for _, fn := range p.Funcs {
			for _, b := range fn.Blocks {
				for _, in := range b.Instrs {
					var callee *ssa.Function
					if cc := CallCommonOf(in); cc != nil && !cc.IsInvoke() {
						v := cc.Value
						if mc, isMC := v.(*ssa.MakeClosure); isMC {
							v = mc.Fn
						}
						if f, isF := v.(*ssa.Function); isF {
							callee = Canon(f)
						}
					}
					for _, op := range in.Operands(nil) {
						if *op == nil {
							continue
						}
						v := *op
						if mc, isMC := v.(*ssa.MakeClosure); isMC {
							v = mc.Fn
						}
						if f, isF := v.(*ssa.Function); isF && cand[Canon(f)] {
							f = Canon(f)
							if call, isCall := in.(*ssa.Call); isCall && callee == f {
								if _, isMC := in.(*ssa.MakeClosure); !isMC {
									sites[f] = append(sites[f], call)
									continue
								}
							}
							if mc, isMC := in.(*ssa.MakeClosure); isMC && Canon(mc.Fn.(*ssa.Function)) == f {
								continue // the closure value itself; its use is what counts
							}
							other[f] = true
						}
					}
				}
			}
		}
		for fn := range cand {
			if other[fn] || len(sites[fn]) != 1 || sites[fn][0].Parent() == fn {
				continue
			}
			transparentSite[fn] = sites[fn][0]
		}
		// drop cycles (a chain of transparent functions must end in a non-transparent one)
		for fn := range transparentSite {
			seenC := map[*ssa.Function]bool{}
			for f := fn; transparentSite[f] != nil; f = Canon(transparentSite[f].Parent()) {
				if seenC[f] {
					delete(transparentSite, fn)
					break
				}
				seenC[f] = true
			}
		}
		var keep []*ssa.Function
		for _, fn := range p.Funcs {
			if site := transparentSite[fn]; site != nil {
				par := Canon(site.Parent())
				transparentKids[par] = append(transparentKids[par], fn)
				continue
			}
			keep = append(keep, fn)
		}
		p.Funcs = keep
		// a transparent function (and everything nested in it) is named after the nearest non-transparent caller
		for fn := range transparentSite {
			anc := Canon(transparentSite[fn].Parent())
			for transparentSite[anc] != nil {
				anc = Canon(transparentSite[anc].Parent())
			}
			fnNames.Store(fn, FuncName(anc))
		}
		// closures nested in a transparent function are renamed along with it
		for _, fn := range p.Funcs {
			for a := fn.Parent(); a != nil; a = a.Parent() {
				if transparentSite[a] != nil {
					fnNames.Delete(fn)
					break
				}
			}
		}
	}
	sort.Slice(p.Funcs, func(i, j int) bool { return FuncName(p.Funcs[i]) < FuncName(p.Funcs[j]) })
	for _, fn := range p.Funcs {
		n := FuncName(fn)
		if _, dup := p.byName[n]; dup {
			nested := false
			for a := fn.Parent(); a != nil; a = a.Parent() {
				if transparentSite[a] != nil {
					nested = true
				}
			}
			if !nested {
				return nil, fmt.Errorf("load: duplicate function name %s", n)
			}
			for i := 2; ; i++ {
				if _, dup := p.byName[n+"'"+fmt.Sprint(i)]; !dup {
					n = n + "'" + fmt.Sprint(i)
					fnNames.Store(fn, n)
					break
				}
			}
		}
		p.byName[n] = fn
	}
	p.index()
	return p, nil
}

// Func resolves an anchored function by name; nil if absent.
func (p *Prog) Func(name string) *ssa.Function { return p.byName[name] }

// IsLib reports whether fn is a source function of the analysed package.
func (p *Prog) IsLib(fn *ssa.Function) bool {
	if fn == nil {
		return false
	}
	if fn.Origin() != nil {
		fn = fn.Origin()
	}
	if IsTransparent(fn) {
		return fn.Blocks != nil
	}
	_, ok := p.byName[FuncName(fn)]
	return ok && fn.Blocks != nil && p.byName[FuncName(fn)] == fn
}

// Canon maps an instantiation wrapper to the generic origin body.
func Canon(fn *ssa.Function) *ssa.Function {
	if fn != nil && fn.Origin() != nil {
		return fn.Origin()
	}
	return fn
}

// StructField resolves "Type.field" to the (origin) field variable.
func (p *Prog) StructField(typ, field string) *types.Var {
	obj := p.Types.Scope().Lookup(typ)
	if obj == nil {
		return nil
	}
	st, ok := obj.Type().Underlying().(*types.Struct)
	if !ok {
		return nil
	}
	for i := 0; i < st.NumFields(); i++ {
		if st.Field(i).Name() == field {
			return st.Field(i).Origin()
		}
	}
	return nil
}

func (p *Prog) Pos(pos token.Pos) string {
	if !pos.IsValid() {
		return "-"
	}
	q := p.Fset.Position(pos)
	f := q.Filename
	if i := strings.LastIndex(f, "/"); i >= 0 {
		f = f[i+1:]
	}
	return fmt.Sprintf("%s:%d", f, q.Line)
}

// InstrPos returns the best available position of an instruction.
func (p *Prog) InstrPos(in ssa.Instruction) string {
	if in == nil {
		return "-"
	}
	if in.Pos().IsValid() {
		return p.Pos(in.Pos())
	}
	// fall back to any operand / neighbouring instruction with a position
	if b := in.Block(); b != nil {
		idx := -1
		for i, x := range b.Instrs {
			if x == in {
				idx = i
			}
		}
		for d := 1; d < len(b.Instrs); d++ {
			for _, j := range []int{idx - d, idx + d} {
				if j >= 0 && j < len(b.Instrs) && b.Instrs[j].Pos().IsValid() {
					return p.Pos(b.Instrs[j].Pos()) + "~"
				}
			}
		}
	}
	if in.Parent() != nil {
		return p.Pos(in.Parent().Pos()) + "~"
	}
	return "-"
}

// index precomputes store maps used by value resolution.
func (p *Prog) index() {
	p.storesToAlloc = map[*ssa.Alloc][]*ssa.Store{}
	p.fieldStores = map[ssa.Value]map[int][]*ssa.Store{}
	p.globalInit = map[*ssa.Global][]ssa.Value{}
	p.concCaptured = map[*ssa.Alloc]bool{}
	p.sccCache = map[*ssa.Function]map[*ssa.BasicBlock]int{}
	// resolve an address to its alloc through free variables (closures write parents' cells)
	for _, fn := range p.AllFuncs() {
		for _, b := range fn.Blocks {
			for _, in := range b.Instrs {
				st, ok := in.(*ssa.Store)
				if !ok {
					continue
				}
				switch a := st.Addr.(type) {
				case *ssa.Alloc:
					p.storesToAlloc[a] = append(p.storesToAlloc[a], st)
				case *ssa.FreeVar:
					if al := p.freeVarAlloc(a); al != nil {
						p.storesToAlloc[al] = append(p.storesToAlloc[al], st)
					}
				case *ssa.Global:
					p.globalInit[a] = append(p.globalInit[a], st.Val)
				case *ssa.FieldAddr:
					if al, ok := a.X.(*ssa.Alloc); ok {
						m := p.fieldStores[al]
						if m == nil {
							m = map[int][]*ssa.Store{}
							p.fieldStores[al] = m
						}
						m[a.Field] = append(m[a.Field], st)
					}
				}
			}
		}
	}
}

// freeVarAlloc follows a free variable to the Alloc bound at its (unique) MakeClosure site.
func (p *Prog) freeVarAlloc(fv *ssa.FreeVar) *ssa.Alloc {
	fn := fv.Parent()
	par := fn.Parent()
	if par == nil {
		return nil
	}
	idx := -1
	for i, f := range fn.FreeVars {
		if f == fv {
			idx = i
		}
	}
	var res *ssa.Alloc
	n := 0
	for _, b := range par.Blocks {
		for _, in := range b.Instrs {
			mc, ok := in.(*ssa.MakeClosure)
			if !ok || mc.Fn != fn || idx >= len(mc.Bindings) {
				continue
			}
			n++
			switch x := mc.Bindings[idx].(type) {
			case *ssa.Alloc:
				res = x
			case *ssa.FreeVar:
				res = p.freeVarAlloc(x)
			}
		}
	}
	if n != 1 {
		return nil
	}
	return res
}

// SCC returns, for fn, the strongly connected component id of every block, and
// whether that component is a cycle (size>1 or self loop).
func (p *Prog) SCC(fn *ssa.Function) (comp map[*ssa.BasicBlock]int, cyclic map[int]bool) {
	comp = map[*ssa.BasicBlock]int{}
	cyclic = map[int]bool{}
	index := map[*ssa.BasicBlock]int{}
	low := map[*ssa.BasicBlock]int{}
	on := map[*ssa.BasicBlock]bool{}
	var stack []*ssa.BasicBlock
	n, c := 0, 0
	var dfs func(b *ssa.BasicBlock)
	dfs = func(b *ssa.BasicBlock) {
		n++
		index[b], low[b] = n, n
		stack = append(stack, b)
		on[b] = true
		for _, s := range b.Succs {
			if index[s] == 0 {
				dfs(s)
				if low[s] < low[b] {
					low[b] = low[s]
				}
			} else if on[s] && index[s] < low[b] {
				low[b] = index[s]
			}
		}
		if low[b] == index[b] {
			c++
			size := 0
			for {
				x := stack[len(stack)-1]
				stack = stack[:len(stack)-1]
				on[x] = false
				comp[x] = c
				size++
				if x == b {
					break
				}
			}
			if size > 1 {
				cyclic[c] = true
			} else {
				for _, s := range b.Succs {
					if s == b {
						cyclic[c] = true
					}
				}
			}
		}
	}
	for _, b := range fn.Blocks {
		if index[b] == 0 {
			dfs(b)
		}
	}
	return
}

// InCycle reports whether the instruction's block lies on a CFG cycle.
func (p *Prog) InCycle(in ssa.Instruction) bool {
	comp, cyc := p.SCC(in.Parent())
	return cyc[comp[in.Block()]]
}

// RPO numbers the blocks of fn in reverse post-order.
func (p *Prog) RPO(fn *ssa.Function) map[*ssa.BasicBlock]int {
	if r, ok := p.rpoCache[fn]; ok {
		return r
	}
	seen := map[*ssa.BasicBlock]bool{}
	var post []*ssa.BasicBlock
	var dfs func(b *ssa.BasicBlock)
	dfs = func(b *ssa.BasicBlock) {
		seen[b] = true
		for _, s := range b.Succs {
			if !seen[s] {
				dfs(s)
			}
		}
		post = append(post, b)
	}
	dfs(fn.Blocks[0])
	r := map[*ssa.BasicBlock]int{}
	for i, b := range post {
		r[b] = len(post) - i
	}
	if p.rpoCache == nil {
		p.rpoCache = map[*ssa.Function]map[*ssa.BasicBlock]int{}
	}
	p.rpoCache[fn] = r
	return r
}

// LocalFuncSlice: mc is stored only into the backing array of an append to a local slice cell whose
// elements are only ranged over and called (Buffer.ensure's "changes"). Returns that cell.
func (p *Prog) LocalFuncSlice(mc *ssa.MakeClosure) *ssa.Alloc {
	var cell *ssa.Alloc
	for _, ref := range *mc.Referrers() {
		st, ok := ref.(*ssa.Store)
		if !ok {
			if _, dbg := ref.(*ssa.DebugRef); dbg {
				continue
			}
			return nil
		}
		ia, ok := st.Addr.(*ssa.IndexAddr)
		if !ok {
			return nil
		}
		arr, ok := ia.X.(*ssa.Alloc)
		if !ok {
			return nil
		}
		for _, r2 := range *arr.Referrers() {
			switch x := r2.(type) {
			case *ssa.IndexAddr:
			case *ssa.Slice:
				for _, r3 := range *x.Referrers() {
					call, ok := r3.(*ssa.Call)
					if !ok {
						return nil
					}
					b, ok := call.Call.Value.(*ssa.Builtin)
					if !ok || b.Name() != "append" {
						return nil
					}
					for _, r4 := range *call.Referrers() {
						s4, ok := r4.(*ssa.Store)
						if !ok {
							return nil
						}
						c := p.addrAlloc(s4.Addr)
						if c == nil || (cell != nil && c != cell) {
							return nil
						}
						cell = c
					}
				}
			default:
				return nil
			}
		}
	}
	if cell == nil || !p.sliceCellOnlyCalled(cell) {
		return nil
	}
	return cell
}

func (p *Prog) addrAlloc(a ssa.Value) *ssa.Alloc {
	switch x := a.(type) {
	case *ssa.Alloc:
		return x
	case *ssa.FreeVar:
		return p.freeVarAlloc(x)
	}
	return nil
}

// sliceCellOnlyCalled: every load of the slice cell is used only by len, append (arg 0), or
// element loads that are called.
func (p *Prog) sliceCellOnlyCalled(cell *ssa.Alloc) bool {
	var checkAddr func(v ssa.Value, d int) bool
	checkAddr = func(v ssa.Value, d int) bool {
		if d > 4 {
			return false
		}
		for _, ref := range *v.Referrers() {
			switch r := ref.(type) {
			case *ssa.Store:
				if r.Addr != v {
					return false
				}
			case *ssa.DebugRef:
			case *ssa.MakeClosure:
				fn := r.Fn.(*ssa.Function)
				for i, b := range r.Bindings {
					if b == v && i < len(fn.FreeVars) && !checkAddr(fn.FreeVars[i], d+1) {
						return false
					}
				}
			case *ssa.UnOp:
				for _, use := range *r.Referrers() {
					switch u := use.(type) {
					case *ssa.Call:
						b, ok := u.Call.Value.(*ssa.Builtin)
						if !ok || (b.Name() != "len" && !(b.Name() == "append" && u.Call.Args[0] == ssa.Value(r))) {
							return false
						}
					case *ssa.IndexAddr:
						for _, u2 := range *u.Referrers() {
							ld, ok := u2.(*ssa.UnOp)
							if !ok {
								return false
							}
							for _, u3 := range *ld.Referrers() {
								switch c := u3.(type) {
								case *ssa.Call:
									if c.Call.Value != ssa.Value(ld) {
										return false
									}
								case *ssa.DebugRef:
								default:
									return false
								}
							}
						}
					case *ssa.DebugRef:
					default:
						return false
					}
				}
			default:
				return false
			}
		}
		return true
	}
	return checkAddr(cell, 0)
}

// SliceCellFuncs lists the closures appended to a local func-slice cell.
func (p *Prog) SliceCellFuncs(cell *ssa.Alloc) []*ssa.MakeClosure {
	var out []*ssa.MakeClosure
	fn := cell.Parent()
	var walk func(f *ssa.Function)
	walk = func(f *ssa.Function) {
		for _, b := range f.Blocks {
			for _, in := range b.Instrs {
				if mc, ok := in.(*ssa.MakeClosure); ok && p.LocalFuncSlice(mc) == cell {
					out = append(out, mc)
				}
			}
		}
	}
	walk(fn)
	return out
}

// paramEscapes: does the in-package callee let the func argument escape (anything but calling it)?
func (p *Prog) paramEscapes(callee *ssa.Function, call *ssa.Call, arg ssa.Value) bool {
	idx := -1
	for i, a := range call.Call.Args {
		if a == arg {
			idx = i
		}
	}
	if idx < 0 || idx >= len(callee.Params) {
		return true
	}
	prm := callee.Params[idx]
	var check func(v ssa.Value, d int) bool
	check = func(v ssa.Value, d int) bool {
		if d > 3 {
			return true
		}
		for _, ref := range *v.Referrers() {
			switch r := ref.(type) {
			case *ssa.Call:
				if r.Call.Value != v {
					return true
				}
			case *ssa.Defer:
				if r.Call.Value != v {
					return true
				}
			case *ssa.BinOp, *ssa.DebugRef:
			case *ssa.Store:
				// spilled parameter cell
				if al, ok := r.Addr.(*ssa.Alloc); ok && r.Val == v {
					if p.ConcurrentlyCaptured(al) || p.cellFuncEscapes(al, d) {
						return true
					}
					continue
				}
				return true
			default:
				return true
			}
		}
		return false
	}
	return check(prm, 0)
}

// NonBlockingFuncValue: a context.CancelFunc, or the stop function returned by context.AfterFunc.
func (p *Prog) NonBlockingFuncValue(v ssa.Value) bool {
	if n, ok := v.Type().(*types.Named); ok && n.Obj().Pkg() != nil && n.Obj().Pkg().Path() == "context" && n.Obj().Name() == "CancelFunc" {
		return true
	}
	seen := map[ssa.Value]bool{}
	var from func(v ssa.Value, d int) bool
	from = func(v ssa.Value, d int) bool {
		if d > 8 || seen[v] {
			return d <= 8
		}
		seen[v] = true
		switch x := v.(type) {
		case *ssa.Call:
			if c := x.Call.StaticCallee(); c != nil {
				return c.String() == "context.AfterFunc"
			}
		case *ssa.Extract:
			if c, ok := x.Tuple.(*ssa.Call); ok {
				if f := c.Call.StaticCallee(); f != nil {
					switch f.String() {
					case "context.WithCancel", "context.WithTimeout", "context.WithDeadline":
						return x.Index == 1
					}
				}
			}
		case *ssa.Phi:
			for _, e := range x.Edges {
				if c, ok := e.(*ssa.Const); ok && c.IsNil() {
					continue
				}
				if !from(e, d+1) {
					return false
				}
			}
			return true
		case *ssa.UnOp:
			if x.Op == token.MUL {
				if al := p.addrAlloc(x.X); al != nil {
					sts := p.storesToAlloc[al]
					if len(sts) == 0 {
						return false
					}
					for _, st := range sts {
						if c, ok := st.Val.(*ssa.Const); ok && c.IsNil() {
							continue
						}
						if !from(st.Val, d+1) {
							return false
						}
					}
					return true
				}
				// element of a stopCallbackSlice
				if ia, ok := x.X.(*ssa.IndexAddr); ok {
					if n, ok := ia.X.Type().(*types.Named); ok && n.Obj().Name() == "stopCallbackSlice" {
						return true
					}
				}
			}
		case *ssa.ChangeType:
			return from(x.X, d+1)
		}
		return false
	}
	return from(v, 0)
}
