package an

import (
	"sort"
	"strings"
)

// Oblig is the property-level obligation record (E1 obligations and all other engines' results
// are converted to this form).
type Oblig struct {
	Rule      string   `json:"rule"`
	Func      string   `json:"func"`
	Subject   string   `json:"subject"`
	Key       string   `json:"key"`
	Status    string   `json:"status"` // discharged | violated | undecided
	Witness   string   `json:"witness,omitempty"`
	Detail    string   `json:"detail,omitempty"`
	Pos       []string `json:"pos,omitempty"`
	Contexts  []string `json:"contexts,omitempty"`
	Instances int      `json:"instances"`
}

func FromOb(o *Ob) *Oblig {
	r := &Oblig{Rule: o.Rule, Func: o.Func, Subject: o.Subject, Key: o.Key(), Instances: o.Instances, Witness: o.Witness}
	switch {
	case o.Undecided:
		r.Status = "undecided"
		r.Detail = o.Fail
	case o.Violated:
		r.Status = "violated"
		r.Detail = o.Fail
	default:
		r.Status = "discharged"
	}
	for p := range o.Sites {
		r.Pos = append(r.Pos, p)
	}
	sort.Strings(r.Pos)
	if o.Violated && o.FailPos != "" && o.FailPos != "-" {
		// failing position first
		out := []string{o.FailPos}
		for _, p := range r.Pos {
			if p != o.FailPos {
				out = append(out, p)
			}
		}
		r.Pos = out
	}
	for c := range o.Roots {
		r.Contexts = append(r.Contexts, c)
	}
	sort.Strings(r.Contexts)
	if len(r.Contexts) > 6 {
		r.Contexts = append(r.Contexts[:6], "…")
	}
	if len(r.Pos) > 8 {
		r.Pos = append(r.Pos[:8], "…")
	}
	return r
}

// Collector gathers obligations of the non-E1 engines.
type Collector struct {
	P    *Prog
	List []*Oblig
	idx  map[string]*Oblig
}

func NewCollector(p *Prog) *Collector { return &Collector{P: p, idx: map[string]*Oblig{}} }

// Add records one obligation instance. ok=false marks it violated; the first failing detail is kept.
func (c *Collector) Add(rule, fn, subject string, ok bool, detail string, pos ...string) *Oblig {
	key := rule + "/" + fn + "/" + subject
	o := c.idx[key]
	if o == nil {
		o = &Oblig{Rule: rule, Func: fn, Subject: subject, Key: key, Status: "discharged"}
		c.idx[key] = o
		c.List = append(c.List, o)
	}
	o.Instances++
	for _, p := range pos {
		if p != "" && !contains(o.Pos, p) && len(o.Pos) < 8 {
			o.Pos = append(o.Pos, p)
		}
	}
	if ok {
		if o.Witness == "" {
			o.Witness = detail
		}
	} else if o.Status == "discharged" {
		o.Status = "violated"
		o.Detail = detail
		if len(pos) > 0 && pos[0] != "" {
			// failing position first
			np := []string{pos[0]}
			for _, p := range o.Pos {
				if p != pos[0] {
					np = append(np, p)
				}
			}
			o.Pos = np
		}
	}
	return o
}

// Undecided records an obligation the rule could not decide (counts as failure).
func (c *Collector) Undecided(rule, fn, subject, detail string, pos ...string) {
	o := c.Add(rule, fn, subject, false, detail, pos...)
	o.Status = "undecided"
}

func contains(a []string, s string) bool {
	for _, x := range a {
		if x == s {
			return true
		}
	}
	return false
}

// OrderObligations turns the acquired-while-holding graph into obligations: acyclicity, and one
// discharged obligation per edge (so that evidence shows the graph).
func OrderObligations(s *Sim) []*Oblig {
	var out []*Oblig
	adj := map[string][]string{}
	var keys []string
	for k := range s.Edges {
		keys = append(keys, k)
	}
	sort.Strings(keys)
	for _, k := range keys {
		e := s.Edges[k]
		adj[e.From] = append(adj[e.From], e.To)
	}
	// cycle detection (DFS)
	color := map[string]int{}
	var stack []string
	var cyc []string
	var dfs func(n string) bool
	dfs = func(n string) bool {
		color[n] = 1
		stack = append(stack, n)
		for _, m := range adj[n] {
			if color[m] == 1 {
				i := 0
				for j, x := range stack {
					if x == m {
						i = j
					}
				}
				cyc = append(append([]string(nil), stack[i:]...), m)
				return true
			}
			if color[m] == 0 && dfs(m) {
				return true
			}
		}
		stack = stack[:len(stack)-1]
		color[n] = 2
		return false
	}
	var nodes []string
	for n := range adj {
		nodes = append(nodes, n)
	}
	sort.Strings(nodes)
	for _, n := range nodes {
		if color[n] == 0 && dfs(n) {
			break
		}
	}
	onCycle := map[string]bool{}
	for i := 0; i+1 < len(cyc); i++ {
		onCycle[cyc[i]+"->"+cyc[i+1]] = true
	}
	for _, k := range keys {
		e := s.Edges[k]
		o := &Oblig{Rule: "O", Func: e.Func, Subject: "order:" + k, Key: "O/" + e.Func + "/order:" + k, Instances: 1, Pos: []string{e.Pos}}
		if onCycle[k] || e.From == e.To {
			o.Status = "violated"
			o.Detail = "lock-order cycle: " + strings.Join(cyc, " -> ") + " (edge " + k + " acquired at " + e.Pos + ")"
			if e.From == e.To {
				o.Detail = "two locks of class " + e.From + " nested (no order among instances) at " + e.Pos
			}
		} else {
			o.Status = "discharged"
			o.Witness = "edge of the acyclic acquired-while-holding graph"
		}
		out = append(out, o)
	}
	return out
}
