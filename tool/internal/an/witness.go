package an

import (
	"os"
	"path/filepath"
	"strconv"
	"strings"

	"golang.org/x/tools/go/packages"
)

// TypeErrorsByLine type-checks the package in dir with one extra (in-memory) file and returns the
// type errors reported in that file, keyed by line. Used for compile-fail witnesses: nothing is
// written to disk and nothing is executed.
func TypeErrorsByLine(dir, name, src string) (map[int][]string, error) {
	env := append(os.Environ(), "GOFLAGS=-mod=mod", "GOPROXY=off", "GOSUMDB=off", "GOTOOLCHAIN=local", "GOWORK=off")
	path := filepath.Join(dir, name)
	cfg := &packages.Config{
		Mode:    packages.NeedName | packages.NeedFiles | packages.NeedCompiledGoFiles | packages.NeedSyntax | packages.NeedTypes | packages.NeedTypesInfo | packages.NeedImports | packages.NeedDeps,
		Dir:     dir,
		Env:     env,
		Overlay: map[string][]byte{path: []byte(src)},
	}
	pkgs, err := packages.Load(cfg, ".")
	if err != nil {
		return nil, err
	}
	out := map[int][]string{}
	for _, p := range pkgs {
		for _, e := range p.Errors {
			// pos is file:line:col
			parts := strings.Split(e.Pos, ":")
			if len(parts) >= 2 && strings.HasSuffix(parts[0], name) {
				ln, _ := strconv.Atoi(parts[1])
				out[ln] = append(out[ln], e.Msg)
			} else {
				out[0] = append(out[0], e.Pos+": "+e.Msg)
			}
		}
	}
	return out, nil
}
