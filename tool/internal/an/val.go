package an

import (
	"fmt"
	"go/constant"
	"go/types"
	"strings"

	"golang.org/x/tools/go/ssa"
)

// Kind of an abstract value.
type Kind int

const (
	KUnknown Kind = iota
	KPath         // an access path rooted at an SSA value
	KConst
	KFunc // a function or closure (with evaluated bindings)
)

// Seg is one selector of an access path.
type Seg struct {
	Field *types.Var // origin field (nil for Elem)
	Owner string     // name of the struct type that declares Field
	Elem  bool       // element / map entry / pointee contents
}

func (s Seg) String() string {
	if s.Elem {
		return "[]"
	}
	return "." + s.Field.Name()
}

// Val is a state-independent abstract value: where a pointer points, which
// function a func value is, which constant a value is. Address-of and
// dereference are identities on paths ("&b.mutex" and "b.mutex" name the
// same lock object), which is the usual access-path abstraction.
type Val struct {
	K     Kind
	Root  ssa.Value
	Fr    *Frame // frame in which Root was evaluated (needed to resolve stores)
	Deref bool   // the path starts at what the pointer VARIABLE Root (assigned more than once) currently points to
	Segs  []Seg
	Const *ssa.Const
	Fn    *ssa.Function
	Bind  []Val
}

func (v Val) IsPath() bool { return v.K == KPath }

func rootKey(r ssa.Value) string {
	if r == nil {
		return "?"
	}
	fn := ""
	if p := r.Parent(); p != nil {
		fn = uniqFuncName(p)
	}
	switch x := r.(type) {
	case *ssa.Parameter:
		return fn + "·" + x.Name()
	case *ssa.FreeVar:
		return fn + "·^" + x.Name()
	case *ssa.Global:
		return "global·" + x.Name()
	case *ssa.Alloc:
		return fn + "·" + x.Name() + "(" + x.Comment + ")"
	}
	return fn + "·" + r.Name()
}

// uniqFuncName distinguishes a transparent function (which shares its host's FuncName) in value keys.
func uniqFuncName(fn *ssa.Function) string {
	if IsTransparent(fn) {
		return FuncName(fn) + "«" + OrdinalName(fn) + "»"
	}
	for a := fn.Parent(); a != nil; a = a.Parent() {
		if IsTransparent(a) {
			return FuncName(fn) + "«" + OrdinalName(fn) + "»"
		}
	}
	return FuncName(fn)
}

// Key is a canonical string for path equality.
func (v Val) Key() string {
	switch v.K {
	case KPath:
		var sb strings.Builder
		sb.WriteString(rootKey(v.Root))
		if v.Deref {
			sb.WriteString("→")
		}
		for _, s := range v.Segs {
			sb.WriteString(s.String())
		}
		return sb.String()
	case KConst:
		if v.Const.Value == nil {
			return "const:nil"
		}
		return "const:" + v.Const.Value.ExactString()
	case KFunc:
		s := "func:" + FuncName(v.Fn)
		for _, b := range v.Bind {
			s += "|" + b.Key()
		}
		return s
	}
	return "?"
}

// Short renders a path for humans: root name + selectors.
func (v Val) Short() string {
	if v.K != KPath {
		return v.Key()
	}
	n := v.Root.Name()
	if a, ok := v.Root.(*ssa.Alloc); ok && a.Comment != "" {
		n = a.Comment
	}
	for _, s := range v.Segs {
		n += s.String()
	}
	return n
}

func (v Val) with(s Seg) Val {
	if v.K != KPath {
		return Val{}
	}
	n := make([]Seg, len(v.Segs)+1)
	copy(n, v.Segs)
	n[len(v.Segs)] = s
	return Val{K: KPath, Root: v.Root, Fr: v.Fr, Segs: n, Deref: v.Deref}
}

// LastField returns the last field selector and the base path before it
// (trailing Elem selectors are skipped and reported).
func (v Val) LastField() (base Val, f Seg, elems int, ok bool) {
	if v.K != KPath {
		return
	}
	i := len(v.Segs) - 1
	for i >= 0 && v.Segs[i].Elem {
		elems++
		i--
	}
	if i < 0 {
		return
	}
	return Val{K: KPath, Root: v.Root, Fr: v.Fr, Segs: v.Segs[:i], Deref: v.Deref}, v.Segs[i], elems, true
}

// Frame is one (possibly inlined) activation of a function.
type Frame struct {
	Fn     *ssa.Function
	Params []Val
	Free   []Val
	Parent *Frame // caller, for inlined frames
	Site   ssa.Instruction
	Depth  int
	id     int
}

func (fr *Frame) onStack(fn *ssa.Function) bool {
	for f := fr; f != nil; f = f.Parent {
		if f.Fn == fn {
			return true
		}
	}
	return false
}

func structOwner(t types.Type) string {
	if p, ok := t.Underlying().(*types.Pointer); ok {
		t = p.Elem()
	}
	switch n := t.(type) {
	case *types.Named:
		return n.Obj().Name()
	case *types.Alias:
		return structOwner(types.Unalias(n))
	}
	return ""
}

func fieldSeg(xt types.Type, idx int) (Seg, bool) {
	t := xt
	if p, ok := t.Underlying().(*types.Pointer); ok {
		t = p.Elem()
	}
	st, ok := t.Underlying().(*types.Struct)
	if !ok || idx >= st.NumFields() {
		return Seg{}, false
	}
	return Seg{Field: st.Field(idx).Origin(), Owner: structOwner(xt)}, true
}

// Eval computes the abstract value of v in frame fr.
func (p *Prog) Eval(fr *Frame, v ssa.Value) Val {
	return p.eval(fr, v, 0)
}

// CanonPath rewrites a path that starts at a field of a freshly allocated object whose (unique)
// initialiser shares an existing sync object (nextItem.mutex = item.mutex) to the shared object.
func (p *Prog) CanonPath(v Val) Val {
	if v.K != KPath || len(v.Segs) == 0 || v.Segs[0].Elem || v.Deref {
		return v
	}
	al, ok := v.Root.(*ssa.Alloc)
	if !ok {
		return v
	}
	idx := fieldIndex(al, v.Segs[0].Field)
	if idx < 0 {
		return v
	}
	sts := p.fieldStores[al][idx]
	if len(sts) != 1 || sts[0].Parent() != al.Parent() || !isSyncPointer(sts[0].Val.Type()) {
		return v
	}
	f := v.Fr
	if f != nil && f.Fn != al.Parent() {
		return v
	}
	base := p.eval(f, sts[0].Val, 1)
	if base.K != KPath || (base.Root == sts[0].Val && len(base.Segs) == 0) {
		return v
	}
	out := base
	for _, sg := range v.Segs[1:] {
		out = out.with(sg)
	}
	return p.CanonPath(out)
}

func (p *Prog) opaque(fr *Frame, v ssa.Value) Val { return Val{K: KPath, Root: v, Fr: fr} }

func (p *Prog) eval(fr *Frame, v ssa.Value, depth int) Val {
	if depth > 40 {
		return p.opaque(fr, v)
	}
	switch x := v.(type) {
	case *ssa.Parameter:
		if fr != nil && x.Parent() == fr.Fn {
			for i, q := range fr.Fn.Params {
				if q == x && i < len(fr.Params) && fr.Params[i].K != KUnknown {
					return fr.Params[i]
				}
			}
		}
		return p.opaque(fr, v)
	case *ssa.FreeVar:
		if fr != nil && x.Parent() == fr.Fn {
			for i, q := range fr.Fn.FreeVars {
				if q == x && i < len(fr.Free) && fr.Free[i].K != KUnknown {
					return fr.Free[i]
				}
			}
		}
		return p.opaque(fr, v)
	case *ssa.Const:
		return Val{K: KConst, Const: x}
	case *ssa.Function:
		return Val{K: KFunc, Fn: x}
	case *ssa.MakeClosure:
		fn := x.Fn.(*ssa.Function)
		b := make([]Val, len(x.Bindings))
		for i, bv := range x.Bindings {
			b[i] = p.eval(fr, bv, depth+1)
		}
		return Val{K: KFunc, Fn: fn, Bind: b}
	case *ssa.Global, *ssa.Alloc:
		return p.opaque(fr, v)
	case *ssa.FieldAddr:
		base := p.eval(fr, x.X, depth+1)
		if s, ok := fieldSeg(x.X.Type(), x.Field); ok && base.K == KPath {
			return base.with(s)
		}
		return p.opaque(fr, v)
	case *ssa.Field:
		base := p.eval(fr, x.X, depth+1)
		if s, ok := fieldSeg(x.X.Type(), x.Field); ok && base.K == KPath {
			return base.with(s)
		}
		return p.opaque(fr, v)
	case *ssa.IndexAddr:
		base := p.eval(fr, x.X, depth+1)
		if base.K == KPath {
			return base.with(Seg{Elem: true})
		}
		return p.opaque(fr, v)
	case *ssa.Index:
		base := p.eval(fr, x.X, depth+1)
		if base.K == KPath {
			return base.with(Seg{Elem: true})
		}
		return p.opaque(fr, v)
	case *ssa.UnOp:
		if x.Op.String() != "*" {
			return p.opaque(fr, v)
		}
		a := p.eval(fr, x.X, depth+1)
		if a.K != KPath {
			return p.opaque(fr, v)
		}
		if al, ok := a.Root.(*ssa.Alloc); ok && !a.Deref {
			if len(a.Segs) == 0 {
				// a cell: forward the unique store
				if sts := p.storesToAlloc[al]; len(sts) == 1 && sts[0].Parent() == al.Parent() && a.Fr != nil && a.Fr.Fn == al.Parent() {
					return p.eval(a.Fr, sts[0].Val, depth+1)
				}
				if sts := p.storesToAlloc[al]; len(sts) == 1 && sts[0].Parent() == al.Parent() && a.Fr == nil {
					return p.eval(nil, sts[0].Val, depth+1)
				}
				// a pointer variable assigned more than once (item = m[k] ... item = &T{}): every load names "the object
				// the variable currently points to"; the simulator invalidates locks taken through the variable when it
				// is re-assigned (Sim.step, Store), so two loads between assignments denote the same object
				if pt, isP := al.Type().Underlying().(*types.Pointer); isP && len(p.storesToAlloc[al]) > 1 {
					if _, ptrElem := pt.Elem().Underlying().(*types.Pointer); ptrElem && !a.Deref {
						a.Deref = true
						return a
					}
				}
				return p.opaque(fr, v)
			}
			if len(a.Segs) == 1 && !a.Segs[0].Elem {
				// field of a fresh object: forward a unique store of a *load* (sharing of
				// an existing object, e.g. nextItem.mutex = item.mutex) or of an address
				idx := fieldIndex(al, a.Segs[0].Field)
				if idx >= 0 {
					if sts := p.fieldStores[al][idx]; len(sts) == 1 && sts[0].Parent() == al.Parent() {
						if isPointerLike(sts[0].Val.Type()) && isSyncPointer(sts[0].Val.Type()) {
							f := a.Fr
							if f == nil || f.Fn != al.Parent() {
								f = nil
							}
							if f != nil || a.Fr == nil {
								// (only when the stored value names a location - a shared object or an address; a freshly
								// created one, e.g. sync.NewCond(...), is named by the field that holds it)
								if r := p.eval(f, sts[0].Val, depth+1); r.K == KPath && !(r.Root == sts[0].Val && len(r.Segs) == 0) {
									return r
								}
							}
						}
					}
				}
			}
		}
		return a // loading from a location yields the value named by the location
	case *ssa.Phi:
		if p.inPhi == nil {
			p.inPhi = map[*ssa.Phi]bool{}
		}
		if p.inPhi[x] {
			return Val{} // cyclic reference: ignored by the enclosing phi
		}
		p.inPhi[x] = true
		var first Val
		same := true
		n := 0
		for _, e := range x.Edges {
			if e == v {
				continue
			}
			// a nil operand names no object: whatever is done through the phi is done through one of the others
			if cn, isC := e.(*ssa.Const); isC && cn.IsNil() && len(x.Edges) > 1 {
				if _, isPtr := x.Type().Underlying().(*types.Pointer); isPtr {
					continue
				}
			}
			ev := p.eval(fr, e, depth+1)
			if ev.K == KUnknown {
				continue
			}
			if n == 0 {
				first = ev
			} else if ev.Key() != first.Key() {
				same = false
			}
			n++
		}
		delete(p.inPhi, x)
		if n > 0 && same {
			// a phi that only merges one value with itself through the loop
			if first.K == KPath && first.Root == ssa.Value(x) {
				return p.opaque(fr, v)
			}
			return first
		}
		return p.opaque(fr, v)
	case *ssa.Lookup:
		// a map stored in a map: the value looked up is a reference to the inner map, which stays shared (and is
		// mutated in place by whoever holds the outer map's lock); accesses through it are accesses to the outer
		// field's contents
		if _, inner := x.Type().Underlying().(*types.Map); inner && !x.CommaOk {
			if _, isMap := x.X.Type().Underlying().(*types.Map); isMap {
				if base := p.eval(fr, x.X, depth+1); base.K == KPath {
					return base.with(Seg{Elem: true})
				}
			}
		}
		return p.opaque(fr, v)
	case *ssa.Extract:
		if ta, ok := x.Tuple.(*ssa.TypeAssert); ok && x.Index == 0 {
			return p.eval(fr, ta.X, depth+1)
		}
		if lk, isL := x.Tuple.(*ssa.Lookup); isL && lk.CommaOk && x.Index == 0 {
			if _, inner := x.Type().Underlying().(*types.Map); inner {
				if _, isMap := lk.X.Type().Underlying().(*types.Map); isMap {
					if base := p.eval(fr, lk.X, depth+1); base.K == KPath {
						return base.with(Seg{Elem: true})
					}
				}
			}
		}
		return p.opaque(fr, v)
	case *ssa.ChangeType:
		return p.eval(fr, x.X, depth+1)
	case *ssa.Convert:
		return p.eval(fr, x.X, depth+1)
	case *ssa.ChangeInterface:
		return p.eval(fr, x.X, depth+1)
	case *ssa.MakeInterface:
		return p.eval(fr, x.X, depth+1)
	case *ssa.Slice:
		return p.eval(fr, x.X, depth+1)
	case *ssa.TypeAssert:
		if !x.CommaOk {
			return p.eval(fr, x.X, depth+1)
		}
		return p.opaque(fr, v)
	case *ssa.Call:
		if b, ok := x.Call.Value.(*ssa.Builtin); ok && b.Name() == "append" && len(x.Call.Args) > 0 {
			return p.eval(fr, x.Call.Args[0], depth+1)
		}
		return p.opaque(fr, v)
	}
	return p.opaque(fr, v)
}

func fieldIndex(al *ssa.Alloc, f *types.Var) int {
	t := al.Type()
	if pt, ok := t.Underlying().(*types.Pointer); ok {
		t = pt.Elem()
	}
	st, ok := t.Underlying().(*types.Struct)
	if !ok {
		return -1
	}
	for i := 0; i < st.NumFields(); i++ {
		if st.Field(i).Origin() == f {
			return i
		}
	}
	return -1
}

func isPointerLike(t types.Type) bool {
	switch t.Underlying().(type) {
	case *types.Pointer, *types.Interface:
		return true
	}
	return false
}

// isSyncPointer: pointer to a sync primitive (*sync.Mutex, *sync.Cond, ...).
func isSyncPointer(t types.Type) bool {
	pt, ok := t.Underlying().(*types.Pointer)
	if !ok {
		return false
	}
	n, ok := pt.Elem().(*types.Named)
	return ok && n.Obj().Pkg() != nil && n.Obj().Pkg().Path() == "sync"
}

// ConstBool / ConstInt helpers.
func (v Val) ConstBool() (bool, bool) {
	if v.K == KConst && v.Const.Value != nil && v.Const.Value.Kind() == constant.Bool {
		return constant.BoolVal(v.Const.Value), true
	}
	return false, false
}

func (v Val) IsNilConst() bool { return v.K == KConst && v.Const.IsNil() }

func (v Val) ConstInt() (int64, bool) {
	if v.K == KConst && v.Const.Value != nil && v.Const.Value.Kind() == constant.Int {
		return v.Const.Int64(), true
	}
	return 0, false
}

func (v Val) String() string { return fmt.Sprintf("%s", v.Key()) }
