package an

import (
	"fmt"
	"go/token"
	"go/types"
	"os"
	"sort"
	"strings"

	"golang.org/x/tools/go/ssa"
)

// Ob is one obligation produced by an engine: rule / function / subject.
type Ob struct {
	Rule, Func, Subject string
	Violated            bool
	Undecided           bool
	Instances           int
	Sites               map[string]bool
	Roots               map[string]bool
	Witness             string
	Fail                string
	FailPos             string
}

func (o *Ob) Key() string { return o.Rule + "/" + o.Func + "/" + o.Subject }

// Root is an analysis entry point.
type Root struct {
	Fn     *ssa.Function
	Params []Val
	Free   []Val
	Entry  []Held
	Why    string // "exported", "go@...", "afterfunc@...", "escapes@..."
	Name   string
	ExitEq bool // exit lockset must equal entry lockset (false for hand-off goroutines: must be empty)
}

type cellAccess struct {
	Write bool
	Held  []Held
	Func  string
	Pos   string
	Root  string
}

// OrderEdge is "acquired To while holding From".
type OrderEdge struct {
	From, To string
	Pos      string
	Func     string
}

// Sim is the E1 lock-state simulator.
type Sim struct {
	P *Prog
	T *Tables

	Obs     map[string]*Ob
	Edges   map[string]OrderEdge
	Cells   map[*ssa.Alloc][]cellAccess
	Spawns  []SpawnInfo
	Blocked []BlockInfo

	roots    []*Root
	rootSeen map[string]bool
	cur      *Root
	memo     map[string][]*State
	active   map[string]bool
	nframe   int

	// statistics
	NRoots, NFrames, NInstr, NStates int
	FuncsSeen                        map[string]bool
	Resolved                         map[string]string // dynamic call site -> callee (for the VTA cross-check)
	ResolvedSites                    map[ssa.Instruction]map[*ssa.Function]bool

	fieldRule map[*types.Var]*FieldRule
	condRule  map[*types.Var]*CondRule
	predOf    map[*types.Var]*CondRule
	trace     string
	staleN    int
	Errors    []string
}

// SpawnInfo records a goroutine / hook entry for E5.
type SpawnInfo struct {
	Kind    string // "go", "afterfunc"
	Func    string // spawned function
	Spawner string
	Pos     string
	Held    string
}

// BlockInfo records a blocking operation with its context (also used by E5/GOX).
type BlockInfo struct {
	Func, Op, Pos, Root string
	Held                []string
}

func NewSim(p *Prog, t *Tables) (*Sim, error) {
	s := &Sim{P: p, T: t, Obs: map[string]*Ob{}, Edges: map[string]OrderEdge{}, Cells: map[*ssa.Alloc][]cellAccess{},
		rootSeen: map[string]bool{}, memo: map[string][]*State{}, active: map[string]bool{}, FuncsSeen: map[string]bool{},
		Resolved: map[string]string{}, fieldRule: map[*types.Var]*FieldRule{}, condRule: map[*types.Var]*CondRule{},
		predOf: map[*types.Var]*CondRule{}, trace: os.Getenv("BB_TRACE")}
	for i := range t.Fields {
		r := &t.Fields[i]
		f := p.StructField(r.Type, r.Field)
		if f == nil {
			return nil, fmt.Errorf("anchor: field %s.%s not found", r.Type, r.Field)
		}
		s.fieldRule[f] = r
	}
	for i := range t.Conds {
		c := &t.Conds[i]
		f := p.StructField(c.Type, c.Field)
		if f == nil {
			return nil, fmt.Errorf("anchor: cond field %s.%s not found", c.Type, c.Field)
		}
		s.condRule[f] = c
		for _, pr := range c.Preds {
			parts := strings.SplitN(pr, ".", 2)
			pf := p.StructField(parts[0], parts[1])
			if pf == nil {
				return nil, fmt.Errorf("anchor: predicate field %s not found", pr)
			}
			s.predOf[pf] = c
		}
	}
	return s, nil
}

func (s *Sim) ob(rule string, fn *ssa.Function, subject string, ok bool, detail string, in ssa.Instruction) *Ob {
	o := &Ob{Rule: rule, Func: FuncName(fn), Subject: subject}
	k := o.Key()
	if e, found := s.Obs[k]; found {
		o = e
	} else {
		o.Sites, o.Roots = map[string]bool{}, map[string]bool{}
		s.Obs[k] = o
	}
	o.Instances++
	pos := "-"
	if in != nil {
		pos = s.P.InstrPos(in)
	}
	o.Sites[pos] = true
	if s.cur != nil {
		o.Roots[s.cur.Name] = true
	}
	if ok {
		if o.Witness == "" {
			o.Witness = detail
		}
	} else if !o.Violated {
		o.Violated = true
		o.Fail = detail
		o.FailPos = pos
		if s.cur != nil {
			o.Fail += " [context: " + s.cur.Name + "]"
		}
	}
	return o
}

func (s *Sim) undecided(fn *ssa.Function, subject, detail string, in ssa.Instruction) {
	o := s.ob("UNDECIDED", fn, subject, false, detail, in)
	o.Undecided = true
}

// ---------------------------------------------------------------------------------------------
// roots

func (s *Sim) AddRoot(r *Root) {
	k := uniqFuncName(r.Fn) + "|"
	for _, p := range r.Params {
		k += p.Key() + ","
	}
	k += "|"
	for _, p := range r.Free {
		k += p.Key() + ","
	}
	k += "|"
	for _, h := range r.Entry {
		k += h.Key + string(h.Mode)
	}
	if s.rootSeen[k] {
		return
	}
	s.rootSeen[k] = true
	if r.Name == "" {
		r.Name = FuncName(r.Fn) + " <" + r.Why + ">"
	}
	s.roots = append(s.roots, r)
	// func values captured by an entry point can be called from it in any state: entry points too
	for _, b := range append(append([]Val(nil), r.Free...), r.Params...) {
		if al, ok := b.Root.(*ssa.Alloc); ok && b.K == KPath && len(b.Segs) == 0 && !b.Deref {
			if sts := s.P.storesToAlloc[al]; len(sts) == 1 && (b.Fr == nil || b.Fr.Fn == sts[0].Parent()) {
				b = s.P.Eval(b.Fr, sts[0].Val)
			}
		}
		if b.K == KFunc && s.inlinable(b.Fn) != nil {
			s.AddRoot(&Root{Fn: s.inlinable(b.Fn), Free: b.Bind, Why: "captured by " + FuncName(r.Fn), ExitEq: true})
		}
	}
}

// AddAPIRoots adds every exported function, every method of an exported type, and every
// method of an unexported type that implements an exported interface.
func (s *Sim) AddAPIRoots() {
	for _, fn := range s.P.Funcs {
		if fn.Parent() != nil || fn.Synthetic != "" {
			continue
		}
		obj, _ := fn.Object().(*types.Func)
		if obj == nil {
			continue
		}
		isRoot := false
		sig := obj.Type().(*types.Signature)
		if sig.Recv() == nil {
			isRoot = obj.Exported()
		} else if obj.Exported() {
			isRoot = true // methods of unexported types are reachable through interfaces (consumer, callable)
		}
		if !isRoot {
			continue
		}
		r := &Root{Fn: fn, Why: "api", ExitEq: true}
		if pre := s.T.RootPre[FuncName(fn)]; len(pre) > 0 {
			fr := &Frame{Fn: fn}
			for _, spec := range pre {
				parts := strings.Split(spec, ".")
				var base Val
				for _, q := range fn.Params {
					if q.Name() == parts[0] {
						base = s.P.opaque(fr, q)
					}
				}
				if base.K != KPath {
					s.Errors = append(s.Errors, "root precondition "+spec+": parameter not found in "+FuncName(fn))
					continue
				}
				v := base
				t := base.Root.Type()
				for _, fname := range parts[1:] {
					idx := -1
					tt := t
					if pt, ok := tt.Underlying().(*types.Pointer); ok {
						tt = pt.Elem()
					}
					if st, ok := tt.Underlying().(*types.Struct); ok {
						for i := 0; i < st.NumFields(); i++ {
							if st.Field(i).Name() == fname {
								idx = i
							}
						}
						if idx >= 0 {
							sg, _ := fieldSeg(t, idx)
							v = v.with(sg)
							t = st.Field(idx).Type()
						}
					}
					if idx < 0 {
						s.Errors = append(s.Errors, "root precondition "+spec+": field "+fname+" not found")
					}
				}
				lv := s.normLock(v)
				r.Entry = append(r.Entry, Held{Key: lv.Key(), Class: s.lockClass(lv), Mode: 'W'})
			}
		}
		s.AddRoot(r)
	}
}

// Run simulates every root (including those discovered on the way).
func (s *Sim) Run() {
	for i := 0; i < len(s.roots); i++ {
		r := s.roots[i]
		if f := os.Getenv("BB_ROOT"); f != "" && !strings.Contains(r.Name, f) {
			continue
		}
		s.cur = r
		s.NRoots++
		fr := &Frame{Fn: r.Fn, Params: r.Params, Free: r.Free}
		s.nframe++
		fr.id = s.nframe
		st := newState()
		for _, h := range r.Entry {
			st.add(h)
		}
		exits := s.execFn(fr, st)
		for _, e := range exits {
			// P: exit lockset
			want := r.Entry
			if !r.ExitEq {
				want = nil
			}
			ok := len(e.held) == len(want)
			if ok {
				for i := range want {
					if e.held[i].Key != want[i].Key || e.held[i].Mode != want[i].Mode {
						ok = false
					}
				}
			}
			det := "exit lockset " + e.heldString() + " equals entry lockset"
			if !ok {
				det = "returns with lockset " + e.heldString() + ", entry lockset was " + (&State{held: want}).heldString()
			}
			s.ob("P", r.Fn, "exit-lockset", ok, det, nil)
			s.checkDirtyAtExit(r.Fn, e)
		}
	}
	s.cur = nil
	s.finishCells()
}

// ---------------------------------------------------------------------------------------------
// function execution

type workItem struct {
	b    *ssa.BasicBlock
	pred *ssa.BasicBlock
	st   *State
}

const maxStatesPerBlock = 256

func (s *Sim) execFn(fr *Frame, st *State) []*State {
	fn := fr.Fn
	s.FuncsSeen[FuncName(fn)] = true
	s.NFrames++
	mk := uniqFuncName(fn) + "|"
	for _, p := range fr.Params {
		mk += p.Key() + ","
	}
	mk += "|"
	for _, p := range fr.Free {
		mk += p.Key() + ","
	}
	mk += "|" + st.key()
	if s.cur != nil {
		mk = s.cur.Name + "||" + mk // events are attributed per root
	}
	if r, ok := s.memo[mk]; ok {
		out := make([]*State, len(r))
		for i, x := range r {
			out[i] = x.clone()
		}
		return out
	}
	st = st.clone()
	st.dropFrameFacts(fn)
	if k := os.Getenv("BB_KEYS"); k != "" && strings.Contains(FuncName(fn), k) {
		fmt.Fprintf(os.Stderr, "ENTER %s depth=%d key=%s\n", FuncName(fn), fr.Depth, st.key())
	}
	var exits []*State
	exitSeen := map[string]bool{}
	seen := map[int]map[string]bool{}
	rpo := s.P.RPO(fn)
	pending := map[*ssa.BasicBlock][]workItem{fn.Blocks[0]: {{b: fn.Blocks[0], st: st}}}
	push := func(w workItem) { pending[w.b] = append(pending[w.b], w) }
	for len(pending) > 0 {
		// next block in reverse post-order, so that states meet at joins before the join is processed
		var blk *ssa.BasicBlock
		for b := range pending {
			if blk == nil || rpo[b] < rpo[blk] {
				blk = b
			}
		}
		items := pending[blk]
		delete(pending, blk)
		// merge by property part
		var merged []*State
		byProp := map[string]*State{}
		for _, it := range items {
			cur := it.st
			if it.pred != nil {
				s.applyPhis(fr, it.b, it.pred, cur)
			}
			pk := cur.propKey()
			if m, ok := byProp[pk]; ok {
				m.meet(cur)
			} else {
				byProp[pk] = cur
				merged = append(merged, cur)
			}
		}
		for _, cur := range merged {
			it := workItem{b: blk, st: cur}
			k := cur.key()
			m := seen[it.b.Index]
			if m == nil {
				m = map[string]bool{}
				seen[it.b.Index] = m
			}
			if m[k] {
				continue
			}
			if len(m) >= maxStatesPerBlock {
				s.undecided(fn, "state-explosion", fmt.Sprintf("more than %d abstract states at block %d", maxStatesPerBlock, it.b.Index), it.b.Instrs[0])
				continue
			}
			m[k] = true
			s.NStates++
			states := []*State{cur}
			for _, in := range it.b.Instrs {
				if _, isPhi := in.(*ssa.Phi); isPhi {
					continue
				}
				s.NInstr++
				switch t := in.(type) {
				case *ssa.If:
					for _, x := range states {
						if v, known := s.evalBool(fr, x, t.Cond); known {
							succ := it.b.Succs[0]
							if !v {
								succ = it.b.Succs[1]
							}
							push(workItem{b: succ, pred: it.b, st: x})
						} else {
							a := x.clone()
							s.assume(fr, a, t.Cond, true)
							push(workItem{b: it.b.Succs[0], pred: it.b, st: a})
							s.assume(fr, x, t.Cond, false)
							push(workItem{b: it.b.Succs[1], pred: it.b, st: x})
						}
					}
					states = nil
				case *ssa.Jump:
					for _, x := range states {
						push(workItem{b: it.b.Succs[0], pred: it.b, st: x})
					}
					states = nil
				case *ssa.Return:
					for _, x := range states {
						for _, d := range x.defers {
							if d.fr.Fn == fr.Fn {
								fmt.Fprintf(os.Stderr, "BUG: return with pending defer in %s block %d\n", FuncName(fn), it.b.Index)
							}
						}
						s.onReturn(fr, t, x)
						s.noteResultSign(fr, t, x)
						x.dropFrameFacts(fn)
						s.dropFrameObjects(fr, t, x)
						ek := x.key()
						if !exitSeen[ek] {
							exitSeen[ek] = true
							exits = append(exits, x)
						}
					}
					states = nil
				case *ssa.Panic:
					// panic exits are excluded from the path rules (misuse / invariant-violation paths), but a
					// panic must not leak a lock: the deferred calls run, and what they leave held is reported (PX)
					for _, x := range states {
						s.onPanic(fr, t, x)
					}
					states = nil
				default:
					var next []*State
					for _, x := range states {
						next = append(next, s.step(fr, in, x)...)
					}
					states = next
				}
				if len(states) == 0 {
					break
				}
			}
		}
	}
	if k := os.Getenv("BB_KEYS"); k != "" && strings.Contains(FuncName(fn), k) {
		for _, x := range exits {
			fmt.Fprintf(os.Stderr, "EXIT %s depth=%d key=%s\n", FuncName(fn), fr.Depth, x.key())
		}
	}
	cp := make([]*State, len(exits))
	for i, x := range exits {
		cp[i] = x.clone()
	}
	s.memo[mk] = cp
	return exits
}

func (s *Sim) applyPhis(fr *Frame, b, pred *ssa.BasicBlock, st *State) {
	pi := -1
	for i, p := range b.Preds {
		if p == pred {
			pi = i
		}
	}
	if pi < 0 {
		return
	}
	type upd struct {
		v     ssa.Value
		b, bk bool
		n, nk bool
		sg    uint8
	}
	var us []upd
	for _, in := range b.Instrs {
		ph, ok := in.(*ssa.Phi)
		if !ok {
			break
		}
		e := ph.Edges[pi]
		u := upd{v: ph}
		if isBool(ph.Type()) {
			u.b, u.bk = s.evalBool(fr, st, e)
		} else if nilable(ph.Type()) {
			u.n, u.nk = s.isNil(fr, st, e)
		} else if b, isB := ph.Type().Underlying().(*types.Basic); isB && b.Info()&types.IsInteger != 0 {
			if c, isC := e.(*ssa.Const); isC {
				if cv, ok := (Val{K: KConst, Const: c}).ConstInt(); ok {
					switch {
					case cv < 0:
						u.sg = 1
					case cv == 0:
						u.sg = 2
					default:
						u.sg = 4
					}
				}
			} else if ev := s.P.Eval(fr, e); ev.K == KPath && len(ev.Segs) == 0 {
				u.sg = st.sg[ev.Key()]
			}
		}
		us = append(us, u)
	}
	for _, u := range us {
		delete(st.bf, u.v)
		delete(st.nf, u.v)
		if u.bk {
			st.bf[u.v] = u.b
		}
		if u.nk {
			st.nf[u.v] = u.n
		}
		delete(st.sg, rootKey(u.v))
		if u.sg != 0 && u.sg != 7 {
			st.sg[rootKey(u.v)] = u.sg
		}
	}
}

func isBool(t types.Type) bool {
	b, ok := t.Underlying().(*types.Basic)
	return ok && b.Kind() == types.Bool
}

func nilable(t types.Type) bool {
	switch t.Underlying().(type) {
	case *types.Pointer, *types.Interface, *types.Map, *types.Chan, *types.Slice, *types.Signature:
		return true
	}
	return false
}

// ---------------------------------------------------------------------------------------------
// facts

func (s *Sim) evalBool(fr *Frame, st *State, v ssa.Value) (bool, bool) {
	switch x := v.(type) {
	case *ssa.Const:
		if b, ok := (Val{K: KConst, Const: x}).ConstBool(); ok {
			return b, true
		}
		return false, false
	case *ssa.UnOp:
		if x.Op == token.NOT {
			if b, ok := s.evalBool(fr, st, x.X); ok {
				return !b, true
			}
			return false, false
		}
	case *ssa.BinOp:
		if b, ok := st.bf[v]; ok {
			return b, true
		}
		if key, tset, fset, ok := s.signCompare(fr, x); ok {
			if m, has := st.sg[key]; has {
				if m&fset == 0 && m&tset != 0 {
					return true, true
				}
				if m&tset == 0 && m&fset != 0 {
					return false, true
				}
			}
		}
		if x.Op == token.EQL || x.Op == token.NEQ {
			var loc ssa.Value
			if isZeroConst(x.Y) {
				loc = x.X
			} else if isZeroConst(x.X) {
				loc = x.Y
			}
			if ld, ok := loc.(*ssa.UnOp); ok && ld.Op == token.MUL {
				if a := s.P.Eval(fr, ld.X); a.K == KPath && s.privateLocal(a) {
					if f, has := st.nz[a.Key()]; has {
						return f.v == (x.Op == token.NEQ), true
					}
				}
			}
			if isNilConst(x.Y) || isNilConst(x.X) {
				o := x.X
				if isNilConst(x.X) {
					o = x.Y
				}
				if n, ok := s.isNil(fr, st, o); ok {
					return n == (x.Op == token.EQL), true
				}
			}
			if isBool(x.X.Type()) {
				a, ok1 := s.evalBool(fr, st, x.X)
				b, ok2 := s.evalBool(fr, st, x.Y)
				if ok1 && ok2 {
					return (a == b) == (x.Op == token.EQL), true
				}
			}
		}
		return false, false
	}
	b, ok := st.bf[v]
	return b, ok
}

func isNilConst(v ssa.Value) bool {
	c, ok := v.(*ssa.Const)
	return ok && c.IsNil()
}

func (s *Sim) isNil(fr *Frame, st *State, v ssa.Value) (bool, bool) {
	switch x := v.(type) {
	case *ssa.Const:
		return x.IsNil(), true
	case *ssa.Alloc, *ssa.MakeClosure, *ssa.Function, *ssa.MakeChan, *ssa.MakeMap, *ssa.MakeSlice, *ssa.MakeInterface,
		*ssa.FieldAddr, *ssa.IndexAddr, *ssa.Global:
		return false, true
	case *ssa.ChangeType:
		return s.isNil(fr, st, x.X)
	case *ssa.ChangeInterface:
		return s.isNil(fr, st, x.X)
	case *ssa.Extract:
		if n, ok := st.nf[v]; ok {
			return n, true
		}
		if c, ok := x.Tuple.(*ssa.Call); ok {
			if callee := c.Call.StaticCallee(); callee != nil {
				switch callee.String() {
				case "context.WithCancel", "context.WithTimeout", "context.WithDeadline":
					return false, true
				}
			}
		}
		return false, false
	case *ssa.Call:
		if n, ok := st.nf[v]; ok {
			return n, true
		}
		if callee := x.Call.StaticCallee(); callee != nil {
			switch callee.String() {
			case "sync.NewCond", "time.NewTimer", "time.NewTicker", "context.Background", "context.WithoutCancel", "errors.New", "fmt.Errorf", "context.AfterFunc":
				return false, true
			}
		}
		return false, false
	}
	n, ok := st.nf[v]
	return n, ok
}

// assume records the outcome of a branch condition and what follows from it.
func (s *Sim) assume(fr *Frame, st *State, cond ssa.Value, val bool) {
	switch x := cond.(type) {
	case *ssa.UnOp:
		if x.Op == token.NOT {
			s.assume(fr, st, x.X, !val)
			return
		}
	case *ssa.BinOp:
		st.bf[cond] = val
		if key, tset, fset, ok := s.signCompare(fr, x); ok {
			m, has := st.sg[key]
			if !has {
				m = 7
			}
			if val {
				m &= tset
			} else {
				m &= fset
			}
			if m == 7 {
				delete(st.sg, key)
			} else {
				st.sg[key] = m
			}
		}
		if x.Op == token.EQL || x.Op == token.NEQ {
			eq := (x.Op == token.EQL) == val
			var other ssa.Value
			if isNilConst(x.Y) {
				other = x.X
			} else if isNilConst(x.X) {
				other = x.Y
			}
			if other != nil {
				s.assumeNil(fr, st, other, eq)
				return
			}
			// comparison of a location with constant 0
			var loc ssa.Value
			if isZeroConst(x.Y) {
				loc = x.X
			} else if isZeroConst(x.X) {
				loc = x.Y
			}
			if ld, ok := loc.(*ssa.UnOp); ok && ld.Op == token.MUL {
				a := s.P.Eval(fr, ld.X)
				if a.K == KPath {
					st.nz[a.Key()] = pfact{!eq, fr.Fn}
				}
			} else if loc != nil && loc.Referrers() != nil {
				// the value just stored into a location (n := x.f - 1; x.f = n; if n == 0): the same fact about the
				// location, when the store is in the block of the test and nothing writes the field after it
				for _, r := range *loc.Referrers() {
					sto, isSt := r.(*ssa.Store)
					if !isSt || sto.Val != loc || sto.Block() != x.Block() {
						continue
					}
					f := FieldOfAddr(sto.Addr)
					if f == "" {
						continue
					}
					after, clean := false, true
					for _, in2 := range sto.Block().Instrs {
						if in2 == ssa.Instruction(sto) {
							after = true
							continue
						}
						if !after {
							continue
						}
						switch y := in2.(type) {
						case *ssa.Store:
							if FieldOfAddr(y.Addr) == f {
								clean = false
							}
						case *ssa.Call:
							clean = false // a call may write the field
						}
					}
					if !clean {
						continue
					}
					if a := s.P.Eval(fr, sto.Addr); a.K == KPath {
						st.nz[a.Key()] = pfact{!eq, fr.Fn}
					}
				}
			}
			if isBool(x.X.Type()) {
				if b, ok := s.evalBool(fr, st, x.Y); ok {
					s.assume(fr, st, x.X, b == eq)
				} else if b, ok := s.evalBool(fr, st, x.X); ok {
					s.assume(fr, st, x.Y, b == eq)
				}
			}
		}
		return
	case *ssa.Const:
		return
	}
	st.bf[cond] = val
}

// signCompare recognises "x op c" / "c op x" with an integer constant c and returns the key of x
// and the sign sets compatible with the comparison being true / false.
func (s *Sim) signCompare(fr *Frame, x *ssa.BinOp) (key string, tset, fset uint8, ok bool) {
	op := x.Op
	var c *ssa.Const
	var o ssa.Value
	if k, isC := x.Y.(*ssa.Const); isC {
		c, o = k, x.X
	} else if k, isC := x.X.(*ssa.Const); isC {
		c, o = k, x.Y
		switch op {
		case token.LSS:
			op = token.GTR
		case token.LEQ:
			op = token.GEQ
		case token.GTR:
			op = token.LSS
		case token.GEQ:
			op = token.LEQ
		}
	} else {
		return
	}
	cv, isInt := (Val{K: KConst, Const: c}).ConstInt()
	if !isInt {
		return
	}
	if b, isB := o.Type().Underlying().(*types.Basic); !isB || b.Info()&types.IsInteger == 0 || b.Info()&types.IsUnsigned != 0 {
		return
	}
	ov := s.P.Eval(fr, o)
	if ov.K != KPath || len(ov.Segs) != 0 {
		return
	}
	key = ov.Key()
	const neg, zero, pos = 1, 2, 4
	// integers: x < c is x <= c-1, x > c is x >= c+1
	switch op {
	case token.LSS:
		op, cv = token.LEQ, cv-1
	case token.GTR:
		op, cv = token.GEQ, cv+1
	}
	switch op {
	case token.LEQ:
		switch {
		case cv == -1:
			tset, fset = neg, zero|pos
		case cv == 0:
			tset, fset = neg|zero, pos
		case cv < -1:
			tset, fset = neg, 7
		default:
			tset, fset = 7, pos
		}
	case token.GEQ:
		switch {
		case cv == 1:
			tset, fset = pos, neg|zero
		case cv == 0:
			tset, fset = zero|pos, neg
		case cv > 1:
			tset, fset = pos, 7
		default:
			tset, fset = 7, neg
		}
	case token.EQL:
		switch {
		case cv == 0:
			tset, fset = zero, neg|pos
		case cv > 0:
			tset, fset = pos, 7
		default:
			tset, fset = neg, 7
		}
	case token.NEQ:
		switch {
		case cv == 0:
			tset, fset = neg|pos, zero
		case cv > 0:
			tset, fset = 7, pos
		default:
			tset, fset = 7, neg
		}
	default:
		return
	}
	return key, tset, fset, true
}

func isZeroConst(v ssa.Value) bool {
	c, ok := v.(*ssa.Const)
	if !ok || c.Value == nil {
		return false
	}
	if i, ok := (Val{K: KConst, Const: c}).ConstInt(); ok {
		return i == 0
	}
	return false
}

func (s *Sim) assumeNil(fr *Frame, st *State, v ssa.Value, isnil bool) {
	switch x := v.(type) {
	case *ssa.Const:
		return
	case *ssa.ChangeType:
		s.assumeNil(fr, st, x.X, isnil)
		return
	case *ssa.ChangeInterface:
		s.assumeNil(fr, st, x.X, isnil)
		return
	case *ssa.UnOp:
		if x.Op == token.MUL {
			a := s.P.Eval(fr, x.X)
			if a.K == KPath {
				st.nilp[a.Key()] = pfact{isnil, fr.Fn}
			}
		}
	}
	st.nf[v] = isnil
}

// ---------------------------------------------------------------------------------------------
// locks

// normLock applies the cond.L aliases established from the code.
func (s *Sim) normLock(v Val) Val {
	v = s.P.CanonPath(v)
	if v.K != KPath || len(v.Segs) < 2 {
		return v
	}
	n := len(v.Segs)
	last, prev := v.Segs[n-1], v.Segs[n-2]
	if last.Elem || prev.Elem || last.Field.Name() != "L" || last.Owner != "Cond" {
		return v
	}
	cr := s.condRule[prev.Field]
	if cr == nil || cr.LockAlias == nil {
		return v
	}
	base := Val{K: KPath, Root: v.Root, Fr: v.Fr, Segs: v.Segs[:n-2], Deref: v.Deref}
	out := base
	for _, fname := range cr.LockAlias {
		f := s.P.StructField(cr.Type, fname)
		if f == nil {
			return v
		}
		out = out.with(Seg{Field: f, Owner: cr.Type})
	}
	return s.P.CanonPath(out)
}

// condLock returns the (normalised) lock of a cond value.
func (s *Sim) condLock(c Val) Val {
	c = s.P.CanonPath(c)
	if c.K != KPath {
		return Val{}
	}
	l := s.P.syncCondL()
	if l == nil {
		return Val{}
	}
	return s.normLock(c.with(Seg{Field: l, Owner: "Cond"}))
}

func (p *Prog) syncCondL() *types.Var {
	for _, imp := range p.Types.Imports() {
		if imp.Path() == "sync" {
			if o := imp.Scope().Lookup("Cond"); o != nil {
				if st, ok := o.Type().Underlying().(*types.Struct); ok {
					for i := 0; i < st.NumFields(); i++ {
						if st.Field(i).Name() == "L" {
							return st.Field(i)
						}
					}
				}
			}
		}
	}
	return nil
}

func (s *Sim) lockClass(v Val) string {
	if v.K != KPath {
		return "?"
	}
	n := len(v.Segs)
	if n == 0 || v.Segs[n-1].Elem {
		return s.localClass(v.Root)
	}
	last := v.Segs[n-1]
	if last.Owner == "Cond" && last.Field.Name() == "L" {
		if n >= 2 && !v.Segs[n-2].Elem {
			return v.Segs[n-2].Owner + "." + v.Segs[n-2].Field.Name() + ".L"
		}
		return "param(" + v.Root.Name() + ").L"
	}
	return last.Owner + "." + last.Field.Name()
}

func (s *Sim) localClass(r ssa.Value) string {
	fn := r.Parent()
	t := r.Type()
	if pt, ok := t.Underlying().(*types.Pointer); ok {
		t = pt.Elem()
	}
	ts := types.TypeString(t, func(p *types.Package) string { return p.Name() })
	ord := 0
	if fn != nil {
	outer:
		for _, b := range fn.Blocks {
			for _, in := range b.Instrs {
				if a, ok := in.(*ssa.Alloc); ok {
					if a == r {
						break outer
					}
					at := a.Type().Underlying().(*types.Pointer).Elem()
					if types.Identical(at, t) {
						ord++
					}
				}
			}
		}
		return "local(" + FuncName(fn) + ")." + ts + "#" + itoa(ord)
	}
	return "local." + ts
}

func (s *Sim) acquire(fr *Frame, st *State, lv Val, mode byte, try bool, in ssa.Instruction) {
	lv = s.normLock(lv)
	key, class := lv.Key(), s.lockClass(lv)
	fn := in.Parent()
	if lv.K != KPath {
		s.undecided(fn, "lock-identity", "cannot name the lock acquired here", in)
		return
	}
	// P: self-deadlock
	if !try {
		bad := ""
		for _, h := range st.held {
			if h.Key == key && (h.Mode == 'W' || mode == 'W') {
				bad = "acquires " + class + " (" + string(mode) + ") while already holding it (" + string(h.Mode) + "): self-deadlock"
			}
		}
		s.ob("P", fn, "acquire:"+class, bad == "", pick(bad, "not already held at acquisition; held "+st.heldString()), in)
		// O: order edges
		for _, h := range st.held {
			if h.Key == key {
				continue
			}
			ek := h.Class + "->" + class
			if _, ok := s.Edges[ek]; !ok {
				s.Edges[ek] = OrderEdge{From: h.Class, To: class, Pos: s.P.InstrPos(in), Func: FuncName(fn)}
			}
		}
	}
	st.add(Held{Key: key, Class: class, Mode: mode})
}

func pick(a, b string) string {
	if a != "" {
		return a
	}
	return b
}

func (s *Sim) release(fr *Frame, st *State, lv Val, mode byte, in ssa.Instruction) {
	lv = s.normLock(lv)
	key, class := lv.Key(), s.lockClass(lv)
	fn := in.Parent()
	s.checkDirtyAtRelease(fn, st, key, in)
	s.clearMarks(st, key)
	ok := st.remove(key, mode)
	det := "releases " + class + " (" + string(mode) + ") which is held"
	if !ok {
		det = "releases " + class + " (" + string(mode) + ") which is not held in that mode on this path; held " + st.heldString()
	}
	s.ob("P", fn, "release:"+class, ok, det, in)
}

func (s *Sim) holds(st *State, lv Val, write bool) (bool, string) {
	lv = s.normLock(lv)
	key := lv.Key()
	for _, h := range st.held {
		if h.Key == key && (h.Mode == 'W' || (!write && h.Mode == 'R')) {
			return true, h.Class + ":" + string(h.Mode)
		}
	}
	return false, ""
}

// ---------------------------------------------------------------------------------------------
// S: predicate writes / broadcasts

func (s *Sim) markDirty(fr *Frame, st *State, addr Val, stv ssa.Value, in ssa.Instruction) {
	base, f, elems, ok := addr.LastField()
	if !ok {
		return
	}
	cr := s.predOf[f.Field]
	if cr == nil {
		return
	}
	_ = elems
	field := f.Owner + "." + f.Field.Name()
	// polarity: a constant that keeps waiters waiting does not need a broadcast
	if cr.NonDirtyBool != nil {
		if want, has := cr.NonDirtyBool[field]; has {
			if b, known := s.evalBool(fr, st, stv); known && b == want {
				return
			}
		}
	}
	fn := in.Parent()
	for _, e := range s.T.SExempt {
		if e.Subject == field && (e.Func == "" || e.Func == FuncName(fn) || (strings.HasSuffix(e.Func, "$") && strings.HasPrefix(FuncName(fn), e.Func))) {
			s.ob("S", fn, "exempt-write:"+field, true, "confirmed exempt: "+e.Why, in)
			return
		}
	}
	if s.isFreshRoot(st, addr) {
		return
	}
	cf := s.P.StructField(cr.Type, cr.Field)
	cv := base.with(Seg{Field: cf, Owner: cr.Type})
	ck := s.condLock(cv).Key()
	for _, r := range st.dirty[ck] {
		if r.Field == field && r.Func == FuncName(fn) && r.Pos == s.P.InstrPos(in) {
			return
		}
	}
	st.dirty[ck] = append(st.dirty[ck], dirtyRec{Field: field, PathKey: addr.Key(), Func: FuncName(fn), Pos: s.P.InstrPos(in)})
}

func (s *Sim) checkDirtyAtRelease(fn *ssa.Function, st *State, lockKey string, in ssa.Instruction) {
	recs := st.dirty[lockKey]
	if len(recs) == 0 {
		return
	}
	for _, r := range recs {
		ok := false
		why := ""
		for _, cb := range s.T.CondBcast {
			if cb.Func == r.Func && cb.Field == r.Field {
				// strip trailing elems from PathKey for the location key
				if nzv, has := st.nz[r.PathKey]; has && nzv.v {
					ok = true
					why = "conditional broadcast: skipped only where " + r.Field + " != 0 was established after the write (" + cb.Why + ")"
				}
			}
		}
		fobj := s.P.Func(r.Func)
		if fobj == nil {
			fobj = fn
		}
		det := why
		if !ok {
			det = "write to predicate " + r.Field + " at " + r.Pos + " is not followed by Broadcast/Signal before the lock is released at " + s.P.InstrPos(in)
		}
		s.ob("S", fobj, "write:"+r.Field, ok, det, in)
	}
	delete(st.dirty, lockKey)
}

func (s *Sim) checkDirtyAtExit(fn *ssa.Function, st *State) {
	for k, recs := range st.dirty {
		held := false
		for _, h := range st.held {
			if h.Key == k {
				held = true
			}
		}
		if held {
			continue // still holding the lock (root precondition): the caller's release is outside
		}
		for _, r := range recs {
			fobj := s.P.Func(r.Func)
			if fobj == nil {
				fobj = fn
			}
			s.ob("S", fobj, "write:"+r.Field, false, "write to predicate "+r.Field+" at "+r.Pos+" made without the cond's lock is never broadcast", nil)
		}
	}
}

func (s *Sim) broadcast(fr *Frame, st *State, cv Val, in ssa.Instruction) {
	fn := in.Parent()
	lk := s.condLock(cv)
	class := s.lockClass(s.normLockless(cv))
	subject := "broadcast:" + condName(cv)
	if lk.K != KPath {
		s.undecided(fn, subject, "cannot name the cond's locker", in)
		return
	}
	ok, how := s.holds(st, lk, false)
	_ = class
	if !ok {
		// no locker on this path (cond.L == nil was established): nothing to hold
		lraw := cv.with(Seg{Field: s.P.syncCondL(), Owner: "Cond"})
		if st.nilp[lraw.Key()].v {
			s.ob("SL", fn, subject, true, "path on which cond.L is nil (no locker exists; followed by panic)", in)
			delete(st.dirty, lk.Key())
			return
		}
	}
	s.event(fr, st, "broadcast:"+condName(cv), in)
	det := "holds " + how + " at Broadcast/Signal"
	if !ok {
		det = "Broadcast/Signal on " + condName(cv) + " without holding its locker " + s.lockClass(lk) + "; held " + st.heldString() + " (a wake-up can be lost between predicate evaluation and Wait)"
	}
	s.ob("SL", fn, subject, ok, det, in)
	// the predicate writes made so far are announced
	for _, r := range st.dirty[lk.Key()] {
		fobj := s.P.Func(r.Func)
		if fobj == nil {
			fobj = fn
		}
		s.ob("S", fobj, "write:"+r.Field, true, "followed by Broadcast at "+s.P.InstrPos(in)+" in the same hold of "+s.lockClass(lk), in)
	}
	delete(st.dirty, lk.Key())
}

func (s *Sim) normLockless(v Val) Val { return v }

func condName(cv Val) string {
	if _, f, _, ok := cv.LastField(); ok {
		return f.Owner + "." + f.Field.Name()
	}
	if cv.K == KPath {
		return "param(" + cv.Root.Name() + ")"
	}
	return "?"
}

func (s *Sim) condWait(fr *Frame, st *State, cv Val, in ssa.Instruction) {
	fn := in.Parent()
	lk := s.condLock(cv)
	subject := "wait:" + condName(cv)
	if lk.K != KPath {
		s.undecided(fn, subject, "cannot name the cond's locker", in)
		return
	}
	ok, how := s.holds(st, lk, true)
	det := "Wait with the locker held (" + how + ")"
	if !ok {
		det = "Cond.Wait on " + condName(cv) + " without holding its locker " + s.lockClass(lk) + " in write mode; held " + st.heldString()
	}
	s.ob("P", fn, subject, ok, det, in)
	s.checkDirtyAtRelease(fn, st, lk.Key(), in)
	s.clearMarks(st, lk.Key())
	s.blocking(fr, st, "condwait", in, lk.Key())
	// WL: in a loop
	s.ob("WL", fn, subject, s.P.InCycle(in), pick("", map[bool]string{true: "Wait lies on a CFG cycle (predicate re-evaluated)", false: "Cond.Wait is not inside a loop: a spurious or stale wake-up is taken for the predicate"}[s.P.InCycle(in)]), in)
}

// ---------------------------------------------------------------------------------------------
// B: blocking

func (s *Sim) blocking(fr *Frame, st *State, op string, in ssa.Instruction, exceptKey string) {
	fn := in.Parent()
	var rem []string
	for _, h := range st.held {
		if h.Key == exceptKey {
			continue
		}
		rem = append(rem, h.Class)
	}
	sort.Strings(rem)
	rem = uniq(rem)
	root := ""
	if s.cur != nil {
		root = s.cur.Name
	}
	s.Blocked = append(s.Blocked, BlockInfo{Func: FuncName(fn), Op: op, Pos: s.P.InstrPos(in), Root: root, Held: rem})
	subject := "block:" + op
	if len(rem) == 0 {
		s.ob("B", fn, subject, true, "nothing held while blocking", in)
		return
	}
	for _, row := range s.T.Block {
		if row.Func != FuncName(fn) || row.Op != op {
			continue
		}
		for _, alt := range append([][]string{row.Held}, row.Alt...) {
			a := append([]string(nil), alt...)
			sort.Strings(a)
			if strings.Join(a, ",") == strings.Join(rem, ",") {
				s.ob("B", fn, subject+" under {"+strings.Join(rem, ",")+"}", true, "confirmed by design: "+row.Why, in)
				return
			}
		}
	}
	s.ob("B", fn, subject+" under {"+strings.Join(rem, ",")+"}", false, "blocking operation ("+op+") while holding {"+strings.Join(rem, ", ")+"}, which is not one of the confirmed (operation, lock) pairs", in)
}

func uniq(a []string) []string {
	var r []string
	for i, x := range a {
		if i == 0 || x != a[i-1] {
			r = append(r, x)
		}
	}
	return r
}

// ---------------------------------------------------------------------------------------------
// G: guarded-by / CLS / cells

func (s *Sim) isFreshRoot(st *State, a Val) bool {
	if a.K != KPath {
		return false
	}
	return st.fresh[a.Root] && !a.Deref
}

func (s *Sim) access(fr *Frame, st *State, a Val, write bool, in ssa.Instruction) {
	if a.K != KPath {
		return
	}
	fn := in.Parent()
	kind := "read"
	if write {
		kind = "write"
	}
	base, f, elems, ok := a.LastField()
	if !ok {
		// a plain cell
		if al, isAlloc := a.Root.(*ssa.Alloc); isAlloc && len(a.Segs) == 0 && !a.Deref && s.P.ConcurrentlyCaptured(al) && !st.fresh[al] {
			s.event(fr, st, kind+":cell("+al.Type().Underlying().(*types.Pointer).Elem().String()+")", in)
			root := ""
			if s.cur != nil {
				root = s.cur.Name
			}
			s.Cells[al] = append(s.Cells[al], cellAccess{Write: write, Held: append([]Held(nil), st.held...), Func: FuncName(fn), Pos: s.P.InstrPos(in), Root: root})
		}
		return
	}
	fr0 := s.fieldRule[f.Field]
	field := f.Owner + "." + f.Field.Name()
	if fr0 == nil {
		return
	}
	subject := kind + ":" + field
	if elems > 0 {
		subject += "[]"
	}
	if !s.isFreshRoot(st, a) {
		s.event(fr, st, subject, in)
	}
	switch fr0.Class {
	case ClsGuarded:
		if s.isFreshRoot(st, a) {
			s.ob("G", fn, subject+"(init)", true, "object under construction (not yet shared)", in)
			return
		}
		for _, e := range s.T.GExempt {
			if e.Subject == field && e.Func == FuncName(fn) && (e.Kind == "" || e.Kind == kind) {
				s.ob("G", fn, subject+"(exempt)", true, "confirmed exception: "+e.Why, in)
				return
			}
		}
		lv := base
		for _, ln := range fr0.Lock {
			lf := s.lockField(lv, f.Owner, ln)
			if lf.Field == nil {
				s.undecided(fn, subject, "guard lock field "+ln+" not found", in)
				return
			}
			lv = lv.with(lf)
		}
		ok, how := s.holds(st, lv, write)
		det := "holds " + how
		if !ok {
			need := "read or write"
			if write {
				need = "write"
			}
			det = kind + " of " + field + " without holding " + s.lockClass(s.normLock(lv)) + " (" + need + " mode) on the same object; held " + st.heldString()
		}
		s.ob("G", fn, subject, ok, det, in)
	case ClsInitOnce, ClsConfig:
		if !write || elems > 0 {
			return
		}
		if s.isFreshRoot(st, a) {
			s.ob("CLS", fn, subject+"(init)", true, "stored during construction", in)
			return
		}
		allowed := false
		for _, f := range s.T.InitFuncs[field] {
			if strings.HasPrefix(FuncName(fn), f) {
				allowed = true
			}
		}
		det := "store in a listed initialiser"
		if allowed && len(fr0.Lock) > 0 {
			lv := base
			for _, ln := range fr0.Lock {
				lv = lv.with(s.lockField(lv, f.Owner, ln))
			}
			h, how := s.holds(st, lv, true)
			if !h {
				allowed = false
				det = "initialiser stores " + field + " without the write lock; held " + st.heldString()
			} else {
				det += " under " + how
			}
		} else if !allowed {
			det = "INIT-ONCE field " + field + " is stored on a shared object outside construction and outside the listed initialisers"
		}
		s.ob("CLS", fn, subject, allowed, det, in)
	case ClsAtomic, ClsSync:
		// the field itself must never be loaded or stored as a value
		if elems == 0 {
			if s.isFreshRoot(st, a) {
				return
			}
			s.ob("CLS", fn, subject, false, field+" is a "+map[Class]string{ClsAtomic: "sync/atomic", ClsSync: "sync"}[fr0.Class]+" value and is copied/overwritten directly", in)
		}
	}
}

func (s *Sim) lockField(base Val, owner, name string) Seg {
	// the lock field lives on the same struct as the guarded field, or (for "L") on sync.Cond
	if name == "L" {
		return Seg{Field: s.P.syncCondL(), Owner: "Cond"}
	}
	f := s.P.StructField(owner, name)
	return Seg{Field: f, Owner: owner}
}

// ConcurrentlyCaptured: the cell is captured by a closure that runs in another goroutine
// (go, context.AfterFunc) or escapes the function.
func (p *Prog) ConcurrentlyCaptured(al *ssa.Alloc) bool {
	if v, ok := p.concCaptured[al]; ok {
		return v
	}
	res := false
	var closureConc func(mc *ssa.MakeClosure, depth int) bool
	closureConc = func(mc *ssa.MakeClosure, depth int) bool {
		if depth > 4 {
			return true
		}
		for _, ref := range *mc.Referrers() {
			switch r := ref.(type) {
			case *ssa.Go:
				return true
			case *ssa.Defer:
				if r.Call.Value != mc {
					return true
				}
			case *ssa.Call:
				if r.Call.Value == mc {
					continue
				}
				if callee := r.Call.StaticCallee(); callee != nil && callee.String() == "(*sync.Once).Do" {
					continue // run synchronously
				}
				if callee := r.Call.StaticCallee(); callee != nil && p.IsLib(Canon(callee)) && !p.paramEscapes(Canon(callee), r, mc) {
					continue // in-package callee that only calls it
				}
				return true // passed as an argument
			case *ssa.Store:
				// stored into a cell: check how the cell is used
				if cell, ok := r.Addr.(*ssa.Alloc); ok && r.Val == mc {
					if p.cellFuncEscapes(cell, depth) {
						return true
					}
					continue
				}
				if p.LocalFuncSlice(mc) != nil {
					continue
				}
				return true
			default:
				return true
			}
		}
		return false
	}
	// does any closure capturing al, or a closure nested in one, run concurrently?
	var capturedBy func(v ssa.Value, depth int) bool
	capturedBy = func(v ssa.Value, depth int) bool {
		if depth > 4 {
			return true
		}
		for _, ref := range *v.Referrers() {
			mc, ok := ref.(*ssa.MakeClosure)
			if !ok {
				continue
			}
			if closureConc(mc, 0) {
				return true
			}
			// nested: the free variable inside mc.Fn may be captured again
			fn := mc.Fn.(*ssa.Function)
			for i, b := range mc.Bindings {
				if b == v && i < len(fn.FreeVars) {
					if capturedBy(fn.FreeVars[i], depth+1) {
						return true
					}
				}
			}
		}
		return false
	}
	res = capturedBy(al, 0)
	p.concCaptured[al] = res
	return res
}

// cellFuncEscapes: a func-typed cell whose loads are only called/deferred locally does not escape.
func (p *Prog) cellFuncEscapes(cell *ssa.Alloc, depth int) bool {
	var check func(v ssa.Value, d int) bool
	check = func(v ssa.Value, d int) bool {
		if d > 4 {
			return true
		}
		for _, ref := range *v.Referrers() {
			switch r := ref.(type) {
			case *ssa.Store:
				if r.Addr == v {
					continue
				}
				return true
			case *ssa.UnOp:
				for _, use := range *r.Referrers() {
					switch u := use.(type) {
					case *ssa.Call:
						if u.Call.Value != r {
							return true
						}
					case *ssa.Defer:
						if u.Call.Value != r {
							return true
						}
					default:
						return true
					}
				}
			case *ssa.MakeClosure:
				fn := r.Fn.(*ssa.Function)
				for i, b := range r.Bindings {
					if b == v && i < len(fn.FreeVars) {
						if check(fn.FreeVars[i], d+1) {
							return true
						}
					}
				}
			case *ssa.DebugRef:
			default:
				return true
			}
		}
		return false
	}
	return check(cell, depth)
}

func (s *Sim) finishCells() {
	for al, accs := range s.Cells {
		fn := al.Parent()
		name := al.Comment
		if name == "" {
			name = al.Name()
		}
		anyWrite := false
		for _, a := range accs {
			if a.Write {
				anyWrite = true
			}
		}
		if !anyWrite {
			s.ob("G", fn, "cell:"+name, true, "shared captured cell is never written after it is shared", nil)
			continue
		}
		var common map[string]string
		first := true
		nEx := 0
		var firstBad *cellAccess
		for i := range accs {
			a := &accs[i]
			ex := false
			for _, e := range s.T.CellExempt {
				if (e.Subject == name || e.Subject == al.Type().Underlying().(*types.Pointer).Elem().String()) && e.Func == a.Func && (e.Kind == "" || (e.Kind == "write") == a.Write) {
					ex = true
				}
			}
			if ex {
				nEx++
				continue
			}
			cur := map[string]string{}
			for _, h := range a.Held {
				cur[h.Key] = h.Class
			}
			if first {
				common, first = cur, false
			} else {
				for k := range common {
					if _, ok := cur[k]; !ok {
						delete(common, k)
						if len(common) == 0 && firstBad == nil {
							firstBad = a
						}
					}
				}
			}
			if len(cur) == 0 && firstBad == nil {
				firstBad = a
			}
		}
		if first || len(common) > 0 {
			var cl []string
			for _, c := range common {
				cl = append(cl, c)
			}
			sort.Strings(cl)
			s.ob("G", fn, "cell:"+name, true, fmt.Sprintf("all %d accesses after sharing hold {%s} (%d reasoned exceptions)", len(accs)-nEx, strings.Join(cl, ","), nEx), nil)
		} else {
			det := "shared captured cell " + name + " is written after being shared and its accesses have no common lock"
			o := s.ob("G", fn, "cell:"+name, false, det, nil)
			if firstBad != nil {
				o.FailPos = firstBad.Pos
				o.Fail = det + "; e.g. access in " + firstBad.Func + " at " + firstBad.Pos + " holding " + (&State{held: firstBad.Held}).heldString()
			}
		}
	}
}

func (s *Sim) unfresh(st *State, v Val) {
	if v.K == KPath && !v.Deref {
		if st.fresh[v.Root] {
			delete(st.fresh, v.Root)
			// everything stored (once) in a cell travels with it
			if al, ok := v.Root.(*ssa.Alloc); ok {
				for _, stv := range s.P.storesToAlloc[al] {
					if stv.Parent() == al.Parent() {
						s.unfresh(st, s.P.Eval(v.Fr, stv.Val))
					}
				}
			}
		}
	}
	if v.K == KFunc {
		for _, b := range v.Bind {
			s.unfresh(st, b)
		}
	}
}

// ---------------------------------------------------------------------------------------------
// instruction step

func (s *Sim) step(fr *Frame, in ssa.Instruction, st *State) []*State {
	if s.trace != "" && (s.trace == "*" || strings.Contains(FuncName(fr.Fn), s.trace)) {
		extra := ""
		if os.Getenv("BB_TRACE_FACTS") != "" {
			var fs []string
			for v, b := range st.bf {
				fs = append(fs, fmt.Sprintf("%s=%v", v.Name(), b))
			}
			sort.Strings(fs)
			extra = " bf=" + strings.Join(fs, ",")
		}
		fmt.Fprintf(os.Stderr, "  [%s b%d] %-60s held=%s%s\n", FuncName(fr.Fn), in.Block().Index, in.String(), st.heldString(), extra)
	}
	if v, ok := in.(ssa.Value); ok {
		delete(st.bf, v)
		delete(st.nf, v)
		if len(st.sg) > 0 {
			delete(st.sg, rootKey(v))
		}
	}
	switch x := in.(type) {
	case *ssa.Alloc:
		if s.tracksFresh(x) {
			st.fresh[x] = true
		}
		if s.P.LocalFlag(x) {
			et := x.Type().Underlying().(*types.Pointer).Elem()
			k := (Val{K: KPath, Root: x}).Key()
			if isBool(et) {
				st.cells[k] = 0
			} else if nilable(et) {
				st.cells[k] = 2
			} else {
				delete(st.cells, k)
			}
		}
	case *ssa.Store:
		a := s.P.Eval(fr, x.Addr)
		s.access(fr, st, a, true, in)
		if a.K == KPath && len(a.Segs) == 0 && !a.Deref {
			// re-assignment of a pointer variable: locks that were taken through its previous value no longer cover
			// what the variable points to now
			if al, ok := a.Root.(*ssa.Alloc); ok && len(s.P.storesToAlloc[al]) > 1 {
				pre := a.Key()
				for i := range st.held {
					if strings.HasPrefix(st.held[i].Key, pre) && len(st.held[i].Key) > len(pre) {
						s.staleN++
						st.held[i].Key = st.held[i].Key + "#stale" + itoa(s.staleN)
					}
				}
			}
		}
		if a.K == KPath {
			delete(st.nz, a.Key())
			delete(st.nilp, a.Key())
			// an integer whose zero-ness is known (a constant; the result of a callee that returned 0 on this path)
			if bt, isB := x.Val.Type().Underlying().(*types.Basic); isB && bt.Info()&types.IsInteger != 0 && s.privateLocal(a) {
				if cv, isInt := (Val{K: KConst}).constIntOf(x.Val); isInt {
					st.nz[a.Key()] = pfact{cv != 0, fr.Fn}
				} else if sv := s.P.Eval(fr, x.Val); sv.K == KPath && len(sv.Segs) == 0 {
					if m, has := st.sg[sv.Key()]; has {
						if m == 2 {
							st.nz[a.Key()] = pfact{false, fr.Fn}
						} else if m&2 == 0 {
							st.nz[a.Key()] = pfact{true, fr.Fn}
						}
					}
				}
			}
			if al, ok := a.Root.(*ssa.Alloc); ok && len(a.Segs) == 0 && !a.Deref && s.P.LocalFlag(al) {
				k := a.Key()
				if b, known := s.evalBool(fr, st, x.Val); known && isBool(x.Val.Type()) {
					if b {
						st.cells[k] = 1
					} else {
						st.cells[k] = 0
					}
				} else if n, known := s.isNil(fr, st, x.Val); known && nilable(x.Val.Type()) {
					if n {
						st.cells[k] = 2
					} else {
						st.cells[k] = 3
					}
				} else {
					delete(st.cells, k)
				}
			}
			s.markDirty(fr, st, a, x.Val, in)
			// escape of a fresh object: stored into memory that is not itself fresh
			if !s.isFreshRoot(st, a) {
				s.unfresh(st, s.P.Eval(fr, x.Val))
			}
		}
	case *ssa.UnOp:
		switch x.Op {
		case token.MUL:
			a := s.P.Eval(fr, x.X)
			s.access(fr, st, a, false, in)
			if a.K == KPath && len(a.Segs) == 0 {
				if c, ok := st.cells[a.Key()]; ok {
					switch c {
					case 0:
						st.bf[x] = false
					case 1:
						st.bf[x] = true
					case 2:
						st.nf[x] = true
					case 3:
						st.nf[x] = false
					}
				}
			}
		case token.ARROW:
			s.blocking(fr, st, "recv", in, "")
		}
	case *ssa.MapUpdate:
		m := s.P.Eval(fr, x.Map)
		if m.K == KPath {
			s.access(fr, st, m.with(Seg{Elem: true}), true, in)
			s.markDirty(fr, st, m.with(Seg{Elem: true}), x.Value, in)
			if !s.isFreshRoot(st, m) {
				s.unfresh(st, s.P.Eval(fr, x.Value))
				s.unfresh(st, s.P.Eval(fr, x.Key))
			}
		}
	case *ssa.Lookup:
		if _, isMap := x.X.Type().Underlying().(*types.Map); isMap {
			m := s.P.Eval(fr, x.X)
			if m.K == KPath {
				s.access(fr, st, m.with(Seg{Elem: true}), false, in)
			}
		}
	case *ssa.Next:
		if rg, ok := x.Iter.(*ssa.Range); ok {
			if _, isMap := rg.X.Type().Underlying().(*types.Map); isMap {
				m := s.P.Eval(fr, rg.X)
				if m.K == KPath {
					s.access(fr, st, m.with(Seg{Elem: true}), false, in)
				}
			} else if _, isChan := rg.X.Type().Underlying().(*types.Chan); isChan {
				s.blocking(fr, st, "recv", in, "")
			}
		}
	case *ssa.Send:
		if !s.withinCapacity(fr, x) {
			s.blocking(fr, st, "send", in, "")
		}
		s.unfresh(st, s.P.Eval(fr, x.X))
	case *ssa.Select:
		if x.Blocking {
			s.blocking(fr, st, "select", in, "")
		}
	case *ssa.MakeClosure:
		s.onMakeClosure(fr, st, x)
	case *ssa.Defer:
		dup := false
		for _, d := range st.defers {
			if d.in == x && d.fr.Fn == fr.Fn {
				dup = true
			}
		}
		if !dup {
			st.defers = append(st.defers, deferRec{fr: fr, in: x})
		}
	case *ssa.RunDefers:
		return s.runDefers(fr, st)
	case *ssa.Go:
		s.onGo(fr, st, x)
	case *ssa.Call:
		return s.doCall(fr, in, &x.Call, st, x)
	}
	return []*State{st}
}

func (s *Sim) onReturn(fr *Frame, r *ssa.Return, st *State) {
	// ESC: a slice / map / pointer loaded from a guarded field must not be returned
	for _, res := range r.Results {
		v := s.P.Eval(fr, res)
		if v.K != KPath {
			continue
		}
		_, f, _, ok := v.LastField()
		if !ok {
			continue
		}
		rule := s.fieldRule[f.Field]
		if rule == nil || rule.Class != ClsGuarded {
			continue
		}
		switch res.Type().Underlying().(type) {
		case *types.Slice, *types.Map, *types.Pointer:
			if fr.Parent != nil {
				continue // returned to an in-package caller: judged where it leaves the package
			}
			s.ob("ESC", fr.Fn, "return:"+f.Owner+"."+f.Field.Name(), false, "returns the guarded "+f.Owner+"."+f.Field.Name()+" itself (no copy): the caller can read it outside the critical section", r)
		}
	}
}

func (s *Sim) runDefers(fr *Frame, st *State) []*State {
	states := []*State{st}
	for {
		var next []*State
		progressed := false
		for _, x := range states {
			idx := -1
			for i := len(x.defers) - 1; i >= 0; i-- {
				if x.defers[i].fr.Fn == fr.Fn { // no recursion: the function identifies the activation (memoised states carry equivalent frames)
					idx = i
					break
				}
			}
			if idx < 0 {
				next = append(next, x)
				continue
			}
			progressed = true
			d := x.defers[idx]
			x.defers = append(x.defers[:idx:idx], x.defers[idx+1:]...)
			next = append(next, s.doCall(d.fr, d.in, &d.in.Call, x, nil)...)
		}
		states = next
		if !progressed {
			break
		}
	}
	return states
}

func (s *Sim) withinCapacity(fr *Frame, snd *ssa.Send) bool {
	ch := s.P.Eval(fr, snd.Chan)
	if ch.K != KPath || len(ch.Segs) != 0 {
		return false
	}
	mk, ok := ch.Root.(*ssa.MakeChan)
	if !ok {
		return false
	}
	c, ok := mk.Size.(*ssa.Const)
	if !ok {
		return false
	}
	capv := c.Int64()
	if capv < 1 {
		return false
	}
	// count static send sites on this channel value (through cells and free variables)
	n := int64(0)
	for _, fn := range s.P.AllFuncs() {
		if fn != mk.Parent() && !isNestedIn(fn, mk.Parent()) {
			continue
		}
		for _, b := range fn.Blocks {
			for _, in := range b.Instrs {
				if sd, ok := in.(*ssa.Send); ok {
					v := s.P.chanOrigin(sd.Chan)
					if v == mk {
						n++
						if s.P.InCycle(sd) {
							return false
						}
					}
				}
				if sel, ok := in.(*ssa.Select); ok {
					for _, st := range sel.States {
						if st.Dir == types.SendOnly && s.P.chanOrigin(st.Chan) == mk && sel.Blocking {
							return false
						}
					}
				}
			}
		}
	}
	return n <= capv
}

func isNestedIn(fn, parent *ssa.Function) bool {
	for f := fn.Parent(); f != nil; f = f.Parent() {
		if f == parent {
			return true
		}
	}
	return false
}

// chanOrigin follows a channel value through store-once cells and free variables to its MakeChan.
func (p *Prog) chanOrigin(v ssa.Value) ssa.Value {
	for i := 0; i < 8; i++ {
		switch x := v.(type) {
		case *ssa.MakeChan:
			return x
		case *ssa.ChangeType:
			v = x.X
		case *ssa.UnOp:
			if x.Op != token.MUL {
				return v
			}
			var al *ssa.Alloc
			switch a := x.X.(type) {
			case *ssa.Alloc:
				al = a
			case *ssa.FreeVar:
				al = p.freeVarAlloc(a)
			}
			if al == nil {
				return v
			}
			sts := p.storesToAlloc[al]
			if len(sts) != 1 {
				return v
			}
			v = sts[0].Val
		default:
			return v
		}
	}
	return v
}

// ---------------------------------------------------------------------------------------------
// closures, goroutines

func (s *Sim) closureEscapes(mc *ssa.MakeClosure) bool {
	for _, ref := range *mc.Referrers() {
		switch r := ref.(type) {
		case *ssa.Go:
			if r.Call.Value == mc {
				continue
			}
			return true
		case *ssa.Defer:
			if r.Call.Value == mc {
				continue
			}
			return true
		case *ssa.Call:
			if r.Call.Value == mc {
				continue
			}
			if callee := r.Call.StaticCallee(); callee != nil && (s.inlinable(callee) != nil || callee.String() == "(*sync.Once).Do") {
				continue // handed to an in-package callee (analysed there) or run synchronously by Once.Do
			}
			return true
		case *ssa.Store:
			if cell, ok := r.Addr.(*ssa.Alloc); ok && !s.P.cellFuncEscapes(cell, 0) {
				continue
			}
			if s.P.LocalFuncSlice(mc) != nil {
				continue
			}
			return true
		case *ssa.DebugRef:
		default:
			return true
		}
	}
	return false
}

func (s *Sim) onMakeClosure(fr *Frame, st *State, mc *ssa.MakeClosure) {
	if !s.closureEscapes(mc) {
		return
	}
	v := s.P.Eval(fr, mc)
	s.AddRoot(&Root{Fn: v.Fn, Free: v.Bind, Why: "closure escapes at " + s.P.InstrPos(mc), ExitEq: true})
	// captured cells become shared only if the closure can run concurrently; escaping closures can
	for _, b := range v.Bind {
		s.unfresh(st, b)
	}
}

func (s *Sim) onGo(fr *Frame, st *State, g *ssa.Go) {
	fnv, args, recvArgs := s.resolveCallee(fr, &g.Call)
	root := ""
	if s.cur != nil {
		root = s.cur.Name
	}
	if fnv.K != KFunc || s.inlinable(fnv.Fn) == nil {
		s.Spawns = append(s.Spawns, SpawnInfo{Kind: "go", Func: "?", Spawner: FuncName(g.Parent()), Pos: s.P.InstrPos(g), Held: root})
		return
	}
	_ = recvArgs
	r := &Root{Fn: s.inlinable(fnv.Fn), Params: args, Free: fnv.Bind, Why: "go at " + s.P.InstrPos(g), ExitEq: true}
	// hand-off
	for _, ho := range s.T.HandOffs {
		if ho.Spawner == FuncName(g.Parent()) && ho.Goroutine == FuncName(fnv.Fn) {
			found := false
			for _, h := range append([]Held(nil), st.held...) {
				if h.Class == ho.Class && h.Mode == 'W' {
					found = true
					r.Entry = append(r.Entry, h)
					st.remove(h.Key, h.Mode)
				}
			}
			r.ExitEq = false
			det := "spawner holds " + ho.Class + " at the go statement and passes it to the goroutine"
			if !found {
				det = "declared hand-off of " + ho.Class + " but the spawner does not hold it at the go statement; held " + st.heldString()
			}
			s.ob("HO", g.Parent(), "handoff:"+ho.Class, found, det, g)
		}
	}
	s.event(fr, st, "go:"+FuncName(fnv.Fn), g)
	s.Spawns = append(s.Spawns, SpawnInfo{Kind: "go", Func: FuncName(fnv.Fn), Spawner: FuncName(g.Parent()), Pos: s.P.InstrPos(g), Held: st.heldString()})
	s.AddRoot(r)
	for _, b := range fnv.Bind {
		s.unfresh(st, b)
	}
	for _, a := range args {
		s.unfresh(st, a)
	}
}

// resolveCallee returns the function value and the evaluated arguments (receiver first for methods).
func (s *Sim) resolveCallee(fr *Frame, c *ssa.CallCommon) (Val, []Val, bool) {
	var args []Val
	if c.IsInvoke() {
		recv := s.P.Eval(fr, c.Value)
		args = append(args, recv)
		for _, a := range c.Args {
			args = append(args, s.P.Eval(fr, a))
		}
		// CHA over the package's own interfaces: unique implementer
		if named := ifaceName(c.Value.Type()); named != "" {
			if fn := s.uniqueImpl(c.Value.Type(), c.Method); fn != nil {
				return Val{K: KFunc, Fn: fn}, args, true
			}
		}
		return Val{}, args, true
	}
	for _, a := range c.Args {
		args = append(args, s.P.Eval(fr, a))
	}
	if callee := c.StaticCallee(); callee != nil {
		if mc, ok := c.Value.(*ssa.MakeClosure); ok {
			return s.P.Eval(fr, mc), args, false
		}
		return Val{K: KFunc, Fn: callee}, args, false
	}
	v := s.P.Eval(fr, c.Value)
	if v.K == KFunc {
		return v, args, false
	}
	// package-level func variable with a single initialiser
	if v.K == KPath && len(v.Segs) == 0 {
		if g, ok := v.Root.(*ssa.Global); ok {
			if inits := s.P.globalInit[g]; len(inits) == 1 {
				iv := s.P.Eval(nil, inits[0])
				if iv.K == KFunc {
					return iv, args, false
				}
			}
		}
	}
	return Val{}, args, false
}

func ifaceName(t types.Type) string {
	if n, ok := t.(*types.Named); ok {
		if _, isI := n.Underlying().(*types.Interface); isI && n.Obj().Pkg() != nil && n.Obj().Pkg().Path() == PkgPath {
			return n.Obj().Name()
		}
	}
	return ""
}

// uniqueImpl resolves an invoke on an unexported package interface to its single implementer.
func (s *Sim) uniqueImpl(it types.Type, m *types.Func) *ssa.Function {
	n, ok := it.(*types.Named)
	if !ok || n.Obj().Exported() {
		return nil
	}
	iface := n.Underlying().(*types.Interface)
	var found *ssa.Function
	cnt := 0
	scope := s.P.Types.Scope()
	for _, name := range scope.Names() {
		tn, ok := scope.Lookup(name).(*types.TypeName)
		if !ok {
			continue
		}
		if _, isI := tn.Type().Underlying().(*types.Interface); isI {
			continue
		}
		for _, T := range []types.Type{tn.Type(), types.NewPointer(tn.Type())} {
			if types.Implements(T, iface) {
				sel := s.P.SSA.MethodSets.MethodSet(T).Lookup(m.Pkg(), m.Name())
				if sel != nil {
					if fn := s.P.SSA.MethodValue(sel); fn != nil {
						found = fn
						cnt++
					}
				}
				break
			}
		}
	}
	if cnt == 1 {
		return found
	}
	return nil
}

// ---------------------------------------------------------------------------------------------
// calls

func (s *Sim) doCall(fr *Frame, in ssa.Instruction, c *ssa.CallCommon, st *State, callVal ssa.Value) []*State {
	// builtins
	if b, ok := c.Value.(*ssa.Builtin); ok {
		s.builtin(fr, st, b.Name(), c, in)
		return []*State{st}
	}
	// sync.Locker invoke
	if c.IsInvoke() {
		if n, ok := c.Value.Type().(*types.Named); ok && n.Obj().Pkg() != nil && n.Obj().Pkg().Path() == "sync" && n.Obj().Name() == "Locker" {
			lv := s.P.Eval(fr, c.Value)
			switch c.Method.Name() {
			case "Lock":
				s.acquire(fr, st, lv, 'W', false, in)
			case "Unlock":
				s.release(fr, st, lv, 'W', in)
			}
			return []*State{st}
		}
	}
	fnv, args, _ := s.resolveCallee(fr, c)
	s.event(fr, st, "call:"+s.P.CalleeName(c), in)
	// an atomic write of a named field, wherever it is made (in a helper or spelled out in its caller)
	if !c.IsInvoke() && len(c.Args) > 0 {
		switch n := s.P.CalleeName(c); {
		case strings.HasPrefix(n, "(*sync/atomic.") && (strings.HasSuffix(n, ").Add") || strings.HasSuffix(n, ").CompareAndSwap") || strings.HasSuffix(n, ").Store") || strings.HasSuffix(n, ").Swap")):
			if f := FieldOfAddr(c.Args[0]); f != "" {
				s.event(fr, st, "atomicwrite:"+f, in)
			}
		}
	}
	if fnv.K == KFunc {
		callee := fnv.Fn
		name := callee.String()
		if callee.Origin() != nil {
			name = callee.Origin().String()
		}
		if h := s.stdModel(name); h != nil {
			return h(fr, st, in, c, args, callVal)
		}
		cf := s.inlinable(callee)
		if cf != nil && !s.T.Opaque[FuncName(cf)] {
			if c.StaticCallee() == nil || c.IsInvoke() {
				s.Resolved[s.P.InstrPos(in)+" in "+FuncName(in.Parent())] = FuncName(cf)
				s.noteResolved(in, cf)
			}
			if fr.onStack(cf) || fr.Depth > 24 {
				return []*State{st} // recursion: cut (no lock-relevant recursion exists; asserted by P on exits)
			}
			s.nframe++
			nf := &Frame{Fn: cf, Params: args, Free: fnv.Bind, Parent: fr, Site: in, Depth: fr.Depth + 1, id: s.nframe}
			return s.execInlined(nf, st)
		}
		// external function: closures passed to it may run later
		s.externalCall(fr, st, name, args, in)
		return []*State{st}
	}
	// context.Context / error / reflect.Type ... interface methods: non-blocking, no effect
	if c.IsInvoke() {
		if s.isBlockingInvoke(c) {
			s.callback(fr, st, c, args, in)
		}
		return []*State{st}
	}
	// a func value taken from a non-escaping local slice of closures: every appended closure is a candidate
	if cands := s.sliceFuncCandidates(fr, c.Value); len(cands) > 0 {
		var out []*State
		for i, cv := range cands {
			x := st
			if i < len(cands)-1 {
				x = st.clone()
			}
			s.Resolved[s.P.InstrPos(in)+" in "+FuncName(in.Parent())+" #"+itoa(i)] = FuncName(cv.Fn)
			s.noteResolved(in, s.inlinable(cv.Fn))
			s.nframe++
			nf := &Frame{Fn: s.inlinable(cv.Fn), Params: args, Free: cv.Bind, Parent: fr, Site: in, Depth: fr.Depth + 1, id: s.nframe}
			out = append(out, s.execInlined(nf, x)...)
		}
		return out
	}
	if s.P.NonBlockingFuncValue(c.Value) {
		return []*State{st}
	}
	// unknown function value: opaque user callback
	s.callback(fr, st, c, args, in)
	return []*State{st}
}

func (s *Sim) sliceFuncCandidates(fr *Frame, v ssa.Value) []Val {
	ld, ok := v.(*ssa.UnOp)
	if !ok || ld.Op != token.MUL {
		return nil
	}
	ia, ok := ld.X.(*ssa.IndexAddr)
	if !ok {
		return nil
	}
	sl, ok := ia.X.(*ssa.UnOp)
	if !ok || sl.Op != token.MUL {
		return nil
	}
	cellv := s.P.Eval(fr, sl.X)
	if cellv.K != KPath || len(cellv.Segs) != 0 {
		return nil
	}
	cell, ok := cellv.Root.(*ssa.Alloc)
	if !ok {
		return nil
	}
	var out []Val
	for _, mc := range s.P.SliceCellFuncs(cell) {
		cv := s.P.Eval(cellv.Fr, mc)
		if cv.K == KFunc && s.inlinable(cv.Fn) != nil {
			out = append(out, cv)
		} else {
			return nil
		}
	}
	return out
}

func (s *Sim) isBlockingInvoke(c *ssa.CallCommon) bool {
	// methods of the package's exported interfaces (Consumer, Producer, Callable) are user code
	if n, ok := c.Value.Type().(*types.Named); ok && n.Obj().Pkg() != nil && n.Obj().Pkg().Path() == PkgPath {
		return true
	}
	return false
}

func (s *Sim) callback(fr *Frame, st *State, c *ssa.CallCommon, args []Val, in ssa.Instruction) {
	s.blocking(fr, st, "callback", in, "")
	for _, a := range args {
		if a.K == KFunc && s.inlinable(a.Fn) != nil {
			s.AddRoot(&Root{Fn: s.inlinable(a.Fn), Free: a.Bind, Why: "passed to a user callback at " + s.P.InstrPos(in), ExitEq: true})
		}
		s.unfresh(st, a)
	}
}

func (s *Sim) externalCall(fr *Frame, st *State, name string, args []Val, in ssa.Instruction) {
	for _, a := range args {
		if a.K == KFunc && s.inlinable(a.Fn) != nil {
			s.AddRoot(&Root{Fn: s.inlinable(a.Fn), Free: a.Bind, Why: "passed to " + name + " at " + s.P.InstrPos(in), ExitEq: true})
			s.unfresh(st, a)
		}
	}
}

func (s *Sim) builtin(fr *Frame, st *State, name string, c *ssa.CallCommon, in ssa.Instruction) {
	switch name {
	case "append":
		if len(c.Args) > 0 {
			a := s.P.Eval(fr, c.Args[0])
			if a.K == KPath {
				s.access(fr, st, a.with(Seg{Elem: true}), true, in)
			}
		}
		if len(c.Args) > 1 {
			b := s.P.Eval(fr, c.Args[1])
			if b.K == KPath {
				s.access(fr, st, b.with(Seg{Elem: true}), false, in)
			}
		}
	case "copy":
		if len(c.Args) == 2 {
			a, b := s.P.Eval(fr, c.Args[0]), s.P.Eval(fr, c.Args[1])
			if a.K == KPath {
				s.access(fr, st, a.with(Seg{Elem: true}), true, in)
			}
			if b.K == KPath {
				s.access(fr, st, b.with(Seg{Elem: true}), false, in)
			}
		}
	case "delete":
		if len(c.Args) > 0 {
			a := s.P.Eval(fr, c.Args[0])
			if a.K == KPath {
				if _, f, _, ok := a.LastField(); ok {
					s.event(fr, st, "delete:"+f.Owner+"."+f.Field.Name(), in)
				}
				s.access(fr, st, a.with(Seg{Elem: true}), true, in)
				s.markDirty(fr, st, a.with(Seg{Elem: true}), nil, in)
			}
		}
	case "clear":
		if len(c.Args) > 0 {
			a := s.P.Eval(fr, c.Args[0])
			if a.K == KPath {
				s.access(fr, st, a.with(Seg{Elem: true}), true, in)
			}
		}
	case "close":
		// closing wakes receivers; no lock effect
	}
}

type stdHandler func(fr *Frame, st *State, in ssa.Instruction, c *ssa.CallCommon, args []Val, callVal ssa.Value) []*State

func (s *Sim) stdModel(name string) stdHandler {
	one := func(f func(fr *Frame, st *State, in ssa.Instruction, args []Val)) stdHandler {
		return func(fr *Frame, st *State, in ssa.Instruction, c *ssa.CallCommon, args []Val, cv ssa.Value) []*State {
			f(fr, st, in, args)
			return []*State{st}
		}
	}
	switch name {
	case "(*sync.Mutex).Lock", "(*sync.RWMutex).Lock":
		return one(func(fr *Frame, st *State, in ssa.Instruction, a []Val) { s.acquire(fr, st, a[0], 'W', false, in) })
	case "(*sync.Mutex).Unlock", "(*sync.RWMutex).Unlock":
		return one(func(fr *Frame, st *State, in ssa.Instruction, a []Val) { s.release(fr, st, a[0], 'W', in) })
	case "(*sync.RWMutex).RLock":
		return one(func(fr *Frame, st *State, in ssa.Instruction, a []Val) { s.acquire(fr, st, a[0], 'R', false, in) })
	case "(*sync.RWMutex).RUnlock":
		return one(func(fr *Frame, st *State, in ssa.Instruction, a []Val) { s.release(fr, st, a[0], 'R', in) })
	case "(*sync.Mutex).TryLock", "(*sync.RWMutex).TryLock", "(*sync.RWMutex).TryRLock":
		mode := byte('W')
		if strings.HasSuffix(name, "TryRLock") {
			mode = 'R'
		}
		return func(fr *Frame, st *State, in ssa.Instruction, c *ssa.CallCommon, a []Val, cv ssa.Value) []*State {
			got := st.clone()
			s.acquire(fr, got, a[0], mode, true, in)
			if cv != nil {
				got.bf[cv] = true
				st.bf[cv] = false
			}
			return []*State{got, st}
		}
	case "(*sync.Cond).Wait":
		return one(func(fr *Frame, st *State, in ssa.Instruction, a []Val) { s.condWait(fr, st, a[0], in) })
	case "(*sync.Cond).Broadcast":
		return one(func(fr *Frame, st *State, in ssa.Instruction, a []Val) { s.broadcast(fr, st, a[0], in) })
	case "(*sync.Cond).Signal":
		// every cond of this package has several kinds of waiters (Get waiters, the cleaner, Close): waking
		// one of them does not announce a state change to the others, so Signal never clears the dirty bit
		return one(func(fr *Frame, st *State, in ssa.Instruction, a []Val) {
			s.ob("S", in.Parent(), "signal:"+condName(a[0]), false, "Signal wakes a single waiter; the conds of this package are shared by waiters of different kinds (a blocked Get, the cleaner, Close), so a state change must be announced with Broadcast", in)
		})
	case "(*sync.Once).Do":
		return func(fr *Frame, st *State, in ssa.Instruction, c *ssa.CallCommon, a []Val, cv ssa.Value) []*State {
			skip := st.clone()
			out := []*State{skip}
			f := a[1]
			if f.K != KFunc || s.inlinable(f.Fn) == nil {
				s.callback(fr, st, c, a[1:], in)
				return append(out, st)
			}
			ov := a[0]
			key, class := ov.Key(), s.lockClass(ov)
			for _, h := range st.held {
				ek := h.Class + "->" + class
				if _, ok := s.Edges[ek]; !ok {
					s.Edges[ek] = OrderEdge{From: h.Class, To: class, Pos: s.P.InstrPos(in), Func: FuncName(in.Parent())}
				}
			}
			st.add(Held{Key: key, Class: class, Mode: 'O'})
			s.nframe++
			nf := &Frame{Fn: s.inlinable(f.Fn), Free: f.Bind, Parent: fr, Site: in, Depth: fr.Depth + 1, id: s.nframe}
			for _, e := range s.execInlined(nf, st) {
				e.remove(key, 'O')
				out = append(out, e)
			}
			return out
		}
	case "(*sync.WaitGroup).Wait":
		return one(func(fr *Frame, st *State, in ssa.Instruction, a []Val) { s.blocking(fr, st, "wgwait", in, "") })
	case "time.Sleep":
		return one(func(fr *Frame, st *State, in ssa.Instruction, a []Val) { s.blocking(fr, st, "sleep", in, "") })
	case "reflect.Select":
		return one(func(fr *Frame, st *State, in ssa.Instruction, a []Val) { s.blocking(fr, st, "reflect.Select", in, "") })
	case "(reflect.Value).Send", "(reflect.Value).Recv":
		return one(func(fr *Frame, st *State, in ssa.Instruction, a []Val) { s.blocking(fr, st, "reflect.chanop", in, "") })
	case "(reflect.Value).Call", "(reflect.Value).CallSlice":
		return one(func(fr *Frame, st *State, in ssa.Instruction, a []Val) { s.blocking(fr, st, "callback", in, "") })
	case "context.AfterFunc":
		return one(func(fr *Frame, st *State, in ssa.Instruction, a []Val) {
			root := ""
			if s.cur != nil {
				root = s.cur.Name
			}
			if len(a) == 2 && a[1].K == KFunc && s.inlinable(a[1].Fn) != nil {
				f := a[1]
				r := &Root{Fn: s.inlinable(f.Fn), Free: f.Bind, Why: "context.AfterFunc at " + s.P.InstrPos(in), ExitEq: true}
				// a bound method value: the receiver is the single binding of the bound-method wrapper
				s.AddRoot(r)
				s.Spawns = append(s.Spawns, SpawnInfo{Kind: "afterfunc", Func: FuncName(f.Fn), Spawner: FuncName(in.Parent()), Pos: s.P.InstrPos(in), Held: root})
				s.unfresh(st, f)
			} else {
				s.Spawns = append(s.Spawns, SpawnInfo{Kind: "afterfunc", Func: "?", Spawner: FuncName(in.Parent()), Pos: s.P.InstrPos(in), Held: root})
			}
		})
	}
	return nil
}

// inlinable returns the body to execute for a callee: a source function of the package (generic
// instantiations map to their origin) or a synthetic wrapper (bound method, thunk) that has a body.
func (s *Sim) inlinable(fn *ssa.Function) *ssa.Function {
	if fn == nil {
		return nil
	}
	cf := Canon(fn)
	if s.P.IsLib(cf) {
		return cf
	}
	if fn.Blocks != nil && fn.Synthetic != "" && (strings.Contains(fn.Synthetic, "wrapper") || strings.Contains(fn.Synthetic, "thunk")) {
		return fn
	}
	return nil
}

// execInlined runs a callee with the caller's value facts set aside (the callee cannot refer to the
// caller's SSA values), which keeps the memo key small; they are restored on every exit.
func (s *Sim) execInlined(nf *Frame, st *State) []*State {
	saveB, saveN := st.bf, st.nf
	st.bf, st.nf = map[ssa.Value]bool{}, map[ssa.Value]bool{}
	exits := s.execFn(nf, st)
	st.bf, st.nf = saveB, saveN
	for _, e := range exits {
		// the sign of the callee's (single, integer) result on this exit becomes a fact about the call's value
		if m, ok := e.sg["ret#0"]; ok {
			delete(e.sg, "ret#0")
			if call, isCall := nf.Site.(*ssa.Call); isCall && nf.Parent != nil {
				if cvv := s.P.Eval(nf.Parent, call); cvv.K == KPath && len(cvv.Segs) == 0 {
					e.sg[cvv.Key()] = m
				}
			}
		}
		e.bf = make(map[ssa.Value]bool, len(saveB))
		for k, v := range saveB {
			e.bf[k] = v
		}
		e.nf = make(map[ssa.Value]bool, len(saveN))
		for k, v := range saveN {
			e.nf[k] = v
		}
	}
	return exits
}

// tracksFresh: freshness matters for objects of the package's struct types and for cells that
// are shared with another goroutine.
func (s *Sim) tracksFresh(al *ssa.Alloc) bool {
	if s.P.ConcurrentlyCaptured(al) {
		return true
	}
	et := al.Type().Underlying().(*types.Pointer).Elem()
	if n, ok := et.(*types.Named); ok && n.Obj().Pkg() != nil && n.Obj().Pkg().Path() == PkgPath {
		_, isStruct := n.Underlying().(*types.Struct)
		return isStruct
	}
	return false
}

// Captured: the alloc is referenced by at least one closure.
// LocalFlag: a local bool / pointer variable whose address never leaves the activation except into closures that do not
// run concurrently or into parameters of library functions that only dereference it (defer x.unlockUnless(&skip)):
// its contents can be tracked flow-sensitively.
func (p *Prog) LocalFlag(al *ssa.Alloc) bool {
	if v, ok := p.localFlag[al]; ok {
		return v
	}
	res, shared := true, false
	for _, ref := range *al.Referrers() {
		switch r := ref.(type) {
		case *ssa.Store:
			if r.Addr != ssa.Value(al) {
				res = false
			}
		case *ssa.UnOp, *ssa.DebugRef:
		case *ssa.MakeClosure:
			shared = true
			if p.ConcurrentlyCaptured(al) {
				res = false
			}
		case *ssa.Call, *ssa.Defer:
			cc := CallCommonOf(ref)
			callee := cc.StaticCallee()
			if callee == nil || !p.IsLib(Canon(callee)) {
				res = false
				break
			}
			cf := Canon(callee)
			for i, a := range cc.Args {
				if a == ssa.Value(al) {
					if i >= len(cf.Params) || !derefOnly(cf.Params[i]) {
						res = false
					}
					shared = true
				}
			}
		default:
			res = false
		}
	}
	res = res && shared
	if p.localFlag == nil {
		p.localFlag = map[*ssa.Alloc]bool{}
	}
	p.localFlag[al] = res
	return res
}

// derefOnly: the pointer parameter is only loaded from / stored through (possibly after being spilled for a closure
// of the callee that is itself only called or deferred there).
func derefOnly(prm *ssa.Parameter) bool {
	for _, ref := range *prm.Referrers() {
		switch r := ref.(type) {
		case *ssa.UnOp, *ssa.DebugRef:
		case *ssa.Store:
			if r.Addr != ssa.Value(prm) {
				return false
			}
		default:
			return false
		}
	}
	return true
}

func (p *Prog) Captured(al *ssa.Alloc) bool {
	for _, ref := range *al.Referrers() {
		if _, ok := ref.(*ssa.MakeClosure); ok {
			return true
		}
	}
	return false
}

// dropFrameObjects forgets freshness and cell contents of the returning activation's own allocs
// (objects handed back through the results stay fresh for the caller).
func (s *Sim) dropFrameObjects(fr *Frame, r *ssa.Return, st *State) {
	keep := map[ssa.Value]bool{}
	for _, res := range r.Results {
		v := s.P.Eval(fr, res)
		if v.K == KPath {
			keep[v.Root] = true
		}
	}
	for a := range st.fresh {
		if a.Parent() == fr.Fn && !keep[a] {
			delete(st.fresh, a)
		}
	}
	prefix := uniqFuncName(fr.Fn) + "·"
	for k := range st.cells {
		if strings.HasPrefix(k, prefix) {
			delete(st.cells, k)
		}
	}
}

// event feeds the atomic-section (AT) and require (REQ) rules.
func (s *Sim) event(fr *Frame, st *State, ev string, in ssa.Instruction) {
	fn := FuncName(in.Parent())
	if s.trace != "" && strings.Contains(ev, s.trace) {
		fmt.Fprintf(os.Stderr, "  EVENT %s in %s held=%s marks=%v\n", ev, fn, st.heldString(), st.marks)
	}
	for i := range s.T.Sections {
		r := &s.T.Sections[i]
		if r.To == ev && (r.Func == "" || r.Func == fn || (strings.HasSuffix(r.Func, "*") && strings.HasPrefix(fn, strings.TrimSuffix(r.Func, "*")))) {
			lk, has := st.marks[r.ID]
			ok := false
			if has {
				for _, h := range st.held {
					if h.Key == lk {
						ok = true
					}
				}
			}
			det := r.From + " and " + r.To + " lie in one uninterrupted hold of " + r.Lock
			if !ok {
				det = r.To + " is not in the same uninterrupted hold of " + r.Lock + " as a preceding " + r.From + " (" + r.Why + "); held " + st.heldString()
			}
			s.ob("AT", in.Parent(), r.ID, ok, det, in)
		}
	}
	for i := range s.T.Sections {
		r := &s.T.Sections[i]
		if r.From == ev && (r.Func == "" || frameHas(fr, r.Func)) {
			for _, h := range st.held {
				if h.Class == r.Lock {
					st.marks[r.ID] = h.Key
				}
			}
		}
	}
	for i := range s.T.Requires {
		r := &s.T.Requires[i]
		if r.Event == ev && (r.Func == "" || r.Func == fn || (r.Inlined && frameHas(fr, r.Func))) {
			if r.Param != "" {
				applies := false
				if fr != nil {
					for _, q := range fr.Fn.Params {
						if q.Name() == r.Param {
							pv := s.P.Eval(fr, q)
							if pv.K == KPath && len(pv.Segs) == 0 {
								if m, has := st.sg[pv.Key()]; has && m&^r.SignMask == 0 {
									applies = true
								}
							}
						}
					}
				}
				if !applies {
					continue
				}
			}
			ok := false
			for _, h := range st.held {
				if h.Class == r.Lock && (!r.Write || h.Mode == 'W') {
					ok = true
				}
			}
			det := ev + " happens with " + r.Lock + " held"
			if !ok {
				det = ev + " happens without " + r.Lock + " held (" + r.Why + "); held " + st.heldString()
			}
			s.ob("REQ", in.Parent(), r.ID, ok, det, in)
		}
	}
}

func (s *Sim) clearMarks(st *State, lockKey string) {
	for id, k := range st.marks {
		if k == lockKey {
			delete(st.marks, id)
		}
	}
}

func frameHas(fr *Frame, name string) bool {
	for f := fr; f != nil; f = f.Parent {
		if FuncName(f.Fn) == name || (strings.HasSuffix(name, "*") && strings.HasPrefix(FuncName(f.Fn), strings.TrimSuffix(name, "*"))) {
			return true
		}
	}
	return false
}

// onPanic unwinds: every pending deferred call (all frames, LIFO) is executed for its lock effects;
// a lock of this root still held afterwards would make every later call block instead of panicking.
func (s *Sim) onPanic(fr *Frame, pn *ssa.Panic, st *State) {
	if len(st.held) == 0 {
		return
	}
	x := st.clone()
	states := []*State{x}
	for guard := 0; guard < 64; guard++ {
		var next []*State
		progressed := false
		for _, y := range states {
			if len(y.defers) == 0 {
				next = append(next, y)
				continue
			}
			progressed = true
			d := y.defers[len(y.defers)-1]
			y.defers = y.defers[:len(y.defers)-1]
			next = append(next, s.doCall(d.fr, d.in, &d.in.Call, y, nil)...)
		}
		states = next
		if !progressed {
			break
		}
	}
	entry := map[string]bool{}
	if s.cur != nil {
		for _, h := range s.cur.Entry {
			entry[h.Key] = true
		}
	}
	for _, y := range states {
		var leaked []string
		for _, h := range y.held {
			if !entry[h.Key] && h.Mode != 'O' {
				leaked = append(leaked, h.Class+":"+string(h.Mode))
			}
		}
		det := "deferred calls release every lock on this panic exit"
		if len(leaked) > 0 {
			det = "panic exit leaves {" + strings.Join(leaked, ", ") + "} held (no deferred release): later calls block forever instead of failing"
		}
		s.ob("PX", pn.Parent(), "panic-exit", len(leaked) == 0, det, pn)
	}
}

func (s *Sim) noteResolved(in ssa.Instruction, fn *ssa.Function) {
	if s.ResolvedSites == nil {
		s.ResolvedSites = map[ssa.Instruction]map[*ssa.Function]bool{}
	}
	m := s.ResolvedSites[in]
	if m == nil {
		m = map[*ssa.Function]bool{}
		s.ResolvedSites[in] = m
	}
	m[fn] = true
}

// noteResultSign records, in the exit state, whether the single integer result of the returning function is zero.
func (s *Sim) noteResultSign(fr *Frame, r *ssa.Return, st *State) {
	delete(st.sg, "ret#0")
	if len(r.Results) != 1 {
		return
	}
	v := r.Results[0]
	bt, isB := v.Type().Underlying().(*types.Basic)
	if !isB || bt.Info()&types.IsInteger == 0 {
		return
	}
	if cv, isInt := (Val{K: KConst}).constIntOf(v); isInt {
		if cv == 0 {
			st.sg["ret#0"] = 2
		} else {
			st.sg["ret#0"] = 5
		}
		return
	}
	if ld, ok := v.(*ssa.UnOp); ok && ld.Op == token.MUL {
		if a := s.P.Eval(fr, ld.X); a.K == KPath {
			if f, has := st.nz[a.Key()]; has {
				if f.v {
					st.sg["ret#0"] = 5
				} else {
					st.sg["ret#0"] = 2
				}
			}
		}
		return
	}
	if sv := s.P.Eval(fr, v); sv.K == KPath && len(sv.Segs) == 0 {
		if m, has := st.sg[sv.Key()]; has {
			st.sg["ret#0"] = m
		}
	}
}

// constIntOf: the value of an integer constant.
func (Val) constIntOf(v ssa.Value) (int64, bool) {
	c, ok := v.(*ssa.Const)
	if !ok || c.Value == nil {
		return 0, false
	}
	return (Val{K: KConst, Const: c}).ConstInt()
}

// privateLocal: the location is a local variable of the running activation that no concurrently running closure
// can reach (what is known about its contents cannot be changed behind the simulator's back).
func (s *Sim) privateLocal(a Val) bool {
	al, ok := a.Root.(*ssa.Alloc)
	return ok && len(a.Segs) == 0 && !a.Deref && !s.P.ConcurrentlyCaptured(al)
}
