package an

import (
	"go/token"
	"go/types"
	"strings"

	"golang.org/x/tools/go/ssa"
)

// ---------------------------------------------------------------------------------------------
// E6: reflect validity typestate
//
// reflect.ValueOf(x) / reflect.TypeOf(x) of an interface-typed x that may be nil yield the zero
// Value / a nil Type. Using them (anything but Kind / IsValid / a nil test) panics. The rule: every
// such use is reachable only through an edge that established validity.

// RVFinding is one checked use.
type RVFinding struct {
	Fn      *ssa.Function
	Source  ssa.Instruction // the ValueOf / TypeOf call (or the element load for propagated taint)
	Use     ssa.Instruction
	Kind    string // "Value" / "Type"
	OK      bool
	Why     string
	Subject string
}

func isReflectValue(t types.Type) bool {
	n, ok := t.(*types.Named)
	return ok && n.Obj().Pkg() != nil && n.Obj().Pkg().Path() == "reflect" && n.Obj().Name() == "Value"
}

func isReflectType(t types.Type) bool {
	n, ok := t.(*types.Named)
	return ok && n.Obj().Pkg() != nil && n.Obj().Pkg().Path() == "reflect" && n.Obj().Name() == "Type"
}

// locKey canonicalises "the thing x": an SSA value, or an element (slice origin, index value).
type locKey struct {
	base ssa.Value // value, or the slice's origin (parameter / cell / make)
	idx  ssa.Value // nil for plain values
}

// sliceOrigin strips loads of store-once / captured cells and free variables.
func (p *Prog) sliceOrigin(v ssa.Value) ssa.Value {
	for i := 0; i < 6; i++ {
		switch x := v.(type) {
		case *ssa.UnOp:
			if x.Op == token.MUL {
				if al := p.addrAlloc(x.X); al != nil {
					if sts := p.storesToAlloc[al]; len(sts) == 1 {
						v = sts[0].Val
						continue
					}
					return al
				}
			}
			return v
		case *ssa.ChangeType:
			v = x.X
		case *ssa.Slice:
			v = x.X
		default:
			return v
		}
	}
	return v
}

// keyOf returns the location key of an operand: element loads map to (origin, index).
func (p *Prog) keyOf(v ssa.Value) locKey {
	for i := 0; i < 4; i++ {
		switch x := v.(type) {
		case *ssa.MakeInterface:
			v = x.X
			continue
		case *ssa.ChangeInterface:
			v = x.X
			continue
		case *ssa.ChangeType:
			v = x.X
			continue
		}
		break
	}
	if u, ok := v.(*ssa.UnOp); ok && u.Op == token.MUL {
		if ia, ok := u.X.(*ssa.IndexAddr); ok {
			return locKey{base: p.sliceOrigin(ia.X), idx: p.idxOrigin(ia.Index)}
		}
		if al := p.addrAlloc(u.X); al != nil {
			if sts := p.storesToAlloc[al]; len(sts) == 1 {
				return p.keyOf(sts[0].Val)
			}
			return locKey{base: al}
		}
	}
	if ex, ok := v.(*ssa.Extract); ok {
		// range over slice: value element (index 1..) keyed by the range
		if nx, ok := ex.Tuple.(*ssa.Next); ok {
			return locKey{base: nx, idx: nil}
		}
	}
	return locKey{base: v}
}

func (p *Prog) idxOrigin(v ssa.Value) ssa.Value {
	if u, ok := v.(*ssa.UnOp); ok && u.Op == token.MUL {
		if al := p.addrAlloc(u.X); al != nil {
			return al
		}
	}
	return v
}

// sanitisingEdges lists (If, successor) pairs whose traversal establishes that key is valid /
// non-nil. For a Value key: Kind()==K (K != Invalid), IsValid(); for any key: != nil tests of the
// operand it was made from (passed as ops), or of the key itself (Types).
func (p *Prog) sanitisingEdges(fn *ssa.Function, isKey func(v ssa.Value) bool, isOperand func(v ssa.Value) bool) (ifs []*ssa.If, succ []int) {
	for _, b := range fn.Blocks {
		if len(b.Instrs) == 0 {
			continue
		}
		ifi, ok := b.Instrs[len(b.Instrs)-1].(*ssa.If)
		if !ok {
			continue
		}
		c := ifi.Cond
		neg := false
		for {
			if u, ok := c.(*ssa.UnOp); ok && u.Op == token.NOT {
				c = u.X
				neg = !neg
				continue
			}
			break
		}
		switch x := c.(type) {
		case *ssa.Call:
			// v.IsValid()
			if callee := x.Call.StaticCallee(); callee != nil && callee.String() == "(reflect.Value).IsValid" && len(x.Call.Args) == 1 && isKey(x.Call.Args[0]) {
				s := 0
				if neg {
					s = 1
				}
				ifs, succ = append(ifs, ifi), append(succ, s)
			}
		case *ssa.BinOp:
			if x.Op != token.EQL && x.Op != token.NEQ {
				continue
			}
			// nil tests
			var other ssa.Value
			if isNilConst(x.Y) {
				other = x.X
			} else if isNilConst(x.X) {
				other = x.Y
			}
			if other != nil && (isKey(other) || (isOperand != nil && isOperand(other))) {
				nonNilWhenTrue := x.Op == token.NEQ
				if neg {
					nonNilWhenTrue = !nonNilWhenTrue
				}
				s := 1
				if nonNilWhenTrue {
					s = 0
				}
				ifs, succ = append(ifs, ifi), append(succ, s)
				continue
			}
			// v.Kind() ==/!= K with K != Invalid
			for _, pr := range [][2]ssa.Value{{x.X, x.Y}, {x.Y, x.X}} {
				call, ok := pr[0].(*ssa.Call)
				if !ok {
					continue
				}
				callee := call.Call.StaticCallee()
				if callee == nil || callee.String() != "(reflect.Value).Kind" || len(call.Call.Args) != 1 || !isKey(call.Call.Args[0]) {
					continue
				}
				k, ok := pr[1].(*ssa.Const)
				if !ok || k.Value == nil || k.Uint64() == 0 {
					continue
				}
				eqWhenTrue := x.Op == token.EQL
				if neg {
					eqWhenTrue = !eqWhenTrue
				}
				s := 1
				if eqWhenTrue {
					s = 0
				}
				ifs, succ = append(ifs, ifi), append(succ, s)
			}
		}
	}
	return
}

// safeValueMethods never panic on the zero Value.
var safeValueMethods = map[string]bool{"(reflect.Value).Kind": true, "(reflect.Value).IsValid": true, "(reflect.Value).String": true}

// RVAnalyse checks every ValueOf/TypeOf source in the package.
func (p *Prog) RVAnalyse() []RVFinding {
	var out []RVFinding
	// pass 1: direct sources per function
	type src struct {
		fn      *ssa.Function
		call    *ssa.Call
		kind    string
		operand ssa.Value
	}
	var srcs []src
	taintedRet := map[*ssa.Function]string{}  // function returns a slice whose elements may be nil Types / invalid Values
	taintedPrm := map[*ssa.Parameter]string{} // parameter is such a slice
	for _, fn := range p.AllFuncs() {
		for _, b := range fn.Blocks {
			for _, in := range b.Instrs {
				call, ok := in.(*ssa.Call)
				if !ok {
					continue
				}
				callee := call.Call.StaticCallee()
				if callee == nil {
					continue
				}
				switch callee.String() {
				case "reflect.ValueOf", "reflect.TypeOf":
					op := call.Call.Args[0]
					// a concrete (non-interface) operand boxed for the call is always valid
					if mi, ok := op.(*ssa.MakeInterface); ok {
						if _, isI := mi.X.Type().Underlying().(*types.Interface); !isI {
							continue
						}
					}
					k := "Value"
					if callee.String() == "reflect.TypeOf" {
						k = "Type"
					}
					srcs = append(srcs, src{fn, call, k, op})
				}
			}
		}
	}
	// element taint: a source stored into a slice element that is returned
	for _, s := range srcs {
		for _, r := range *s.call.Referrers() {
			st, ok := r.(*ssa.Store)
			if !ok {
				continue
			}
			if ia, ok := st.Addr.(*ssa.IndexAddr); ok {
				origin := p.sliceOrigin(ia.X)
				for _, in := range AllInstrs(s.fn, IsReturn) {
					for _, res := range in.(*ssa.Return).Results {
						if p.sliceOrigin(res) == origin {
							taintedRet[s.fn] = s.kind
						}
					}
				}
			}
		}
	}
	// propagate through in-package calls (one level is enough here; iterate to a fixed point anyway)
	for changed := true; changed; {
		changed = false
		for _, fn := range p.AllFuncs() {
			for _, b := range fn.Blocks {
				for _, in := range b.Instrs {
					call, ok := in.(*ssa.Call)
					if !ok {
						continue
					}
					callee := call.Call.StaticCallee()
					if callee == nil || !p.IsLib(Canon(callee)) {
						continue
					}
					cf := Canon(callee)
					for i, a := range call.Call.Args {
						k := ""
						if ac, ok := a.(*ssa.Call); ok {
							if f := ac.Call.StaticCallee(); f != nil {
								k = taintedRet[Canon(f)]
							}
						}
						if prm, ok := p.sliceOrigin(a).(*ssa.Parameter); ok {
							if tk := taintedPrm[prm]; tk != "" {
								k = tk
							}
						}
						if k != "" && i < len(cf.Params) && taintedPrm[cf.Params[i]] == "" {
							taintedPrm[cf.Params[i]] = k
							changed = true
						}
					}
				}
			}
		}
	}
	check := func(fn *ssa.Function, source ssa.Instruction, kind string, isKey, isOperand func(ssa.Value) bool, subject string) {
		ifs, succ := p.sanitisingEdges(fn, isKey, isOperand)
		guarded := func(site ssa.Instruction) bool {
			for i, ifi := range ifs {
				cut := func(b *ssa.BasicBlock, j int) bool { return b == ifi.Block() && j == succ[i] }
				if !p.PathExists(fn, nil, Is(site), nil, cut) {
					return true
				}
			}
			return false
		}
		// uses in fn and (through captured cells) in nested closures
		var uses []ssa.Instruction
		var at []ssa.Instruction // the instruction of fn whose reachability is judged
		var scan func(f *ssa.Function, anchor ssa.Instruction)
		scan = func(f *ssa.Function, anchor ssa.Instruction) {
			for _, b := range f.Blocks {
				for _, in := range b.Instrs {
					if f == fn && in == source {
						continue
					}
					if p.rvIsSink(in, kind, isKey) {
						uses = append(uses, in)
						if anchor != nil {
							at = append(at, anchor)
						} else {
							at = append(at, in)
						}
					}
				}
			}
			for _, a := range f.AnonFuncs {
				// the closure's creation site in f
				var mk ssa.Instruction
				for _, b := range f.Blocks {
					for _, in := range b.Instrs {
						if mc, ok := in.(*ssa.MakeClosure); ok && mc.Fn == ssa.Value(a) {
							mk = in
						}
					}
				}
				an := anchor
				if an == nil {
					an = mk
				}
				if an != nil {
					scan(a, an)
				}
			}
		}
		scan(fn, nil)
		for i, u := range uses {
			ok := guarded(at[i])
			why := "reachable only through an edge that established validity (Kind()==K, IsValid(), or a nil test)"
			if !ok {
				why = "a possibly invalid reflect." + kind + " (from " + strings.TrimSpace(source.String()) + ") is used here without a dominating validity check: an untyped nil makes this panic"
			}
			out = append(out, RVFinding{Fn: fn, Source: source, Use: u, Kind: kind, OK: ok, Why: why, Subject: subject})
		}
		if len(uses) == 0 {
			out = append(out, RVFinding{Fn: fn, Source: source, Use: source, Kind: kind, OK: true, Why: "the result is only inspected with Kind/IsValid/nil tests", Subject: subject})
		}
	}
	for _, s := range srcs {
		s := s
		// the value itself and loads of the cell it is stored into
		aliases := map[ssa.Value]bool{s.call: true}
		var cells []*ssa.Alloc
		for _, r := range *s.call.Referrers() {
			if st, ok := r.(*ssa.Store); ok {
				if al := p.addrAlloc(st.Addr); al != nil {
					cells = append(cells, al)
				}
			}
		}
		isKey := func(v ssa.Value) bool {
			if aliases[v] {
				return true
			}
			if u, ok := v.(*ssa.UnOp); ok && u.Op == token.MUL {
				if al := p.addrAlloc(u.X); al != nil {
					for _, c := range cells {
						if c == al {
							return true
						}
					}
				}
			}
			return false
		}
		opKey := p.keyOf(s.operand)
		isOperand := func(v ssa.Value) bool { return p.keyOf(v) == opKey }
		// a source stored into a returned slice is judged where the elements are used
		check(s.fn, s.call, s.kind, isKey, isOperand, "reflect."+map[string]string{"Value": "ValueOf", "Type": "TypeOf"}[s.kind]+" in "+FuncName(s.fn))
	}
	// propagated element taint
	for prm, kind := range taintedPrm {
		fn := prm.Parent()
		// every element load of the parameter is a tracked thing keyed by (param, index)
		seen := map[locKey]bool{}
		for _, b := range fn.Blocks {
			for _, in := range b.Instrs {
				u, ok := in.(*ssa.UnOp)
				if !ok || u.Op != token.MUL {
					continue
				}
				ia, ok := u.X.(*ssa.IndexAddr)
				if !ok || p.sliceOrigin(ia.X) != ssa.Value(prm) {
					continue
				}
				k := p.keyOf(u)
				if seen[k] {
					continue
				}
				seen[k] = true
				isKey := func(v ssa.Value) bool { return p.keyOf(v) == k }
				check(fn, u, kind, isKey, nil, "elements of "+prm.Name()+" in "+FuncName(fn))
			}
		}
	}
	return out
}

// rvIsSink: does in use the tracked thing in a way that panics when it is invalid / nil?
func (p *Prog) rvIsSink(in ssa.Instruction, kind string, isKey func(ssa.Value) bool) bool {
	cc := CallCommonOf(in)
	if cc != nil {
		if cc.IsInvoke() {
			// method call on a reflect.Type
			if kind == "Type" && isReflectType(cc.Value.Type()) && isKey(cc.Value) {
				return true
			}
			for _, a := range cc.Args {
				if kind == "Type" && isKey(a) {
					return true // e.g. out.AssignableTo(nilType)
				}
			}
			return false
		}
		callee := cc.StaticCallee()
		name := ""
		if callee != nil {
			name = callee.String()
		}
		for i, a := range cc.Args {
			if !isKey(a) {
				continue
			}
			if i == 0 && strings.HasPrefix(name, "(reflect.Value).") {
				return !safeValueMethods[name]
			}
			// passed as an argument: Set(x), Append(s, x), in-package helpers are judged separately
			if strings.HasPrefix(name, "(reflect.Value).") || strings.HasPrefix(name, "reflect.") {
				return true
			}
		}
		return false
	}
	// stored into a reflect.SelectCase.Send field or compared: Send field store is a sink
	if st, ok := in.(*ssa.Store); ok && isKey(st.Val) {
		if f := FieldOfAddr(st.Addr); f == "SelectCase.Send" {
			return true
		}
	}
	return false
}
