package an

// Class of a struct field (rule CLS).
type Class int

const (
	ClsNone     Class = iota
	ClsGuarded        // every access holds Lock on the same base
	ClsInitOnce       // written only during construction / listed initialisers; reads free
	ClsAtomic         // sync/atomic type: only touched through its methods
	ClsSync           // a sync primitive itself
	ClsConfig         // exported, set by the user before use
)

// FieldRule is one row of the guarded-by table.
type FieldRule struct {
	Type, Field string
	Class       Class
	Lock        []string // field path of the guarding lock on the same base, e.g. {"mutex"} or {"pongC","L"}
	Why         string
}

// Exception is one reasoned exemption, keyed by function and subject.
type Exception struct {
	Rule    string // "G", "B", "S", "CELL", ...
	Func    string // function name (FuncName); "" = any
	Subject string // "Type.field", cell comment name, lock class, ...
	Kind    string // "read", "write", "" = any
	Why     string
}

// CondRule describes one condition variable: its predicate fields.
type CondRule struct {
	Type, Field string   // the *sync.Cond field
	LockAlias   []string // field path of the lock that cond.L is (same base); nil = anonymous locker
	Preds       []string // "Type.field" predicate fields
	// NonDirty: stores of this constant bool to the predicate keep waiters waiting ("wait while p": true)
	NonDirtyBool map[string]bool
}

// CondBroadcast is a confirmed conditional broadcast: after a store to Field in Func the
// broadcast may be skipped on paths where a later branch established Field != 0.
type CondBroadcast struct {
	Func, Field string
	Why         string
}

// BlockRow is one confirmed (operation, extra lock) pair of rule B.
type BlockRow struct {
	Func string   // function containing the blocking operation
	Op   string   // "recv", "send", "select", "condwait", "wgwait", "sleep", "reflect.Select", "callback"
	Held []string // exact set of lock classes allowed to remain held (after removing cond.L)
	Why  string
	Alt  [][]string // alternative exact sets (other contexts)
}

// HandOff declares a lock passed from a spawner to the goroutine it starts.
type HandOff struct {
	Spawner, Goroutine string
	Class              string
}

// Section is an atomic-section obligation: in Func (where the To event occurs; "" = anywhere), every
// To event lies in the same uninterrupted hold of a lock of class Lock as a preceding From event.
type Section struct {
	ID, Func, From, To, Lock string
	Why                      string
}

// Require: every occurrence of Event in Func happens with a lock of class Lock held (mode W if Write).
type Require struct {
	ID, Func, Event, Lock string
	Write                 bool
	Why                   string
	// optional: applies only on paths where the named parameter of the enclosing (possibly inlined)
	// function is known to have a sign within SignMask (1 neg, 2 zero, 4 pos)
	Param    string
	SignMask uint8
	// Inlined: the rule also applies to the event when it happens in a callee running on behalf of Func
	Inlined bool
}

// Tables is the frozen slot filling for E1.
type Tables struct {
	Fields     []FieldRule
	Conds      []CondRule
	CondBcast  []CondBroadcast
	SExempt    []Exception // predicate writes that need no broadcast
	GExempt    []Exception
	CellExempt []Exception
	Block      []BlockRow
	HandOffs   []HandOff
	InitFuncs  map[string][]string // "Type.field" -> functions allowed to store an INIT-ONCE field on a shared object
	RootPre    map[string][]string // root function -> lock paths (relative to params) held on entry, e.g. WaitCond: {"cond.L"}
	Opaque     map[string]bool     // in-package functions not to inline (none today)
	Sections   []Section
	Requires   []Require
}
