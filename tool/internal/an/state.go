package an

import (
	"os"
	"sort"
	"strings"

	"golang.org/x/tools/go/ssa"
)

// Held is one lock in the lockset.
type Held struct {
	Key   string
	Class string
	Mode  byte // 'R', 'W', 'O' (inside a sync.Once body)
}

type deferRec struct {
	fr *Frame
	in *ssa.Defer
}

type dirtyRec struct {
	Field   string // Type.field
	PathKey string
	Func    string
	Pos     string
}

// State is the abstract state of E1 on one path.
type State struct {
	held   []Held
	defers []deferRec
	bf     map[ssa.Value]bool // known booleans
	nf     map[ssa.Value]bool // known nil (true) / non-nil (false)
	cells  map[string]int8    // tracked local cells: 0 false, 1 true, 2 nil, 3 non-nil
	nz     map[string]pfact   // location known != 0 (true) / == 0 (false) since its last store
	nilp   map[string]pfact   // location known to hold nil
	sg     map[string]uint8   // possible signs of an integer SSA value (by root key): 1 neg, 2 zero, 4 pos
	dirty  map[string][]dirtyRec
	fresh  map[ssa.Value]bool
	marks  map[string]string // section id -> key of the lock held when its From event happened
}

// pfact is a fact about a location, owned by the function whose branch established it
// (dropped when that activation returns).
type pfact struct {
	v  bool
	fn *ssa.Function
}

func newState() *State {
	return &State{bf: map[ssa.Value]bool{}, nf: map[ssa.Value]bool{}, cells: map[string]int8{}, nz: map[string]pfact{},
		nilp: map[string]pfact{}, sg: map[string]uint8{}, marks: map[string]string{}, dirty: map[string][]dirtyRec{}, fresh: map[ssa.Value]bool{}}
}

func (s *State) clone() *State {
	n := &State{
		held:   append([]Held(nil), s.held...),
		defers: append([]deferRec(nil), s.defers...),
		bf:     make(map[ssa.Value]bool, len(s.bf)),
		nf:     make(map[ssa.Value]bool, len(s.nf)),
		cells:  make(map[string]int8, len(s.cells)),
		nz:     make(map[string]pfact, len(s.nz)),
		nilp:   make(map[string]pfact, len(s.nilp)),
		dirty:  make(map[string][]dirtyRec, len(s.dirty)),
		fresh:  make(map[ssa.Value]bool, len(s.fresh)),
		sg:     make(map[string]uint8, len(s.sg)),
		marks:  make(map[string]string, len(s.marks)),
	}
	for k, v := range s.marks {
		n.marks[k] = v
	}
	for k, v := range s.sg {
		n.sg[k] = v
	}
	for k, v := range s.bf {
		n.bf[k] = v
	}
	for k, v := range s.nf {
		n.nf[k] = v
	}
	for k, v := range s.cells {
		n.cells[k] = v
	}
	for k, v := range s.nz {
		n.nz[k] = v
	}
	for k, v := range s.nilp {
		n.nilp[k] = v
	}
	for k, v := range s.dirty {
		n.dirty[k] = append([]dirtyRec(nil), v...)
	}
	for k, v := range s.fresh {
		n.fresh[k] = v
	}
	return n
}

func valName(v ssa.Value) string {
	if p := v.Parent(); p != nil {
		return uniqFuncName(p) + "·" + v.Name()
	}
	return v.Name()
}

// key is the canonical identity of a state (for dedupe and memoisation).
func (s *State) key() string { return s.keyOf(true) }

// propKey is the identity of the property part only (locks, defers, cells, dirty bits, freshness):
// states that agree on it are merged at joins and their facts intersected (property simulation).
func (s *State) propKey() string { return s.keyOf(false) }

func (s *State) keyOf(facts bool) string {
	var sb strings.Builder
	for _, h := range s.held {
		sb.WriteString(h.Key)
		sb.WriteByte(':')
		sb.WriteByte(h.Mode)
		sb.WriteByte(';')
	}
	sb.WriteString("|D")
	for _, d := range s.defers {
		sb.WriteString(valName2(d.in))
		sb.WriteByte(';')
	}
	wr := func(tag string, m map[ssa.Value]bool) {
		ks := make([]string, 0, len(m))
		for k, v := range m {
			if v {
				ks = append(ks, valName(k)+"=1")
			} else {
				ks = append(ks, valName(k)+"=0")
			}
		}
		sort.Strings(ks)
		sb.WriteString(tag)
		sb.WriteString(strings.Join(ks, ","))
	}
	if facts {
		wr("|B", s.bf)
		wr("|N", s.nf)
	}
	ws := func(tag string, m map[string]pfact) {
		ks := make([]string, 0, len(m))
		for k, v := range m {
			if v.v {
				ks = append(ks, k+"=1")
			} else {
				ks = append(ks, k+"=0")
			}
		}
		sort.Strings(ks)
		sb.WriteString(tag)
		sb.WriteString(strings.Join(ks, ","))
	}
	if facts {
		ws("|Z", s.nz)
		ws("|P", s.nilp)
		ks := make([]string, 0, len(s.sg))
		for k, v := range s.sg {
			ks = append(ks, k+"="+string(rune('0'+v)))
		}
		sort.Strings(ks)
		sb.WriteString("|S" + strings.Join(ks, ","))
	}
	{
		ks := make([]string, 0, len(s.cells))
		for k, v := range s.cells {
			ks = append(ks, k+"="+string(rune('0'+v)))
		}
		sort.Strings(ks)
		sb.WriteString("|C" + strings.Join(ks, ","))
	}
	{
		ks := make([]string, 0, len(s.dirty))
		for k, v := range s.dirty {
			if len(v) > 0 {
				fs := make([]string, 0, len(v))
				for _, r := range v {
					fs = append(fs, r.Field+"@"+r.Func)
				}
				sort.Strings(fs)
				ks = append(ks, k+"{"+strings.Join(fs, ",")+"}")
			}
		}
		sort.Strings(ks)
		sb.WriteString("|X" + strings.Join(ks, ","))
	}
	{
		ks := make([]string, 0, len(s.marks))
		for k, v := range s.marks {
			ks = append(ks, k+"@"+v)
		}
		sort.Strings(ks)
		sb.WriteString("|M" + strings.Join(ks, ","))
	}
	{
		ks := make([]string, 0, len(s.fresh))
		for k, v := range s.fresh {
			if v {
				ks = append(ks, valName(k))
			}
		}
		sort.Strings(ks)
		sb.WriteString("|F" + strings.Join(ks, ","))
	}
	return sb.String()
}

func valName2(in ssa.Instruction) string {
	b := in.Block()
	idx := 0
	for i, x := range b.Instrs {
		if x == in {
			idx = i
		}
	}
	return FuncName(in.Parent()) + "#" + itoa(b.Index) + "." + itoa(idx)
}

func itoa(i int) string {
	if i == 0 {
		return "0"
	}
	neg := i < 0
	if neg {
		i = -i
	}
	var b [20]byte
	n := len(b)
	for i > 0 {
		n--
		b[n] = byte('0' + i%10)
		i /= 10
	}
	if neg {
		n--
		b[n] = '-'
	}
	return string(b[n:])
}

func (s *State) find(key string) int {
	for i, h := range s.held {
		if h.Key == key {
			return i
		}
	}
	return -1
}

func (s *State) add(h Held) {
	s.held = append(s.held, h)
	sort.Slice(s.held, func(i, j int) bool {
		if s.held[i].Key != s.held[j].Key {
			return s.held[i].Key < s.held[j].Key
		}
		return s.held[i].Mode < s.held[j].Mode
	})
}

func (s *State) remove(key string, mode byte) bool {
	for i, h := range s.held {
		if h.Key == key && h.Mode == mode {
			s.held = append(s.held[:i:i], s.held[i+1:]...)
			return true
		}
	}
	return false
}

func (s *State) heldClasses() []string {
	var r []string
	for _, h := range s.held {
		r = append(r, h.Class+":"+string(h.Mode))
	}
	return r
}

func (s *State) heldString() string {
	if len(s.held) == 0 {
		return "{}"
	}
	if os.Getenv("BB_TRACE_FACTS") != "" {
		var ks []string
		for _, h := range s.held {
			ks = append(ks, h.Class+"@"+h.Key)
		}
		return "{" + strings.Join(ks, ", ") + "}"
	}
	return "{" + strings.Join(s.heldClasses(), ", ") + "}"
}

// dropFrameFacts forgets facts about values defined in fn (activation ended / begins).
func (s *State) dropFrameFacts(fn *ssa.Function) {
	for k := range s.bf {
		if k.Parent() == fn {
			delete(s.bf, k)
		}
	}
	for k := range s.nf {
		if k.Parent() == fn {
			delete(s.nf, k)
		}
	}
	for k, v := range s.nz {
		if v.fn == fn {
			delete(s.nz, k)
		}
	}
	for k, v := range s.nilp {
		if v.fn == fn {
			delete(s.nilp, k)
		}
	}
	if len(s.sg) > 0 {
		prefix := uniqFuncName(fn) + "·"
		for k := range s.sg {
			if strings.HasPrefix(k, prefix) {
				delete(s.sg, k)
			}
		}
	}
}

// meet intersects the facts of o into s (both have the same property part).
func (s *State) meet(o *State) {
	for k, v := range s.bf {
		if ov, ok := o.bf[k]; !ok || ov != v {
			delete(s.bf, k)
		}
	}
	for k, v := range s.nf {
		if ov, ok := o.nf[k]; !ok || ov != v {
			delete(s.nf, k)
		}
	}
	for k, v := range s.nz {
		if ov, ok := o.nz[k]; !ok || ov != v {
			delete(s.nz, k)
		}
	}
	for k, v := range s.nilp {
		if ov, ok := o.nilp[k]; !ok || ov != v {
			delete(s.nilp, k)
		}
	}
	for k := range s.sg {
		if ov, ok := o.sg[k]; ok {
			s.sg[k] |= ov
			if s.sg[k] == 7 {
				delete(s.sg, k)
			}
		} else {
			delete(s.sg, k)
		}
	}
}
