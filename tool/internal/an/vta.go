package an

import (
	"sort"

	"golang.org/x/tools/go/callgraph"
	"golang.org/x/tools/go/callgraph/cha"
	"golang.org/x/tools/go/callgraph/vta"
	"golang.org/x/tools/go/ssa"
	"golang.org/x/tools/go/ssa/ssautil"
)

// VTACrossCheck compares every dynamic call the inliner resolved (interface invokes on the package's own
// interfaces, closures loaded from cells, package-level func variables, closures kept in a local slice) with
// the VTA call graph: the callee the inliner chose must be among VTA's callees for that site.
func VTACrossCheck(s *Sim) (checked int, disagreements []string) {
	prog := s.P.SSA
	all := ssautil.AllFunctions(prog)
	g := vta.CallGraph(all, cha.CallGraph(prog))
	byInstr := map[ssa.Instruction]map[*ssa.Function]bool{}
	callgraph.GraphVisitEdges(g, func(e *callgraph.Edge) error {
		if e.Site == nil {
			return nil
		}
		in := e.Site.(ssa.Instruction)
		if byInstr[in] == nil {
			byInstr[in] = map[*ssa.Function]bool{}
		}
		byInstr[in][e.Callee.Func] = true
		if o := e.Callee.Func.Origin(); o != nil {
			byInstr[in][o] = true
		}
		return nil
	})
	for in, fns := range s.ResolvedSites {
		for fn := range fns {
			checked++
			if !byInstr[in][fn] && !byInstr[in][Canon(fn)] {
				disagreements = append(disagreements, s.P.InstrPos(in)+" in "+FuncName(in.Parent())+": inliner resolved "+FuncName(fn)+", which VTA does not list for this site")
			}
		}
	}
	sort.Strings(disagreements)
	return
}
