package an

import (
	"go/constant"
	"go/token"
	"go/types"

	"golang.org/x/tools/go/ssa"
)

// TrueSet decides, for a pure boolean function of one small integer quantity k (for instance a reflect.Kind),
// the exact set of values of k for which it returns true. It is an abstract interpretation over the powerset of a
// finite domain (bit i of domain = value i is possible): every acyclic path is walked once with the set of values
// that can take it, refined at each comparison of k with a constant; nothing is executed. ok is false when the
// function does anything else (loops, calls other than the one producing k, non-constant results).
func (p *Prog) TrueSet(fn *ssa.Function, isK func(ssa.Value) bool, domain uint64) (tset uint64, ok bool, why string) {
	type bexpr struct {
		kind  int // 0 const, 1 cmp, 2 not
		b     bool
		op    token.Token
		c     int64
		inner *bexpr
	}
	var resolve func(v ssa.Value, env map[ssa.Value]*bexpr) *bexpr
	isKv := func(v ssa.Value) bool {
		for {
			switch x := v.(type) {
			case *ssa.Convert:
				v = x.X
				continue
			case *ssa.ChangeType:
				v = x.X
				continue
			}
			break
		}
		return isK(v)
	}
	constOf := func(v ssa.Value) (int64, bool) {
		c, ok := v.(*ssa.Const)
		if !ok || c.Value == nil || c.Value.Kind() != constant.Int {
			return 0, false
		}
		return c.Int64(), true
	}
	resolve = func(v ssa.Value, env map[ssa.Value]*bexpr) *bexpr {
		if e, ok := env[v]; ok {
			return e
		}
		switch x := v.(type) {
		case *ssa.Const:
			if x.Value != nil && x.Value.Kind() == constant.Bool {
				return &bexpr{kind: 0, b: constant.BoolVal(x.Value)}
			}
		case *ssa.UnOp:
			if x.Op == token.NOT {
				if in := resolve(x.X, env); in != nil {
					return &bexpr{kind: 2, inner: in}
				}
			}
		case *ssa.BinOp:
			op := x.Op
			var c int64
			var okc bool
			switch {
			case isKv(x.X):
				c, okc = constOf(x.Y)
			case isKv(x.Y):
				c, okc = constOf(x.X)
				switch op {
				case token.LSS:
					op = token.GTR
				case token.LEQ:
					op = token.GEQ
				case token.GTR:
					op = token.LSS
				case token.GEQ:
					op = token.LEQ
				}
			}
			if okc {
				switch op {
				case token.EQL, token.NEQ, token.LSS, token.LEQ, token.GTR, token.GEQ:
					return &bexpr{kind: 1, op: op, c: c}
				}
			}
		}
		return nil
	}
	var split func(e *bexpr, s uint64) (uint64, uint64)
	split = func(e *bexpr, s uint64) (t, f uint64) {
		switch e.kind {
		case 0:
			if e.b {
				return s, 0
			}
			return 0, s
		case 2:
			a, b := split(e.inner, s)
			return b, a
		}
		for i := int64(0); i < 64; i++ {
			if s&(1<<uint(i)) == 0 {
				continue
			}
			var holds bool
			switch e.op {
			case token.EQL:
				holds = i == e.c
			case token.NEQ:
				holds = i != e.c
			case token.LSS:
				holds = i < e.c
			case token.LEQ:
				holds = i <= e.c
			case token.GTR:
				holds = i > e.c
			case token.GEQ:
				holds = i >= e.c
			}
			if holds {
				t |= 1 << uint(i)
			} else {
				f |= 1 << uint(i)
			}
		}
		return
	}
	ok = true
	onPath := map[*ssa.BasicBlock]bool{}
	steps := 0
	var walk func(b, pred *ssa.BasicBlock, s uint64, env map[ssa.Value]*bexpr)
	walk = func(b, pred *ssa.BasicBlock, s uint64, env map[ssa.Value]*bexpr) {
		if !ok || s == 0 {
			return
		}
		steps++
		if onPath[b] || steps > 5000 {
			ok, why = false, "the function loops"
			return
		}
		onPath[b] = true
		defer delete(onPath, b)
		env2 := map[ssa.Value]*bexpr{}
		for k, v := range env {
			env2[k] = v
		}
		for _, in := range b.Instrs {
			switch x := in.(type) {
			case *ssa.Phi:
				idx := -1
				for i, pb := range b.Preds {
					if pb == pred {
						idx = i
					}
				}
				if idx < 0 {
					ok, why = false, "phi without predecessor"
					return
				}
				if e := resolve(x.Edges[idx], env); e != nil {
					env2[x] = e
				}
			case *ssa.DebugRef, *ssa.BinOp, *ssa.UnOp, *ssa.Convert, *ssa.ChangeType:
			case *ssa.Call:
				if !isK(x) {
					ok, why = false, "calls "+x.Call.String()
					return
				}
			case *ssa.Jump:
				walk(b.Succs[0], b, s, env2)
				return
			case *ssa.If:
				e := resolve(x.Cond, env2)
				if e == nil {
					ok, why = false, "branches on something other than a comparison of the subject with a constant: "+x.Cond.String()
					return
				}
				t, f := split(e, s)
				walk(b.Succs[0], b, t, env2)
				walk(b.Succs[1], b, f, env2)
				return
			case *ssa.Return:
				if len(x.Results) != 1 {
					ok, why = false, "not a single boolean result"
					return
				}
				e := resolve(x.Results[0], env2)
				if e == nil {
					ok, why = false, "returns a value that is not a constant or a comparison of the subject: "+x.Results[0].String()
					return
				}
				t, _ := split(e, s)
				tset |= t
				return
			default:
				ok, why = false, "unexpected instruction "+in.String()
				return
			}
		}
	}
	if len(fn.Blocks) == 0 {
		return 0, false, "no body"
	}
	walk(fn.Blocks[0], nil, domain, nil)
	return tset, ok, why
}

// PkgConstInt returns the value of an integer constant of an imported package (e.g. reflect.Chan).
func (p *Prog) PkgConstInt(pkgPath, name string) (int64, bool) {
	for _, imp := range p.Types.Imports() {
		if imp.Path() == pkgPath {
			if c, ok := imp.Scope().Lookup(name).(*types.Const); ok {
				v, exact := constant.Int64Val(c.Val())
				return v, exact
			}
		}
	}
	return 0, false
}
