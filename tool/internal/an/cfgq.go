package an

import (
	"go/constant"
	"go/token"
	"go/types"
	"sort"
	"strconv"
	"strings"

	"golang.org/x/tools/go/ssa"
)

// ---------------------------------------------------------------------------------------------
// E2: path queries on the SSA control-flow graph of one function

// Pred is a predicate on instructions.
type Pred func(ssa.Instruction) bool

// EdgeCut forbids the edge from block b to its i-th successor.
type EdgeCut func(b *ssa.BasicBlock, i int) bool

// PathExists: is there a path from just after `from` (nil = function entry of fn) to an instruction
// satisfying `to`, not passing through an instruction satisfying `avoid` and not using a cut edge?
// Panic-terminated blocks have no successors, so paths into a panic never reach anything after it.
func (p *Prog) PathExists(fn *ssa.Function, from ssa.Instruction, to, avoid Pred, cut EdgeCut) bool {
	// env: what the path knows about constant boolean results of the transparent helpers it came out of
	// ("t5#1=false;"): a later branch on such a result follows only the consistent edge
	type pos struct {
		b   *ssa.BasicBlock
		idx int
		env string
	}
	var st pos
	if from == nil {
		st = pos{fn.Blocks[0], 0, ""}
	} else {
		b := from.Block()
		i := 0
		for j, in := range b.Instrs {
			if in == from {
				i = j + 1
			}
		}
		st = pos{b, i, ""}
	}
	seen := map[pos]bool{}
	after := func(call ssa.Instruction) (*ssa.BasicBlock, int) {
		b := call.Block()
		for j, in := range b.Instrs {
			if in == call {
				return b, j + 1
			}
		}
		return b, len(b.Instrs)
	}
	setEnv := func(env, key string, val bool) string {
		// replace an older binding of the same result
		parts := strings.Split(env, ";")
		var out []string
		for _, pt := range parts {
			if pt == "" || strings.HasPrefix(pt, key+"=") {
				continue
			}
			out = append(out, pt)
		}
		v := "false"
		if val {
			v = "true"
		}
		out = append(out, key+"="+v)
		sort.Strings(out)
		return strings.Join(out, ";") + ";"
	}
	dropEnv := func(env, key string) string {
		if env == "" {
			return env
		}
		var out []string
		for _, pt := range strings.Split(env, ";") {
			if pt == "" || strings.HasPrefix(pt, key+"=") {
				continue
			}
			out = append(out, pt)
		}
		if len(out) == 0 {
			return ""
		}
		return strings.Join(out, ";") + ";"
	}
	// --- integer facts: constants carried by join phis (ι), the value a join phi received on this path (ρ), and
	// comparisons of a value with a constant that the path has decided (κ) ---
	setEnvS := func(env, key, val string) string {
		var out []string
		for _, pt := range strings.Split(env, ";") {
			if pt == "" || strings.HasPrefix(pt, key+"=") {
				continue
			}
			out = append(out, pt)
		}
		out = append(out, key+"="+val)
		sort.Strings(out)
		return strings.Join(out, ";") + ";"
	}
	getEnv := func(env, key string) (string, bool) {
		if env == "" {
			return "", false
		}
		for _, pt := range strings.Split(env, ";") {
			if strings.HasPrefix(pt, key+"=") {
				return pt[len(key)+1:], true
			}
		}
		return "", false
	}
	dropPrefix := func(env, prefix string) string {
		if env == "" || !strings.Contains(env, prefix) {
			return env
		}
		var out []string
		for _, pt := range strings.Split(env, ";") {
			if pt == "" || strings.HasPrefix(pt, prefix) {
				continue
			}
			out = append(out, pt)
		}
		if len(out) == 0 {
			return ""
		}
		return strings.Join(out, ";") + ";"
	}
	vkey := func(v ssa.Value) string {
		par := ""
		if in, ok := v.(ssa.Instruction); ok && in.Parent() != nil {
			par = uniqFuncName(in.Parent())
		} else if pr, ok := v.(*ssa.Parameter); ok {
			par = uniqFuncName(pr.Parent())
		}
		return v.Name() + "@" + par
	}
	intConst := func(v ssa.Value) (int64, bool) {
		c, ok := v.(*ssa.Const)
		if !ok || c.Value == nil || c.Value.Kind() != constant.Int {
			return 0, false
		}
		return c.Int64(), true
	}
	// resolve: the constant a value holds on this path, or the key of the value it stands for
	resolveInt := func(env string, v ssa.Value) (c int64, isC bool, key string) {
		// a read of a local variable with a single reaching assignment is that assignment's value
		for i := 0; i < 4; i++ {
			ld, isL := v.(*ssa.UnOp)
			if !isL || ld.Op != token.MUL {
				break
			}
			al := p.addrAlloc(ld.X)
			if al == nil {
				break
			}
			// ... or the last assignment in the block of the read
			var last ssa.Value
			for _, in2 := range ld.Block().Instrs {
				if in2 == ssa.Instruction(ld) {
					break
				}
				if st2, isSt := in2.(*ssa.Store); isSt && p.addrAlloc(st2.Addr) == al {
					last = st2.Val
				}
				if _, isCall := in2.(*ssa.Call); isCall && last != nil && len(*al.Referrers()) > 0 {
					// a call between the assignment and the read could write a captured variable
					for _, r := range *al.Referrers() {
						if _, isMC := r.(*ssa.MakeClosure); isMC {
							last = nil
						}
					}
				}
			}
			if last != nil {
				v = last
				continue
			}
			if len(p.storesToAlloc[al]) != 1 {
				break
			}
			v = p.storesToAlloc[al][0].Val
		}
		if k, ok := intConst(v); ok {
			return k, true, ""
		}
		if ph, ok := v.(*ssa.Phi); ok {
			if sv, has := getEnv(env, "ι"+vkey(ph)); has {
				if n, err := strconv.ParseInt(sv, 10, 64); err == nil {
					return n, true, ""
				}
			}
			if rk, has := getEnv(env, "ρ"+vkey(ph)); has {
				return 0, false, rk
			}
		}
		return 0, false, vkey(v)
	}
	holds := func(x int64, op token.Token, c int64) bool {
		switch op {
		case token.LSS:
			return x < c
		case token.LEQ:
			return x <= c
		case token.GTR:
			return x > c
		case token.GEQ:
			return x >= c
		case token.EQL:
			return x == c
		}
		return x != c
	}
	// cmpOf: cond as (value, op, constant), the constant on the right
	cmpParts := func(cond ssa.Value) (ssa.Value, token.Token, int64, bool) {
		b, ok := cond.(*ssa.BinOp)
		if !ok {
			return nil, 0, 0, false
		}
		switch b.Op {
		case token.LSS, token.LEQ, token.GTR, token.GEQ, token.EQL, token.NEQ:
		default:
			return nil, 0, 0, false
		}
		if bt, isB := b.X.Type().Underlying().(*types.Basic); !isB || bt.Info()&types.IsInteger == 0 {
			return nil, 0, 0, false
		}
		if c, isC := intConst(b.Y); isC {
			return b.X, b.Op, c, true
		}
		if c, isC := intConst(b.X); isC {
			op := b.Op
			switch b.Op {
			case token.LSS:
				op = token.GTR
			case token.LEQ:
				op = token.GEQ
			case token.GTR:
				op = token.LSS
			case token.GEQ:
				op = token.LEQ
			}
			return b.Y, op, c, true
		}
		return nil, 0, 0, false
	}
	// intKnown: the truth of an integer comparison given the path's facts
	intKnown := func(env string, cond ssa.Value) (bool, bool) {
		v, op, c, ok := cmpParts(cond)
		if !ok || env == "" {
			return false, false
		}
		k, isC, key := resolveInt(env, v)
		if isC {
			return holds(k, op, c), true
		}
		// candidate integers around every threshold mentioned for this value
		prefix := "κ" + key + "|"
		type fact struct {
			op    token.Token
			c     int64
			truth bool
		}
		var facts []fact
		for _, pt := range strings.Split(env, ";") {
			if !strings.HasPrefix(pt, prefix) {
				continue
			}
			rest := pt[len(prefix):]
			eq := strings.Index(rest, "=")
			bar := strings.Index(rest, "|")
			if eq < 0 || bar < 0 || bar > eq {
				continue
			}
			opn, err1 := strconv.Atoi(rest[:bar])
			cv, err2 := strconv.ParseInt(rest[bar+1:eq], 10, 64)
			if err1 != nil || err2 != nil {
				continue
			}
			facts = append(facts, fact{token.Token(opn), cv, rest[eq+1:] == "true"})
		}
		if len(facts) == 0 {
			return false, false
		}
		cands := map[int64]bool{c - 1: true, c: true, c + 1: true}
		for _, f := range facts {
			cands[f.c-1], cands[f.c], cands[f.c+1] = true, true, true
		}
		sawT, sawF := false, false
		for x := range cands {
			okx := true
			for _, f := range facts {
				if holds(x, f.op, f.c) != f.truth {
					okx = false
				}
			}
			if !okx {
				continue
			}
			if holds(x, op, c) {
				sawT = true
			} else {
				sawF = true
			}
		}
		if sawT != sawF {
			return sawT, true
		}
		return false, false
	}
	// intRecord: remember the outcome of an integer comparison with a constant
	intRecord := func(env string, cond ssa.Value, truth bool) string {
		for {
			if u, ok := cond.(*ssa.UnOp); ok && u.Op == token.NOT {
				cond, truth = u.X, !truth
				continue
			}
			break
		}
		v, op, c, ok := cmpParts(cond)
		if !ok {
			return env
		}
		_, isC, key := resolveInt(env, v)
		if isC || key == "" {
			return env
		}
		return setEnvS(env, "κ"+key+"|"+strconv.Itoa(int(op))+"|"+strconv.FormatInt(c, 10), map[bool]string{true: "true", false: "false"}[truth])
	}
	// what the branches that dominate the starting point decided about integers
	if from != nil {
		blk := from.Block()
		for d := blk; d != nil && d.Idom() != nil; d = d.Idom() {
			a := d.Idom()
			ifi, isIf := a.Instrs[len(a.Instrs)-1].(*ssa.If)
			if !isIf {
				continue
			}
			d0 := a.Succs[0].Dominates(blk) && len(a.Succs[0].Preds) == 1
			d1 := a.Succs[1].Dominates(blk) && len(a.Succs[1].Preds) == 1
			if d0 != d1 {
				st.env = intRecord(st.env, ifi.Cond, d0)
			}
		}
	}
	known := func(env string, cond ssa.Value) (bool, bool) {
		neg := false
		for {
			if u, ok := cond.(*ssa.UnOp); ok && u.Op == token.NOT {
				cond, neg = u.X, !neg
				continue
			}
			break
		}
		if b, ok := intKnown(env, cond); ok {
			return b != neg, true
		}
		key := ""
		switch x := cond.(type) {
		case *ssa.BinOp:
			// phi == nil / phi != nil, where the path recorded whether the value it joined is nil
			if x.Op == token.EQL || x.Op == token.NEQ {
				var ph *ssa.Phi
				if c, isC := x.Y.(*ssa.Const); isC && c.IsNil() {
					ph, _ = x.X.(*ssa.Phi)
				} else if c, isC := x.X.(*ssa.Const); isC && c.IsNil() {
					ph, _ = x.Y.(*ssa.Phi)
				}
				if ph != nil {
					key = "ν" + ph.Name() + "@" + uniqFuncName(ph.Parent())
					if x.Op == token.EQL {
						neg = !neg
					}
				}
			}
		case *ssa.Phi:
			key = "φ" + x.Name() + "@" + uniqFuncName(x.Parent())
		case *ssa.Extract:
			if call, ok := x.Tuple.(*ssa.Call); ok && TransparentCallee(call) != nil {
				key = call.Name() + "#" + itoa(x.Index)
			}
		case *ssa.Call:
			if TransparentCallee(x) != nil {
				key = x.Name() + "#0"
			}
		}
		if key == "" || env == "" {
			return false, false
		}
		for _, pt := range strings.Split(env, ";") {
			if strings.HasPrefix(pt, key+"=") {
				return (pt == key+"=true") != neg, true
			}
		}
		return false, false
	}
	var scan func(b *ssa.BasicBlock, idx int, env string) bool
	scan = func(b *ssa.BasicBlock, idx int, env string) bool {
		nested := IsTransparent(b.Parent())
		for j := idx; j < len(b.Instrs); j++ {
			in := b.Instrs[j]
			if ret, isRet := in.(*ssa.Return); isRet && nested {
				// the end of a transparent helper: continue behind its (only) call site, remembering constant booleans
				site := transparentSite[b.Parent()]
				env2 := env
				for k, r := range ret.Results {
					if c, isC := r.(*ssa.Const); isC && c.Value != nil && c.Value.Kind() == constant.Bool {
						env2 = setEnv(env2, site.Name()+"#"+itoa(k), constant.BoolVal(c.Value))
					}
				}
				cb, ci := after(site)
				c := pos{cb, ci, env2}
				if seen[c] {
					return false
				}
				seen[c] = true
				return scan(cb, ci, env2)
			}
			if to != nil && to(in) {
				return true
			}
			if avoid != nil && avoid(in) {
				return false
			}
			if k := TransparentCallee(in); k != nil && len(k.Blocks) > 0 {
				e := pos{k.Blocks[0], 0, env}
				if seen[e] {
					return false
				}
				seen[e] = true
				return scan(e.b, e.idx, env)
			}
		}
		only := -1
		if ifi, isIf := b.Instrs[len(b.Instrs)-1].(*ssa.If); isIf && env != "" {
			if v, ok := known(env, ifi.Cond); ok {
				only = 1
				if v {
					only = 0
				}
			}
		}
		for i, s := range b.Succs {
			if cut != nil && cut(b, i) {
				continue
			}
			if only >= 0 && i != only {
				continue
			}
			// entering a block with boolean phis (short-circuit || and &&): remember the constant this edge contributes
			env := env
			if ifi, isIf := b.Instrs[len(b.Instrs)-1].(*ssa.If); isIf {
				env = intRecord(env, ifi.Cond, i == 0)
			}
			// facts about values that the block about to be entered (re)computes are stale
			if strings.Contains(env, "κ") {
				for _, in := range s.Instrs {
					if v, isV := in.(ssa.Value); isV {
						if _, isPh := in.(*ssa.Phi); !isPh {
							env = dropPrefix(env, "κ"+vkey(v)+"|")
						}
					}
				}
			}
			for _, in := range s.Instrs {
				ph, isPh := in.(*ssa.Phi)
				if !isPh {
					break
				}
				bt, isB := ph.Type().Underlying().(*types.Basic)
				if !isB || bt.Info()&types.IsInteger == 0 {
					continue
				}
				for k, pb := range s.Preds {
					if pb != b {
						continue
					}
					pk := vkey(ph)
					c, isC, rk := resolveInt(env, ph.Edges[k])
					env = dropPrefix(env, "κ"+pk+"|")
					if isC {
						env = dropEnv(env, "ρ"+pk)
						env = setEnvS(env, "ι"+pk, strconv.FormatInt(c, 10))
					} else {
						env = dropEnv(env, "ι"+pk)
						env = setEnvS(env, "ρ"+pk, rk)
					}
				}
			}
			for _, in := range s.Instrs {
				ph, isPh := in.(*ssa.Phi)
				if !isPh {
					break
				}
				if !isBool(ph.Type()) {
					// nil-ness of a joined pointer / interface / func value
					for k, pb := range s.Preds {
						if pb != b {
							continue
						}
						key := "ν" + ph.Name() + "@" + uniqFuncName(ph.Parent())
						if nn, known := p.nilness(ph.Edges[k]); known {
							env = setEnv(env, key, nn)
						} else {
							env = dropEnv(env, key)
						}
					}
					continue
				}
				for k, pb := range s.Preds {
					if pb != b {
						continue
					}
					key := "φ" + ph.Name() + "@" + uniqFuncName(ph.Parent())
					if c, isC := ph.Edges[k].(*ssa.Const); isC && c.Value != nil && c.Value.Kind() == constant.Bool {
						env = setEnv(env, key, constant.BoolVal(c.Value))
					} else {
						env = dropEnv(env, key)
					}
				}
			}
			nx := pos{s, 0, env}
			if seen[nx] {
				continue
			}
			seen[nx] = true
			if scan(s, 0, env) {
				return true
			}
		}
		return false
	}
	return scan(st.b, st.idx, st.env)
}

func IsReturn(in ssa.Instruction) bool { _, ok := in.(*ssa.Return); return ok }

func IsPanic(in ssa.Instruction) bool { _, ok := in.(*ssa.Panic); return ok }

func In(set []ssa.Instruction) Pred {
	m := map[ssa.Instruction]bool{}
	for _, x := range set {
		m[x] = true
	}
	return func(in ssa.Instruction) bool { return m[in] }
}

func Is(x ssa.Instruction) Pred { return func(in ssa.Instruction) bool { return in == x } }

// Before: every path from entry to b passes through an instruction in as.
func (p *Prog) Before(fn *ssa.Function, as Pred, b ssa.Instruction) bool {
	return !p.PathExists(fn, nil, Is(b), as, nil)
}

// AfterAll: every path from a to a normal return passes through an instruction satisfying bs.
func (p *Prog) AfterAll(fn *ssa.Function, a ssa.Instruction, bs Pred) bool {
	return !p.PathExists(fn, a, IsReturn, bs, nil)
}

// Never: no path from a to an instruction satisfying bs.
func (p *Prog) Never(fn *ssa.Function, a ssa.Instruction, bs Pred) bool {
	return !p.PathExists(fn, a, bs, nil, nil)
}

// OnlyVia: site is reachable from entry only through the edge (If on cond, outcome val).
func (p *Prog) OnlyVia(fn *ssa.Function, site ssa.Instruction, ifi *ssa.If, val bool) bool {
	idx := 0
	if !val {
		idx = 1
	}
	// remove the edge: site must become unreachable; and the If must dominate the site
	cut := func(b *ssa.BasicBlock, i int) bool { return b == ifi.Block() && i == idx }
	return !p.PathExists(fn, nil, Is(site), nil, cut)
}

// IfsOn lists the If instructions whose condition satisfies pred (a leading NOT is stripped and
// reported through neg).
func (p *Prog) IfsOn(fn *ssa.Function, pred func(cond ssa.Value) bool) (ifs []*ssa.If, neg []bool) {
	for _, k := range transparentKids[fn] {
		defer func(k *ssa.Function) {
			i2, n2 := p.IfsOn(k, pred)
			ifs, neg = append(ifs, i2...), append(neg, n2...)
		}(k)
	}
	for _, b := range fn.Blocks {
		if len(b.Instrs) == 0 {
			continue
		}
		ifi, ok := b.Instrs[len(b.Instrs)-1].(*ssa.If)
		if !ok {
			continue
		}
		c := ifi.Cond
		n := false
		for {
			if u, ok := c.(*ssa.UnOp); ok && u.Op == token.NOT {
				c = u.X
				n = !n
				continue
			}
			break
		}
		if pred(c) {
			ifs = append(ifs, ifi)
			neg = append(neg, n)
		}
	}
	return
}

// ---------------------------------------------------------------------------------------------
// site patterns

// AllInstrs lists the instructions of fn satisfying pred.
func AllInstrs(fn *ssa.Function, pred Pred) []ssa.Instruction {
	var out []ssa.Instruction
	if fn == nil {
		return nil
	}
	for _, b := range fn.Blocks {
		for _, in := range b.Instrs {
			if pred(in) {
				out = append(out, in)
			}
		}
	}
	for _, k := range transparentKids[fn] {
		for _, in := range AllInstrs(k, pred) {
			// the returns of a transparent closure are not exits of the enclosing function
			if _, isRet := in.(*ssa.Return); isRet {
				continue
			}
			out = append(out, in)
		}
	}
	return out
}

// CalleeName names the target of a call/defer/go: FuncName for in-package functions (generic
// instantiations and bound wrappers mapped to the method), "pkg.Func"/"(*T).M" for others,
// "invoke:Iface.Method" for interface calls, "builtin:name", "dynamic" otherwise.
func (p *Prog) CalleeName(c *ssa.CallCommon) string {
	if c.IsInvoke() {
		t := c.Value.Type()
		n := types.TypeString(t, func(pk *types.Package) string { return pk.Name() })
		return "invoke:" + n + "." + c.Method.Name()
	}
	if b, ok := c.Value.(*ssa.Builtin); ok {
		return "builtin:" + b.Name()
	}
	if callee := c.StaticCallee(); callee != nil {
		cf := Canon(callee)
		if p.IsLib(cf) {
			return FuncName(cf)
		}
		if cf.Pkg != nil && cf.Pkg.Pkg == p.Types {
			return FuncName(cf)
		}
		return cf.String()
	}
	// bound method value: x.Unsubscribe
	if mc, ok := c.Value.(*ssa.MakeClosure); ok {
		return FuncName(mc.Fn.(*ssa.Function))
	}
	// a func-typed field: b.cancel()
	if u, ok := c.Value.(*ssa.UnOp); ok && u.Op == token.MUL {
		if f := FieldOfAddr(u.X); f != "" {
			return "field:" + f
		}
	}
	return "dynamic"
}

// CallCommonOf returns the call part of a Call, Defer or Go instruction.
func CallCommonOf(in ssa.Instruction) *ssa.CallCommon {
	switch x := in.(type) {
	case *ssa.Call:
		return &x.Call
	case *ssa.Defer:
		return &x.Call
	case *ssa.Go:
		return &x.Call
	}
	return nil
}

// CallsTo lists Call/Defer/Go instructions in fn whose callee name equals (or, with a trailing
// "*", starts with) name.
func (p *Prog) CallsTo(fn *ssa.Function, name string) []ssa.Instruction {
	return AllInstrs(fn, func(in ssa.Instruction) bool {
		c := CallCommonOf(in)
		if c == nil {
			return false
		}
		n := p.CalleeName(c)
		if strings.HasSuffix(name, "*") {
			return strings.HasPrefix(n, strings.TrimSuffix(name, "*"))
		}
		return n == name
	})
}

// DynCallsOf lists calls whose callee is the given value (or a load of the given cell).
func (p *Prog) DynCallsOf(fn *ssa.Function, isCallee func(v ssa.Value) bool) []ssa.Instruction {
	return AllInstrs(fn, func(in ssa.Instruction) bool {
		c := CallCommonOf(in)
		return c != nil && !c.IsInvoke() && c.StaticCallee() == nil && isCallee(c.Value)
	})
}

// fieldOfAddr: the field selected by an address value (FieldAddr), as "Type.field".
func FieldOfAddr(a ssa.Value) string {
	fa, ok := a.(*ssa.FieldAddr)
	if !ok {
		return ""
	}
	sg, ok := fieldSeg(fa.X.Type(), fa.Field)
	if !ok {
		return ""
	}
	return sg.Owner + "." + sg.Field.Name()
}

// FieldStores lists stores to the named field ("Type.field") in fn.
func FieldStores(fn *ssa.Function, field string) []ssa.Instruction {
	return AllInstrs(fn, func(in ssa.Instruction) bool {
		st, ok := in.(*ssa.Store)
		return ok && FieldOfAddr(st.Addr) == field
	})
}

// FieldLoads lists loads of the named field in fn.
func FieldLoads(fn *ssa.Function, field string) []ssa.Instruction {
	return AllInstrs(fn, func(in ssa.Instruction) bool {
		u, ok := in.(*ssa.UnOp)
		return ok && u.Op == token.MUL && FieldOfAddr(u.X) == field
	})
}

// IsLoadOfField reports whether v is (a conversion of) a load of the named field.
func IsLoadOfField(v ssa.Value, field string) bool {
	for i := 0; i < 4; i++ {
		switch x := v.(type) {
		case *ssa.UnOp:
			if x.Op == token.MUL {
				return FieldOfAddr(x.X) == field
			}
			return false
		case *ssa.Convert:
			v = x.X
		case *ssa.ChangeType:
			v = x.X
		default:
			return false
		}
	}
	return false
}

// CellByName finds the Alloc with the given source name (Comment) in fn.
func CellByName(fn *ssa.Function, name string) *ssa.Alloc {
	for _, b := range fn.Blocks {
		for _, in := range b.Instrs {
			if a, ok := in.(*ssa.Alloc); ok && a.Comment == name {
				return a
			}
		}
	}
	return nil
}

// CellOf resolves an address operand (Alloc or FreeVar) to its cell.
func (p *Prog) CellOf(a ssa.Value) *ssa.Alloc { return p.addrAlloc(a) }

// CellStores lists all stores to the cell, in its function and in closures.
func (p *Prog) CellStores(cell *ssa.Alloc) []*ssa.Store { return p.storesToAlloc[cell] }

// CellLoads lists the loads of a cell inside fn (directly or through a free variable).
func (p *Prog) CellLoads(fn *ssa.Function, cell *ssa.Alloc) []ssa.Instruction {
	return AllInstrs(fn, func(in ssa.Instruction) bool {
		u, ok := in.(*ssa.UnOp)
		return ok && u.Op == token.MUL && p.addrAlloc(u.X) == cell
	})
}

// ---------------------------------------------------------------------------------------------
// PROV: value provenance

// Sources returns the leaves a value can come from, looking through phis, conversions, interface
// boxing, tuple extraction of comma-ok forms and store-forwarded cells.
func (p *Prog) Sources(v ssa.Value) []ssa.Value {
	seen := map[ssa.Value]bool{}
	var out []ssa.Value
	var walk func(v ssa.Value, d int)
	walk = func(v ssa.Value, d int) {
		if seen[v] || d > 30 {
			return
		}
		seen[v] = true
		switch x := v.(type) {
		case *ssa.Phi:
			if p.phiFeasible != nil {
				if ks := p.phiFeasible(x); ks != nil {
					for _, k := range ks {
						walk(x.Edges[k], d+1)
					}
					return
				}
			}
			for _, e := range x.Edges {
				walk(e, d+1)
			}
		case *ssa.Parameter:
			// parameter of a transparent closure: the argument at its only call site
			if site := transparentSite[x.Parent()]; site != nil {
				for i, prm := range x.Parent().Params {
					if prm == x && i < len(site.Call.Args) {
						walk(site.Call.Args[i], d+1)
						return
					}
				}
			}
			// parameter of a library function that is called (or started with go / defer) at exactly one place and never
			// used as a value: the argument at that place
			if site := p.onlySite(x.Parent()); site != nil && p.throughParams {
				cc := site.Common()
				for i, prm := range x.Parent().Params {
					if prm == x && i < len(cc.Args) {
						walk(cc.Args[i], d+1)
						return
					}
				}
			}
			out = append(out, v)
		case *ssa.Call:
			if k := TransparentCallee(x); k != nil {
				n := 0
				for _, b := range k.Blocks {
					if r, ok := b.Instrs[len(b.Instrs)-1].(*ssa.Return); ok && len(r.Results) == 1 {
						walk(r.Results[0], d+1)
						n++
					}
				}
				if n > 0 {
					return
				}
			}
			out = append(out, v)
		case *ssa.Extract:
			if call, ok := x.Tuple.(*ssa.Call); ok {
				if k := TransparentCallee(call); k != nil {
					n := 0
					for _, b := range k.Blocks {
						if r, ok := b.Instrs[len(b.Instrs)-1].(*ssa.Return); ok && x.Index < len(r.Results) {
							walk(r.Results[x.Index], d+1)
							n++
						}
					}
					if n > 0 {
						return
					}
				}
			}
			out = append(out, v)
		case *ssa.ChangeType:
			walk(x.X, d+1)
		case *ssa.Convert:
			walk(x.X, d+1)
		case *ssa.ChangeInterface:
			walk(x.X, d+1)
		case *ssa.MakeInterface:
			walk(x.X, d+1)
		case *ssa.UnOp:
			if x.Op == token.MUL {
				if al := p.addrAlloc(x.X); al != nil {
					sts := p.storesToAlloc[al]
					if len(sts) > 0 {
						for _, st := range sts {
							walk(st.Val, d+1)
						}
						// a zero-initialised cell also yields the zero value
						return
					}
				}
			}
			out = append(out, v)
		default:
			out = append(out, v)
		}
	}
	walk(v, 0)
	return out
}

// IsCallResult: v is the (i-th) result of a call whose callee name is name.
func (p *Prog) IsCallResult(v ssa.Value, name string, idx int) bool {
	// through a transparent helper: the value the helper returns
	if call, ok := v.(*ssa.Call); ok && TransparentCallee(call) != nil {
		if srcs := p.Sources(v); len(srcs) == 1 && srcs[0] != v {
			return p.IsCallResult(srcs[0], name, idx)
		}
	}
	if ex, ok := v.(*ssa.Extract); ok {
		if call, isC := ex.Tuple.(*ssa.Call); isC && TransparentCallee(call) != nil {
			if srcs := p.Sources(v); len(srcs) == 1 && srcs[0] != v {
				return p.IsCallResult(srcs[0], name, idx)
			}
		}
	}
	switch x := v.(type) {
	case *ssa.Call:
		return idx <= 0 && p.CalleeName(&x.Call) == name
	case *ssa.Extract:
		if c, ok := x.Tuple.(*ssa.Call); ok {
			return (idx < 0 || x.Index == idx) && p.CalleeName(&c.Call) == name
		}
	}
	return false
}

// SourcesAt is Sources as seen from instruction at: a join phi whose sibling boolean phi (same block, constant
// operands) is tested by a branch that dominates at contributes only the operands of the edges that test allows
// (a value and the ok flag that left a helper together: behind `if ok`, the value is the one returned with true).
func (p *Prog) SourcesAt(v ssa.Value, at ssa.Instruction) []ssa.Value {
	feas := p.feasibleAt(at)
	if feas == nil {
		return p.Sources(v)
	}
	saved := p.phiFeasible
	p.phiFeasible = func(x *ssa.Phi) []int { return feas(x.Block()) }
	out := p.Sources(v)
	p.phiFeasible = saved
	return out
}

// FeasibleEdges lists the incoming edges of join block blk that are consistent with the branches dominating at (nil:
// no constraint known).
func (p *Prog) FeasibleEdges(blk *ssa.BasicBlock, at ssa.Instruction) []int {
	feas := p.feasibleAt(at)
	if feas == nil {
		return nil
	}
	return feas(blk)
}

func (p *Prog) feasibleAt(at ssa.Instruction) func(blk *ssa.BasicBlock) []int {
	type fact struct {
		ph   *ssa.Phi
		want bool
		nilT bool // a nil test: want = "is non-nil"
		intT bool // an integer comparison with a constant: (phi op c) == want
		op   token.Token
		c    int64
	}
	var facts []fact
	from := at.Block()
	for d := from; d != nil && d.Idom() != nil; d = d.Idom() {
		a := d.Idom()
		ifi, isIf := a.Instrs[len(a.Instrs)-1].(*ssa.If)
		if !isIf {
			continue
		}
		d0 := a.Succs[0].Dominates(from) && len(a.Succs[0].Preds) == 1
		d1 := a.Succs[1].Dominates(from) && len(a.Succs[1].Preds) == 1
		if d0 == d1 {
			continue
		}
		cond, want := ifi.Cond, d0
		for {
			if u, ok := cond.(*ssa.UnOp); ok && u.Op == token.NOT {
				cond, want = u.X, !want
				continue
			}
			break
		}
		if ph, ok := cond.(*ssa.Phi); ok && isBool(ph.Type()) {
			facts = append(facts, fact{ph: ph, want: want})
		}
		// x != nil / x == nil on a joined pointer, error, ...
		if bo, ok := cond.(*ssa.BinOp); ok && (bo.Op == token.EQL || bo.Op == token.NEQ) {
			var other ssa.Value
			if cn, isC := bo.Y.(*ssa.Const); isC && cn.IsNil() {
				other = bo.X
			} else if cn, isC := bo.X.(*ssa.Const); isC && cn.IsNil() {
				other = bo.Y
			}
			if ph, isPh := other.(*ssa.Phi); isPh {
				facts = append(facts, fact{ph: ph, want: want == (bo.Op == token.NEQ), nilT: true})
			}
		}
		// n <= 0 and the like on a joined integer (also read back from the variable it was just assigned to)
		if bo, ok := cond.(*ssa.BinOp); ok {
			var v ssa.Value
			var c int64
			op := bo.Op
			if k, isC := bo.Y.(*ssa.Const); isC && k.Value != nil && k.Value.Kind() == constant.Int {
				v, c = bo.X, k.Int64()
			} else if k, isC := bo.X.(*ssa.Const); isC && k.Value != nil && k.Value.Kind() == constant.Int {
				v, c = bo.Y, k.Int64()
				switch op {
				case token.LSS:
					op = token.GTR
				case token.LEQ:
					op = token.GEQ
				case token.GTR:
					op = token.LSS
				case token.GEQ:
					op = token.LEQ
				}
			}
			switch op {
			case token.LSS, token.LEQ, token.GTR, token.GEQ, token.EQL, token.NEQ:
			default:
				v = nil
			}
			if ld, isL := v.(*ssa.UnOp); isL && ld.Op == token.MUL {
				if al := p.addrAlloc(ld.X); al != nil {
					var last ssa.Value
					for _, in2 := range ld.Block().Instrs {
						if in2 == ssa.Instruction(ld) {
							break
						}
						if st2, isSt := in2.(*ssa.Store); isSt && p.addrAlloc(st2.Addr) == al {
							last = st2.Val
						} else if _, isCall := in2.(*ssa.Call); isCall {
							last = nil
						}
					}
					if last != nil {
						v = last
					}
				}
			}
			if ph, isPh := v.(*ssa.Phi); isPh {
				facts = append(facts, fact{ph: ph, want: want, intT: true, op: op, c: c})
			}
		}
	}
	// nil tests of any value (not only joins) that hold at `at`: an edge into a join that is only taken on the opposite
	// outcome of a test of the same value cannot lie on a path to `at` (the value is an SSA value: it does not change)
	atNil := p.nilFactsOf(from)
	if len(facts) == 0 && len(atNil) == 0 {
		return nil
	}
	return func(blk *ssa.BasicBlock) []int {
		for _, pb := range blk.Preds {
			if blk.Dominates(pb) {
				return nil
			}
		}
		var ks []int
		constrained := false
		for k := range blk.Preds {
			ok := true
			if len(atNil) > 0 && blk.Dominates(from) {
				pb := blk.Preds[k]
				ef := p.nilFactsOf(pb)
				if ifi, isIf := pb.Instrs[len(pb.Instrs)-1].(*ssa.If); isIf && pb.Succs[0] != pb.Succs[1] {
					if v, nonNilWhenTrue, isT := nilTestOfCond(ifi.Cond); isT {
						if ef == nil {
							ef = map[ssa.Value]bool{}
						}
						ef[v] = nonNilWhenTrue == (pb.Succs[0] == blk)
					}
				}
				for v, nn := range ef {
					if want, has := atNil[v]; has && want != nn {
						ok = false
						constrained = true
					}
				}
			}
			for _, f := range facts {
				if f.ph.Block() != blk {
					continue
				}
				if f.intT {
					if k, isC := f.ph.Edges[k].(*ssa.Const); isC && k.Value != nil && k.Value.Kind() == constant.Int {
						constrained = true
						x := k.Int64()
						var h bool
						switch f.op {
						case token.LSS:
							h = x < f.c
						case token.LEQ:
							h = x <= f.c
						case token.GTR:
							h = x > f.c
						case token.GEQ:
							h = x >= f.c
						case token.EQL:
							h = x == f.c
						default:
							h = x != f.c
						}
						if h != f.want {
							ok = false
						}
					}
					continue
				}
				if f.nilT {
					if nn, known := p.nilness(f.ph.Edges[k]); known {
						constrained = true
						if nn != f.want {
							ok = false
						}
					}
					continue
				}
				if cb, isC := f.ph.Edges[k].(*ssa.Const); isC && cb.Value != nil && cb.Value.Kind() == constant.Bool {
					constrained = true
					if constant.BoolVal(cb.Value) != f.want {
						ok = false
					}
				}
			}
			if ok {
				ks = append(ks, k)
			}
		}
		if !constrained || len(ks) == 0 {
			return nil
		}
		return ks
	}
}

// nilTestOfCond: cond is (a negation of) v == nil / v != nil; nonNilWhenTrue tells what a true outcome means.
func nilTestOfCond(cond ssa.Value) (v ssa.Value, nonNilWhenTrue bool, ok bool) {
	neg := false
	for {
		if u, isU := cond.(*ssa.UnOp); isU && u.Op == token.NOT {
			cond, neg = u.X, !neg
			continue
		}
		break
	}
	bo, isB := cond.(*ssa.BinOp)
	if !isB || (bo.Op != token.EQL && bo.Op != token.NEQ) {
		return nil, false, false
	}
	if cn, isC := bo.Y.(*ssa.Const); isC && cn.IsNil() {
		v = bo.X
	} else if cn, isC := bo.X.(*ssa.Const); isC && cn.IsNil() {
		v = bo.Y
	}
	if v == nil {
		return nil, false, false
	}
	return v, (bo.Op == token.NEQ) != neg, true
}

// nilFactsOf: the nil tests decided on every path to block b (taken from the branches that dominate it).
func (p *Prog) nilFactsOf(b *ssa.BasicBlock) map[ssa.Value]bool {
	var out map[ssa.Value]bool
	for d := b; d != nil && d.Idom() != nil; d = d.Idom() {
		a := d.Idom()
		ifi, isIf := a.Instrs[len(a.Instrs)-1].(*ssa.If)
		if !isIf {
			continue
		}
		d0 := a.Succs[0].Dominates(b) && len(a.Succs[0].Preds) == 1
		d1 := a.Succs[1].Dominates(b) && len(a.Succs[1].Preds) == 1
		if d0 == d1 {
			continue
		}
		if v, nonNilWhenTrue, ok := nilTestOfCond(ifi.Cond); ok {
			if out == nil {
				out = map[ssa.Value]bool{}
			}
			if _, has := out[v]; !has {
				out[v] = nonNilWhenTrue == d0
			}
		}
	}
	return out
}

// nilness: whether a value is known to be non-nil (true) or nil (false) by its construction: the nil constant;
// allocations, closures, interface boxing, make(...); errors.New and fmt.Errorf (which never return nil).
func (p *Prog) nilness(v ssa.Value) (nonNil bool, known bool) {
	switch x := v.(type) {
	case *ssa.Const:
		if x.IsNil() {
			return false, true
		}
	case *ssa.Alloc, *ssa.MakeClosure, *ssa.MakeInterface, *ssa.MakeMap, *ssa.MakeChan, *ssa.MakeSlice, *ssa.Function:
		return true, true
	case *ssa.Call:
		switch p.CalleeName(&x.Call) {
		case "fmt.Errorf", "errors.New":
			return true, true
		}
	}
	return false, false
}

// onlySite returns the only call site (call, go or defer with a static callee) of a library function that is not
// otherwise referenced (as a value, a method value or through an interface), or nil.
func (p *Prog) onlySite(fn *ssa.Function) ssa.CallInstruction {
	if fn == nil || !p.IsLib(Canon(fn)) {
		return nil
	}
	if p.siteIndex == nil {
		p.siteIndex = map[*ssa.Function][]ssa.CallInstruction{}
		p.valueUse = map[*ssa.Function]bool{}
		for _, f := range p.AllFuncs() {
			for _, b := range f.Blocks {
				for _, in := range b.Instrs {
					var callee *ssa.Function
					if ci, ok := in.(ssa.CallInstruction); ok {
						if c := ci.Common().StaticCallee(); c != nil && !ci.Common().IsInvoke() {
							callee = Canon(c)
							p.siteIndex[callee] = append(p.siteIndex[callee], ci)
						}
					}
					for _, op := range in.Operands(nil) {
						if op == nil || *op == nil {
							continue
						}
						if g, ok := (*op).(*ssa.Function); ok {
							g = Canon(g)
							if mc, isMC := in.(*ssa.MakeClosure); isMC && mc.Fn == *op {
								// a literal that is only ever called where it stands (go/defer/call of the literal)
								onlyCalled := mc.Referrers() != nil
								if onlyCalled {
									for _, ref := range *mc.Referrers() {
										if _, isDbg := ref.(*ssa.DebugRef); isDbg {
											continue
										}
										if ci, isCI := ref.(ssa.CallInstruction); !isCI || ci.Common().Value != ssa.Value(mc) {
											onlyCalled = false
										} else {
											for _, a := range ci.Common().Args {
												if a == ssa.Value(mc) {
													onlyCalled = false
												}
											}
										}
									}
								}
								if !onlyCalled {
									p.valueUse[g] = true
								}
								continue
							}
							if g != callee || !isCallValue(in, *op) {
								p.valueUse[g] = true
							}
						}
					}
				}
			}
		}
	}
	fn = Canon(fn)
	if p.valueUse[fn] || len(p.siteIndex[fn]) != 1 {
		return nil
	}
	// exported functions and methods can be called from outside the package
	if fn.Object() != nil && fn.Object().Exported() {
		return nil
	}
	return p.siteIndex[fn][0]
}

func isCallValue(in ssa.Instruction, op ssa.Value) bool {
	ci, ok := in.(ssa.CallInstruction)
	if !ok {
		return false
	}
	if ci.Common().Value != op {
		return false
	}
	for _, a := range ci.Common().Args {
		if a == op {
			return false
		}
	}
	return true
}

// SourcesDeep is Sources that also looks through the parameters of library functions with a single call site
// (`go x.wait(x.stop, x.done)`: inside wait, stop is x.stop as read at that go statement).
func (p *Prog) SourcesDeep(v ssa.Value) []ssa.Value {
	saved := p.throughParams
	p.throughParams = true
	out := p.Sources(v)
	p.throughParams = saved
	return out
}
