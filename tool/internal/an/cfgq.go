package an

import (
	"go/constant"
	"go/token"
	"go/types"
	"sort"
	"strings"

	"golang.org/x/tools/go/ssa"
)

// ---------------------------------------------------------------------------------------------
// E2: path queries on the SSA control-flow graph of one function

// Pred is a predicate on instructions.
type Pred func(ssa.Instruction) bool

// EdgeCut forbids the edge from block b to its i-th successor.
type EdgeCut func(b *ssa.BasicBlock, i int) bool

// PathExists: is there a path from just after `from` (nil = function entry of fn) to an instruction
// satisfying `to`, not passing through an instruction satisfying `avoid` and not using a cut edge?
// Panic-terminated blocks have no successors, so paths into a panic never reach anything after it.
func (p *Prog) PathExists(fn *ssa.Function, from ssa.Instruction, to, avoid Pred, cut EdgeCut) bool {
	// env: what the path knows about constant boolean results of the transparent helpers it came out of
	// ("t5#1=false;"): a later branch on such a result follows only the consistent edge
	type pos struct {
		b   *ssa.BasicBlock
		idx int
		env string
	}
	var st pos
	if from == nil {
		st = pos{fn.Blocks[0], 0, ""}
	} else {
		b := from.Block()
		i := 0
		for j, in := range b.Instrs {
			if in == from {
				i = j + 1
			}
		}
		st = pos{b, i, ""}
	}
	seen := map[pos]bool{}
	after := func(call ssa.Instruction) (*ssa.BasicBlock, int) {
		b := call.Block()
		for j, in := range b.Instrs {
			if in == call {
				return b, j + 1
			}
		}
		return b, len(b.Instrs)
	}
	setEnv := func(env, key string, val bool) string {
		// replace an older binding of the same result
		parts := strings.Split(env, ";")
		var out []string
		for _, pt := range parts {
			if pt == "" || strings.HasPrefix(pt, key+"=") {
				continue
			}
			out = append(out, pt)
		}
		v := "false"
		if val {
			v = "true"
		}
		out = append(out, key+"="+v)
		sort.Strings(out)
		return strings.Join(out, ";") + ";"
	}
	dropEnv := func(env, key string) string {
		if env == "" {
			return env
		}
		var out []string
		for _, pt := range strings.Split(env, ";") {
			if pt == "" || strings.HasPrefix(pt, key+"=") {
				continue
			}
			out = append(out, pt)
		}
		if len(out) == 0 {
			return ""
		}
		return strings.Join(out, ";") + ";"
	}
	known := func(env string, cond ssa.Value) (bool, bool) {
		neg := false
		for {
			if u, ok := cond.(*ssa.UnOp); ok && u.Op == token.NOT {
				cond, neg = u.X, !neg
				continue
			}
			break
		}
		key := ""
		switch x := cond.(type) {
		case *ssa.BinOp:
			// phi == nil / phi != nil, where the path recorded whether the value it joined is nil
			if x.Op == token.EQL || x.Op == token.NEQ {
				var ph *ssa.Phi
				if c, isC := x.Y.(*ssa.Const); isC && c.IsNil() {
					ph, _ = x.X.(*ssa.Phi)
				} else if c, isC := x.X.(*ssa.Const); isC && c.IsNil() {
					ph, _ = x.Y.(*ssa.Phi)
				}
				if ph != nil {
					key = "ν" + ph.Name() + "@" + uniqFuncName(ph.Parent())
					if x.Op == token.EQL {
						neg = !neg
					}
				}
			}
		case *ssa.Phi:
			key = "φ" + x.Name() + "@" + uniqFuncName(x.Parent())
		case *ssa.Extract:
			if call, ok := x.Tuple.(*ssa.Call); ok && TransparentCallee(call) != nil {
				key = call.Name() + "#" + itoa(x.Index)
			}
		case *ssa.Call:
			if TransparentCallee(x) != nil {
				key = x.Name() + "#0"
			}
		}
		if key == "" || env == "" {
			return false, false
		}
		for _, pt := range strings.Split(env, ";") {
			if strings.HasPrefix(pt, key+"=") {
				return (pt == key+"=true") != neg, true
			}
		}
		return false, false
	}
	var scan func(b *ssa.BasicBlock, idx int, env string) bool
	scan = func(b *ssa.BasicBlock, idx int, env string) bool {
		nested := IsTransparent(b.Parent())
		for j := idx; j < len(b.Instrs); j++ {
			in := b.Instrs[j]
			if ret, isRet := in.(*ssa.Return); isRet && nested {
				// the end of a transparent helper: continue behind its (only) call site, remembering constant booleans
				site := transparentSite[b.Parent()]
				env2 := env
				for k, r := range ret.Results {
					if c, isC := r.(*ssa.Const); isC && c.Value != nil && c.Value.Kind() == constant.Bool {
						env2 = setEnv(env2, site.Name()+"#"+itoa(k), constant.BoolVal(c.Value))
					}
				}
				cb, ci := after(site)
				c := pos{cb, ci, env2}
				if seen[c] {
					return false
				}
				seen[c] = true
				return scan(cb, ci, env2)
			}
			if to != nil && to(in) {
				return true
			}
			if avoid != nil && avoid(in) {
				return false
			}
			if k := TransparentCallee(in); k != nil && len(k.Blocks) > 0 {
				e := pos{k.Blocks[0], 0, env}
				if seen[e] {
					return false
				}
				seen[e] = true
				return scan(e.b, e.idx, env)
			}
		}
		only := -1
		if ifi, isIf := b.Instrs[len(b.Instrs)-1].(*ssa.If); isIf && env != "" {
			if v, ok := known(env, ifi.Cond); ok {
				only = 1
				if v {
					only = 0
				}
			}
		}
		for i, s := range b.Succs {
			if cut != nil && cut(b, i) {
				continue
			}
			if only >= 0 && i != only {
				continue
			}
			// entering a block with boolean phis (short-circuit || and &&): remember the constant this edge contributes
			env := env
			for _, in := range s.Instrs {
				ph, isPh := in.(*ssa.Phi)
				if !isPh {
					break
				}
				if !isBool(ph.Type()) {
					// nil-ness of a joined pointer / interface / func value
					for k, pb := range s.Preds {
						if pb != b {
							continue
						}
						key := "ν" + ph.Name() + "@" + uniqFuncName(ph.Parent())
						if nn, known := p.nilness(ph.Edges[k]); known {
							env = setEnv(env, key, nn)
						} else {
							env = dropEnv(env, key)
						}
					}
					continue
				}
				for k, pb := range s.Preds {
					if pb != b {
						continue
					}
					key := "φ" + ph.Name() + "@" + uniqFuncName(ph.Parent())
					if c, isC := ph.Edges[k].(*ssa.Const); isC && c.Value != nil && c.Value.Kind() == constant.Bool {
						env = setEnv(env, key, constant.BoolVal(c.Value))
					} else {
						env = dropEnv(env, key)
					}
				}
			}
			nx := pos{s, 0, env}
			if seen[nx] {
				continue
			}
			seen[nx] = true
			if scan(s, 0, env) {
				return true
			}
		}
		return false
	}
	return scan(st.b, st.idx, st.env)
}

func IsReturn(in ssa.Instruction) bool { _, ok := in.(*ssa.Return); return ok }

func IsPanic(in ssa.Instruction) bool { _, ok := in.(*ssa.Panic); return ok }

func In(set []ssa.Instruction) Pred {
	m := map[ssa.Instruction]bool{}
	for _, x := range set {
		m[x] = true
	}
	return func(in ssa.Instruction) bool { return m[in] }
}

func Is(x ssa.Instruction) Pred { return func(in ssa.Instruction) bool { return in == x } }

// Before: every path from entry to b passes through an instruction in as.
func (p *Prog) Before(fn *ssa.Function, as Pred, b ssa.Instruction) bool {
	return !p.PathExists(fn, nil, Is(b), as, nil)
}

// AfterAll: every path from a to a normal return passes through an instruction satisfying bs.
func (p *Prog) AfterAll(fn *ssa.Function, a ssa.Instruction, bs Pred) bool {
	return !p.PathExists(fn, a, IsReturn, bs, nil)
}

// Never: no path from a to an instruction satisfying bs.
func (p *Prog) Never(fn *ssa.Function, a ssa.Instruction, bs Pred) bool {
	return !p.PathExists(fn, a, bs, nil, nil)
}

// OnlyVia: site is reachable from entry only through the edge (If on cond, outcome val).
func (p *Prog) OnlyVia(fn *ssa.Function, site ssa.Instruction, ifi *ssa.If, val bool) bool {
	idx := 0
	if !val {
		idx = 1
	}
	// remove the edge: site must become unreachable; and the If must dominate the site
	cut := func(b *ssa.BasicBlock, i int) bool { return b == ifi.Block() && i == idx }
	return !p.PathExists(fn, nil, Is(site), nil, cut)
}

// IfsOn lists the If instructions whose condition satisfies pred (a leading NOT is stripped and
// reported through neg).
func (p *Prog) IfsOn(fn *ssa.Function, pred func(cond ssa.Value) bool) (ifs []*ssa.If, neg []bool) {
	for _, k := range transparentKids[fn] {
		defer func(k *ssa.Function) {
			i2, n2 := p.IfsOn(k, pred)
			ifs, neg = append(ifs, i2...), append(neg, n2...)
		}(k)
	}
	for _, b := range fn.Blocks {
		if len(b.Instrs) == 0 {
			continue
		}
		ifi, ok := b.Instrs[len(b.Instrs)-1].(*ssa.If)
		if !ok {
			continue
		}
		c := ifi.Cond
		n := false
		for {
			if u, ok := c.(*ssa.UnOp); ok && u.Op == token.NOT {
				c = u.X
				n = !n
				continue
			}
			break
		}
		if pred(c) {
			ifs = append(ifs, ifi)
			neg = append(neg, n)
		}
	}
	return
}

// ---------------------------------------------------------------------------------------------
// site patterns

// AllInstrs lists the instructions of fn satisfying pred.
func AllInstrs(fn *ssa.Function, pred Pred) []ssa.Instruction {
	var out []ssa.Instruction
	if fn == nil {
		return nil
	}
	for _, b := range fn.Blocks {
		for _, in := range b.Instrs {
			if pred(in) {
				out = append(out, in)
			}
		}
	}
	for _, k := range transparentKids[fn] {
		for _, in := range AllInstrs(k, pred) {
			// the returns of a transparent closure are not exits of the enclosing function
			if _, isRet := in.(*ssa.Return); isRet {
				continue
			}
			out = append(out, in)
		}
	}
	return out
}

// CalleeName names the target of a call/defer/go: FuncName for in-package functions (generic
// instantiations and bound wrappers mapped to the method), "pkg.Func"/"(*T).M" for others,
// "invoke:Iface.Method" for interface calls, "builtin:name", "dynamic" otherwise.
func (p *Prog) CalleeName(c *ssa.CallCommon) string {
	if c.IsInvoke() {
		t := c.Value.Type()
		n := types.TypeString(t, func(pk *types.Package) string { return pk.Name() })
		return "invoke:" + n + "." + c.Method.Name()
	}
	if b, ok := c.Value.(*ssa.Builtin); ok {
		return "builtin:" + b.Name()
	}
	if callee := c.StaticCallee(); callee != nil {
		cf := Canon(callee)
		if p.IsLib(cf) {
			return FuncName(cf)
		}
		if cf.Pkg != nil && cf.Pkg.Pkg == p.Types {
			return FuncName(cf)
		}
		return cf.String()
	}
	// bound method value: x.Unsubscribe
	if mc, ok := c.Value.(*ssa.MakeClosure); ok {
		return FuncName(mc.Fn.(*ssa.Function))
	}
	// a func-typed field: b.cancel()
	if u, ok := c.Value.(*ssa.UnOp); ok && u.Op == token.MUL {
		if f := FieldOfAddr(u.X); f != "" {
			return "field:" + f
		}
	}
	return "dynamic"
}

// CallCommonOf returns the call part of a Call, Defer or Go instruction.
func CallCommonOf(in ssa.Instruction) *ssa.CallCommon {
	switch x := in.(type) {
	case *ssa.Call:
		return &x.Call
	case *ssa.Defer:
		return &x.Call
	case *ssa.Go:
		return &x.Call
	}
	return nil
}

// CallsTo lists Call/Defer/Go instructions in fn whose callee name equals (or, with a trailing
// "*", starts with) name.
func (p *Prog) CallsTo(fn *ssa.Function, name string) []ssa.Instruction {
	return AllInstrs(fn, func(in ssa.Instruction) bool {
		c := CallCommonOf(in)
		if c == nil {
			return false
		}
		n := p.CalleeName(c)
		if strings.HasSuffix(name, "*") {
			return strings.HasPrefix(n, strings.TrimSuffix(name, "*"))
		}
		return n == name
	})
}

// DynCallsOf lists calls whose callee is the given value (or a load of the given cell).
func (p *Prog) DynCallsOf(fn *ssa.Function, isCallee func(v ssa.Value) bool) []ssa.Instruction {
	return AllInstrs(fn, func(in ssa.Instruction) bool {
		c := CallCommonOf(in)
		return c != nil && !c.IsInvoke() && c.StaticCallee() == nil && isCallee(c.Value)
	})
}

// fieldOfAddr: the field selected by an address value (FieldAddr), as "Type.field".
func FieldOfAddr(a ssa.Value) string {
	fa, ok := a.(*ssa.FieldAddr)
	if !ok {
		return ""
	}
	sg, ok := fieldSeg(fa.X.Type(), fa.Field)
	if !ok {
		return ""
	}
	return sg.Owner + "." + sg.Field.Name()
}

// FieldStores lists stores to the named field ("Type.field") in fn.
func FieldStores(fn *ssa.Function, field string) []ssa.Instruction {
	return AllInstrs(fn, func(in ssa.Instruction) bool {
		st, ok := in.(*ssa.Store)
		return ok && FieldOfAddr(st.Addr) == field
	})
}

// FieldLoads lists loads of the named field in fn.
func FieldLoads(fn *ssa.Function, field string) []ssa.Instruction {
	return AllInstrs(fn, func(in ssa.Instruction) bool {
		u, ok := in.(*ssa.UnOp)
		return ok && u.Op == token.MUL && FieldOfAddr(u.X) == field
	})
}

// IsLoadOfField reports whether v is (a conversion of) a load of the named field.
func IsLoadOfField(v ssa.Value, field string) bool {
	for i := 0; i < 4; i++ {
		switch x := v.(type) {
		case *ssa.UnOp:
			if x.Op == token.MUL {
				return FieldOfAddr(x.X) == field
			}
			return false
		case *ssa.Convert:
			v = x.X
		case *ssa.ChangeType:
			v = x.X
		default:
			return false
		}
	}
	return false
}

// CellByName finds the Alloc with the given source name (Comment) in fn.
func CellByName(fn *ssa.Function, name string) *ssa.Alloc {
	for _, b := range fn.Blocks {
		for _, in := range b.Instrs {
			if a, ok := in.(*ssa.Alloc); ok && a.Comment == name {
				return a
			}
		}
	}
	return nil
}

// CellOf resolves an address operand (Alloc or FreeVar) to its cell.
func (p *Prog) CellOf(a ssa.Value) *ssa.Alloc { return p.addrAlloc(a) }

// CellStores lists all stores to the cell, in its function and in closures.
func (p *Prog) CellStores(cell *ssa.Alloc) []*ssa.Store { return p.storesToAlloc[cell] }

// CellLoads lists the loads of a cell inside fn (directly or through a free variable).
func (p *Prog) CellLoads(fn *ssa.Function, cell *ssa.Alloc) []ssa.Instruction {
	return AllInstrs(fn, func(in ssa.Instruction) bool {
		u, ok := in.(*ssa.UnOp)
		return ok && u.Op == token.MUL && p.addrAlloc(u.X) == cell
	})
}

// ---------------------------------------------------------------------------------------------
// PROV: value provenance

// Sources returns the leaves a value can come from, looking through phis, conversions, interface
// boxing, tuple extraction of comma-ok forms and store-forwarded cells.
func (p *Prog) Sources(v ssa.Value) []ssa.Value {
	seen := map[ssa.Value]bool{}
	var out []ssa.Value
	var walk func(v ssa.Value, d int)
	walk = func(v ssa.Value, d int) {
		if seen[v] || d > 30 {
			return
		}
		seen[v] = true
		switch x := v.(type) {
		case *ssa.Phi:
			if p.phiFeasible != nil {
				if ks := p.phiFeasible(x); ks != nil {
					for _, k := range ks {
						walk(x.Edges[k], d+1)
					}
					return
				}
			}
			for _, e := range x.Edges {
				walk(e, d+1)
			}
		case *ssa.Parameter:
			// parameter of a transparent closure: the argument at its only call site
			if site := transparentSite[x.Parent()]; site != nil {
				for i, prm := range x.Parent().Params {
					if prm == x && i < len(site.Call.Args) {
						walk(site.Call.Args[i], d+1)
						return
					}
				}
			}
			out = append(out, v)
		case *ssa.Call:
			if k := TransparentCallee(x); k != nil {
				n := 0
				for _, b := range k.Blocks {
					if r, ok := b.Instrs[len(b.Instrs)-1].(*ssa.Return); ok && len(r.Results) == 1 {
						walk(r.Results[0], d+1)
						n++
					}
				}
				if n > 0 {
					return
				}
			}
			out = append(out, v)
		case *ssa.Extract:
			if call, ok := x.Tuple.(*ssa.Call); ok {
				if k := TransparentCallee(call); k != nil {
					n := 0
					for _, b := range k.Blocks {
						if r, ok := b.Instrs[len(b.Instrs)-1].(*ssa.Return); ok && x.Index < len(r.Results) {
							walk(r.Results[x.Index], d+1)
							n++
						}
					}
					if n > 0 {
						return
					}
				}
			}
			out = append(out, v)
		case *ssa.ChangeType:
			walk(x.X, d+1)
		case *ssa.Convert:
			walk(x.X, d+1)
		case *ssa.ChangeInterface:
			walk(x.X, d+1)
		case *ssa.MakeInterface:
			walk(x.X, d+1)
		case *ssa.UnOp:
			if x.Op == token.MUL {
				if al := p.addrAlloc(x.X); al != nil {
					sts := p.storesToAlloc[al]
					if len(sts) > 0 {
						for _, st := range sts {
							walk(st.Val, d+1)
						}
						// a zero-initialised cell also yields the zero value
						return
					}
				}
			}
			out = append(out, v)
		default:
			out = append(out, v)
		}
	}
	walk(v, 0)
	return out
}

// IsCallResult: v is the (i-th) result of a call whose callee name is name.
func (p *Prog) IsCallResult(v ssa.Value, name string, idx int) bool {
	// through a transparent helper: the value the helper returns
	if call, ok := v.(*ssa.Call); ok && TransparentCallee(call) != nil {
		if srcs := p.Sources(v); len(srcs) == 1 && srcs[0] != v {
			return p.IsCallResult(srcs[0], name, idx)
		}
	}
	if ex, ok := v.(*ssa.Extract); ok {
		if call, isC := ex.Tuple.(*ssa.Call); isC && TransparentCallee(call) != nil {
			if srcs := p.Sources(v); len(srcs) == 1 && srcs[0] != v {
				return p.IsCallResult(srcs[0], name, idx)
			}
		}
	}
	switch x := v.(type) {
	case *ssa.Call:
		return idx <= 0 && p.CalleeName(&x.Call) == name
	case *ssa.Extract:
		if c, ok := x.Tuple.(*ssa.Call); ok {
			return (idx < 0 || x.Index == idx) && p.CalleeName(&c.Call) == name
		}
	}
	return false
}

// SourcesAt is Sources as seen from instruction at: a join phi whose sibling boolean phi (same block, constant
// operands) is tested by a branch that dominates at contributes only the operands of the edges that test allows
// (a value and the ok flag that left a helper together: behind `if ok`, the value is the one returned with true).
func (p *Prog) SourcesAt(v ssa.Value, at ssa.Instruction) []ssa.Value {
	feas := p.feasibleAt(at)
	if feas == nil {
		return p.Sources(v)
	}
	saved := p.phiFeasible
	p.phiFeasible = func(x *ssa.Phi) []int { return feas(x.Block()) }
	out := p.Sources(v)
	p.phiFeasible = saved
	return out
}

// FeasibleEdges lists the incoming edges of join block blk that are consistent with the branches dominating at (nil:
// no constraint known).
func (p *Prog) FeasibleEdges(blk *ssa.BasicBlock, at ssa.Instruction) []int {
	feas := p.feasibleAt(at)
	if feas == nil {
		return nil
	}
	return feas(blk)
}

func (p *Prog) feasibleAt(at ssa.Instruction) func(blk *ssa.BasicBlock) []int {
	type fact struct {
		ph   *ssa.Phi
		want bool
		nilT bool // a nil test: want = "is non-nil"
	}
	var facts []fact
	from := at.Block()
	for d := from; d != nil && d.Idom() != nil; d = d.Idom() {
		a := d.Idom()
		ifi, isIf := a.Instrs[len(a.Instrs)-1].(*ssa.If)
		if !isIf {
			continue
		}
		d0 := a.Succs[0].Dominates(from) && len(a.Succs[0].Preds) == 1
		d1 := a.Succs[1].Dominates(from) && len(a.Succs[1].Preds) == 1
		if d0 == d1 {
			continue
		}
		cond, want := ifi.Cond, d0
		for {
			if u, ok := cond.(*ssa.UnOp); ok && u.Op == token.NOT {
				cond, want = u.X, !want
				continue
			}
			break
		}
		if ph, ok := cond.(*ssa.Phi); ok && isBool(ph.Type()) {
			facts = append(facts, fact{ph, want, false})
		}
		// x != nil / x == nil on a joined pointer, error, ...
		if bo, ok := cond.(*ssa.BinOp); ok && (bo.Op == token.EQL || bo.Op == token.NEQ) {
			var other ssa.Value
			if cn, isC := bo.Y.(*ssa.Const); isC && cn.IsNil() {
				other = bo.X
			} else if cn, isC := bo.X.(*ssa.Const); isC && cn.IsNil() {
				other = bo.Y
			}
			if ph, isPh := other.(*ssa.Phi); isPh {
				facts = append(facts, fact{ph, want == (bo.Op == token.NEQ), true})
			}
		}
	}
	if len(facts) == 0 {
		return nil
	}
	return func(blk *ssa.BasicBlock) []int {
		for _, pb := range blk.Preds {
			if blk.Dominates(pb) {
				return nil
			}
		}
		var ks []int
		constrained := false
		for k := range blk.Preds {
			ok := true
			for _, f := range facts {
				if f.ph.Block() != blk {
					continue
				}
				if f.nilT {
					if nn, known := p.nilness(f.ph.Edges[k]); known {
						constrained = true
						if nn != f.want {
							ok = false
						}
					}
					continue
				}
				if cb, isC := f.ph.Edges[k].(*ssa.Const); isC && cb.Value != nil && cb.Value.Kind() == constant.Bool {
					constrained = true
					if constant.BoolVal(cb.Value) != f.want {
						ok = false
					}
				}
			}
			if ok {
				ks = append(ks, k)
			}
		}
		if !constrained || len(ks) == 0 {
			return nil
		}
		return ks
	}
}

// nilness: whether a value is known to be non-nil (true) or nil (false) by its construction: the nil constant;
// allocations, closures, interface boxing, make(...); errors.New and fmt.Errorf (which never return nil).
func (p *Prog) nilness(v ssa.Value) (nonNil bool, known bool) {
	switch x := v.(type) {
	case *ssa.Const:
		if x.IsNil() {
			return false, true
		}
	case *ssa.Alloc, *ssa.MakeClosure, *ssa.MakeInterface, *ssa.MakeMap, *ssa.MakeChan, *ssa.MakeSlice, *ssa.Function:
		return true, true
	case *ssa.Call:
		switch p.CalleeName(&x.Call) {
		case "fmt.Errorf", "errors.New":
			return true, true
		}
	}
	return false, false
}
