package an

import (
	"fmt"
	"go/constant"
	"go/token"
	"go/types"
	"sort"
	"strings"
	"sync"

	"golang.org/x/tools/go/ssa"
)

// ---------------------------------------------------------------------------------------------
// E3: symbolic normal forms

// Lin is a linear form: C + sum T[atom]*atom.
type Lin struct {
	C int64
	T map[string]int64
}

func linConst(c int64) Lin     { return Lin{C: c, T: map[string]int64{}} }
func LinAtom(a string) Lin     { return Lin{T: map[string]int64{a: 1}} }
func (l Lin) Plus(o Lin) Lin   { return l.comb(o, 1) }
func (l Lin) Minus(o Lin) Lin  { return l.comb(o, -1) }
func (l Lin) AddC(c int64) Lin { return l.comb(linConst(c), 1) }
func (l Lin) Neg() Lin         { return linConst(0).comb(l, -1) }
func (l Lin) Equal(o Lin) bool { return l.String() == o.String() }
func (l Lin) IsConst() bool    { return len(l.T) == 0 }

func (l Lin) comb(o Lin, k int64) Lin {
	r := Lin{C: l.C + k*o.C, T: map[string]int64{}}
	for a, c := range l.T {
		r.T[a] += c
	}
	for a, c := range o.T {
		r.T[a] += k * c
	}
	for a, c := range r.T {
		if c == 0 {
			delete(r.T, a)
		}
	}
	return r
}

func (l Lin) scale(k int64) Lin {
	r := Lin{C: l.C * k, T: map[string]int64{}}
	for a, c := range l.T {
		if c*k != 0 {
			r.T[a] = c * k
		}
	}
	return r
}

func (l Lin) String() string {
	var ks []string
	for a := range l.T {
		ks = append(ks, a)
	}
	sort.Strings(ks)
	var sb strings.Builder
	for _, a := range ks {
		c := l.T[a]
		switch {
		case c == 1:
			sb.WriteString(" +" + a)
		case c == -1:
			sb.WriteString(" -" + a)
		default:
			sb.WriteString(fmt.Sprintf(" %+d*%s", c, a))
		}
	}
	if l.C != 0 || len(ks) == 0 {
		sb.WriteString(fmt.Sprintf(" %+d", l.C))
	}
	return strings.TrimSpace(sb.String())
}

// atom names ------------------------------------------------------------------------------------

// PathAtom names a location by its access path relative to the function's own parameters /
// receivers / free variables / cells ("b.buffer", "c.offset", "cm.offset").
func (p *Prog) PathAtom(v Val) string {
	if v.K != KPath {
		return v.Key()
	}
	n := v.Root.Name()
	switch r := v.Root.(type) {
	case *ssa.Alloc:
		if r.Comment != "" {
			n = r.Comment
		}
	case *ssa.Parameter, *ssa.FreeVar:
	default:
		n = "%" + n
	}
	for _, s := range v.Segs {
		n += s.String()
	}
	return n
}

// Lin computes the linear form of an integer SSA value (symbolically; nothing is executed).
func (p *Prog) Lin(v ssa.Value) Lin { return p.lin(v, 0) }

func sameIntKind(a, b types.Type) bool {
	ba, ok1 := a.Underlying().(*types.Basic)
	bb, ok2 := b.Underlying().(*types.Basic)
	if !ok1 || !ok2 {
		return false
	}
	sz := func(k types.BasicKind) int {
		switch k {
		case types.Int8, types.Uint8:
			return 8
		case types.Int16, types.Uint16:
			return 16
		case types.Int32, types.Uint32:
			return 32
		case types.Int64, types.Uint64:
			return 64
		case types.Int, types.Uint, types.Uintptr:
			return 0 // platform
		}
		return -1
	}
	ua, ub := ba.Info()&types.IsUnsigned != 0, bb.Info()&types.IsUnsigned != 0
	return ba.Info()&types.IsInteger != 0 && bb.Info()&types.IsInteger != 0 && ua == ub && sz(ba.Kind()) == sz(bb.Kind())
}

func (p *Prog) lin(v ssa.Value, d int) Lin {
	if d > 30 {
		return LinAtom(rootKey(v))
	}
	switch x := v.(type) {
	case *ssa.Const:
		if i, ok := (Val{K: KConst, Const: x}).ConstInt(); ok {
			return linConst(i)
		}
		if b, ok := (Val{K: KConst, Const: x}).ConstBool(); ok {
			if b {
				return linConst(1)
			}
			return linConst(0)
		}
		if x.IsNil() {
			return linConst(0)
		}
	case *ssa.BinOp:
		switch x.Op {
		case token.ADD:
			if isIntType(x.Type()) {
				return p.lin(x.X, d+1).Plus(p.lin(x.Y, d+1))
			}
		case token.SUB:
			if isIntType(x.Type()) {
				return p.lin(x.X, d+1).Minus(p.lin(x.Y, d+1))
			}
		case token.MUL:
			a, b := p.lin(x.X, d+1), p.lin(x.Y, d+1)
			if a.IsConst() {
				return b.scale(a.C)
			}
			if b.IsConst() {
				return a.scale(b.C)
			}
		}
		return LinAtom("(" + p.lin(x.X, d+1).String() + ")" + x.Op.String() + "(" + p.lin(x.Y, d+1).String() + ")")
	case *ssa.UnOp:
		switch x.Op {
		case token.SUB:
			return p.lin(x.X, d+1).Neg()
		case token.MUL:
			if al := p.addrAlloc(x.X); al != nil {
				sts := p.storesToAlloc[al]
				if len(sts) == 1 {
					return p.lin(sts[0].Val, d+1)
				}
				// a local variable assigned more than once: the store that reaches this read, if it is the only one
				if at := p.linWhere(x); at != nil && len(sts) > 1 {
					fn := at.Parent()
					var defs []ssa.Instruction
					same := true
					for _, st := range sts {
						if Host(st.Parent()) != Host(fn) {
							same = false
						}
						defs = append(defs, st)
					}
					if same {
						var reach []*ssa.Store
						for i, dd := range defs {
							var others []ssa.Instruction
							for j, o := range defs {
								if j != i {
									others = append(others, o)
								}
							}
							if p.PathExists(Host(fn), dd, Is(at), In(others), nil) {
								reach = append(reach, sts[i])
							}
						}
						entry := p.PathExists(Host(fn), nil, Is(at), In(defs), nil)
						if len(reach) == 1 && !entry {
							save := p.linAt
							l := p.lin(reach[0].Val, d+1)
							p.linAt = save
							return l
						}
					}
				}
				return LinAtom("cell:" + pickName(al))
			}
			a := p.Eval(p.linFrame, x.X)
			atom := p.PathAtom(a)
			if st, suffix := p.version(atom, p.linWhere(x), false); st != nil {
				// the only definition that reaches this load: its value
				if p.linFrame == nil {
					return p.lin(st.Val, d+1)
				}
				return LinAtom("F(" + atom + ")@" + st.Val.Name())
			} else if suffix != "" {
				return LinAtom("F(" + atom + ")" + suffix)
			}
			return LinAtom("F(" + atom + ")")
		case token.NOT:
			return LinAtom("!(" + p.lin(x.X, d+1).String() + ")")
		}
	case *ssa.Convert:
		if sameIntKind(x.Type(), x.X.Type()) {
			return p.lin(x.X, d+1)
		}
		// widening/narrowing conversions are kept as an explicit atom
		return LinAtom("conv[" + types.TypeString(x.Type(), nil) + "](" + p.lin(x.X, d+1).String() + ")")
	case *ssa.ChangeType:
		return p.lin(x.X, d+1)
	case *ssa.Call:
		if b, ok := x.Call.Value.(*ssa.Builtin); ok && b.Name() == "len" && len(x.Call.Args) == 1 {
			// len(s[lo:hi]) = hi - lo ; len(s[lo:]) = len(s) - lo
			if sl, isS := x.Call.Args[0].(*ssa.Slice); isS {
				if _, isSliceT := sl.X.Type().Underlying().(*types.Slice); isSliceT {
					lo := linConst(0)
					if sl.Low != nil {
						lo = p.lin(sl.Low, d+1)
					}
					if sl.High != nil {
						return p.lin(sl.High, d+1).Minus(lo)
					}
					inner := p.Eval(p.linFrame, sl.X)
					return LinAtom("len(" + p.PathAtom(inner) + ")").Minus(lo)
				}
			}
		}
		if b, ok := x.Call.Value.(*ssa.Builtin); ok && (b.Name() == "len" || b.Name() == "cap") && len(x.Call.Args) == 1 {
			a := p.Eval(p.linFrame, x.Call.Args[0])
			_, suffix := p.version(p.PathAtom(a), p.linWhere(x), true)
			return LinAtom(b.Name() + "(" + p.PathAtom(a) + ")" + suffix)
		}
		if b, ok := x.Call.Value.(*ssa.Builtin); ok && (b.Name() == "min" || b.Name() == "max") {
			var parts []string
			for _, a := range x.Call.Args {
				parts = append(parts, p.lin(a, d+1).String())
			}
			sort.Strings(parts)
			return LinAtom(b.Name() + "(" + strings.Join(parts, ",") + ")")
		}
		if l, ok := p.linAccessor(x, d); ok {
			return l
		}
		return LinAtom("call:" + p.CalleeName(&x.Call) + "@" + x.Name())
	case *ssa.Extract:
		switch t := x.Tuple.(type) {
		case *ssa.Lookup:
			m := p.Eval(p.linFrame, t.X)
			_, suffix := p.version(p.PathAtom(m), p.linWhere(t), true)
			if x.Index == 0 {
				return LinAtom("M(" + p.PathAtom(m) + ")[" + p.lin(t.Index, d+1).String() + "]" + suffix)
			}
			return LinAtom("has(" + p.PathAtom(m) + ")[" + p.lin(t.Index, d+1).String() + "]" + suffix)
		case *ssa.Call:
			// a result of a helper that is analysed as part of this function (comma-ok style: the failing returns
			// yield constants): the value of the returns that report success
			if k := TransparentCallee(t); k != nil {
				if l, ok := p.transparentResult(t, k, x.Index, d); ok {
					return l
				}
			}
			return LinAtom("call:" + p.CalleeName(&t.Call) + "#" + itoa(x.Index) + "@" + t.Name())
		case *ssa.Next:
			if rg, ok := t.Iter.(*ssa.Range); ok {
				a := p.Eval(p.linFrame, rg.X)
				return LinAtom("range(" + p.PathAtom(a) + ")#" + itoa(x.Index))
			}
		case *ssa.TypeAssert:
			return LinAtom("assert:" + t.Name() + "#" + itoa(x.Index))
		}
	case *ssa.Lookup:
		m := p.Eval(p.linFrame, x.X)
		_, suffix := p.version(p.PathAtom(m), p.linWhere(x), true)
		return LinAtom("M(" + p.PathAtom(m) + ")[" + p.lin(x.Index, d+1).String() + "]" + suffix)
	case *ssa.Phi:
		// inside a path-condition walk: the operand contributed by the edge the path took (join phis only)
		if e, ok := p.phiEnv[x]; ok && d < 40 {
			return p.lin(e, d+1)
		}
		// a value that leaves a (former) helper together with an ok flag: a join with a sibling boolean phi of
		// constants, where the operands on the flag's false edges are constants (the zero value callers must not use):
		// the value of the edges on which the flag is true, when they agree
		if l, ok := p.commaOkJoin(x, d); ok {
			return l
		}
		if p.inLinPhi == nil {
			p.inLinPhi = map[*ssa.Phi]bool{}
		}
		if p.inLinPhi[x] {
			return LinAtom("phi:" + pickPhiName(x))
		}
		p.inLinPhi[x] = true
		var first Lin
		same := true
		n := 0
		for _, e := range x.Edges {
			if e == v {
				continue
			}
			l := p.lin(e, d+1)
			if n == 0 {
				first = l
			} else if !l.Equal(first) {
				same = false
			}
			n++
		}
		delete(p.inLinPhi, x)
		if same && n > 0 && first.T != nil {
			// a loop-carried value is not equal to its own seed
			if _, self := first.T["phi:"+pickPhiName(x)]; !self {
				return first
			}
		}
		return LinAtom("phi:" + pickPhiName(x))
	case *ssa.Parameter:
		if p.linArgs != nil {
			if l, ok := p.linArgs[x]; ok {
				return l
			}
		}
		return LinAtom("P(" + x.Name() + ")")
	case *ssa.FreeVar:
		// a captured cell: resolve to its alloc for naming
		if al := p.freeVarAlloc(x); al != nil {
			return LinAtom("cell:" + pickName(al))
		}
		return LinAtom("FV(" + x.Name() + ")")
	}
	return LinAtom("%" + rootKey(v))
}

func isIntType(t types.Type) bool {
	b, ok := t.Underlying().(*types.Basic)
	return ok && b.Info()&types.IsInteger != 0
}

func pickName(al *ssa.Alloc) string {
	if al.Comment != "" {
		return al.Comment
	}
	return al.Name()
}

func pickPhiName(ph *ssa.Phi) string {
	if ph.Comment != "" {
		return ph.Comment
	}
	return ph.Name()
}

// ---------------------------------------------------------------------------------------------
// conditions as sign constraints on linear forms

const (
	SNeg  uint8 = 1
	SZero uint8 = 2
	SPos  uint8 = 4
	SAny  uint8 = 7
)

// Lit constrains the sign of a (normalised) linear form.
type Lit struct {
	Form string // canonical form text
	Set  uint8  // allowed signs
}

// normalise makes the leading term positive; returns whether signs were flipped.
func normForm(l Lin) (Lin, bool) {
	var ks []string
	for a := range l.T {
		ks = append(ks, a)
	}
	sort.Strings(ks)
	if len(ks) == 0 {
		return l, false
	}
	if l.T[ks[0]] < 0 {
		return l.Neg(), true
	}
	return l, false
}

func flipSet(s uint8) uint8 {
	r := s & SZero
	if s&SNeg != 0 {
		r |= SPos
	}
	if s&SPos != 0 {
		r |= SNeg
	}
	return r
}

// MkLit builds the literal "l ∈ set".
func MkLit(l Lin, set uint8) Lit {
	n, fl := normForm(l)
	if fl {
		set = flipSet(set)
	}
	f := n.String()
	formMu.Lock()
	formReg[f] = n
	formMu.Unlock()
	return Lit{Form: f, Set: set}
}

// formReg remembers the linear form behind every literal's key, so that forms differing only in their
// constant term (x and x-1: `x <= 0` vs `x < 1`) are compared with integer semantics.
var (
	formMu  sync.Mutex
	formReg = map[string]Lin{}
)

// FormBase is the constant-free part of a literal's form (the form itself when unknown).
func FormBase(form string) string {
	formMu.Lock()
	l, ok := formReg[form]
	formMu.Unlock()
	if !ok || len(l.T) == 0 {
		return form
	}
	return Lin{T: l.T}.String()
}

// FormLinBase returns the constant-free linear form behind a literal's key.
func FormLinBase(form string) Lin {
	formMu.Lock()
	defer formMu.Unlock()
	l, ok := formReg[form]
	if !ok {
		return LinAtom(form)
	}
	return Lin{T: l.T}
}

func formConst(form string) int64 {
	formMu.Lock()
	defer formMu.Unlock()
	return formReg[form].C
}

// CondLit turns a branch condition (and the polarity taken) into a literal.
func (p *Prog) CondLit(cond ssa.Value, val bool) Lit {
	for {
		if u, ok := cond.(*ssa.UnOp); ok && u.Op == token.NOT {
			cond = u.X
			val = !val
			continue
		}
		// the boolean result of a transparent helper that returns constants: the branch inside the helper that decides it
		if c2, neg, ok := p.boolAlias(cond); ok {
			cond = c2
			if neg {
				val = !val
			}
			continue
		}
		break
	}
	if b, ok := cond.(*ssa.BinOp); ok {
		var set uint8
		switch b.Op {
		case token.LSS:
			set = SNeg
		case token.LEQ:
			set = SNeg | SZero
		case token.GTR:
			set = SPos
		case token.GEQ:
			set = SPos | SZero
		case token.EQL:
			set = SZero
		case token.NEQ:
			set = SNeg | SPos
		}
		if set != 0 {
			if !val {
				set = SAny &^ set
			}
			var l Lin
			if isIntType(b.X.Type()) {
				l = p.Lin(b.X).Minus(p.Lin(b.Y))
			} else {
				// equality of non-integers: an opaque form "x==y" that is zero iff equal
				lx, ly := p.Lin(b.X).String(), p.Lin(b.Y).String()
				if lx > ly {
					lx, ly = ly, lx
				}
				l = LinAtom("eq?(" + lx + " , " + ly + ")")
				// eq? is zero when equal, positive otherwise
				if set&SZero != 0 && set != SAny {
					set = SZero
				} else {
					set = SPos
				}
			}
			return MkLit(l, set)
		}
	}
	// a boolean value: form is the value itself, positive = true
	l := p.Lin(cond)
	if val {
		return Lit{Form: l.String(), Set: SPos}
	}
	return Lit{Form: l.String(), Set: SZero}
}

// Conj is a conjunction of literals (one path); DNF a disjunction of them.
type Conj map[string]uint8
type DNF []Conj

func (c Conj) and(l Lit) bool {
	cur, ok := c[l.Form]
	if !ok {
		cur = SAny
	}
	cur &= l.Set
	c[l.Form] = cur
	return cur != 0
}

// PathCond enumerates the acyclic paths from `from` (nil = entry) to the block of site and returns
// the disjunction of their branch conditions. Only literals over forms accepted by keep are kept.
func (p *Prog) PathCond(fn *ssa.Function, from *ssa.BasicBlock, site ssa.Instruction, keep func(form string) bool) DNF {
	target := site.Block()
	if from == nil {
		from = fn.Blocks[0]
	}
	var out DNF
	onPath := map[*ssa.BasicBlock]bool{}
	var walkB func(b *ssa.BasicBlock, c Conj)
	count := 0
	// phiVal: for the boolean phis of the blocks on the current path, the operand contributed by the edge taken
	// (short-circuit || and && join in a phi)
	phiVal := map[*ssa.Phi]ssa.Value{}
	var cur *ssa.BasicBlock
	walk := func(s *ssa.BasicBlock, c Conj) {
		from := cur
		var set []*ssa.Phi
		saved := map[*ssa.Phi]ssa.Value{}
		for _, in := range s.Instrs {
			ph, isPh := in.(*ssa.Phi)
			if !isPh {
				break
			}
			// a loop-carried phi holds values of earlier iterations, which an acyclic path does not see: joins only
			loopCarried := false
			for _, pb := range s.Preds {
				if s.Dominates(pb) {
					loopCarried = true
				}
			}
			if loopCarried {
				continue
			}
			for k, pb := range s.Preds {
				if pb == from {
					if old, had := phiVal[ph]; had {
						saved[ph] = old
					}
					phiVal[ph] = ph.Edges[k]
					set = append(set, ph)
					break
				}
			}
		}
		walkB(s, c)
		for _, ph := range set {
			if old, had := saved[ph]; had {
				phiVal[ph] = old
			} else {
				delete(phiVal, ph)
			}
		}
		cur = from
	}
	resolve := func(cond ssa.Value) ssa.Value {
		for i := 0; i < 8; i++ {
			neg := false
			v := cond
			for {
				if u, ok := v.(*ssa.UnOp); ok && u.Op == token.NOT {
					v = u.X
					neg = !neg
					continue
				}
				break
			}
			ph, ok := v.(*ssa.Phi)
			if !ok {
				return cond
			}
			e, ok := phiVal[ph]
			if !ok {
				return cond
			}
			if neg {
				if cb, isC := e.(*ssa.Const); isC && cb.Value != nil && cb.Value.Kind() == constant.Bool {
					e = ssa.NewConst(constant.MakeBool(!constant.BoolVal(cb.Value)), cb.Type())
				} else {
					e = &negated{Value: e}
				}
			}
			cond = e
		}
		return cond
	}
	// correlate: a branch on a boolean join phi with constant operands tells which incoming edges were possible; the
	// sibling phis that agree on all of them are known too (a result and its ok flag leaving a helper together).
	// It returns the phis it bound, for undoing.
	correlate := func(cond ssa.Value, want bool) []*ssa.Phi {
		for {
			if u, ok := cond.(*ssa.UnOp); ok && u.Op == token.NOT {
				cond, want = u.X, !want
				continue
			}
			break
		}
		ph, ok := cond.(*ssa.Phi)
		if !ok || !isBool(ph.Type()) {
			return nil
		}
		if _, known := phiVal[ph]; known {
			return nil
		}
		blk := ph.Block()
		for _, pb := range blk.Preds {
			if blk.Dominates(pb) {
				return nil
			}
		}
		var ks []int
		for k, e := range ph.Edges {
			if cb, isC := e.(*ssa.Const); isC && cb.Value != nil && cb.Value.Kind() == constant.Bool {
				if constant.BoolVal(cb.Value) != want {
					continue
				}
			}
			ks = append(ks, k)
		}
		if len(ks) == 0 || len(ks) == len(ph.Edges) {
			return nil
		}
		var bound []*ssa.Phi
		for _, in := range blk.Instrs {
			sib, isPh := in.(*ssa.Phi)
			if !isPh {
				break
			}
			if _, known := phiVal[sib]; known {
				continue
			}
			v := sib.Edges[ks[0]]
			same := true
			for _, k := range ks[1:] {
				if sib.Edges[k] != v {
					same = false
				}
			}
			if same {
				phiVal[sib] = v
				bound = append(bound, sib)
			}
		}
		return bound
	}
	// what the branches that dominate the starting point established
	if from != fn.Blocks[0] {
		for d := from; d != nil && d.Idom() != nil; d = d.Idom() {
			a := d.Idom()
			ifi, isIf := a.Instrs[len(a.Instrs)-1].(*ssa.If)
			if !isIf {
				continue
			}
			d0, d1 := a.Succs[0].Dominates(from) && len(a.Succs[0].Preds) == 1, a.Succs[1].Dominates(from) && len(a.Succs[1].Preds) == 1
			if d0 != d1 {
				correlate(ifi.Cond, d0)
			}
		}
	}
	walkB = func(b *ssa.BasicBlock, c Conj) {
		cur = b
		if count > 4096 {
			return
		}
		if b == target {
			cp := Conj{}
			for k, v := range c {
				cp[k] = v
			}
			out = append(out, cp)
			count++
			return
		}
		onPath[b] = true
		defer func() { onPath[b] = false }()
		if len(b.Instrs) == 0 {
			return
		}
		switch t := b.Instrs[len(b.Instrs)-1].(type) {
		case *ssa.If:
			for i, s := range b.Succs {
				func() {
					if onPath[s] {
						return
					}
					// a branch on the boolean result of a helper that is analysed as part of this function: the disjunction,
					// over the helper's returns, of (the way to that return) and (what it returns)
					cur = b
					bound := correlate(t.Cond, i == 0)
					defer func(bound []*ssa.Phi) {
						for _, ph := range bound {
							delete(phiVal, ph)
						}
					}(bound)
					tc, want := resolve(t.Cond), i == 0
					for {
						if ng, isN := tc.(*negated); isN {
							tc, want = ng.Value, !want
							return
						}
						break
					}
					if cb, isC := tc.(*ssa.Const); isC && cb.Value != nil && cb.Value.Kind() == constant.Bool {
						if constant.BoolVal(cb.Value) == want {
							walk(s, c)
						}
						return
					}
					// a nil test of a joined pointer / error whose operand on this path is nil, or non-nil, by construction
					if bo, isB := tc.(*ssa.BinOp); isB && (bo.Op == token.EQL || bo.Op == token.NEQ) {
						var other ssa.Value
						if cn, isC := bo.Y.(*ssa.Const); isC && cn.IsNil() {
							other = bo.X
						} else if cn, isC := bo.X.(*ssa.Const); isC && cn.IsNil() {
							other = bo.Y
						}
						for i := 0; i < 8 && other != nil; i++ {
							ph, isPh := other.(*ssa.Phi)
							if !isPh {
								break
							}
							e, has := phiVal[ph]
							if !has {
								break
							}
							other = e
						}
						if other != nil {
							if nn, known := p.nilness(other); known {
								holds := nn == (bo.Op == token.NEQ)
								if holds == want {
									walk(s, c)
								}
								return
							}
						}
					}
					if hd, ok := p.helperBoolDNF(tc, want, keep, 0); ok {
						for _, hc := range hd {
							saved := Conj{}
							for k, v := range c {
								saved[k] = v
							}
							consistent := true
							for f, set := range hc {
								if !c.and(Lit{Form: f, Set: set}) {
									consistent = false
								}
							}
							if consistent {
								walk(s, c)
							}
							for k := range c {
								delete(c, k)
							}
							for k, v := range saved {
								c[k] = v
							}
						}
						return
					}
					lit := p.CondLit(tc, want)
					if keep != nil && !keep(lit.Form) && len(phiVal) > 0 {
						// the same test with the join phis replaced by what this path assigned: kept if the caller asked
						// for that form (the phi form, which rules may name as well, has precedence)
						p.phiEnv = phiVal
						l2 := p.CondLit(tc, want)
						p.phiEnv = nil
						if keep(l2.Form) {
							lit = l2
						} else if truth, isConst := constLit(l2); isConst && !truth {
							// with what this path assigned the test is decided: this edge cannot be taken
							return
						}
					}
					if keep != nil && !keep(lit.Form) {
						walk(s, c)
						return
					}
					prev, had := c[lit.Form]
					if c.and(lit) {
						walk(s, c)
					}
					if had {
						c[lit.Form] = prev
					} else {
						delete(c, lit.Form)
					}
				}()
			}
		default:
			for _, s := range b.Succs {
				if !onPath[s] {
					cur = b
					walk(s, c)
				}
			}
		}
	}
	walkB(from, Conj{})
	return out
}

// negated marks "not v" for a phi operand resolved under a negation (never part of the program).
type negated struct{ ssa.Value }

func stripNot(v ssa.Value) ssa.Value {
	for {
		if u, ok := v.(*ssa.UnOp); ok && u.Op == token.NOT {
			v = u.X
			continue
		}
		return v
	}
}

// Forms lists the forms mentioned in a DNF.
func (d DNF) Forms() []string {
	m := map[string]bool{}
	for _, c := range d {
		for f := range c {
			m[f] = true
		}
	}
	var r []string
	for f := range m {
		r = append(r, f)
	}
	sort.Strings(r)
	return r
}

func (d DNF) eval(asg map[string]uint8) bool {
	for _, c := range d {
		ok := true
		for f, set := range c {
			if asg[f]&set == 0 {
				ok = false
				break
			}
		}
		if ok {
			return true
		}
	}
	return false
}

func (d DNF) String() string {
	var ds []string
	for _, c := range d {
		var ls []string
		for f, s := range c {
			ls = append(ls, "("+f+")∈"+setName(s))
		}
		sort.Strings(ls)
		ds = append(ds, strings.Join(ls, " ∧ "))
	}
	sort.Strings(ds)
	if len(ds) == 0 {
		return "false"
	}
	return strings.Join(uniq(ds), "  ∨  ")
}

func setName(s uint8) string {
	switch s {
	case SNeg:
		return "<0"
	case SZero:
		return "=0"
	case SPos:
		return ">0"
	case SNeg | SZero:
		return "<=0"
	case SPos | SZero:
		return ">=0"
	case SNeg | SPos:
		return "!=0"
	case SAny:
		return "any"
	}
	return "none"
}

// EquivDNF compares two conditions by enumerating the sign assignments of the distinct forms
// (k small). Forms that differ only in their constant term are signs of ONE integer quantity relative to
// several thresholds and are enumerated consistently (`x <= 0` and `x < 1` are the same condition).
// It returns a counterexample assignment when they differ.
func EquivDNF(a, b DNF) (bool, string) {
	return cmpDNF(a, b, func(x, y bool) bool { return x == y })
}

// ImpliesDNF: a => b under every consistent assignment.
func ImpliesDNF(a, b DNF) (bool, string) {
	return cmpDNF(a, b, func(x, y bool) bool { return !x || y })
}

func cmpDNF(a, b DNF, rel func(x, y bool) bool) (bool, string) {
	fm := map[string]bool{}
	for _, f := range a.Forms() {
		fm[f] = true
	}
	for _, f := range b.Forms() {
		fm[f] = true
	}
	var forms []string
	for f := range fm {
		forms = append(forms, f)
	}
	sort.Strings(forms)
	if len(forms) > 9 {
		return false, "too many distinct forms to compare"
	}
	groups := map[string][]string{}
	var bases []string
	for _, f := range forms {
		b := FormBase(f)
		if _, ok := groups[b]; !ok {
			bases = append(bases, b)
		}
		groups[b] = append(groups[b], f)
	}
	asg := map[string]uint8{}
	var rec func(i int) (bool, string)
	rec = func(i int) (bool, string) {
		if i == len(bases) {
			if !rel(a.eval(asg), b.eval(asg)) {
				var parts []string
				for _, f := range forms {
					parts = append(parts, "("+f+")"+setName(asg[f]))
				}
				return false, strings.Join(parts, ", ")
			}
			return true, ""
		}
		fs := groups[bases[i]]
		// representative integer values of the base: each threshold, one below the lowest, one above the
		// highest, and one inside every gap wider than 1
		var ts []int64
		for _, f := range fs {
			ts = append(ts, -formConst(f))
		}
		sort.Slice(ts, func(x, y int) bool { return ts[x] < ts[y] })
		var reps []int64
		reps = append(reps, ts[0]-1)
		for k, t := range ts {
			if k > 0 && t == ts[k-1] {
				continue
			}
			if k > 0 && t-ts[k-1] > 1 {
				reps = append(reps, ts[k-1]+1)
			}
			reps = append(reps, t)
		}
		reps = append(reps, ts[len(ts)-1]+1)
		for _, v := range reps {
			for _, f := range fs {
				d := v + formConst(f)
				switch {
				case d < 0:
					asg[f] = SNeg
				case d == 0:
					asg[f] = SZero
				default:
					asg[f] = SPos
				}
			}
			if ok, w := rec(i + 1); !ok {
				return false, w
			}
		}
		return true, ""
	}
	return rec(0)
}

// EdgeCond is PathCond to the end of pred, conjoined with the condition of taking the edge pred->succ.
func (p *Prog) EdgeCond(fn *ssa.Function, from *ssa.BasicBlock, pred, succ *ssa.BasicBlock, keep func(form string) bool) DNF {
	term := pred.Instrs[len(pred.Instrs)-1]
	d := p.PathCond(fn, from, term, keep)
	ifi, ok := term.(*ssa.If)
	if !ok || (pred.Succs[0] == succ && pred.Succs[1] == succ) {
		return d
	}
	lit := p.CondLit(ifi.Cond, pred.Succs[0] == succ)
	if keep != nil && !keep(lit.Form) {
		return d
	}
	var out DNF
	for _, c := range d {
		cp := Conj{}
		for k, v := range c {
			cp[k] = v
		}
		if cp.and(lit) {
			out = append(out, cp)
		}
	}
	return out
}

// linAccessor inlines a call to a pure in-package accessor (single return, no effects), e.g.
// (*Channel).pending, so that its result takes part in linear forms of the caller.
func (p *Prog) linAccessor(call *ssa.Call, d int) (Lin, bool) {
	callee := call.Call.StaticCallee()
	if callee == nil || call.Call.IsInvoke() {
		return Lin{}, false
	}
	cf := Canon(callee)
	if !p.IsLib(cf) || len(cf.Blocks) != 1 || d > 20 {
		return Lin{}, false
	}
	var ret *ssa.Return
	for _, in := range cf.Blocks[0].Instrs {
		switch x := in.(type) {
		case *ssa.Store, *ssa.MapUpdate, *ssa.Send, *ssa.Go, *ssa.Defer, *ssa.RunDefers, *ssa.Panic:
			return Lin{}, false
		case *ssa.Call:
			if _, isB := x.Call.Value.(*ssa.Builtin); !isB {
				return Lin{}, false
			}
		case *ssa.Return:
			ret = x
		}
	}
	if ret == nil || len(ret.Results) != 1 || !isIntType(ret.Results[0].Type()) {
		return Lin{}, false
	}
	// bind parameters: paths through the caller's frame, integers through their linear forms
	saveF, saveA := p.linFrame, p.linArgs
	fr := &Frame{Fn: cf, Parent: saveF}
	args := map[*ssa.Parameter]Lin{}
	for k, v := range saveA {
		args[k] = v
	}
	for i, prm := range cf.Params {
		if i >= len(call.Call.Args) {
			return Lin{}, false
		}
		a := call.Call.Args[i]
		fr.Params = append(fr.Params, p.Eval(saveF, a))
		if isIntType(prm.Type()) {
			args[prm] = p.lin(a, d+1)
		}
	}
	saveAt := p.linAt
	if saveF == nil {
		p.linAt = call // reads inside the accessor happen at the call site, as far as the caller's writes go
	}
	p.linFrame, p.linArgs = fr, args
	l := p.lin(ret.Results[0], d+1)
	p.linFrame, p.linArgs = saveF, saveA
	p.linAt = saveAt
	return l, true
}

// linWhere: the instruction of the analysed (outermost) function at which a read happens.
func (p *Prog) linWhere(in ssa.Instruction) ssa.Instruction {
	if p.linFrame != nil && p.linAt != nil {
		return p.linAt
	}
	return in
}

// version makes the atoms of linear forms flow-sensitive. For a read of the location named atom at instruction `at`
// it looks at the definitions of that location in the same function (stores to the same access path; for containers
// also element updates, delete, append-stores; calls of library functions that write the same field count as
// definitions of unknown value). If no definition can reach the read the atom is the entry value (suffix ""). If
// exactly one store reaches it (and the entry value does not) that store is returned, so that the read takes the
// stored value. Otherwise the suffix names the set of reaching definitions, which keeps reads before and after a
// write apart (x.n read after x.n-- is not the x.n read before it).
func (p *Prog) version(atom string, at ssa.Instruction, container bool) (*ssa.Store, string) {
	if at == nil || at.Parent() == nil {
		return nil, ""
	}
	fn := at.Parent()
	key := versionKey{fn, atom, container}
	defs, ok := p.versionDefs[key]
	if !ok {
		defs = p.defsOf(fn, atom, container)
		if p.versionDefs == nil {
			p.versionDefs = map[versionKey][]ssa.Instruction{}
		}
		p.versionDefs[key] = defs
	}
	if len(defs) == 0 {
		return nil, ""
	}
	var reach []int
	for i, d := range defs {
		if d == at {
			continue
		}
		var others []ssa.Instruction
		for j, o := range defs {
			if j != i {
				others = append(others, o)
			}
		}
		if p.PathExists(fn, d, Is(at), In(others), nil) {
			reach = append(reach, i)
		}
	}
	entry := p.PathExists(fn, nil, Is(at), In(defs), nil) || at.Block() == fn.Blocks[0] && !p.PathExists(fn, nil, Is(at), nil, nil)
	if len(reach) == 0 {
		return nil, ""
	}
	if len(reach) == 1 && !entry && !container {
		if st, isSt := defs[reach[0]].(*ssa.Store); isSt {
			return st, ""
		}
	}
	suffix := "@"
	if entry {
		suffix += "e"
	}
	for _, i := range reach {
		suffix += "d" + itoa(i)
	}
	return nil, suffix
}

type versionKey struct {
	fn        *ssa.Function
	atom      string
	container bool
}

// defsOf lists, in block order, the instructions of fn that may change the location named atom.
func (p *Prog) defsOf(fn *ssa.Function, atom string, container bool) []ssa.Instruction {
	var field string
	if i := strings.LastIndex(atom, "."); i >= 0 {
		field = atom[i+1:]
	}
	return AllInstrs(fn, func(in ssa.Instruction) bool {
		switch x := in.(type) {
		case *ssa.Store:
			a := p.Eval(nil, x.Addr)
			if a.K != KPath {
				return false
			}
			pa := p.PathAtom(a)
			if pa == atom {
				return true
			}
			// element store into the container
			return container && strings.HasPrefix(pa, atom+"[")
		case *ssa.MapUpdate:
			if !container {
				return false
			}
			a := p.Eval(nil, x.Map)
			return a.K == KPath && p.PathAtom(a) == atom
		case *ssa.Call:
			if b, isB := x.Call.Value.(*ssa.Builtin); isB {
				if container && (b.Name() == "delete" || b.Name() == "clear") && len(x.Call.Args) > 0 {
					a := p.Eval(nil, x.Call.Args[0])
					return a.K == KPath && p.PathAtom(a) == atom
				}
				return false
			}
			// a library callee that writes a field of this name (on whatever object)
			if callee := x.Call.StaticCallee(); callee != nil && field != "" && p.IsLib(Canon(callee)) && TransparentCallee(in) == nil {
				return p.writesField(Canon(callee), field, 0)
			}
		}
		return false
	})
}

// writesField: fn (or a library function it calls statically) stores to / updates a field with that name.
func (p *Prog) writesField(fn *ssa.Function, field string, depth int) bool {
	k := writesKey{fn, field}
	if v, ok := p.writesCache[k]; ok {
		return v
	}
	if p.writesCache == nil {
		p.writesCache = map[writesKey]bool{}
	}
	p.writesCache[k] = false // cycles
	res := false
	if depth < 6 {
		for _, b := range fn.Blocks {
			for _, in := range b.Instrs {
				switch x := in.(type) {
				case *ssa.Store:
					if f := FieldOfAddr(x.Addr); f != "" && strings.HasSuffix(f, "."+field) {
						res = true
					}
					if ia, ok := x.Addr.(*ssa.IndexAddr); ok {
						if ld, isL := ia.X.(*ssa.UnOp); isL {
							if f := FieldOfAddr(ld.X); f != "" && strings.HasSuffix(f, "."+field) {
								res = true
							}
						}
					}
				case *ssa.MapUpdate:
					if ld, isL := x.Map.(*ssa.UnOp); isL {
						if f := FieldOfAddr(ld.X); f != "" && strings.HasSuffix(f, "."+field) {
							res = true
						}
					}
				case *ssa.Call:
					if callee := x.Call.StaticCallee(); callee != nil && p.IsLib(Canon(callee)) && Canon(callee) != fn {
						if p.writesField(Canon(callee), field, depth+1) {
							res = true
						}
					}
				}
			}
		}
	}
	p.writesCache[k] = res
	return res
}

type writesKey struct {
	fn    *ssa.Function
	field string
}

// FieldAt is the linear form of the field location named path ("w.count") as read at instruction at: the entry value,
// the value of the only store that reaches at, or a versioned atom (see version).
func (p *Prog) FieldAt(path string, at ssa.Instruction) Lin {
	if st, suffix := p.version(path, at, false); st != nil {
		return p.lin(st.Val, 1)
	} else if suffix != "" {
		return LinAtom("F(" + path + ")" + suffix)
	}
	return LinAtom("F(" + path + ")")
}

// LenAt is len(path) as read at instruction at.
func (p *Prog) LenAt(path string, at ssa.Instruction) Lin {
	_, suffix := p.version(path, at, true)
	return LinAtom("len(" + path + ")" + suffix)
}

// transparentReturns lists the returns of a transparent helper.
func transparentReturns(k *ssa.Function) []*ssa.Return {
	var out []*ssa.Return
	for _, b := range k.Blocks {
		if r, ok := b.Instrs[len(b.Instrs)-1].(*ssa.Return); ok {
			out = append(out, r)
		}
	}
	return out
}

// boolAlias: cond is the idx-th (boolean) result of a transparent helper all of whose returns yield constants there,
// and one branch inside the helper separates the true-returns from the false-returns: cond is that branch's condition
// (negated when neg).
func (p *Prog) boolAlias(cond ssa.Value) (ssa.Value, bool, bool) {
	ex, ok := cond.(*ssa.Extract)
	var call *ssa.Call
	idx := 0
	if ok {
		call, _ = ex.Tuple.(*ssa.Call)
		idx = ex.Index
	} else if c, isC := cond.(*ssa.Call); isC {
		call = c
	}
	if call == nil {
		return nil, false, false
	}
	k := TransparentCallee(call)
	if k == nil {
		return nil, false, false
	}
	var rt, rf []ssa.Instruction
	for _, r := range transparentReturns(k) {
		if idx >= len(r.Results) {
			return nil, false, false
		}
		c, isC := r.Results[idx].(*ssa.Const)
		if !isC || c.Value == nil || c.Value.Kind() != constant.Bool {
			return nil, false, false
		}
		if constant.BoolVal(c.Value) {
			rt = append(rt, r)
		} else {
			rf = append(rf, r)
		}
	}
	if len(rt) == 0 || len(rf) == 0 {
		return nil, false, false
	}
	for _, b := range k.Blocks {
		ifi, isIf := b.Instrs[len(b.Instrs)-1].(*ssa.If)
		if !isIf {
			continue
		}
		for _, tsucc := range []int{0, 1} {
			// true-returns only through edge tsucc, false-returns only through the other edge
			cutT := func(bb *ssa.BasicBlock, i int) bool { return bb == b && i == tsucc }
			cutF := func(bb *ssa.BasicBlock, i int) bool { return bb == b && i == 1-tsucc }
			if !p.PathExists(k, nil, In(rt), nil, cutT) && !p.PathExists(k, nil, In(rf), nil, cutF) {
				return ifi.Cond, tsucc == 1, true
			}
		}
	}
	return nil, false, false
}

// transparentResult: the linear form of the idx-th result of a transparent helper, taken over the returns that report
// success (returns whose boolean sibling results are all constant false are failure exits whose other results are
// placeholders). ok only if those returns agree.
func (p *Prog) transparentResult(call *ssa.Call, k *ssa.Function, idx int, d int) (Lin, bool) {
	var have bool
	var res Lin
	// parameters of the helper are bound to the arguments (integers through their linear forms)
	saveF, saveA, saveAt := p.linFrame, p.linArgs, p.linAt
	args := map[*ssa.Parameter]Lin{}
	for kk, v := range saveA {
		args[kk] = v
	}
	fr := &Frame{Fn: k, Parent: saveF}
	for i, prm := range k.Params {
		if i >= len(call.Call.Args) {
			return Lin{}, false
		}
		fr.Params = append(fr.Params, p.Eval(saveF, call.Call.Args[i]))
		if isIntType(prm.Type()) {
			args[prm] = p.lin(call.Call.Args[i], d+1)
		}
	}
	defer func() { p.linFrame, p.linArgs, p.linAt = saveF, saveA, saveAt }()
	for _, r := range transparentReturns(k) {
		if idx >= len(r.Results) {
			return Lin{}, false
		}
		failure := false
		for j, o := range r.Results {
			if j == idx {
				continue
			}
			if c, isC := o.(*ssa.Const); isC && c.Value != nil && c.Value.Kind() == constant.Bool && !constant.BoolVal(c.Value) {
				failure = true
			}
		}
		if failure {
			if _, isC := r.Results[idx].(*ssa.Const); isC {
				continue
			}
		}
		p.linFrame, p.linArgs = fr, args
		if saveF == nil {
			p.linAt = call
		}
		l := p.lin(r.Results[idx], d+1)
		p.linFrame, p.linArgs, p.linAt = saveF, saveA, saveAt
		if have && !l.Equal(res) {
			return Lin{}, false
		}
		res, have = l, true
	}
	return res, have
}

// ReachingStore: for a read of a local variable that is assigned more than once, the value of the only assignment
// that reaches the read (ok is false when several assignments, or the initial value, can reach it).
func (p *Prog) ReachingStore(v ssa.Value) (ssa.Value, bool) {
	ld, isL := v.(*ssa.UnOp)
	if !isL || ld.Op != token.MUL {
		return nil, false
	}
	al := p.addrAlloc(ld.X)
	if al == nil {
		return nil, false
	}
	sts := p.storesToAlloc[al]
	if len(sts) == 1 {
		return sts[0].Val, true
	}
	fn := Host(ld.Parent())
	var defs []ssa.Instruction
	for _, st := range sts {
		if Host(st.Parent()) != fn {
			return nil, false
		}
		defs = append(defs, st)
	}
	var reach []*ssa.Store
	for i, dd := range defs {
		var others []ssa.Instruction
		for j, o := range defs {
			if j != i {
				others = append(others, o)
			}
		}
		if p.PathExists(fn, dd, Is(ld), In(others), nil) {
			reach = append(reach, sts[i])
		}
	}
	if len(reach) == 1 && !p.PathExists(fn, nil, Is(ld), In(defs), nil) {
		return reach[0].Val, true
	}
	return nil, false
}

// helperBoolDNF: cond (possibly negated) is the boolean result of a transparent helper with non-constant returns; the
// condition under which it has the value want, as a DNF over the kept forms.
func (p *Prog) helperBoolDNF(cond ssa.Value, want bool, keep func(string) bool, depth int) (DNF, bool) {
	if depth > 3 {
		return nil, false
	}
	for {
		if u, ok := cond.(*ssa.UnOp); ok && u.Op == token.NOT {
			cond, want = u.X, !want
			continue
		}
		break
	}
	var call *ssa.Call
	idx := 0
	switch x := cond.(type) {
	case *ssa.Call:
		call = x
	case *ssa.Extract:
		call, _ = x.Tuple.(*ssa.Call)
		idx = x.Index
	}
	if call == nil {
		return nil, false
	}
	k := TransparentCallee(call)
	if k == nil {
		return nil, false
	}
	if _, _, isAlias := p.boolAlias(cond); isAlias {
		return nil, false // all returns constant: CondLit resolves it to the deciding branch
	}
	var out DNF
	for _, r := range transparentReturns(k) {
		if idx >= len(r.Results) || !isBool(r.Results[idx].Type()) {
			return nil, false
		}
		pc := p.PathCond(k, nil, r, keep)
		rv := r.Results[idx]
		// `return a && b`: a phi in the return's block - one disjunct per incoming edge
		if ph, isPh := rv.(*ssa.Phi); isPh && ph.Block() == r.Block() {
			for i, e := range ph.Edges {
				ec := p.EdgeCond(k, nil, ph.Block().Preds[i], ph.Block(), keep)
				if c, isC := e.(*ssa.Const); isC && c.Value != nil && c.Value.Kind() == constant.Bool {
					if constant.BoolVal(c.Value) == want {
						out = append(out, ec...)
					}
					continue
				}
				lit := p.CondLit(e, want)
				for _, cj := range ec {
					cp := Conj{}
					for f, v := range cj {
						cp[f] = v
					}
					if keep != nil && !keep(lit.Form) {
						out = append(out, cp)
					} else if cp.and(lit) {
						out = append(out, cp)
					}
				}
			}
			continue
		}
		if c, isC := rv.(*ssa.Const); isC && c.Value != nil && c.Value.Kind() == constant.Bool {
			if constant.BoolVal(c.Value) == want {
				out = append(out, pc...)
			}
			continue
		}
		lit := p.CondLit(rv, want)
		for _, cj := range pc {
			cp := Conj{}
			for f, v := range cj {
				cp[f] = v
			}
			if keep != nil && !keep(lit.Form) {
				out = append(out, cp)
				continue
			}
			if cp.and(lit) {
				out = append(out, cp)
			}
		}
	}
	return out, true
}

// constLit: the literal is about a constant form (no atoms): whether it holds.
func constLit(l Lit) (truth bool, isConst bool) {
	formMu.Lock()
	f, ok := formReg[l.Form]
	formMu.Unlock()
	if !ok || len(f.T) != 0 {
		return false, false
	}
	switch {
	case f.C < 0:
		return l.Set&SNeg != 0, true
	case f.C == 0:
		return l.Set&SZero != 0, true
	}
	return l.Set&SPos != 0, true
}

func (p *Prog) commaOkJoin(x *ssa.Phi, d int) (Lin, bool) {
	blk := x.Block()
	if isBool(x.Type()) || len(x.Edges) < 2 || d > 40 {
		return Lin{}, false
	}
	for _, pb := range blk.Preds {
		if blk.Dominates(pb) {
			return Lin{}, false
		}
	}
	for _, in := range blk.Instrs {
		flag, isPh := in.(*ssa.Phi)
		if !isPh {
			break
		}
		if flag == x || !isBool(flag.Type()) {
			continue
		}
		var tr []int
		okFlag, nFalse := true, 0
		for k, e := range flag.Edges {
			cb, isC := e.(*ssa.Const)
			if !isC || cb.Value == nil || cb.Value.Kind() != constant.Bool {
				okFlag = false
				break
			}
			if constant.BoolVal(cb.Value) {
				tr = append(tr, k)
			} else {
				nFalse++
				if _, isConst := x.Edges[k].(*ssa.Const); !isConst {
					okFlag = false
				}
			}
		}
		if !okFlag || len(tr) == 0 || nFalse == 0 {
			continue
		}
		// ... provided every use of the value is behind a test of the flag (on its true side): otherwise the zero
		// value of the false edges can be used, and the value is not "the success value"
		if !usesGuardedBy(x, flag, 0) {
			continue
		}
		first := p.lin(x.Edges[tr[0]], d+1)
		same := true
		for _, k := range tr[1:] {
			if !p.lin(x.Edges[k], d+1).Equal(first) {
				same = false
			}
		}
		if same {
			return first, true
		}
	}
	return Lin{}, false
}

// usesGuardedBy: every instruction that uses v (through further phis) lies in a block dominated by the true side of
// a branch on flag.
func usesGuardedBy(v ssa.Value, flag *ssa.Phi, depth int) bool {
	if depth > 6 || v.Referrers() == nil {
		return false
	}
	// the blocks entered only when flag is true: the true side of `if flag`, the false side of `if !flag`
	var guards []*ssa.BasicBlock
	for _, r := range *flag.Referrers() {
		switch x := r.(type) {
		case *ssa.If:
			if succ := x.Block().Succs[0]; x.Cond == ssa.Value(flag) && len(succ.Preds) == 1 {
				guards = append(guards, succ)
			}
		case *ssa.UnOp:
			if x.Op != token.NOT || x.Referrers() == nil {
				continue
			}
			for _, r2 := range *x.Referrers() {
				if ifi, isIf := r2.(*ssa.If); isIf && ifi.Cond == ssa.Value(x) {
					if succ := ifi.Block().Succs[1]; len(succ.Preds) == 1 {
						guards = append(guards, succ)
					}
				}
			}
		}
	}
	guarded := func(b *ssa.BasicBlock) bool {
		for _, g := range guards {
			if g.Dominates(b) {
				return true
			}
		}
		return false
	}
	for _, r := range *v.Referrers() {
		if _, isDbg := r.(*ssa.DebugRef); isDbg {
			continue
		}
		if ph, isPh := r.(*ssa.Phi); isPh {
			// a further join: the incoming edge must come from a guarded block, or the joined value's uses are guarded
			okEdge := true
			for k, e := range ph.Edges {
				if e == v && !guarded(ph.Block().Preds[k]) {
					okEdge = false
				}
			}
			if okEdge || usesGuardedBy(ph, flag, depth+1) {
				continue
			}
			return false
		}
		if !guarded(r.Block()) {
			return false
		}
	}
	return true
}

// ReachingStores: for a read of a local variable, the values of the assignments that can reach it, and whether its
// initial (zero) value can (ok is false when the variable is also assigned in another function).
func (p *Prog) ReachingStores(v ssa.Value) (vals []*ssa.Store, zero bool, ok bool) {
	ld, isL := v.(*ssa.UnOp)
	if !isL || ld.Op != token.MUL {
		return nil, false, false
	}
	al := p.addrAlloc(ld.X)
	if al == nil {
		return nil, false, false
	}
	sts := p.storesToAlloc[al]
	fn := Host(ld.Parent())
	var defs []ssa.Instruction
	for _, st := range sts {
		if Host(st.Parent()) != fn {
			return nil, false, false
		}
		defs = append(defs, st)
	}
	for i, dd := range defs {
		var others []ssa.Instruction
		for j, o := range defs {
			if j != i {
				others = append(others, o)
			}
		}
		if p.PathExists(fn, dd, Is(ld), In(others), nil) {
			vals = append(vals, sts[i])
		}
	}
	zero = al.Parent() == fn && p.PathExists(fn, nil, Is(ld), In(defs), nil)
	return vals, zero, true
}
