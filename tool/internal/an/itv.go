package an

import (
	"fmt"
	"go/token"
	"go/types"
	"math"

	"golang.org/x/tools/go/ssa"
)

// ---------------------------------------------------------------------------------------------
// E4: intervals (abstract interpretation of integer SSA values of one function, with branch
// refinement along dominating edges). Values are tracked as mathematical integers; a conversion
// or an unsigned operation whose result may leave the type's range yields the type's full range
// (wrap-around is modelled as "anything representable").

type Itv struct {
	Lo, Hi float64 // float64 holds every bound used here exactly (|x| <= 2^63)
	Bot    bool
}

func (a Itv) String() string {
	if a.Bot {
		return "⊥"
	}
	return fmt.Sprintf("[%.0f, %.0f]", a.Lo, a.Hi)
}

func itv(lo, hi float64) Itv { return Itv{Lo: lo, Hi: hi} }

var bot = Itv{Bot: true}

func (a Itv) Join(b Itv) Itv {
	if a.Bot {
		return b
	}
	if b.Bot {
		return a
	}
	return itv(math.Min(a.Lo, b.Lo), math.Max(a.Hi, b.Hi))
}

func (a Itv) Meet(b Itv) Itv {
	if a.Bot || b.Bot {
		return bot
	}
	lo, hi := math.Max(a.Lo, b.Lo), math.Min(a.Hi, b.Hi)
	if lo > hi {
		return bot
	}
	return itv(lo, hi)
}

func (a Itv) Within(lo, hi float64) bool { return !a.Bot && a.Lo >= lo && a.Hi <= hi }

func (a Itv) Eq(b Itv) bool { return a.Bot == b.Bot && (a.Bot || (a.Lo == b.Lo && a.Hi == b.Hi)) }

// IntBits is the width of int/uint for the build configuration being analysed (set by Load).
var IntBits = 64

func typeRange(t types.Type) Itv {
	b, ok := t.Underlying().(*types.Basic)
	if !ok {
		return itv(-math.MaxFloat64, math.MaxFloat64)
	}
	if IntBits == 32 {
		switch b.Kind() {
		case types.Int:
			return itv(-2147483648, 2147483647)
		case types.Uint, types.Uintptr:
			return itv(0, 4294967295)
		}
	}
	switch b.Kind() {
	case types.Int8:
		return itv(-128, 127)
	case types.Int16:
		return itv(-32768, 32767)
	case types.Int32:
		return itv(-2147483648, 2147483647)
	case types.Int64, types.Int:
		// the upper bound is the largest float64 below 2^63, so that -MinInt64 (= 2^63) is seen to overflow
		return itv(-9223372036854775808, 9223372036854774784)
	case types.Uint8:
		return itv(0, 255)
	case types.Uint16:
		return itv(0, 65535)
	case types.Uint32:
		return itv(0, 4294967295)
	case types.Uint64, types.Uint, types.Uintptr:
		return itv(0, 18446744073709549568)
	}
	return itv(-math.MaxFloat64, math.MaxFloat64)
}

// ItvEnv analyses one function with given parameter ranges.
type ItvEnv struct {
	P      *Prog
	Fn     *ssa.Function
	Params map[*ssa.Parameter]Itv
	val    map[ssa.Value]Itv
}

func (p *Prog) NewItvEnv(fn *ssa.Function, params map[*ssa.Parameter]Itv) *ItvEnv {
	e := &ItvEnv{P: p, Fn: fn, Params: params, val: map[ssa.Value]Itv{}}
	e.solve()
	return e
}

func (e *ItvEnv) solve() {
	// chaotic iteration from bottom; the loops of interest saturate within a few dozen rounds,
	// after that every still-changing value is widened to its type's range
	var vals []ssa.Value
	for _, b := range e.Fn.Blocks {
		for _, in := range b.Instrs {
			if v, ok := in.(ssa.Value); ok && isIntType(v.Type()) {
				vals = append(vals, v)
			}
		}
	}
	for round := 0; round < 200; round++ {
		changed := false
		for _, v := range vals {
			n := e.transfer(v)
			if round >= 150 && !n.Eq(e.get(v)) {
				n = typeRange(v.Type())
			}
			if !n.Eq(e.get(v)) {
				e.val[v] = n
				changed = true
			}
		}
		if !changed {
			return
		}
	}
}

func (e *ItvEnv) get(v ssa.Value) Itv {
	switch x := v.(type) {
	case *ssa.Const:
		if i, ok := (Val{K: KConst, Const: x}).ConstInt(); ok {
			return itv(float64(i), float64(i))
		}
		if x.Value != nil {
			if u := x.Uint64(); u != 0 || true {
				return itv(float64(u), float64(u))
			}
		}
		return typeRange(v.Type())
	case *ssa.Parameter:
		if r, ok := e.Params[x]; ok {
			return r
		}
		return typeRange(v.Type())
	}
	if r, ok := e.val[v]; ok {
		return r
	}
	if _, isInstr := v.(ssa.Instruction); isInstr && isIntType(v.Type()) {
		return bot
	}
	return typeRange(v.Type())
}

// At returns the range of v as seen in block b: its range refined by every branch condition on v
// whose edge dominates b.
func (e *ItvEnv) At(v ssa.Value, b *ssa.BasicBlock) Itv {
	r := e.get(v)
	for pass := 0; pass < 2; pass++ { // twice: a "!= c" edge only bites once another edge moved a bound to c
		for d := b; d != nil; d = d.Idom() {
			id := d.Idom()
			if id == nil {
				break
			}
			// is d reached from id only through one successor edge of id's If?
			ifi, ok := id.Instrs[len(id.Instrs)-1].(*ssa.If)
			if !ok {
				continue
			}
			// edge id->d must be the unique way into d
			if len(d.Preds) != 1 || d.Preds[0] != id {
				continue
			}
			taken := id.Succs[0] == d
			if id.Succs[0] == id.Succs[1] {
				continue
			}
			r = e.refineCur(r, v, ifi.Cond, taken)
		}
	}
	return r
}

// refineCur applies a branch condition to the current range (handles != c at the boundaries).
func (e *ItvEnv) refineCur(cur Itv, v ssa.Value, cond ssa.Value, taken bool) Itv {
	cur = cur.Meet(e.refine(v, cond, taken))
	if cur.Bot {
		return cur
	}
	c := cond
	t := taken
	for {
		if u, ok := c.(*ssa.UnOp); ok && u.Op == token.NOT {
			c = u.X
			t = !t
			continue
		}
		break
	}
	if b, ok := c.(*ssa.BinOp); ok && ((b.Op == token.NEQ && t) || (b.Op == token.EQL && !t)) {
		var other ssa.Value
		if b.X == v {
			other = b.Y
		} else if b.Y == v {
			other = b.X
		}
		if other != nil {
			o := e.get(other)
			if !o.Bot && o.Lo == o.Hi {
				if cur.Lo == o.Lo {
					cur.Lo++
				}
				if cur.Hi == o.Lo {
					cur.Hi--
				}
				if cur.Lo > cur.Hi {
					return bot
				}
			}
		}
	}
	return cur
}

// onEdge: range of v when flowing along pred -> succ.
func (e *ItvEnv) onEdge(v ssa.Value, pred, succ *ssa.BasicBlock) Itv {
	r := e.At(v, pred)
	if ifi, ok := pred.Instrs[len(pred.Instrs)-1].(*ssa.If); ok && pred.Succs[0] != pred.Succs[1] {
		r = e.refineCur(r, v, ifi.Cond, pred.Succs[0] == succ)
	}
	return r
}

// refine: the set of values of v compatible with cond == taken (top if cond does not mention v).
func (e *ItvEnv) refine(v ssa.Value, cond ssa.Value, taken bool) Itv {
	top := itv(-math.MaxFloat64, math.MaxFloat64)
	for {
		if u, ok := cond.(*ssa.UnOp); ok && u.Op == token.NOT {
			cond = u.X
			taken = !taken
			continue
		}
		break
	}
	b, ok := cond.(*ssa.BinOp)
	if !ok {
		return top
	}
	op := b.Op
	var other ssa.Value
	switch {
	case b.X == v:
		other = b.Y
	case b.Y == v:
		other = b.X
		switch op {
		case token.LSS:
			op = token.GTR
		case token.LEQ:
			op = token.GEQ
		case token.GTR:
			op = token.LSS
		case token.GEQ:
			op = token.LEQ
		}
	default:
		return top
	}
	if !taken {
		switch op {
		case token.LSS:
			op = token.GEQ
		case token.LEQ:
			op = token.GTR
		case token.GTR:
			op = token.LEQ
		case token.GEQ:
			op = token.LSS
		case token.EQL:
			op = token.NEQ
		case token.NEQ:
			op = token.EQL
		default:
			return top
		}
	}
	o := e.get(other)
	if o.Bot {
		return top
	}
	switch op {
	case token.LSS:
		return itv(-math.MaxFloat64, o.Hi-1)
	case token.LEQ:
		return itv(-math.MaxFloat64, o.Hi)
	case token.GTR:
		return itv(o.Lo+1, math.MaxFloat64)
	case token.GEQ:
		return itv(o.Lo, math.MaxFloat64)
	case token.EQL:
		return o
	}
	return top
}

func (e *ItvEnv) transfer(v ssa.Value) Itv {
	tr := typeRange(v.Type())
	clamp := func(r Itv) Itv {
		if r.Bot {
			return r
		}
		if r.Lo < tr.Lo || r.Hi > tr.Hi {
			return tr // may wrap: anything representable
		}
		return r
	}
	switch x := v.(type) {
	case *ssa.Phi:
		r := bot
		for i, ed := range x.Edges {
			r = r.Join(e.onEdge(ed, x.Block().Preds[i], x.Block()))
		}
		return r
	case *ssa.BinOp:
		a, b := e.At(x.X, x.Block()), e.At(x.Y, x.Block())
		if a.Bot || b.Bot {
			return bot
		}
		switch x.Op {
		case token.ADD:
			return clamp(itv(a.Lo+b.Lo, a.Hi+b.Hi))
		case token.SUB:
			return clamp(itv(a.Lo-b.Hi, a.Hi-b.Lo))
		case token.MUL:
			c := []float64{a.Lo * b.Lo, a.Lo * b.Hi, a.Hi * b.Lo, a.Hi * b.Hi}
			lo, hi := c[0], c[0]
			for _, y := range c {
				lo, hi = math.Min(lo, y), math.Max(hi, y)
			}
			return clamp(itv(lo, hi))
		case token.SHL:
			if a.Lo < 0 || b.Lo < 0 {
				return tr
			}
			bits := tr.Hi
			lo, hi := a.Lo*math.Pow(2, b.Lo), a.Hi*math.Pow(2, b.Hi)
			if hi > bits {
				// bits shifted out: the result may be anything, including 0
				return tr
			}
			return itv(lo, hi)
		case token.SHR:
			if a.Lo < 0 || b.Lo < 0 {
				return tr
			}
			return itv(math.Floor(a.Lo/math.Pow(2, b.Hi)), math.Floor(a.Hi/math.Pow(2, b.Lo)))
		}
		return tr
	case *ssa.Convert:
		a := e.At(x.X, x.Block())
		if a.Bot {
			return bot
		}
		return clamp(a)
	case *ssa.ChangeType:
		return e.At(x.X, x.Block())
	case *ssa.UnOp:
		if x.Op == token.SUB {
			a := e.At(x.X, x.Block())
			if a.Bot {
				return bot
			}
			return clamp(itv(-a.Hi, -a.Lo))
		}
		return tr
	case *ssa.Call:
		if b, ok := x.Call.Value.(*ssa.Builtin); ok && (b.Name() == "len" || b.Name() == "cap") {
			return itv(0, 9223372036854775807)
		}
		if b, ok := x.Call.Value.(*ssa.Builtin); ok && (b.Name() == "min" || b.Name() == "max") && len(x.Call.Args) > 0 {
			r := e.At(x.Call.Args[0], x.Block())
			for _, a := range x.Call.Args[1:] {
				o := e.At(a, x.Block())
				if r.Bot || o.Bot {
					return bot
				}
				if b.Name() == "min" {
					r = itv(math.Min(r.Lo, o.Lo), math.Min(r.Hi, o.Hi))
				} else {
					r = itv(math.Max(r.Lo, o.Lo), math.Max(r.Hi, o.Hi))
				}
			}
			return r
		}
		return tr
	}
	return tr
}
