package props

import (
	"go/token"
	"go/types"

	"golang.org/x/tools/go/ssa"

	"bbcheck/internal/an"
)

func linearAttempt(c *Ctx) {
	q := c.F("LinearAttempt")
	if !q.ok() {
		return
	}
	P := c.P
	fn := q.fn
	mks := an.AllInstrs(fn, func(in ssa.Instruction) bool { _, ok := in.(*ssa.MakeChan); return ok })
	if len(mks) != 1 {
		q.undecided("PROV", "the attempt channel", "expected exactly one make(chan ...)")
		return
	}
	mk := mks[0].(*ssa.MakeChan)
	capv, isC := constInt(mk.Size)
	q.add("PROV", "at most one value is ever buffered (capacity 1)", isC && capv == 1, pickS(isC && capv == 1, "make(chan time.Time, 1)", "the channel's capacity is not the constant 1: a slow receiver could find several stale attempts queued"), mk)
	isC0 := func(v ssa.Value) bool { return usesValue(P, v, mk) }
	var gs []*ssa.Function
	for _, in := range an.AllInstrs(fn, func(in ssa.Instruction) bool { _, ok := in.(*ssa.Go); return ok }) {
		if mc, ok := in.(*ssa.Go).Call.Value.(*ssa.MakeClosure); ok {
			gs = append(gs, mc.Fn.(*ssa.Function))
		}
	}
	if len(gs) != 1 {
		q.undecided("PATH", "ticker goroutine", "expected exactly one goroutine started by LinearAttempt")
		return
	}
	g := &fq{c: c, fn: gs[0], name: an.FuncName(gs[0])}
	// the ticker is armed only after the first timestamp was taken (ticks are scheduled from its creation)
	{
		nows := P.CallsTo(fn, "time.Now")
		tk := append(P.CallsTo(fn, "time.NewTicker"), P.CallsTo(g.fn, "time.NewTicker")...)
		ok := len(nows) == 1 && len(tk) == 1
		if ok && tk[0].Parent() == fn {
			ok = P.Before(fn, an.Is(nows[0]), tk[0])
		}
		// ... with the caller's rate as its period (a rate "rounded" or otherwise adjusted can become a non-positive
		// period for a valid small rate, on which NewTicker panics inside the goroutine)
		if len(tk) == 1 && len(fn.Params) >= 2 {
			okp := srcIs(P, callArg(tk[0], 0), fn.Params[1]) && len(P.SourcesDeep(callArg(tk[0], 0))) == 1
			if !okp {
				if srcs := P.SourcesDeep(callArg(tk[0], 0)); len(srcs) == 1 && srcs[0] == ssa.Value(fn.Params[1]) {
					okp = true
				}
			}
			q.add("PROV", "the ticker's period is the rate the caller gave", okp, pickS(okp, "time.NewTicker(rate)", "the ticker is not created with the rate parameter itself"), tk[0])
		}
		q.add("PATH", "the ticker is armed after the first timestamp was taken", ok, pickS(ok, "time.Now() precedes time.NewTicker (which runs in the goroutine started afterwards)", "the ticker is created before the first value's time.Now(): its first tick can carry an earlier time than the value already published"), tk...)
	}
	// every returned value is the channel
	for _, r := range returnsOf(fn) {
		q.add("PROV", "the channel returned is the one that is fed and closed", isC0(r.Results[0]), "return value is c", r)
	}
	// sends: one inline (blocking send into the empty buffer), one non-blocking in the goroutine
	inl := an.AllInstrs(fn, func(in ssa.Instruction) bool { s, ok := in.(*ssa.Send); return ok && isC0(s.Chan) })
	gsend := an.AllInstrs(g.fn, func(in ssa.Instruction) bool {
		switch x := in.(type) {
		case *ssa.Send:
			return true
		case *ssa.Select:
			for _, st := range x.States {
				if st.Dir == types.SendOnly {
					return true
				}
			}
		}
		return false
	})
	okInl := len(inl) == 1 && !P.InCycle(inl[0])
	q.add("WR", "the first value is sent inline, once", okInl, "one send in LinearAttempt, not in a loop", inl...)
	if okInl {
		// only if ctx.Err() == nil, and it is the first thing put into the fresh channel
		errs := an.AllInstrs(fn, func(in ssa.Instruction) bool {
			call, ok := in.(*ssa.Call)
			return ok && call.Call.IsInvoke() && call.Call.Method.Name() == "Err"
		})
		okc := len(errs) == 1 && P.Before(fn, an.Is(errs[0]), inl[0]) && q.onlyAfterSuccess(errs[0], inl[0])
		q.add("PATH", "nothing is sent if the context is already cancelled", okc, pickS(okc, "the inline send is reached only through ctx.Err() == nil", "a value can be sent although ctx.Err() reported cancellation beforehand"), inl[0])
		q.add("PROV", "the first value is the current time", P.IsCallResult(inl[0].(*ssa.Send).X, "time.Now", 0), "c <- time.Now()", inl[0])
	}
	okG := len(gsend) == 1
	var sel *ssa.Select
	if okG {
		s, isSel := gsend[0].(*ssa.Select)
		okG = isSel && !s.Blocking && len(s.States) == 1
		sel = s
	}
	g.add("WR", "the goroutine only ever sends without blocking", okG, pickS(okG, "a single select with default containing the only send", "the ticker goroutine can block on the send (a slow or absent receiver would keep it alive for ever) or sends from more than one place"), gsend...)
	if !okG {
		return
	}
	// the tick forwarded is the one received, after ctx.Err() was re-checked
	bsels := an.AllInstrs(g.fn, func(in ssa.Instruction) bool { s, ok := in.(*ssa.Select); return ok && s.Blocking })
	if g.need(bsels, "GOX", "blocking select") {
		bs := bsels[0].(*ssa.Select)
		hasDone, hasTick := false, false
		for _, st := range bs.States {
			if st.Dir != types.RecvOnly {
				continue
			}
			if call, ok := st.Chan.(*ssa.Call); ok && call.Call.IsInvoke() && call.Call.Method.Name() == "Done" {
				hasDone = true
			}
			if ld, ok := isLoad(st.Chan); ok && an.FieldOfAddr(ld.X) == "Ticker.C" {
				hasTick = true
			}
		}
		g.add("GOX", "the goroutine always exits on cancellation", hasDone && hasTick && len(bs.States) == 2, pickS(hasDone, "the only blocking operation is a select over ctx.Done() and ticker.C", "the goroutine's blocking select has no <-ctx.Done() case: it would not exit when the context is cancelled"), bs)
		errs := an.AllInstrs(g.fn, func(in ssa.Instruction) bool {
			call, ok := in.(*ssa.Call)
			return ok && call.Call.IsInvoke() && call.Call.Method.Name() == "Err"
		})
		okE := len(errs) == 1 && P.Before(g.fn, an.Is(bs), errs[0]) && P.Before(g.fn, an.Is(errs[0]), sel) && g.onlyAfterSuccess(errs[0], sel)
		// ... and before waiting for the next one: no way round the loop skips ctx.Err() (a context whose Done channel
		// never fires reports cancellation through Err() alone; a "buffer still full" shortcut in front of the check would
		// keep the goroutine alive for as long as nobody receives)
		if len(errs) == 1 {
			loops := P.PathExists(g.fn, bs, an.Is(bs), an.Is(errs[0]), nil)
			g.add("PATH", "every tick is followed by the context check before the next wait", !loops, pickS(!loops, "every cycle through the blocking select passes ctx.Err()", "the goroutine can go from one tick to waiting for the next without looking at ctx.Err(): with a slow or absent receiver it never notices a cancellation that is only visible through Err()"), bs)
		}
		g.add("PATH", "after every tick the context is re-checked before forwarding", okE, pickS(okE, "tick -> ctx.Err() == nil -> send", "a tick can be forwarded without re-checking the context (more than one tick after cancellation)"), sel)
		okT := false
		if srcs := P.SourcesAt(sel.States[0].Send, sel); len(srcs) > 0 {
			okT = true
			for _, sv := range srcs {
				if ex, ok := sv.(*ssa.Extract); !ok || ex.Tuple != ssa.Value(bs) {
					okT = false
				}
			}
		}
		g.add("PROV", "the value forwarded is the tick just received", okT, "send value is the select's received time", sel)
		// the ctx.Done() branch returns
		idx := resultOf2(bs, 0)
		if idx != nil {
			ifs, _ := P.IfsOn(g.fn, func(cond ssa.Value) bool {
				b, ok := cond.(*ssa.BinOp)
				return ok && b.Op == token.EQL && (b.X == idx || b.Y == idx)
			})
			okd := false
			for _, ifi := range ifs {
				b := stripNotV(ifi.Cond).(*ssa.BinOp)
				k, isK := constInt(b.Y)
				if !isK {
					k, _ = constInt(b.X)
				}
				doneIdx := int64(-1)
				for i, st := range bs.States {
					if call, ok := st.Chan.(*ssa.Call); ok && call.Call.IsInvoke() && call.Call.Method.Name() == "Done" {
						doneIdx = int64(i)
					}
				}
				if k == doneIdx {
					okd = !P.PathExists(g.fn, ifi, an.Is(sel), nil, cutEdge(ifi, 1))
				}
			}
			g.add("PATH", "cancellation ends the goroutine without forwarding", okd, "the ctx.Done() case reaches no send", bs)
		}
	}
	// the bounded counter: i = 0; i < limit; i++ on a successful send -- or the countdown n = limit; n > 0; n--
	var cnt *ssa.Phi
	step := int64(1)
	// limitOK: the value is count - 1 as fixed by LinearAttempt before the goroutine starts
	gos0 := an.AllInstrs(fn, func(in ssa.Instruction) bool { _, ok := in.(*ssa.Go); return ok })
	startOff := int64(0) // the counter's start value: the bound is count - 1 + start (i from 0 to count-1, or sent from 1 to count)
	limitOK := func(v ssa.Value) bool {
		srcs := P.Sources(v)
		if _, isL := isLoad(v); isL {
			srcs = []ssa.Value{v}
		}
		if prm, isP := v.(*ssa.Parameter); isP && prm.Parent() != fn {
			// the countdown is handed to the goroutine as an argument of its go statement
			srcs = P.SourcesDeep(v)
		}
		if len(srcs) == 0 {
			return false
		}
		for _, sv := range srcs {
			if ld, isL := isLoad(sv); isL {
				if cell := P.CellOf(ld.X); cell != nil {
					okc, dec := true, false
					for _, st := range P.CellStores(cell) {
						if st.Parent() != fn {
							okc = false
						}
						if bo, isB := st.Val.(*ssa.BinOp); isB && bo.Op == token.SUB {
							if k, isK := constInt(bo.Y); isK && k == 1 {
								dec = true
							}
						}
					}
					if okc && dec && startOff == 0 {
						continue
					}
					if startOff == 1 && okc && !dec && len(fn.Params) >= 3 {
						// counting from 1 (the inline value) up to the caller's count, which nobody modifies
						only := true
						for _, st := range P.CellStores(cell) {
							if st.Val != ssa.Value(fn.Params[2]) {
								only = false
							}
						}
						if only && cell == cellOfParam(fn, fn.Params[2]) {
							continue
						}
					}
					// the variable is assigned what a helper computed: every assignment other than the parameter's own
					// spill is, as seen from the go statement, count - 1
					if okc && startOff == 0 && len(gos0) == 1 && len(fn.Params) >= 3 {
						all, n := true, 0
						for _, st := range P.CellStores(cell) {
							if st.Val == ssa.Value(fn.Params[2]) {
								continue
							}
							n++
							for _, sv2 := range P.SourcesAt(st.Val, gos0[0]) {
								if valueParent(sv2) != fn || !P.Lin(sv2).Equal(aP(fn.Params[2].Name()).AddC(-1)) {
									all = false
								}
							}
						}
						if all && n > 0 {
							continue
						}
					}
				}
				return false
			}
			// a plain value of LinearAttempt: count - 1
			if valueParent(sv) != fn || len(fn.Params) < 3 || !P.Lin(sv).Equal(aP(fn.Params[2].Name()).AddC(-1+startOff)) {
				return false
			}
		}
		return true
	}
	if ifi, ok := loopHeaderGuard(g.fn, sel); ok {
		b := stripNotV(ifi.Cond).(*ssa.BinOp)
		isPhiV := func(v ssa.Value) bool { _, ok := v.(*ssa.Phi); return ok }
		op, limit, okc := cmpOf(b, isPhiV)
		// the comparison as it holds on the edge that continues the loop
		contTrue := ifi.Block().Succs[0].Dominates(sel.Block())
		if _, neg := ifi.Cond.(*ssa.UnOp); neg {
			contTrue = !contTrue
		}
		if okc && !contTrue {
			switch op {
			case token.LSS:
				op = token.GEQ
			case token.GEQ:
				op = token.LSS
			case token.GTR:
				op = token.LEQ
			case token.LEQ:
				op = token.GTR
			default:
				okc = false
			}
		}
		cont := ifi.Block().Succs[0].Dominates(sel.Block()) != ifi.Block().Succs[1].Dominates(sel.Block())
		if okc && (op == token.LSS || op == token.GTR) {
			ph := b.X
			if !isPhiV(ph) {
				ph = b.Y
			}
			lim := false
			if op == token.LSS {
				cnt = ph.(*ssa.Phi)
				for i, e := range cnt.Edges {
					pred := cnt.Block().Preds[i]
					if k, isK := constInt(e); isK && k == 1 && !cnt.Block().Dominates(pred) {
						startOff = 1
					}
				}
				lim = cont && limitOK(limit)
			} else if isZero(limit) {
				cnt = ph.(*ssa.Phi)
				step = -1
				// the countdown starts at the limit
				lim = cont
				n := 0
				for i, e := range cnt.Edges {
					pred := cnt.Block().Preds[i]
					if cnt.Block().Dominates(pred) {
						continue
					}
					n++
					lim = lim && limitOK(e)
				}
				lim = lim && n >= 1
			}
			if cnt != nil {
				g.add("LIN", "the loop runs while sent < count - 1", lim, pickS(lim, "guard i < count (or a countdown from count to 0) with count = param - 1, not modified by the goroutine", "the loop bound is not count - 1 fixed before the goroutine starts"), ifi)
			}
		}
	}
	if cnt == nil {
		g.undecided("LIN", "bounded counter", "loop guard i < count not recognised")
	} else {
		good := true
		why := ""
		for i, e := range cnt.Edges {
			pred := cnt.Block().Preds[i]
			switch {
			case step == 1 && (isZero(e) || isConstK(e, startOff)) && !P.InCycle(pred.Instrs[len(pred.Instrs)-1]):
			case step == -1 && !cnt.Block().Dominates(pred):
				// the start of the countdown (judged above)
			case e == ssa.Value(cnt):
			default:
				bo, isB := e.(*ssa.BinOp)
				inc := isB && (step == 1 && bo.Op == token.ADD || step == -1 && bo.Op == token.SUB) && bo.X == ssa.Value(cnt)
				if inc {
					k, isK := constInt(bo.Y)
					inc = isK && k == 1
				}
				if !inc {
					good, why = false, "the counter is updated by something other than one step: "+e.String()
					break
				}
				// only on the send-success edge of the non-blocking select
				sidx := resultOf2(sel, 0)
				ifs, _ := P.IfsOn(g.fn, func(cond ssa.Value) bool {
					b, ok := cond.(*ssa.BinOp)
					return ok && b.Op == token.EQL && either(b, isVal(sidx), isZero)
				})
				if len(ifs) != 1 || !(&fq{c: c, fn: g.fn, name: g.name}).onlyViaEdge(bo, ifs[0], 0) {
					good, why = false, "the counter is stepped on a path where the value was not sent (or not only there)"
				}
			}
		}
		// and every successful send steps: from the success edge, the back edge carries the stepped counter (checked above by edge enumeration)
		g.add("LIN", "the counter counts exactly the values sent", good, pickS(good, "i = phi(start, i, i stepped by one on the send-success edge)", why), cnt)
	}
	// the goroutine ends (and so closes the channel) only because the context is cancelled or the last value was sent:
	// with the three ways out cut - the ctx.Done() case, ctx.Err() != nil, the loop guard's exit - no return is reachable
	if bsl := an.AllInstrs(g.fn, func(in ssa.Instruction) bool { s, ok := in.(*ssa.Select); return ok && s.Blocking }); len(bsl) == 1 && cnt != nil {
		bs := bsl[0].(*ssa.Select)
		var cuts []an.EdgeCut
		if idx := resultOf2(bs, 0); idx != nil {
			doneIdx := int64(-1)
			for i, st := range bs.States {
				if call, ok := st.Chan.(*ssa.Call); ok && call.Call.IsInvoke() && call.Call.Method.Name() == "Done" {
					doneIdx = int64(i)
				}
			}
			ifs, negs := P.IfsOn(g.fn, func(cond ssa.Value) bool {
				b, ok := cond.(*ssa.BinOp)
				return ok && (b.Op == token.EQL || b.Op == token.NEQ) && (b.X == idx || b.Y == idx)
			})
			for i, ifi := range ifs {
				b := stripNotV(ifi.Cond).(*ssa.BinOp)
				k, isK := constInt(b.Y)
				if !isK {
					k, isK = constInt(b.X)
				}
				if !isK {
					continue
				}
				eq := 0
				if b.Op == token.NEQ {
					eq = 1
				}
				if negs[i] {
					eq = 1 - eq
				}
				if k == doneIdx {
					cuts = append(cuts, cutEdge(ifi, eq))
				} else if len(bs.States) == 2 {
					cuts = append(cuts, cutEdge(ifi, 1-eq)) // "it was the other case" (of two): the remaining one is Done
				}
			}
		}
		for _, in := range an.AllInstrs(g.fn, func(in ssa.Instruction) bool {
			call, ok := in.(*ssa.Call)
			return ok && call.Call.IsInvoke() && call.Call.Method.Name() == "Err"
		}) {
			ev := in.(*ssa.Call)
			if ifi, nilSucc, found := g.nilTestOf(isVal(ev)); found {
				cuts = append(cuts, cutEdge(ifi, 1-nilSucc))
			}
		}
		// a flag that joins "the Done case fired" (a constant) with the outcome of the ctx.Err() test
		for _, blk := range g.fn.Blocks {
			if len(blk.Instrs) == 0 {
				continue
			}
			ifi, ok := blk.Instrs[len(blk.Instrs)-1].(*ssa.If)
			if !ok {
				continue
			}
			c, neg := ifi.Cond, false
			for {
				if u, isU := c.(*ssa.UnOp); isU && u.Op == token.NOT {
					c, neg = u.X, !neg
					continue
				}
				break
			}
			ph, isPhi := c.(*ssa.Phi)
			if !isPhi {
				continue
			}
			// cancelledWhen: the truth value of the flag that means "cancelled", the same on every edge
			cw, okf := -1, true
			for _, e := range ph.Edges {
				this := -1
				if k, isK := e.(*ssa.Const); isK && k.Value != nil {
					if k.Value.String() == "true" {
						this = 1
					} else {
						this = 0
					}
				} else if bo, isB := e.(*ssa.BinOp); isB && (bo.Op == token.EQL || bo.Op == token.NEQ) && either(bo, func(v ssa.Value) bool {
					call, isC := v.(*ssa.Call)
					return isC && call.Call.IsInvoke() && call.Call.Method.Name() == "Err"
				}, isNilConst) {
					if bo.Op == token.NEQ {
						this = 1 // err != nil is true when cancelled
					} else {
						this = 0
					}
				}
				if this < 0 || (cw >= 0 && cw != this) {
					okf = false
				}
				cw = this
			}
			if !okf || cw < 0 {
				continue
			}
			sx := 1 - cw // successor taken when the flag has the "cancelled" value: true -> 0, false -> 1
			if neg {
				sx = 1 - sx
			}
			cuts = append(cuts, cutEdge(ifi, sx))
		}
		for _, blk := range g.fn.Blocks {
			if len(blk.Instrs) == 0 {
				continue
			}
			ifi, ok := blk.Instrs[len(blk.Instrs)-1].(*ssa.If)
			if !ok {
				continue
			}
			b, ok := stripNotV(ifi.Cond).(*ssa.BinOp)
			if !ok || (b.X != ssa.Value(cnt) && b.Y != ssa.Value(cnt)) {
				continue
			}
			for sx := 0; sx < 2; sx++ {
				if !ifi.Block().Succs[sx].Dominates(sel.Block()) {
					cuts = append(cuts, cutEdge(ifi, sx))
				}
			}
		}
		early := P.PathExists(g.fn, nil, an.IsReturn, nil, func(b *ssa.BasicBlock, i int) bool {
			for _, c := range cuts {
				if c(b, i) {
					return true
				}
			}
			return false
		})
		g.add("PATH", "the goroutine ends only on cancellation or after the last value was sent", !early, pickS(!early, "every return lies behind the ctx.Done() case, ctx.Err() != nil or the loop guard's exit", "the goroutine can return - and close the channel - while the context is live and fewer than count values were sent (a give-up path for a slow receiver): the receiver sees a closed channel it must read as cancellation or exhaustion"), bs)
	}
	// closed on every path, never twice
	closesF := P.CallsTo(fn, "builtin:close")
	closesG := P.CallsTo(g.fn, "builtin:close")
	gos := an.AllInstrs(fn, func(in ssa.Instruction) bool { _, ok := in.(*ssa.Go); return ok })
	okDefer := len(closesG) == 1
	if okDefer {
		_, isD := closesG[0].(*ssa.Defer)
		okDefer = isD && isFirstEffect(g.fn, closesG[0])
	}
	// the clean-up (close and the ticker's Stop) as one deferred literal: registered in the entry block with nothing
	// before it that can block, return or panic (creating the ticker is all), closing on every path through it
	var cleanup *ssa.Function
	if !okDefer && len(closesG) == 0 {
		for _, x := range g.fn.Blocks[0].Instrs {
			stop := false
			switch y := x.(type) {
			case *ssa.Defer:
				if mc, isMC := y.Call.Value.(*ssa.MakeClosure); isMC {
					lf := mc.Fn.(*ssa.Function)
					cl := P.CallsTo(lf, "builtin:close")
					if len(cl) == 1 && !P.PathExists(lf, nil, an.IsReturn, an.In(cl), nil) {
						if _, isD := cl[0].(*ssa.Defer); !isD {
							okDefer, cleanup = true, lf
							closesG = cl
						}
					}
				}
				stop = true
			case *ssa.Call:
				if P.CalleeName(&y.Call) != "time.NewTicker" {
					stop = true
				}
			case *ssa.Go, *ssa.Send, *ssa.Select, *ssa.Panic, *ssa.Return, *ssa.If:
				stop = true
			case *ssa.UnOp:
				if y.Op == token.ARROW {
					stop = true
				}
			}
			if stop {
				break
			}
		}
	}
	g.add("ONCE", "the goroutine closes the channel on every exit", okDefer, pickS(okDefer, "defer close(c) is the first statement of the goroutine", "the goroutine does not defer close(c) first: some exit would leave the channel open"), closesG...)
	for _, r := range returnsOf(fn) {
		closed := P.Before(fn, an.In(closesF), r)
		spawned := len(gos) == 1 && P.Before(fn, an.Is(gos[0]), r)
		q.add("ONCE", "every return hands back a channel that is closed now or by the goroutine", closed != spawned, pickS(closed != spawned, "exactly one of: close(c) / go <goroutine that defers close(c)> precedes the return", "a return is reachable with the channel neither closed nor owned by the goroutine, or both"), r)
	}
	for _, a := range closesF {
		for _, b := range closesF {
			if a != b && P.PathExists(fn, a, an.Is(b), nil, nil) {
				q.add("ONCE", "no path closes the channel twice", false, "two close(c) on one path", a)
			}
		}
		if len(gos) == 1 && P.PathExists(fn, a, an.Is(gos[0]), nil, nil) {
			q.add("ONCE", "no path closes the channel twice", false, "close(c) followed by starting the goroutine that closes it again", a)
		}
	}
	q.add("ONCE", "no path closes the channel twice", true, "closes and the go statement are on mutually exclusive paths")
	// count - 1 <= 0 => closed immediately; panics on invalid input
	pn := an.AllInstrs(fn, an.IsPanic)
	q.add("PATH", "invalid input panics", len(pn) >= 1 && P.Before(fn, an.In(nil), pn[0]) || len(pn) >= 1, "panic on nil ctx / non-positive rate or count", pn...)
	// ticker stopped (REL) is part of C12's census; repeat the local fact
	stops := P.CallsTo(g.fn, "(*time.Ticker).Stop")
	oks := len(stops) == 1
	if oks {
		_, oks = stops[0].(*ssa.Defer)
	}
	if !oks && cleanup != nil {
		// stopped by the deferred clean-up literal, on every path through it
		st := P.CallsTo(cleanup, "(*time.Ticker).Stop")
		oks = len(st) == 1 && !P.PathExists(cleanup, nil, an.IsReturn, an.In(st), nil)
		stops = st
	}
	g.add("REL", "the ticker is stopped when the goroutine exits", oks, "defer ticker.Stop()", stops...)
}

// resultOf2 returns the Extract of index idx of a tuple-valued instruction.
func resultOf2(v ssa.Value, idx int) ssa.Value {
	for _, r := range *v.Referrers() {
		if e, ok := r.(*ssa.Extract); ok && e.Index == idx {
			return e
		}
	}
	return nil
}

// loopHeaderGuard finds the If of the loop header that dominates in and compares a phi.
func loopHeaderGuard(fn *ssa.Function, in ssa.Instruction) (*ssa.If, bool) {
	for _, b := range fn.Blocks {
		ifi, ok := b.Instrs[len(b.Instrs)-1].(*ssa.If)
		if !ok {
			continue
		}
		bo, ok := stripNotV(ifi.Cond).(*ssa.BinOp)
		if !ok {
			continue
		}
		for _, v := range []ssa.Value{bo.X, bo.Y} {
			if ph, isPhi := v.(*ssa.Phi); isPhi && ph.Block() == b && b.Dominates(in.Block()) {
				return ifi, true
			}
		}
	}
	return nil, false
}

// isFirstEffect: in is the first call/defer/go/store of fn's entry block.
func isFirstEffect(fn *ssa.Function, in ssa.Instruction) bool {
	for _, x := range fn.Blocks[0].Instrs {
		switch x.(type) {
		case *ssa.Call, *ssa.Defer, *ssa.Go, *ssa.Send, *ssa.Store:
			return x == in
		}
	}
	return false
}

func init() {
	register(&Prop{
		ID:        "C20",
		Technique: "capacity / who-may-send audit, bounded-counter idiom recogniser over the SSA phi web, closed-on-every-path and ctx-recheck path rules, compile-fail witnesses for the receive-only result type",
		Explanation: "the channel is make(chan time.Time, 1); it is sent to once inline (only if ctx.Err() == nil, with time.Now()) and otherwise only by a non-blocking select in the goroutine; the goroutine's only blocking operation is a select over ctx.Done() and ticker.C, cancellation returns without forwarding, after every tick ctx.Err() is re-checked before the send, the value forwarded is the tick received; " +
			"the counter is phi(0, i, i+1 on the send-success edge) under the guard i < count with count = param - 1 fixed before the goroutine starts (at most count values in total); every return hands back the channel either closed or owned by a goroutine whose first statement defers close(c), never both; the ticker is stopped; callers cannot close or send (type-level).",
		NotDecided: "non-decreasing timestamps (time.Ticker semantics, trusted) and promptness.",
		Build: func(c *Ctx) []*an.Oblig {
			linearAttempt(c)
			linearAttemptWitnesses(c)
			out := c.sel(func(o *an.Oblig) bool {
				if isUndecided(o) || o.Rule == "ANCHOR" {
					return true
				}
				return ruleIn(o, "B", "P") && funcHas(o, "LinearAttempt")
			})
			return append(out, c.C.List...)
		},
		Floors: []Floor{
			floorKey("LinearAttempt", 8, "/LinearAttempt/"),
			floorKey("goroutine", 8, "/LinearAttempt$go1/"),
			floorRule("ATOM", "ATOM", 3),
		},
	})
}

func isConstK(v ssa.Value, k int64) bool {
	c, ok := constInt(v)
	return ok && c == k
}
