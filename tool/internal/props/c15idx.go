package props

import (
	"fmt"
	"go/token"
	"go/types"
	"sort"
	"strings"

	"bbcheck/internal/an"

	"golang.org/x/tools/go/ssa"
)

// Index arithmetic of Notifier.PublishContext's select loop. The list handed to reflect.Select is
// E ++ F ++ S (exit, cancellation, send cases); R[k] is the index in S of the send that F[k] guards. The rules
// below decide, on linear forms over {chosen, len(E), len(F), ...}, that the fired index is split in list order,
// that the element removed from each list is the one the fired case denotes, and that the references behind a
// removed send are re-based. They say nothing about the order of R (ascending by construction, used by the early
// break of the re-basing loop).

type ltm struct {
	c int64
	t map[string]int64
}

func (l ltm) String() string {
	var ks []string
	for k, n := range l.t {
		if n != 0 {
			ks = append(ks, fmt.Sprintf("%+d*%s", n, k))
		}
	}
	sort.Strings(ks)
	return fmt.Sprintf("%s %+d", strings.Join(ks, " "), l.c)
}

func idxTerms(v ssa.Value, k int64, out *ltm, d int) {
	if d > 12 {
		out.t["v:"+v.Name()] += k
		return
	}
	switch x := v.(type) {
	case *ssa.Const:
		if c, ok := constInt(x); ok {
			out.c += k * c
			return
		}
	case *ssa.BinOp:
		if b, ok := x.Type().Underlying().(*types.Basic); ok && b.Info()&types.IsInteger != 0 {
			switch x.Op {
			case token.ADD:
				idxTerms(x.X, k, out, d+1)
				idxTerms(x.Y, k, out, d+1)
				return
			case token.SUB:
				idxTerms(x.X, k, out, d+1)
				idxTerms(x.Y, -k, out, d+1)
				return
			}
		}
	case *ssa.Call:
		if bi, ok := x.Call.Value.(*ssa.Builtin); ok && bi.Name() == "len" && len(x.Call.Args) == 1 {
			out.t["len:"+x.Call.Args[0].Name()] += k
			return
		}
	}
	out.t["v:"+v.Name()] += k
}

func idxLin(v ssa.Value) ltm {
	l := ltm{t: map[string]int64{}}
	idxTerms(v, 1, &l, 0)
	for k, n := range l.t {
		if n == 0 {
			delete(l.t, k)
		}
	}
	return l
}

// idxDiff: a - b is the constant returned (ok) or not a constant.
func idxDiff(a, b ssa.Value) (int64, bool) {
	la, lb := idxLin(a), idxLin(b)
	for k, n := range lb.t {
		la.t[k] -= n
	}
	for _, n := range la.t {
		if n != 0 {
			return 0, false
		}
	}
	return la.c - lb.c, true
}

func idxIs(v ssa.Value, want map[string]int64, c int64) bool {
	l := idxLin(v)
	if l.c != c || len(l.t) != len(want) {
		return false
	}
	for k, n := range want {
		if l.t[k] != n {
			return false
		}
	}
	return true
}

// ltEdges: the If edges on which x < y holds strictly, for operands accepted by isX / isY.
func ltEdges(fn *ssa.Function, isX, isY func(ssa.Value) bool) (ifs []*ssa.If, succ []int) {
	for _, b := range fn.Blocks {
		if len(b.Instrs) == 0 {
			continue
		}
		ifi, ok := b.Instrs[len(b.Instrs)-1].(*ssa.If)
		if !ok {
			continue
		}
		c := ifi.Cond
		neg := false
		for {
			if u, ok := c.(*ssa.UnOp); ok && u.Op == token.NOT {
				c, neg = u.X, !neg
				continue
			}
			break
		}
		bo, ok := c.(*ssa.BinOp)
		if !ok {
			continue
		}
		s := -1
		switch {
		case isX(bo.X) && isY(bo.Y):
			switch bo.Op {
			case token.LSS:
				s = 0
			case token.GEQ:
				s = 1
			}
		case isX(bo.Y) && isY(bo.X):
			switch bo.Op {
			case token.GTR:
				s = 0
			case token.LEQ:
				s = 1
			}
		}
		if s < 0 {
			continue
		}
		if neg {
			s = 1 - s
		}
		ifs, succ = append(ifs, ifi), append(succ, s)
	}
	return
}

func phiEdges(v ssa.Value) []ssa.Value {
	if ph, ok := v.(*ssa.Phi); ok {
		return ph.Edges
	}
	return []ssa.Value{v}
}

func c15Index(q *fq, fn *ssa.Function, sel ssa.Instruction, chain []ssa.Value) {
	P := q.c.P
	const (
		sSplit  = "the fired index is split in list order: exit cases, then cancellation cases, then sends"
		sRemove = "a resolved case is removed by closing the gap at its own index and shortening the list by one"
		sWhich  = "a cancellation removes the send it recorded, a delivery removes its own send and the cancellation case that guards it"
		sRebase = "exactly the references behind the removed send are decremented, over the whole list"
	)
	if len(chain) != 3 {
		return // the list layout itself is reported by PROV "every Select sees a fresh ... case list"
	}
	E, F, S := chain[0], chain[1], chain[2]
	chosen := resultOf(sel, 0)
	if chosen == nil {
		q.undecided("LIN", sSplit, "the index returned by reflect.Select is not used")
		return
	}
	kc, ke, kf := "v:"+chosen.Name(), "len:"+E.Name(), "len:"+F.Name()
	isFI := func(v ssa.Value) bool { return idxIs(v, map[string]int64{kc: 1, ke: -1}, 0) }
	isSI := func(v ssa.Value) bool { return idxIs(v, map[string]int64{kc: 1, ke: -1, kf: -1}, 0) }
	isLenE := func(v ssa.Value) bool { return idxIs(v, map[string]int64{ke: 1}, 0) }
	isLenF := func(v ssa.Value) bool { return idxIs(v, map[string]int64{kf: 1}, 0) }

	// (1) every index computed from chosen is chosen-len(E) or chosen-len(E)-len(F)
	nFI, nSI := 0, 0
	okSplit, bad := true, ""
	var at ssa.Instruction
	for _, in := range an.AllInstrs(fn, func(in ssa.Instruction) bool {
		bo, ok := in.(*ssa.BinOp)
		return ok && (bo.Op == token.ADD || bo.Op == token.SUB)
	}) {
		bo := in.(*ssa.BinOp)
		l := idxLin(bo)
		if l.t[kc] == 0 {
			continue
		}
		switch {
		case isFI(bo):
			nFI++
		case isSI(bo):
			nSI++
		default:
			// an intermediate of a longer sum is fine when it only feeds another sum
			inter := true
			for _, r := range *bo.Referrers() {
				if rb, ok := r.(*ssa.BinOp); !ok || (rb.Op != token.ADD && rb.Op != token.SUB) {
					inter = false
				}
			}
			if !inter || len(*bo.Referrers()) == 0 {
				okSplit, bad, at = false, l.String(), in
			}
		}
	}
	if nFI == 0 || nSI == 0 {
		okSplit = false
		if bad == "" {
			bad = "chosen-len(exit) or chosen-len(exit)-len(cancellation) is never formed"
		}
	}
	// the two boundary tests
	eIfs, eSucc := ltEdges(fn, isVal(chosen), isLenE)
	fIfs, fSucc := ltEdges(fn, isFI, isLenF)
	if len(eIfs) == 0 || len(fIfs) == 0 {
		okSplit = false
		bad += " (boundary test chosen < len(exit) / chosen-len(exit) < len(cancellation) not found)"
	}
	q.add("LIN", sSplit, okSplit, pickS(okSplit, "failureIndex = chosen-len(E), successIndex = failureIndex-len(F); boundaries chosen < len(E), failureIndex < len(F)", "an index derived from the fired case does not follow the list layout exit ++ cancellation ++ send: another subscriber's case would be treated as resolved: "+bad), pick1(at, sel))

	// (2) removals
	copies := P.CallsTo(fn, "builtin:copy")
	type rem struct {
		in   ssa.Instruction
		base ssa.Value
		low  ssa.Value
	}
	var rems []rem
	for _, cp := range copies {
		if !P.PathExists(fn, sel, an.Is(cp), nil, nil) {
			continue
		}
		dst, ok1 := callArg(cp, 0).(*ssa.Slice)
		src, ok2 := callArg(cp, 1).(*ssa.Slice)
		ok := ok1 && ok2 && dst.X == src.X && dst.Low != nil && src.Low != nil && dst.High == nil && src.High == nil
		if ok {
			d, isK := idxDiff(src.Low, dst.Low)
			ok = isK && d == 1
		}
		if ok {
			// the list that continues round the loop is this one without its last element
			ph, isPhi := dst.X.(*ssa.Phi)
			ok = isPhi
			if isPhi {
				found := false
				for i, e := range ph.Edges {
					pred := ph.Block().Preds[i]
					if !cp.Block().Dominates(pred) {
						continue
					}
					found = true
					sl, isS := e.(*ssa.Slice)
					if !isS || sl.X != dst.X || sl.Low != nil || sl.High == nil || !idxIs(sl.High, map[string]int64{"len:" + dst.X.Name(): 1}, -1) {
						ok = false
					}
				}
				if !found {
					ok = false
				}
			}
		}
		q.add("LIN", sRemove, ok, pickS(ok, "copy(l[i:], l[i+1:]); l = l[:len(l)-1] carried to the next round", "the removal does not close the gap at one index and drop exactly the last element: a pending send would be lost or offered twice"), cp)
		if ok {
			rems = append(rems, rem{cp, dst.X, dst.Low})
		}
	}
	var remS, remF, remR *rem
	for i := range rems {
		r := &rems[i]
		switch {
		case r.base == S:
			remS = r
		case r.base == F:
			remF = r
		default:
			if sl, ok := r.base.Type().Underlying().(*types.Slice); ok {
				if b, ok := sl.Elem().Underlying().(*types.Basic); ok && b.Kind() == types.Int {
					remR = r
				}
			}
		}
	}
	if remS == nil || remF == nil || remR == nil {
		q.add("LIN", sWhich, false, "the removal from the send list, the cancellation list or the reference list was not found in its expected form")
		return
	}
	R := remR.base

	// (3) which element: a = index removed from S, b = index removed from F and R
	a, b := remS.low, remF.low
	okW, why := true, ""
	if d, isK := idxDiff(remR.low, b); !isK || d != 0 {
		okW, why = false, "the cancellation list and the reference list are shortened at different indices"
	}
	aE, bE := phiEdges(a), phiEdges(b)
	aPhi, aIsPhi := a.(*ssa.Phi)
	bPhi, bIsPhi := b.(*ssa.Phi)
	paired := aIsPhi && bIsPhi && aPhi.Block() == bPhi.Block()
	isRLoad := func(v ssa.Value) (idx ssa.Value, ok bool) {
		ld, isL := isLoad(v)
		if !isL {
			return nil, false
		}
		ia, isIA := ld.X.(*ssa.IndexAddr)
		if !isIA || ia.X != R {
			return nil, false
		}
		return ia.Index, true
	}
	sawCancel, sawDeliver := false, false
	for i, av := range aE {
		if idx, isL := isRLoad(av); isL {
			sawCancel = true
			if !isFI(idx) {
				okW, why = false, "the send removed after a cancellation is not the one recorded for the fired cancellation case (references["+idxLin(idx).String()+"])"
			}
			ld, _ := isLoad(av)
			// only where the fired case is a cancellation case
			guarded := false
			for k, ifi := range fIfs {
				if q.onlyViaEdge(ld, ifi, fSucc[k]) {
					guarded = true
				}
			}
			for k, ifi := range eIfs {
				if !q.onlyViaEdge(ld, ifi, 1-eSucc[k]) {
					guarded = false
				}
			}
			if !guarded {
				okW, why = false, "the recorded reference is read without chosen >= len(exit) and chosen-len(exit) < len(cancellation) being established"
			}
			if paired && !isFI(bE[i]) {
				okW, why = false, "after a cancellation the case removed from the cancellation list is not the fired one"
			}
			continue
		}
		if isSI(av) {
			sawDeliver = true
			if paired {
				onStack := map[*ssa.Phi]bool{}
				var okGuard func(bv ssa.Value, pred *ssa.BasicBlock, d int) bool
				okGuard = func(bv ssa.Value, pred *ssa.BasicBlock, d int) bool {
					if c, isK := constInt(bv); isK && c < 0 {
						return true // no guarding case
					}
					// an index i for which references[i] == successIndex was observed
					eqIfs, eqNeg := P.IfsOn(fn, func(cond ssa.Value) bool {
						bo, ok := cond.(*ssa.BinOp)
						if !ok || (bo.Op != token.EQL && bo.Op != token.NEQ) {
							return false
						}
						return either(bo, func(v ssa.Value) bool {
							idx, isL := isRLoad(v)
							if !isL {
								return false
							}
							d, isK := idxDiff(idx, bv)
							return isK && d == 0
						}, isSI)
					})
					for k, ifi := range eqIfs {
						s := 0
						if stripNotV(ifi.Cond).(*ssa.BinOp).Op == token.NEQ {
							s = 1
						}
						if eqNeg[k] {
							s = 1 - s
						}
						if len(pred.Instrs) > 0 && q.onlyViaEdge(pred.Instrs[len(pred.Instrs)-1], ifi, s) {
							return true
						}
					}
					if ph, isPhi := bv.(*ssa.Phi); isPhi && d < 4 && ph != bPhi && !onStack[ph] {
						// the result of a search that was written as a helper, or that carries its result round the search
						// loop: every way into the join is one of the above (the value it already has aside)
						onStack[ph] = true
						defer delete(onStack, ph)
						for k, e := range ph.Edges {
							if ep, isP := e.(*ssa.Phi); isP && onStack[ep] {
								continue
							}
							if !okGuard(e, ph.Block().Preds[k], d+1) {
								return false
							}
						}
						return len(ph.Edges) > 0
					}
					return false
				}
				okB := okGuard(bE[i], bPhi.Block().Preds[i], 0)
				if !okB {
					okW, why = false, "after a delivery the cancellation case removed is not one whose reference was compared equal to the delivered send's index"
				}
			}
			continue
		}
		okW, why = false, "the index removed from the send list ("+idxLin(av).String()+") is neither the delivered send nor the reference of the fired cancellation"
	}
	if !sawCancel || !sawDeliver {
		okW, why = false, "the send list is not shortened on both outcomes (cancellation, delivery)"
	}
	if !paired && okW {
		// the two indices are not chosen at one join: decide b on its own
		for _, bv := range bE {
			if c, isK := constInt(bv); (isK && c < 0) || isFI(bv) {
				continue
			}
			if _, isPhi := bv.(*ssa.Phi); isPhi {
				continue
			}
			if bo, isB := bv.(*ssa.BinOp); isB && bo.Op == token.ADD {
				continue // loop counter of the search
			}
			okW, why = false, "the index removed from the cancellation list has an unexpected origin"
		}
	}
	q.add("LIN", sWhich, okW, pickS(okW, "successIndex is references[failureIndex] on the cancellation branch and chosen-len(E)-len(F) on the delivery branch; failureIndex is the fired case, or the case whose reference equals successIndex, or none", why), remS.in, remF.in)

	// (4) re-basing
	decs := an.AllInstrs(fn, func(in ssa.Instruction) bool {
		st, ok := in.(*ssa.Store)
		if !ok {
			return false
		}
		ia, ok := st.Addr.(*ssa.IndexAddr)
		return ok && ia.X == R && P.PathExists(fn, sel, an.Is(in), nil, nil)
	})
	if len(decs) == 0 {
		q.add("LIN", sRebase, false, "no write to the reference list after the Select")
		return
	}
	for _, in := range decs {
		st := in.(*ssa.Store)
		ia := st.Addr.(*ssa.IndexAddr)
		okD, whyD := true, ""
		// value = references[i] - 1
		{
			l := idxLin(st.Val)
			okV := l.c == -1 && len(l.t) == 1
			if okV {
				okV = false
				if bo, isB := st.Val.(*ssa.BinOp); isB {
					if idx, isL := isRLoad(bo.X); isL {
						if d, isK := idxDiff(idx, ia.Index); isK && d == 0 {
							okV = true
						}
					}
				}
			}
			if !okV {
				okD, whyD = false, "the stored value is not the same element minus one"
			}
		}
		// only for references[i] > a (or >= a: the equal one is removed afterwards)
		{
			isRef := func(v ssa.Value) bool {
				idx, isL := isRLoad(v)
				if !isL {
					return false
				}
				d, isK := idxDiff(idx, ia.Index)
				return isK && d == 0
			}
			guarded := false
			for _, blk := range fn.Blocks {
				if len(blk.Instrs) == 0 {
					continue
				}
				ifi, ok := blk.Instrs[len(blk.Instrs)-1].(*ssa.If)
				if !ok {
					continue
				}
				c, neg := ifi.Cond, false
				for {
					if u, ok := c.(*ssa.UnOp); ok && u.Op == token.NOT {
						c, neg = u.X, !neg
						continue
					}
					break
				}
				bo, ok := c.(*ssa.BinOp)
				if !ok {
					continue
				}
				s := -1
				switch {
				case isRef(bo.X) && bo.Y == a:
					switch bo.Op {
					case token.GTR, token.GEQ:
						s = 0
					case token.LEQ, token.LSS:
						s = 1
					}
				case isRef(bo.Y) && bo.X == a:
					switch bo.Op {
					case token.LSS, token.LEQ:
						s = 0
					case token.GEQ, token.GTR:
						s = 1
					}
				}
				if s < 0 {
					continue
				}
				if neg {
					s = 1 - s
				}
				if q.onlyViaEdge(in, ifi, s) {
					guarded = true
				}
			}
			if !guarded {
				okD, whyD = false, "the decrement is not confined to references greater than the removed send's index"
			}
		}
		// the loop covers the list from one end to the other in steps of one
		{
			okL := false
			if ph, isPhi := ia.Index.(*ssa.Phi); isPhi && P.InCycle(in) {
				var init, step ssa.Value
				for _, e := range ph.Edges {
					if d, isK := idxDiff(e, ph); isK {
						if d == 1 || d == -1 {
							step = e
						}
					} else {
						init = e
					}
				}
				if init != nil && step != nil {
					d, _ := idxDiff(step, ph)
					if d == -1 && idxIs(init, map[string]int64{"len:" + R.Name(): 1}, -1) {
						okL = true
					}
					if c, isK := constInt(init); d == 1 && isK && c == 0 {
						okL = true
					}
				}
			} else if bo, isB := ia.Index.(*ssa.BinOp); isB && P.InCycle(in) {
				// range loop: index = counter + 1, counter starts at -1
				if ph, isPhi := bo.X.(*ssa.Phi); isPhi && bo.Op == token.ADD {
					for _, e := range ph.Edges {
						if c, isK := constInt(e); isK && c == -1 {
							okL = true
						}
					}
				}
			}
			if !okL {
				okD, whyD = false, "the re-basing loop does not start at an end of the reference list or does not step by one"
			}
		}
		q.add("LIN", sRebase, okD, pickS(okD, "references[i]-- for i from len-1 down while references[i] > successIndex", "a reference behind the removed send keeps its old value (or one before it is changed): after a later cancellation another subscriber's send is dropped, or the index is out of range: "+whyD), in)
	}
}

func pick1(a, b ssa.Instruction) ssa.Instruction {
	if a != nil {
		return a
	}
	return b
}
