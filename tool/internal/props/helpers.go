package props

import (
	"fmt"
	"go/token"
	"strings"

	"golang.org/x/tools/go/ssa"

	"bbcheck/internal/an"
)

// fq is a query handle on one anchored function.
type fq struct {
	c    *Ctx
	fn   *ssa.Function
	name string
}

// F resolves an anchored function; a missing anchor is an analysis failure, not a silent pass.
func (c *Ctx) F(name string) *fq {
	fn := c.P.Func(name)
	if fn == nil {
		c.C.Undecided("ANCHOR", name, "function", "anchored function "+name+" not found: the table must be re-confirmed against the source")
	}
	return &fq{c: c, fn: fn, name: name}
}

func (q *fq) ok() bool { return q.fn != nil }

func (q *fq) pos(in ssa.Instruction) string {
	if in == nil {
		if q.fn != nil {
			return q.c.P.Pos(q.fn.Pos())
		}
		return "-"
	}
	return q.c.P.InstrPos(in)
}

// add records an obligation about this function.
func (q *fq) add(rule, subject string, ok bool, detail string, ins ...ssa.Instruction) {
	var ps []string
	for _, in := range ins {
		ps = append(ps, q.pos(in))
	}
	if len(ps) == 0 {
		ps = append(ps, q.pos(nil))
	}
	q.c.C.Add(rule, q.name, subject, ok, detail, ps...)
}

func (q *fq) undecided(rule, subject, detail string, ins ...ssa.Instruction) {
	var ps []string
	for _, in := range ins {
		ps = append(ps, q.pos(in))
	}
	if len(ps) == 0 {
		ps = append(ps, q.pos(nil))
	}
	q.c.C.Undecided(rule, q.name, subject, detail, ps...)
}

// need1 expects exactly-at-least one site; reports an unresolved anchor otherwise.
func (q *fq) need(sites []ssa.Instruction, rule, what string) bool {
	if len(sites) == 0 {
		q.undecided(rule, what, "expected site not found in "+q.name+": "+what+" (the idiom changed; the rule cannot decide)")
		return false
	}
	return true
}

func (q *fq) param(i int) string {
	if q.fn == nil || i >= len(q.fn.Params) {
		return "?"
	}
	return q.fn.Params[i].Name()
}

// atoms --------------------------------------------------------------------------------------

func aP(name string) an.Lin           { return an.LinAtom("P(" + name + ")") }
func aF(path string) an.Lin           { return an.LinAtom("F(" + path + ")") }
func aLen(path string) an.Lin         { return an.LinAtom("len(" + path + ")") }
func aM(mp string, key an.Lin) an.Lin { return an.LinAtom("M(" + mp + ")[" + key.String() + "]") }
func aHas(mp string, key an.Lin) an.Lin {
	return an.LinAtom("has(" + mp + ")[" + key.String() + "]")
}

// expectLin compares a value's linear form with the expected one.
func (q *fq) expectLin(rule, subject string, got ssa.Value, want an.Lin, in ssa.Instruction) {
	g := q.c.P.Lin(got)
	ok := g.Equal(want)
	det := "form is " + g.String()
	if !ok {
		det = "expected the form [" + want.String() + "], found [" + g.String() + "]"
	}
	q.add(rule, subject, ok, det, in)
}

// cond helpers -------------------------------------------------------------------------------

func lit(l an.Lin, set uint8) an.Lit { return an.MkLit(l, set) }

func conj(ls ...an.Lit) an.Conj {
	c := an.Conj{}
	for _, l := range ls {
		cur, ok := c[l.Form]
		if !ok {
			cur = an.SAny
		}
		c[l.Form] = cur & l.Set
	}
	return c
}

func keepForms(ls ...an.Lin) func(string) bool {
	// forms are matched by their constant-free base: `len(x) < 1` is about the same quantity as `len(x) <= 0`
	m := map[string]bool{}
	for _, l := range ls {
		m[an.FormBase(lit(l, an.SAny).Form)] = true
	}
	return func(f string) bool { return m[an.FormBase(f)] }
}

// expectCond: the site is reached (from entry, along acyclic paths) iff want, over the kept forms.
func (q *fq) expectCond(rule, subject string, site ssa.Instruction, from *ssa.BasicBlock, want an.DNF, keep func(string) bool) {
	got := q.c.P.PathCond(q.fn, from, site, keep)
	ok, cex := an.EquivDNF(got, want)
	det := "reached iff " + want.String()
	if !ok {
		det = "expected to be reached iff [" + want.String() + "], but the code reaches it iff [" + got.String() + "]; they differ for " + cex
	}
	q.add(rule, subject, ok, det, site)
}

// misc ---------------------------------------------------------------------------------------

func isNilConst(v ssa.Value) bool {
	c, ok := v.(*ssa.Const)
	return ok && c.IsNil()
}

func constInt(v ssa.Value) (int64, bool) {
	c, ok := v.(*ssa.Const)
	if !ok || c.Value == nil {
		return 0, false
	}
	return (an.Val{K: an.KConst, Const: c}).ConstInt()
}

func constBool(v ssa.Value) (bool, bool) {
	c, ok := v.(*ssa.Const)
	if !ok || c.Value == nil {
		return false, false
	}
	return (an.Val{K: an.KConst, Const: c}).ConstBool()
}

func isLoad(v ssa.Value) (*ssa.UnOp, bool) {
	u, ok := v.(*ssa.UnOp)
	return u, ok && u.Op == token.MUL
}

func instrs(is []ssa.Instruction) string {
	var s []string
	for _, i := range is {
		s = append(s, i.String())
	}
	return strings.Join(s, "; ")
}

// callArg returns the i-th argument of a call instruction (receiver of an invoke is not counted).
func callArg(in ssa.Instruction, i int) ssa.Value {
	c := an.CallCommonOf(in)
	if c == nil || i >= len(c.Args) {
		return nil
	}
	return c.Args[i]
}

// resultOf returns the value of the idx-th result of a call instruction (nil if it is not extracted).
func resultOf(in ssa.Instruction, idx int) ssa.Value {
	call, ok := in.(*ssa.Call)
	if !ok {
		return nil
	}
	if call.Type() != nil {
		if _, isTuple := call.Type().(interface{ Len() int }); !isTuple {
			if idx == 0 {
				return call
			}
			return nil
		}
	}
	for _, r := range *call.Referrers() {
		if e, ok := r.(*ssa.Extract); ok && e.Index == idx {
			return e
		}
	}
	return nil
}

// errNilIf finds the If that tests `v != nil` / `v == nil` for the given value (through cells) and
// tells which successor index is the nil (success) side.
func (q *fq) nilTestOf(isV func(ssa.Value) bool) (ifi *ssa.If, nilSucc int, found bool) {
	ifs, negs := q.c.P.IfsOn(q.fn, func(cond ssa.Value) bool {
		b, ok := cond.(*ssa.BinOp)
		if !ok || (b.Op != token.EQL && b.Op != token.NEQ) {
			return false
		}
		return (isNilConst(b.Y) && isV(b.X)) || (isNilConst(b.X) && isV(b.Y))
	})
	if len(ifs) == 0 {
		return nil, 0, false
	}
	ifi = ifs[0]
	c := ifi.Cond
	for {
		if u, ok := c.(*ssa.UnOp); ok && u.Op == token.NOT {
			c = u.X
			continue
		}
		break
	}
	b := c.(*ssa.BinOp)
	// cond true means: (v == nil) for EQL, (v != nil) for NEQ; a NOT flips
	nilWhenTrue := b.Op == token.EQL
	if negs[0] {
		nilWhenTrue = !nilWhenTrue
	}
	if nilWhenTrue {
		return ifi, 0, true
	}
	return ifi, 1, true
}

// cutEdge builds an EdgeCut removing one successor edge of an If.
func cutEdge(ifi *ssa.If, succ int) an.EdgeCut {
	if ifi == nil {
		// the deciding branch was not found: nothing is cut, so "only through that edge" is not established
		return func(*ssa.BasicBlock, int) bool { return false }
	}
	return func(b *ssa.BasicBlock, i int) bool { return b == ifi.Block() && i == succ }
}

// onlyViaEdge: site reachable from entry only through the given edge of ifi.
func (q *fq) onlyViaEdge(site ssa.Instruction, ifi *ssa.If, succ int) bool {
	if ifi == nil || site == nil {
		return false // the deciding branch was not found: not established
	}
	return !q.c.P.PathExists(q.fn, nil, an.Is(site), nil, cutEdge(ifi, succ))
}

// either: the comparison's operands match (fa, fb) in one order or the other.
func either(b *ssa.BinOp, fa, fb func(ssa.Value) bool) bool {
	return (fa(b.X) && fb(b.Y)) || (fa(b.Y) && fb(b.X))
}

// cmpOf orients an ordering comparison around its subject: for `subject op other` it returns
// (op, other); for `other op subject` the mirrored operator.
func cmpOf(b *ssa.BinOp, isSubject func(ssa.Value) bool) (token.Token, ssa.Value, bool) {
	if isSubject(b.X) {
		return b.Op, b.Y, true
	}
	if isSubject(b.Y) {
		op := b.Op
		switch b.Op {
		case token.LSS:
			op = token.GTR
		case token.LEQ:
			op = token.GEQ
		case token.GTR:
			op = token.LSS
		case token.GEQ:
			op = token.LEQ
		}
		return op, b.X, true
	}
	return 0, nil, false
}

func isVal(v ssa.Value) func(ssa.Value) bool { return func(x ssa.Value) bool { return x == v } }

func loadOfField(field string) func(ssa.Value) bool {
	return func(v ssa.Value) bool {
		if an.IsLoadOfField(v, field) {
			return true
		}
		// a loop variable re-read from the field in the loop's init and post statements: every operand is such a read
		if ph, ok := v.(*ssa.Phi); ok {
			for _, e := range ph.Edges {
				if !an.IsLoadOfField(e, field) {
					return false
				}
			}
			return len(ph.Edges) > 0
		}
		return false
	}
}

// cellOfParam: the cell a captured parameter was spilled into.
func cellOfParam(fn *ssa.Function, prm *ssa.Parameter) *ssa.Alloc {
	for _, r := range *prm.Referrers() {
		if st, ok := r.(*ssa.Store); ok && st.Val == ssa.Value(prm) {
			if al, ok := st.Addr.(*ssa.Alloc); ok {
				return al
			}
		}
	}
	return nil
}

// delegates: fn is a thin wrapper - every path through it calls callee exactly with the described arguments
// ("recv", "p<i>" = fn's i-th parameter counting the receiver as 0 (for closures: the enclosing function's),
// "nil", "int:<n>"). A wrapper that passes another key / count / target changes what the caller asked for.
func (c *Ctx) delegates(fnName, callee string, args ...string) {
	P := c.P
	q := c.F(fnName)
	if !q.ok() {
		return
	}
	owner := q.fn
	for owner.Parent() != nil {
		owner = owner.Parent()
	}
	calls := P.CallsTo(q.fn, callee)
	subj := "delegates to " + callee + " with its own arguments"
	if !q.need(calls, "PROV", subj) {
		return
	}
	for _, in := range calls {
		cc := an.CallCommonOf(in)
		ok := len(cc.Args) == len(args)
		bad := ""
		for i := 0; ok && i < len(args); i++ {
			a := cc.Args[i]
			match := false
			switch {
			case args[i] == "nil":
				match = isNilConst(a)
				if !match {
					for _, s := range P.Sources(a) {
						match = isNilConst(s)
					}
				}
			case strings.HasPrefix(args[i], "int:"):
				v, isC := constInt(a)
				match = isC && fmt.Sprint(v) == strings.TrimPrefix(args[i], "int:")
			case args[i] == "recv":
				match = len(owner.Params) > 0 && srcIs(P, a, owner.Params[0])
			case strings.HasPrefix(args[i], "p"):
				var n int
				fmt.Sscanf(args[i], "p%d", &n)
				match = n < len(owner.Params) && srcIs(P, a, owner.Params[n])
			}
			if !match {
				bad += " #" + fmt.Sprint(i) + " (want " + args[i] + ")"
			}
		}
		good := ok && bad == ""
		q.add("PROV", subj, good, pickS(good, callee+"("+strings.Join(args, ", ")+")", "the call passes something else for argument"+bad), in)
	}
	skip := P.PathExists(q.fn, nil, an.IsReturn, an.In(calls), nil)
	q.add("PATH", "every path delegates to "+callee, !skip, pickS(!skip, "no return without the call", "the wrapper can return without delegating"), calls[0])
}

// returnsField: every normal return of the accessor yields the named field of its receiver.
func (c *Ctx) returnsField(fnName, field, why string) {
	q := c.F(fnName)
	if !q.ok() {
		return
	}
	rets := returnsOf(q.fn)
	ok := len(rets) > 0
	for _, r := range rets {
		good := false
		for _, v := range c.retVals(r, 0) {
			if an.IsLoadOfField(v, field) {
				good = true
			} else {
				good = false
				break
			}
		}
		if !good {
			ok = false
		}
	}
	q.add("PROV", "returns "+field, ok, pickS(ok, "every return yields the receiver's "+field, fnName+" does not return "+field+" on every path: "+why))
}

// sliceOfField: v is the named slice field's current value, possibly re-sliced (b.buffer[:n]) and possibly held in a
// local variable. It returns the outermost re-slice on the way, if any.
func sliceOfField(p *an.Prog, v ssa.Value, field string) (ok bool, via *ssa.Slice) {
	seen := map[ssa.Value]bool{}
	var walk func(v ssa.Value) bool
	walk = func(v ssa.Value) bool {
		if v == nil || seen[v] {
			return false
		}
		seen[v] = true
		if an.IsLoadOfField(v, field) {
			return true
		}
		if sl, isS := v.(*ssa.Slice); isS {
			if walk(sl.X) {
				if via == nil {
					via = sl
				}
				return true
			}
			return false
		}
		srcs := p.Sources(v)
		if len(srcs) == 1 && srcs[0] != v {
			return walk(srcs[0])
		}
		return false
	}
	ok = walk(v)
	return ok, via
}

// loopBound describes a counted loop around `in`: the values whose difference is the trip count. Recognised forms:
//
//	for i := a; i < n; i++       (also the rotated `for range n`: i' = phi[-1, i'+1]; test i'+1 < n)   -> from a to n
//	for r := n; r > m; r--                                                                            -> from m to n
//
// hi and lo are the SSA values (loop-invariant) such that the body runs hi - lo times when hi >= lo.
func loopBound(p *an.Prog, in ssa.Instruction) (hi, lo ssa.Value, loConst int64, ok bool) {
	for _, pb := range in.Block().Preds {
		ifi, isIf := pb.Instrs[len(pb.Instrs)-1].(*ssa.If)
		if !isIf {
			continue
		}
		b, isB := stripNotV(ifi.Cond).(*ssa.BinOp)
		if !isB {
			continue
		}
		if hi, lo, loConst, ok = loopBoundOf(p, in, ifi, b); ok {
			return
		}
	}
	return nil, nil, 0, false
}

func loopBoundOf(p *an.Prog, in ssa.Instruction, ifi *ssa.If, b *ssa.BinOp) (hi, lo ssa.Value, loConst int64, ok bool) {
	// counter side: a phi of {init, phi±1}, possibly seen through its own +1 (rotated form)
	counter := func(v ssa.Value) (ph *ssa.Phi, step int64, adj int64, is bool) {
		if bo, isB := v.(*ssa.BinOp); isB && (bo.Op == token.ADD || bo.Op == token.SUB) {
			if c, isC := constInt(bo.Y); isC && c == 1 {
				if p2, isP := bo.X.(*ssa.Phi); isP {
					for _, e := range p2.Edges {
						if e == v {
							st := int64(1)
							if bo.Op == token.SUB {
								st = -1
							}
							return p2, st, st, true // the tested value is the already advanced counter
						}
					}
				}
			}
		}
		if p2, isP := v.(*ssa.Phi); isP && len(p2.Edges) == 2 {
			for _, e := range p2.Edges {
				if bo, isB := e.(*ssa.BinOp); isB && bo.X == ssa.Value(p2) {
					if c, isC := constInt(bo.Y); isC && c == 1 {
						if bo.Op == token.ADD {
							return p2, 1, 0, true
						}
						if bo.Op == token.SUB {
							return p2, -1, 0, true
						}
					}
				}
			}
		}
		return nil, 0, 0, false
	}
	try := func(cv, bound ssa.Value, op token.Token) bool {
		ph, step, adj, is := counter(cv)
		if !is {
			return false
		}
		var init ssa.Value
		for _, e := range ph.Edges {
			if bo, isB := e.(*ssa.BinOp); isB && bo.X == ssa.Value(ph) {
				continue
			}
			init = e
		}
		if init == nil {
			return false
		}
		switch {
		case step == 1 && op == token.LSS:
			// runs while counter < bound, counter starts at init (+adj for the rotated form)
			ic, isC := constInt(init)
			if !isC {
				return false
			}
			if ifi.Block() == ph.Block() && in.Block() == ph.Block() {
				adj = 0 // rotated do-while form: the body has run before the advanced counter is tested
			}
			hi, loConst, ok = bound, ic+adj, true
			return true
		case step == -1 && op == token.GTR && adj == 0:
			bc, isC := constInt(bound)
			if !isC {
				return false
			}
			hi, loConst, ok = init, bc, true
			return true
		}
		return false
	}
	if op, other, is := cmpOf(b, func(v ssa.Value) bool { _, _, _, c := counter(v); return c }); is {
		cv := b.X
		if other == b.X {
			cv = b.Y
		}
		if try(cv, other, op) {
			return
		}
	}
	return nil, nil, 0, false
}

// errPolarity: in the named functions (which return an error) an error that was observed non-nil is not dropped: from
// the non-nil edge of every nil-test of an error value no normal return yields a nil error. (Inverting such a test, or
// deleting the early return, turns "fails cleanly" into "carries on as if nothing happened".)
func (c *Ctx) errPolarity(names ...string) {
	P := c.P
	for _, name := range names {
		q := c.F(name)
		if !q.ok() {
			continue
		}
		sig := q.fn.Signature
		ek := -1
		for i := 0; i < sig.Results().Len(); i++ {
			if isErrorType(sig.Results().At(i).Type()) {
				ek = i
			}
		}
		if ek < 0 {
			q.undecided("ERR", "an observed error is not dropped", name+" no longer returns an error")
			continue
		}
		n := 0
		ifs, negs := P.IfsOn(q.fn, func(cond ssa.Value) bool {
			b, ok := cond.(*ssa.BinOp)
			if !ok || (b.Op != token.EQL && b.Op != token.NEQ) {
				return false
			}
			return either(b, func(v ssa.Value) bool { return !isNilConst(v) && isErrorType(v.Type()) }, isNilConst)
		})
		for i, ifi := range ifs {
			if an.Host(ifi.Parent()) != q.fn {
				continue
			}
			b := stripNotV(ifi.Cond).(*ssa.BinOp)
			nonNil := 0 // successor taken when the error is non-nil
			if negs[i] {
				nonNil = 1
			}
			if b.Op == token.EQL {
				nonNil = 1 - nonNil
			}
			what := b.X
			if isNilConst(what) {
				what = b.Y
			}
			desc := "value"
			for _, s := range P.Sources(what) {
				switch x := s.(type) {
				case *ssa.Call:
					desc = P.CalleeName(&x.Call)
				case *ssa.Extract:
					if call, isC := x.Tuple.(*ssa.Call); isC {
						desc = P.CalleeName(&call.Call)
					}
				case *ssa.UnOp:
					if f := an.FieldOfAddr(x.X); f != "" {
						desc = f
					}
				}
			}
			bad := false
			for _, r := range returnsOf(q.fn) {
				if !anyNil(c.retVals(r, ek)) {
					continue
				}
				if P.PathExists(q.fn, ifi, an.Is(r), nil, cutEdge(ifi, 1-nonNil)) {
					bad = true
				}
			}
			n++
			q.add("ERR", "an observed error is not dropped: "+desc+" #"+fmt.Sprint(n), !bad,
				pickS(!bad, "no nil-error return is reachable from the non-nil edge of the test", "after "+desc+" was observed non-nil the function can still return a nil error (the test is inverted or its early return is gone)"), ifi)
		}
		if n == 0 {
			q.undecided("ERR", "an observed error is not dropped", "no nil-test of an error value found in "+name)
		}
	}
}

// retTuple is one way a function can return: the values, and the instruction that stands for "this return was
// chosen" in path queries (the return itself, or - when several returns of a helper were merged into one return whose
// results are join phis - the jump that leaves the corresponding arm).
type retTuple struct {
	site ssa.Instruction
	ret  *ssa.Return
	vals []ssa.Value
	pred *ssa.BasicBlock // for a split return: the arm's last block and the join it enters
	join *ssa.BasicBlock
}

// via: this way of returning is taken only through edge succ of ifi (for an arm that consists of that very edge -
// `if n != 0 { ctx = derived }; return ctx` - the edge itself is the arm).
func (t retTuple) via(q *fq, ifi *ssa.If, succ int) bool {
	if ifi == nil {
		return false
	}
	if t.pred == ifi.Block() && t.join != nil && ifi.Block().Succs[succ] == t.join && ifi.Block().Succs[1-succ] != t.join {
		return true
	}
	return q.onlyViaEdge(t.site, ifi, succ)
}

// returnTuples splits a return whose results are phis of one join block into one tuple per incoming edge that the
// branches dominating the return allow (`if done { return result, err }` after a helper that returned
// (done, result, err)).
func (c *Ctx) returnTuples(r *ssa.Return) []retTuple {
	var join *ssa.BasicBlock
	for _, v := range r.Results {
		ph, ok := v.(*ssa.Phi)
		if !ok {
			continue
		}
		if join != nil && ph.Block() != join {
			return []retTuple{{site: r, ret: r, vals: r.Results}}
		}
		join = ph.Block()
	}
	if join == nil || !join.Dominates(r.Block()) {
		return []retTuple{{site: r, ret: r, vals: r.Results}}
	}
	for _, pb := range join.Preds {
		if join.Dominates(pb) {
			return []retTuple{{site: r, ret: r, vals: r.Results}}
		}
	}
	ks := c.P.FeasibleEdges(join, r)
	if ks == nil {
		for k := range join.Preds {
			ks = append(ks, k)
		}
	}
	var out []retTuple
	for _, k := range ks {
		pred := join.Preds[k]
		t := retTuple{site: pred.Instrs[len(pred.Instrs)-1], ret: r, pred: pred, join: join}
		for _, v := range r.Results {
			if ph, ok := v.(*ssa.Phi); ok {
				t.vals = append(t.vals, ph.Edges[k])
			} else {
				t.vals = append(t.vals, v)
			}
		}
		out = append(out, t)
	}
	return out
}

// storeTuple: one arm of a store whose value is a join phi (site = the jump that leaves the arm), or the store itself.
type storeTuple struct {
	site ssa.Instruction
	val  ssa.Value
}

func storeTuples(st *ssa.Store) []storeTuple {
	ph, ok := st.Val.(*ssa.Phi)
	if !ok || !ph.Block().Dominates(st.Block()) {
		return []storeTuple{{st, st.Val}}
	}
	for _, pb := range ph.Block().Preds {
		if ph.Block().Dominates(pb) {
			return []storeTuple{{st, st.Val}}
		}
	}
	var out []storeTuple
	for k, e := range ph.Edges {
		pred := ph.Block().Preds[k]
		out = append(out, storeTuple{pred.Instrs[len(pred.Instrs)-1], e})
	}
	return out
}
