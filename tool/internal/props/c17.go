package props

import (
	"go/token"
	"strings"

	"golang.org/x/tools/go/ssa"

	"bbcheck/internal/an"
)

// nilFormOfField builds the "field == nil" form used by CondLit for a load of the field.
func nilEdgeOfFieldTest(q *fq, field string) (ifs []*ssa.If, nilSucc []int) {
	is, negs := q.c.P.IfsOn(q.fn, func(cond ssa.Value) bool {
		b, ok := cond.(*ssa.BinOp)
		return ok && (b.Op == token.EQL || b.Op == token.NEQ) && either(b, loadOfField(field), isNilConst)
	})
	for i, ifi := range is {
		b := stripNotV(ifi.Cond).(*ssa.BinOp)
		nilWhenTrue := b.Op == token.EQL
		if negs[i] {
			nilWhenTrue = !nilWhenTrue
		}
		ns := 1
		if nilWhenTrue {
			ns = 0
		}
		ifs = append(ifs, ifi)
		nilSucc = append(nilSucc, ns)
	}
	return
}

func workerRules(c *Ctx) {
	P := c.P
	if q := c.F("(*Worker).Do"); q.ok() {
		var goDo, goWait ssa.Instruction
		for _, g := range an.AllInstrs(q.fn, func(in ssa.Instruction) bool { _, ok := in.(*ssa.Go); return ok }) {
			switch P.CalleeName(an.CallCommonOf(g)) {
			case "(*Worker).do":
				goDo = g
			case "(*Worker).wait":
				goWait = g
			}
		}
		if goDo == nil || goWait == nil {
			q.undecided("COND", "instance start", "go x.do / go x.wait not found")
		} else {
			sIfs, sNil := nilEdgeOfFieldTest(q, "Worker.stop")
			dIfs, dNil := nilEdgeOfFieldTest(q, "Worker.done")
			ok := len(sIfs) == 1 && len(dIfs) == 1
			if ok {
				for _, g := range []ssa.Instruction{goDo, goWait} {
					if !q.onlyViaEdge(g, sIfs[0], sNil[0]) || !q.onlyViaEdge(g, dIfs[0], dNil[0]) {
						ok = false
					}
				}
			}
			if !ok {
				// the same through the path condition (short-circuit forms joined in a boolean variable)
				ok = true
				for _, g := range []ssa.Instruction{goDo, goWait} {
					got := P.PathCond(q.fn, nil, g, nil)
					if len(got) == 0 {
						ok = false
					}
					for _, cj := range got {
						var st, dn bool
						for f, set := range cj {
							if strings.Contains(f, "eq?(+0 , ") && set == an.SZero {
								st = st || strings.Contains(f, ".stop)")
								dn = dn || strings.Contains(f, ".done)")
							}
						}
						if !st || !dn {
							ok = false
						}
					}
				}
			}
			q.add("COND", "an instance (and its watcher) starts only when none exists", ok,
				pickS(ok, "both go statements are reachable only through stop == nil and done == nil", "an instance can be started while one exists (stop/done non-nil): two instances of the function would run at once"), goDo)
			q.add("PATH", "instance and watcher start together, once", goDo.Block() == goWait.Block() && !P.InCycle(goDo), "both go statements in one block, not in a loop", goDo)
			// stop/done are fresh channels stored before the go statements
			for _, f := range []string{"Worker.stop", "Worker.done"} {
				sts := an.FieldStores(q.fn, f)
				okf := len(sts) == 1
				if okf {
					_, isMk := sts[0].(*ssa.Store).Val.(*ssa.MakeChan)
					okf = isMk && P.Before(q.fn, an.Is(sts[0]), goDo) && P.Before(q.fn, an.Is(sts[0]), goWait)
				}
				q.add("PATH", "fresh "+f+" is published before the instance starts", okf, "store of a new channel dominates the go statements", sts...)
				// ... and then the instance and its watcher are started, whatever else happens: no return and no panic
				// (an argument check, say) lies between filling the slot and the two go statements - a filled slot with
				// nobody behind it makes every later Do believe an instance is running
				if len(sts) == 1 {
					exit := func(in ssa.Instruction) bool { return an.IsReturn(in) || an.IsPanic(in) }
					started := !P.PathExists(q.fn, sts[0], exit, an.Is(goDo), nil) && !P.PathExists(q.fn, sts[0], exit, an.Is(goWait), nil)
					q.add("PATH", "a filled instance slot ("+f+") always gets its instance and watcher", started,
						pickS(started, "from the store every way out of Do passes both go statements", "Do can leave (return or panic) after "+f+" was set but before the instance and its watcher were started: the Worker then looks busy for ever and no later Do starts anything"), sts[0])
				}
			}
			// do gets the function passed to Do
			runsFn := usesValue(P, callArg(goDo, 1), q.fn.Params[1])
			if mc, isMC := an.CallCommonOf(goDo).Value.(*ssa.MakeClosure); isMC && !runsFn {
				// the instance is a literal of Do: it calls Do's own fn
				runsFn = len(dynCallsOfParam(c, mc.Fn.(*ssa.Function), q.fn.Params[1])) == 1
			}
			q.add("PROV", "the instance runs the function passed to this Do", runsFn, "go x.do(fn)", goDo)
		}
		// holder registration: wg.Add(1) then return wg.Done of the same wg, after ensuring wg != nil
		adds := P.CallsTo(q.fn, "(*sync.WaitGroup).Add")
		if q.need(adds, "PATH", "wg.Add(1)") {
			a := adds[0]
			one, isC := constInt(callArg(a, 1))
			// "the current wait group": loaded from Worker.wg, or the value this call has just stored there
			isCurrentWG := func(v ssa.Value) bool {
				srcs := P.Sources(v)
				if len(srcs) == 0 {
					return false
				}
				for _, s := range srcs {
					if an.IsLoadOfField(s, "Worker.wg") {
						continue
					}
					stored := false
					for _, st := range an.FieldStores(q.fn, "Worker.wg") {
						if srcIs(P, st.(*ssa.Store).Val, s) {
							stored = true
						}
					}
					if !stored {
						return false
					}
				}
				return true
			}
			okw := isC && one == 1 && isCurrentWG(callArg(a, 0))
			q.add("PROV", "each Do registers exactly one holder on the current wait group", okw, "x.wg.Add(1)", a)
			for _, r := range returnsOf(q.fn) {
				vs := c.retVals(r, 0)
				okr := len(vs) == 1
				if okr {
					mc, isMC := vs[0].(*ssa.MakeClosure)
					okr = isMC && strings.Contains(mc.Fn.(*ssa.Function).String(), "WaitGroup).Done") && len(mc.Bindings) == 1 && isCurrentWG(mc.Bindings[0])
					if isMC && !okr {
						// a literal that does nothing but wg.Done() on the captured current wait group
						lf := mc.Fn.(*ssa.Function)
						dones := P.CallsTo(lf, "(*sync.WaitGroup).Done")
						others := an.AllInstrs(lf, func(in ssa.Instruction) bool {
							cc := an.CallCommonOf(in)
							return cc != nil && P.CalleeName(cc) != "(*sync.WaitGroup).Done"
						})
						if len(dones) == 1 && len(others) == 0 && !P.InCycle(dones[0]) && len(lf.Params) == 0 {
							okr = isCurrentWG(callArg(dones[0], 0))
						}
					}
				}
				q.add("PROV", "the done function releases exactly that registration", okr && P.Before(q.fn, an.Is(a), r), "returns x.wg.Done after x.wg.Add(1)", r)
			}
			// wg created if nil before Add
			wIfs, wNil := nilEdgeOfFieldTest(q, "Worker.wg")
			sts := an.FieldStores(q.fn, "Worker.wg")
			okn := len(wIfs) == 1 && len(sts) == 1 && q.onlyViaEdge(sts[0], wIfs[0], wNil[0]) && P.Before(q.fn, an.Is(wIfs[0]), a)
			q.add("PATH", "a wait group taken by the watcher is replaced before registering", okn, "x.wg == nil => new wait group, checked before Add", sts...)
		}
	}
	if q := c.F("(*Worker).wait"); q.ok() {
		closes := P.CallsTo(q.fn, "builtin:close")
		wIfs, wNil := nilEdgeOfFieldTest(q, "Worker.wg")
		if q.need(closes, "PATH", "close(x.stop)") && len(wIfs) == 1 {
			cl := closes[0]
			q.add("PROV", "the watcher closes the stop channel", readsField(P, callArg(cl, 0), "Worker.stop"), "close(x.stop)", cl)
			ok := q.onlyViaEdge(cl, wIfs[0], wNil[0])
			q.add("PATH", "stop is closed only when no holder re-registered since the last look", ok,
				pickS(ok, "close(stop) reachable only through x.wg == nil", "the stop channel can be closed while holders are registered (the taken wait group was not nil)"), cl)
			// wg.Wait on the taken group, only on the non-nil side
			ws := P.CallsTo(q.fn, "(*sync.WaitGroup).Wait")
			if q.need(ws, "PATH", "wg.Wait()") {
				onGroup := an.IsLoadOfField(callArg(ws[0], 0), "Worker.wg")
				if !onGroup {
					// through a join: the values that can arrive here, given the branches that dominate the call
					srcs := P.SourcesAt(callArg(ws[0], 0), ws[0])
					onGroup = len(srcs) > 0
					for _, sv := range srcs {
						if !an.IsLoadOfField(sv, "Worker.wg") {
							onGroup = false
						}
					}
				}
				okw := q.onlyViaEdge(ws[0], wIfs[0], 1-wNil[0]) && onGroup
				q.add("PATH", "the watcher waits for the holders it took", okw, "wg.Wait() on the loaded group, on the non-nil side", ws[0])
				q.add("WL", "the watcher re-looks after every wait", P.InCycle(ws[0]), "Wait lies in the loop", ws[0])
			}
			// <-done after close(stop); reset after <-done
			recvs := an.AllInstrs(q.fn, func(in ssa.Instruction) bool {
				u, ok := in.(*ssa.UnOp)
				return ok && u.Op == token.ARROW && readsField(P, u.X, "Worker.done")
			})
			if q.need(recvs, "PATH", "<-x.done") {
				q.add("PATH", "the watcher waits for the instance to exit after telling it to stop", P.Before(q.fn, an.Is(cl), recvs[0]), "close(stop) dominates <-done", recvs[0])
				for _, f := range []string{"Worker.stop", "Worker.done"} {
					for _, s := range an.FieldStores(q.fn, f) {
						okr := isNilConst(s.(*ssa.Store).Val) && P.Before(q.fn, an.Is(recvs[0]), s)
						q.add("PATH", "the instance slot is freed only after the instance exited ("+f+")", okr, pickS(okr, "reset dominated by <-done", "the slot is reset before the instance has exited: a new Do could start a second instance"), s)
					}
				}
			}
		} else if len(wIfs) != 1 {
			q.undecided("PATH", "take the wait group", "the x.wg == nil test was not found exactly once")
		}
	}
	if q := c.F("(*Worker).do"); q.ok() {
		// the function to run: do's parameter, or - when the instance is a closure of Do - Do's
		var fnPrm *ssa.Parameter
		if len(q.fn.Params) >= 2 {
			fnPrm = q.fn.Params[1]
		} else if par := q.fn.Parent(); par != nil && len(par.Params) >= 2 {
			fnPrm = par.Params[1]
		}
		var calls []ssa.Instruction
		if fnPrm != nil {
			calls = dynCallsOfParam(c, q.fn, fnPrm)
		}
		closes := P.CallsTo(q.fn, "builtin:close")
		if q.need(calls, "PATH", "fn(stop)") && q.need(closes, "PATH", "close(x.done)") {
			q.add("PROV", "the function receives this instance's stop channel", an.IsLoadOfField(callArg(calls[0], 0), "Worker.stop"), "fn(x.stop)", calls[0])
			ok := P.Before(q.fn, an.Is(calls[0]), closes[0]) && an.IsLoadOfField(callArg(closes[0], 0), "Worker.done") && len(calls) == 1 && !P.InCycle(calls[0])
			q.add("PATH", "done is closed only after the function returned", ok, pickS(ok, "close(x.done) dominated by the single call of fn", "done can be closed before the function returned"), closes[0])
		}
		// the watcher keeps Worker.mu from its decision to stop until <-x.done returns: the instance must reach fn and
		// close(done) without ever needing that mutex, or the two wait for each other (and every later Do with them)
		var acq []string
		for _, o := range c.sel(func(o *an.Oblig) bool {
			return o.Rule == "P" && o.Func == "(*Worker).do" && strings.HasPrefix(o.Subject, "acquire:Worker.mu")
		}) {
			acq = append(acq, o.Pos...)
		}
		q.add("B", "the instance never takes Worker.mu", len(acq) == 0,
			pickS(len(acq) == 0, "do() and its callees acquire no Worker lock", "do() locks Worker.mu, which the watcher holds while it waits for do() to close done: a holder that is done before the instance got going deadlocks the Worker"), nil)
	}
}

func init() {
	register(&Prop{
		ID:        "C17",
		Technique: "guarded-by and atomic-section typestate from the lock simulator (idle-check -> start, take wg, stop-decision -> reset in one hold), only-via-edge and dominance path rules on Do / wait / do",
		Explanation: "wg, stop and done are accessed only under Worker.mu (do()'s two reads are a reasoned hand-over); an instance and its watcher start only through stop == nil and done == nil, in that hold, after fresh channels were published; every Do registers one holder (wg.Add(1)) and returns that wait group's Done; " +
			"the watcher takes the wait group and clears it in one hold, waits for it with nothing held, closes stop only if no group was re-created, and from that look through <-done to resetting stop/done keeps mu (a concurrent Do blocks and then sees nil/nil); do() passes x.stop to the function and closes done only after it returned.",
		NotDecided: "timing relations between Do/done calls and the instance's instants.",
		Build: func(c *Ctx) []*an.Oblig {
			workerRules(c)
			out := c.sel(func(o *an.Oblig) bool {
				if isUndecided(o) || o.Rule == "ANCHOR" {
					return true
				}
				return ruleIn(o, "G", "AT", "B", "P", "PX", "REQ") && funcHas(o, "(*Worker)")
			})
			return append(out, c.C.List...)
		},
		Floors: []Floor{
			floorKey("Do", 6, "/(*Worker).Do/"),
			floorKey("wait", 6, "/(*Worker).wait/"),
			floorKey("do", 2, "/(*Worker).do/"),
			floorKey("AT Worker", 5, "AT/(*Worker)"),
			floorKey("REQ Worker", 1, "REQ/(*Worker)"),
			floorKey("B Worker.wait", 2, "B/(*Worker).wait/"),
			floorKey("G Worker", 6, "G/(*Worker)"),
		},
	})
}

// readsField: v is a read of the field - directly, or through a parameter of a function that is started / called at
// one place only with such a read as the argument (go x.wait(x.stop, x.done)).
func readsField(P *an.Prog, v ssa.Value, field string) bool {
	if an.IsLoadOfField(v, field) {
		return true
	}
	srcs := P.SourcesDeep(v)
	if len(srcs) == 0 {
		return false
	}
	for _, s := range srcs {
		if !an.IsLoadOfField(s, field) {
			return false
		}
	}
	return true
}
