package props

import (
	"go/token"
	"go/types"
	"strings"

	"golang.org/x/tools/go/ssa"

	"bbcheck/internal/an"
)

// globalFunc resolves a package-level func variable with a single initialiser.
func globalFunc(p *an.Prog, name string) *ssa.Function {
	g, ok := p.Pkg.Members[name].(*ssa.Global)
	if !ok {
		return nil
	}
	var fn *ssa.Function
	n := 0
	for _, f := range p.Funcs {
		for _, in := range an.AllInstrs(f, func(in ssa.Instruction) bool {
			st, ok := in.(*ssa.Store)
			return ok && st.Addr == ssa.Value(g)
		}) {
			n++
			switch v := in.(*ssa.Store).Val.(type) {
			case *ssa.Function:
				fn = v
			case *ssa.MakeClosure:
				fn = v.Fn.(*ssa.Function)
			}
		}
	}
	if n != 1 {
		return nil
	}
	return fn
}

func retryRules(c *Ctx) {
	retryExtra(c)
	P := c.P
	// FatalError wraps exactly its argument in the type that isFatalError / unpackFatalError recognise
	if q := c.F("FatalError"); q.ok() {
		ok, all := false, true
		for _, r := range returnsOf(q.fn) {
			for _, v := range c.retVals(r, 0) {
				this := false
				// MakeInterface was unwrapped by Sources: the value is a load of a fatalError struct whose err field holds the parameter
				if ld, isL := isLoad(v); isL {
					if al, isA := ld.X.(*ssa.Alloc); isA {
						for _, ref := range *al.Referrers() {
							if fa, isFA := ref.(*ssa.FieldAddr); isFA && an.FieldOfAddr(fa) == "fatalError.err" {
								for _, rr := range *fa.Referrers() {
									if st, isSt := rr.(*ssa.Store); isSt && st.Val == ssa.Value(q.fn.Params[0]) {
										ok, this = true, true
									}
								}
							}
						}
					}
				}
				if !this {
					all = false // some return hands back something else (e.g. the argument itself when it "already is fatal")
				}
			}
		}
		ok = ok && all
		q.add("PROV", "FatalError wraps its argument in fatalError", ok, pickS(ok, "returns fatalError{err: err}", "FatalError does not return a fatalError holding its argument: the retry loop would not stop on it, or would return another error"))
	}
	q := c.F("ExponentialRetry")
	if !q.ok() {
		return
	}
	ls := closuresOf(q.fn, func(f *ssa.Function) bool { return an.ClosureRole(f) == "ret" })
	if len(ls) != 1 {
		q.undecided("PATH", "retry loop", "expected one closure returned by ExponentialRetry")
		return
	}
	l := &fq{c: c, fn: ls[0], name: an.FuncName(ls[0])}
	valueCell := cellOfParam(q.fn, q.fn.Params[2])
	// the operation call: dynamic call of the value cell
	ops := an.AllInstrs(l.fn, func(in ssa.Instruction) bool {
		call, ok := in.(*ssa.Call)
		if !ok || call.Call.IsInvoke() || call.Call.StaticCallee() != nil {
			return false
		}
		ld, isL := isLoad(call.Call.Value)
		return isL && valueCell != nil && P.CellOf(ld.X) == valueCell
	})
	errs := an.AllInstrs(l.fn, func(in ssa.Instruction) bool {
		call, ok := in.(*ssa.Call)
		return ok && call.Call.IsInvoke() && call.Call.Method.Name() == "Err"
	})
	if !l.need(ops, "PATH", "call of the operation") || !l.need(errs, "PATH", "ctx.Err()") {
		return
	}
	op := ops[0].(*ssa.Call)
	l.add("WL", "the operation is retried in a loop", P.InCycle(op), "value() lies in a loop", op)
	// 2. before every attempt the context is checked (also between a wait and the next attempt)
	first := P.Before(l.fn, an.In(errs), op) && l.onlyAfterSuccess(errs[0], op)
	again := !P.PathExists(l.fn, op, an.Is(op), an.In(errs), nil)
	l.add("PATH", "the context is checked before every attempt", first && again,
		pickS(first && again, "value() is dominated by ctx.Err() == nil and every path from one attempt to the next passes the check", "an attempt can be started without the context having been checked since the previous attempt (a call could start after cancellation)"), op)
	// return shapes
	res, errv := resultOf(op, 0), resultOf(op, 1)
	var tuples []retTuple
	for _, r0 := range returnsOf(l.fn) {
		tuples = append(tuples, c.returnTuples(r0)...)
	}
	for _, tp := range tuples {
		r := tp.site
		rv, ev := tp.vals[0], tp.vals[1]
		// the error of a cancellation return: ctx.Err(), also as the loop variable of `for err = ctx.Err(); err == nil; err = ctx.Err()`
		errCalls := func(v ssa.Value) []*ssa.Call {
			isErr := func(x ssa.Value) *ssa.Call {
				call, ok := x.(*ssa.Call)
				if ok && call.Call.IsInvoke() && call.Call.Method.Name() == "Err" {
					return call
				}
				return nil
			}
			if cl := isErr(v); cl != nil {
				return []*ssa.Call{cl}
			}
			var out []*ssa.Call
			if ph, ok := v.(*ssa.Phi); ok {
				for _, e := range ph.Edges {
					cl := isErr(e)
					if cl == nil || (len(out) > 0 && !sameRead(P, cl.Call.Value, out[0].Call.Value)) {
						return nil
					}
					out = append(out, cl)
				}
			}
			return out
		}
		switch {
		case isNilConst(ev):
			ok := rv == res
			if ok {
				ifn, ns, found := l.nilTestOf(func(v ssa.Value) bool { return v == errv })
				ok = found && l.onlyViaEdge(r, ifn, ns)
			}
			l.add("PATH", "success returns that call's result with a nil error", ok, "return (result, nil) only through err == nil of the same call", r)
		case P.IsCallResult(ev, "unpackFatalError", 0):
			call := ev.(*ssa.Call)
			ok := rv == res && callArg(call, 0) == errv
			fifs, negs := P.IfsOn(l.fn, func(cond ssa.Value) bool {
				return P.IsCallResult(cond, "isFatalError", 0) && callArg(cond.(*ssa.Call), 0) == errv
			})
			if ok && len(fifs) == 1 {
				ts := 0
				if negs[0] {
					ts = 1
				}
				ok = l.onlyViaEdge(r, fifs[0], ts)
			} else {
				ok = false
			}
			l.add("PATH", "a fatal error returns that call's result with the unwrapped error", ok, "return (result, unpackFatalError(err)) only through isFatalError(err)", r)
		case P.IsCallResult(ev, "invoke:context.Context.Err", 0) || len(errCalls(ev)) > 0:
			// ... and only because the context IS cancelled: the return is reachable only through the non-nil edge of a test
			// of ctx.Err() (an error that merely looks like a cancellation - a per-attempt timeout, say - is retried)
			ctxv := errCalls(ev)[0].Call.Value
			via := false
			ifs, negs := P.IfsOn(l.fn, func(cond ssa.Value) bool {
				b, ok := cond.(*ssa.BinOp)
				if !ok || (b.Op != token.EQL && b.Op != token.NEQ) {
					return false
				}
				isErr := func(v ssa.Value) bool {
					if v == ev {
						return true
					}
					call, ok := v.(*ssa.Call)
					return ok && call.Call.IsInvoke() && call.Call.Method.Name() == "Err" && sameRead(P, call.Call.Value, ctxv)
				}
				return either(b, isErr, isNilConst)
			})
			for i, ifi := range ifs {
				b := stripNotV(ifi.Cond).(*ssa.BinOp)
				nonNilWhenTrue := b.Op == token.NEQ
				if negs[i] {
					nonNilWhenTrue = !nonNilWhenTrue
				}
				ns := 1
				if nonNilWhenTrue {
					ns = 0
				}
				if l.onlyViaEdge(r, ifi, ns) {
					via = true
				}
			}
			okc := isNilConst(rv) && via
			l.add("PATH", "cancellation returns (nil, ctx.Err())", okc, pickS(okc, "result is nil and the return is reached only where ctx.Err() != nil was observed", "the loop can end with the context's error although the context was not observed cancelled (with a live context that is (nil, nil): success reported although no call succeeded), or with a non-nil result"), r)
		default:
			l.add("PATH", "no other way out of the retry loop", false, "unexpected return shape", r)
		}
	}
	// 1. RNG at the point of use
	calc := globalFunc(P, "calcExponentialRetry")
	wait := globalFunc(P, "waitDuration")
	if calc == nil || wait == nil {
		l.undecided("RNG", "delay computation", "calcExponentialRetry / waitDuration are no longer package-level func variables with a single initialiser")
		return
	}
	env := P.NewItvEnv(l.fn, nil)
	calcCalls := an.AllInstrs(l.fn, func(in ssa.Instruction) bool {
		call, ok := in.(*ssa.Call)
		if !ok || call.Call.IsInvoke() || call.Call.StaticCallee() != nil {
			return false
		}
		ld, isL := isLoad(call.Call.Value)
		if !isL {
			return false
		}
		g, isG := ld.X.(*ssa.Global)
		return isG && g.Name() == "calcExponentialRetry"
	})
	if !l.need(calcCalls, "RNG", "call of calcExponentialRetry") {
		return
	}
	cc := calcCalls[0].(*ssa.Call)
	counter := cc.Call.Args[1]
	cr := env.At(counter, cc.Block())
	l.add("RNG", "the attempt counter stays within [0, 31]... at the call", cr.Within(0, 4294967295), "counter range at the call: "+cr.String(), cc)
	// counter grows by exactly one per failed attempt until it saturates
	grow := false
	if ph, ok := counter.(*ssa.Phi); ok {
		for _, e := range ph.Edges {
			if bo, isB := e.(*ssa.BinOp); isB && bo.Op == token.ADD {
				if k, isK := constInt(bo.Y); isK && k == 1 {
					if hp, isP := bo.X.(*ssa.Phi); isP && P.InCycle(hp) {
						for _, he := range hp.Edges {
							// (directly, or handed back by a helper together with its other results: a join whose arms
							// that go round the loop carry the incremented value)
							if he == ssa.Value(ph) || srcIs(P, he, ph) || srcIs(P, he, bo) {
								grow = true
							}
						}
					}
				}
			}
		}
	} else if bo, isB := counter.(*ssa.BinOp); isB && bo.Op == token.ADD {
		if k, isK := constInt(bo.Y); isK && k == 1 {
			grow = true
		}
	}
	l.add("LIN", "the counter grows by exactly one per failed attempt", grow, pickS(grow, "c' = c + 1 (until saturation), carried around the loop", "the attempt counter is not incremented by exactly one per attempt"), cc)
	// the callee in the context of this call
	var cprm *ssa.Parameter
	for _, p := range calc.Params {
		if b, ok := p.Type().Underlying().(*types.Basic); ok && b.Info()&types.IsUnsigned != 0 {
			cprm = p
		}
	}
	if cprm == nil {
		l.undecided("RNG", "delay computation", "calcExponentialRetry has no unsigned counter parameter")
		return
	}
	cenv := P.NewItvEnv(calc, map[*ssa.Parameter]an.Itv{cprm: cr})
	cq := &fq{c: c, fn: calc, name: an.FuncName(calc)}
	shls := an.AllInstrs(calc, func(in ssa.Instruction) bool { b, ok := in.(*ssa.BinOp); return ok && b.Op == token.SHL })
	rnds := P.CallsTo(calc, "math/rand.Int63n")
	if !cq.need(shls, "RNG", "1 << c") || !cq.need(rnds, "RNG", "rand.Int63n") {
		return
	}
	sh := shls[0].(*ssa.BinOp)
	amt := cenv.At(sh.Y, sh.Block())
	cq.add("RNG", "the shift amount is within [0, 31] for every retry count", amt.Within(0, 31), pickS(amt.Within(0, 31), "shift amount in "+amt.String()+" given the counter range "+cr.String()+" at the call", "the shift amount can reach "+amt.String()+": 1 << c overflows 32 bits (delay slots collapse to 0 and Int63n(0) panics)"), sh)
	one, isOne := constInt(sh.X)
	cq.add("LIN", "the number of slots is 2^c", isOne && one == 1, "1 << c", sh)
	arg := cenv.At(callArg(rnds[0], 0), rnds[0].Block())
	cq.add("RNG", "rand.Int63n's argument is within [1, 2^31] (never 0: no panic)", arg.Within(1, 2147483648), pickS(arg.Within(1, 2147483648), "argument in "+arg.String(), "rand.Int63n can be called with "+arg.String()+" (0 panics; > 2^31 exceeds the documented cap of 31 doublings)"), rnds[0])
	okarg := false
	for _, s := range P.Sources(callArg(rnds[0], 0)) {
		if s == ssa.Value(sh) {
			okarg = true
		}
	}
	cq.add("PROV", "the random slot count is drawn from [0, 2^c)", okarg, "Int63n(int64(1 << c))", rnds[0])
	// result = slots * d
	for _, r := range returnsOf(calc) {
		mul, isM := r.Results[0].(*ssa.BinOp)
		ok := isM && mul.Op == token.MUL
		if ok {
			a, b := P.Sources(mul.X), P.Sources(mul.Y)
			isRnd := func(vs []ssa.Value) bool { return len(vs) == 1 && vs[0] == ssa.Value(rnds[0].(*ssa.Call)) }
			isD := func(vs []ssa.Value) bool { return len(vs) == 1 && vs[0] == ssa.Value(calc.Params[0]) }
			ok = (isRnd(a) && isD(b)) || (isRnd(b) && isD(a))
		}
		cq.add("LIN", "the delay is a whole number of slots times the rate", ok, "return Int63n(...) * d", r)
	}
	// the rate passed is the configured one; default 300ms iff rate <= 0
	{
		okr, what := true, ""
		srcs := P.SourcesAt(callArg(cc, 0), cc)
		for _, sv := range srcs {
			if sv == ssa.Value(q.fn.Params[1]) {
				continue
			}
			if k, isK := constInt(sv); isK && k == 300*1000*1000 {
				continue
			}
			okr, what = false, sv.String()
		}
		if len(srcs) == 0 {
			okr, what = false, "no source found"
		}
		l.add("PROV", "the delay uses the configured rate", okr, pickS(okr, "the slot time is the caller's rate or the 300ms default, nothing else", "the slot time handed to the delay calculation can be a value other than the caller's rate or the documented default ("+what+"): delays are no longer whole slots of the configured rate"), cc)
	}
	{
		rate := aP(q.param(1))
		sts := P.CellStores(cellOfParam(q.fn, q.fn.Params[1]))
		okd := false
		for _, st := range sts {
			if k, isK := constInt(st.Val); isK && k == 300*1000*1000 {
				got := P.PathCond(q.fn, nil, st, func(f string) bool { return strings.Contains(f, "rate") })
				if fs := got.Forms(); len(fs) == 1 {
					okd, _ = an.EquivDNF(got, an.DNF{conj(lit(an.FormLinBase(fs[0]), an.SNeg|an.SZero))})
				}
				_ = rate
			}
		}
		if !okd {
			// the same when the rate is not captured (a join of the parameter and the default)
			for _, in := range an.AllInstrs(q.fn, func(in ssa.Instruction) bool { _, ok := in.(*ssa.Phi); return ok }) {
				ph := in.(*ssa.Phi)
				var defEdge, prmEdge = -1, -1
				for i, e := range ph.Edges {
					if k, isK := constInt(e); isK && k == 300*1000*1000 {
						defEdge = i
					}
					if e == ssa.Value(q.fn.Params[1]) {
						prmEdge = i
					} else if srcs := P.Sources(e); len(srcs) >= 1 {
						// a copy of the parameter (through its spill cell or a local of the same name)
						only := true
						for _, sv := range srcs {
							if sv != ssa.Value(q.fn.Params[1]) && sv != ssa.Value(ph) {
								if k, isK := constInt(sv); !isK || k != 300*1000*1000 {
									only = false
								}
							}
						}
						if only {
							if _, isK := constInt(e); !isK {
								prmEdge = i
							}
						}
					}
				}
				if len(ph.Edges) != 2 || defEdge < 0 || prmEdge < 0 {
					continue
				}
				pred := ph.Block().Preds[defEdge]
				got := P.PathCond(q.fn, nil, pred.Instrs[len(pred.Instrs)-1], func(f string) bool { return strings.Contains(f, "rate") })
				if fs := got.Forms(); len(fs) == 1 {
					okd, _ = an.EquivDNF(got, an.DNF{conj(lit(an.FormLinBase(fs[0]), an.SNeg|an.SZero))})
				}
			}
		}
		q.add("COND", "the rate defaults to 300ms iff rate <= 0", okd, "rate = 300ms stored iff rate <= 0", nil)
	}
	// waitDuration: a select containing ctx.Done(), timer stopped
	wq := &fq{c: c, fn: wait, name: an.FuncName(wait)}
	sels := an.AllInstrs(wait, func(in ssa.Instruction) bool { s, ok := in.(*ssa.Select); return ok && s.Blocking })
	if wq.need(sels, "GOX", "select in waitDuration") {
		hasDone, hasTimer := false, false
		for _, st := range sels[0].(*ssa.Select).States {
			if call, ok := st.Chan.(*ssa.Call); ok && call.Call.IsInvoke() && call.Call.Method.Name() == "Done" && call.Call.Value == ssa.Value(wait.Params[0]) {
				hasDone = true
			}
			if ld, ok := isLoad(st.Chan); ok && an.FieldOfAddr(ld.X) == "Timer.C" {
				hasTimer = true
			}
		}
		wq.add("GOX", "the wait is cut short by cancellation", hasDone && hasTimer, pickS(hasDone, "select over ctx.Done() and timer.C", "waitDuration no longer selects on ctx.Done()"), sels[0])
	}
	stops := P.CallsTo(wait, "(*time.Timer).Stop")
	oks := len(stops) == 1
	if oks {
		_, oks = stops[0].(*ssa.Defer)
	}
	wq.add("REL", "the timer is stopped", oks, "defer timer.Stop()", stops...)
	// waitDuration is called with the computed delay
	wcalls := an.AllInstrs(l.fn, func(in ssa.Instruction) bool {
		call, ok := in.(*ssa.Call)
		if !ok {
			return false
		}
		ld, isL := isLoad(call.Call.Value)
		if !isL {
			return false
		}
		g, isG := ld.X.(*ssa.Global)
		return isG && g.Name() == "waitDuration"
	})
	okw := len(wcalls) == 1 && callArg(wcalls[0], 1) == ssa.Value(cc) && P.Before(l.fn, an.Is(op), wcalls[0])
	l.add("PATH", "each failed attempt is followed by the computed wait", okw, "waitDuration(ctx, calcExponentialRetry(rate, c)) after the attempt", wcalls...)
	// 3. unwrap recursion / isFatalError shape
	if u := c.F("unpackFatalError"); u.ok() {
		good := neverFatal(c, u.fn, map[*ssa.Function]bool{})
		// ... and removes nothing else: the functions of that induction look inside an error only through the fatalError
		// type test - no Unwrap / errors.As / other call, no assertion to another type - so an ordinary wrapper the
		// operation put around its cause comes back as it was
		{
			var bad []ssa.Instruction
			fams := map[*ssa.Function]bool{}
			neverFatal(c, u.fn, fams)
			for f := range fams {
				for _, in := range an.AllInstrs(f, func(in ssa.Instruction) bool { return true }) {
					switch x := in.(type) {
					case ssa.CallInstruction:
						if g := x.Common().StaticCallee(); g == nil || !fams[g] {
							bad = append(bad, in)
						}
					case *ssa.TypeAssert:
						if x.AssertedType.String() != P.Types.Path()+".fatalError" {
							bad = append(bad, in)
						}
					}
				}
			}
			u.add("PROV", "only fatal wrappers are removed from the returned error", len(bad) == 0, pickS(len(bad) == 0, "the unwrapping functions contain nothing but the fatalError test and their own recursion", "unpackFatalError looks inside errors other than the fatal wrapper (Unwrap, errors.As, another type test): a wrapper added by the operation itself would be stripped from the error the caller receives"), bad...)
		}
		u.add("PATH", "unpackFatalError never returns a fatal wrapper (induction over the recursion)", good, pickS(good, "every return is the recursive call or the value on the failed side of the fatalError test", "unpackFatalError can return a value that is still a fatalError"), nil)
	}
	if f := c.F("isFatalError"); f.ok() {
		good := false
		isOK := func(v ssa.Value) bool {
			if ex, ok := v.(*ssa.Extract); ok && ex.Index == 1 {
				if ta, ok := ex.Tuple.(*ssa.TypeAssert); ok && ta.X == ssa.Value(f.fn.Params[0]) && ta.AssertedType.String() == P.Types.Path()+".fatalError" {
					return true
				}
			}
			return false
		}
		rets := returnsOf(f.fn)
		for _, r := range rets {
			if isOK(r.Results[0]) {
				good = true
			}
		}
		if !good && len(rets) > 0 {
			// the same spelled as a branch on the assertion: `return true` only where it held, `return false` only where not
			okIfs, okNegs := P.IfsOn(f.fn, isOK)
			good = len(okIfs) == 1
			for _, r := range rets {
				b, isB := constBool(r.Results[0])
				if !isB || !good {
					good = false
					break
				}
				edge := 0
				if !b {
					edge = 1
				}
				if okNegs[0] {
					edge = 1 - edge
				}
				good = f.onlyViaEdge(r, okIfs[0], edge)
			}
		}
		f.add("PROV", "fatality is decided on the outermost wrapper only", good, pickS(good, "isFatalError is err.(fatalError)", "isFatalError no longer is a type assertion on the error itself (e.g. errors.As walks the whole chain: a retryable error that merely contains a fatal one would stop the loop with the wrapper still inside)"), nil)
	}
}

func init() {
	register(&Prop{
		ID:        "C18",
		Technique: "interval abstract interpretation over SSA (branch refinement, callee analysed in the caller's counter range), path rules for check-before-attempt and return shapes, recursion-shape rule for the unwrapping",
		Explanation: "at the point of use (calcExponentialRetry analysed with the counter range of the retry loop's call) the shift amount is within [0,31], 1<<c and rand.Int63n's argument are within [1, 2^31] (never 0), the counter grows by exactly one per attempt until it saturates, and the delay is slots * rate; " +
			"before every attempt (also after a wait) ctx.Err() is checked; returns are exactly (result, nil) through err == nil, (result, unpackFatalError(err)) through isFatalError(err), (nil, ctx.Err()); unpackFatalError returns only the recursive call or the non-fatal side of the type test; isFatalError tests the outermost wrapper; rate <= 0 means 300ms; waitDuration selects on ctx.Done() and stops its timer.",
		NotDecided: "uniformity of the distribution (math/rand, trusted); delays whose product overflows a Duration.",
		Build: func(c *Ctx) []*an.Oblig {
			retryRules(c)
			out := c.sel(func(o *an.Oblig) bool { return isUndecided(o) || o.Rule == "ANCHOR" })
			return append(out, c.C.List...)
		},
		Floors: []Floor{
			floorRule("RNG", "RNG", 3),
			floorKey("retry loop paths", 5, "PATH/ExponentialRetry$ret1/"),
			floorKey("unwrap", 1, "/unpackFatalError/"),
			floorKey("isFatalError", 1, "/isFatalError/"),
			floorKey("waitDuration", 2, "/init$waitDuration1/"),
		},
	})
}

// neverFatal: no return of fn hands out a fatalError, by induction over the recursion. Every returned value is
//   - the result of a function of the package for which the same holds (assumed for the functions under proof), or
//   - the value - or another read of the same variable or field - on the failed side of the only fatalError type test.
func neverFatal(c *Ctx, fn *ssa.Function, assumed map[*ssa.Function]bool) bool {
	P := c.P
	if fn == nil || len(fn.Blocks) == 0 || fn.Signature.Results().Len() != 1 {
		return false
	}
	assumed[fn] = true
	q := &fq{c: c, fn: fn, name: an.FuncName(fn)}
	for _, r := range returnsOf(fn) {
		if len(r.Results) != 1 {
			return false
		}
		v := r.Results[0]
		if call, ok := v.(*ssa.Call); ok {
			if g := call.Call.StaticCallee(); g != nil && g.Pkg == fn.Pkg {
				if assumed[g] || neverFatal(c, g, assumed) {
					continue
				}
				return false
			}
		}
		if P.IsCallResult(v, an.FuncName(fn), 0) {
			continue
		}
		tas := an.AllInstrs(fn, func(in ssa.Instruction) bool {
			ta, ok := in.(*ssa.TypeAssert)
			return ok && ta.CommaOk && (ta.X == v || sameFieldRead(ta.X, v)) && ta.AssertedType.String() == P.Types.Path()+".fatalError"
		})
		if len(tas) != 1 {
			return false
		}
		okx := resultOf2(tas[0].(*ssa.TypeAssert), 1)
		ifs, negs := P.IfsOn(fn, func(cond ssa.Value) bool { return cond == okx })
		if len(ifs) != 1 {
			return false
		}
		fs := 1
		if negs[0] {
			fs = 0
		}
		if !q.onlyViaEdge(r, ifs[0], fs) {
			return false
		}
	}
	return true
}

// sameFieldRead: two loads of the same field of the same never-rewritten local (a spilled value receiver).
func sameFieldRead(a, b ssa.Value) bool {
	la, oka := isLoad(a)
	lb, okb := isLoad(b)
	if !oka || !okb {
		return false
	}
	fa, oka := la.X.(*ssa.FieldAddr)
	fb, okb := lb.X.(*ssa.FieldAddr)
	if !oka || !okb || fa.Field != fb.Field || fa.X != fb.X {
		return false
	}
	al, ok := fa.X.(*ssa.Alloc)
	if !ok {
		return false
	}
	// the local is written once (the spill of the parameter) and its address goes nowhere else
	stores := 0
	for _, ref := range *al.Referrers() {
		switch x := ref.(type) {
		case *ssa.Store:
			if x.Addr != ssa.Value(al) {
				return false
			}
			stores++
		case *ssa.FieldAddr:
			for _, r2 := range *x.Referrers() {
				if u, isU := r2.(*ssa.UnOp); !isU || u.Op != token.MUL {
					return false
				}
			}
		case *ssa.DebugRef:
		default:
			return false
		}
	}
	return stores == 1
}

// sameRead: the same value, or two reads of the same captured variable.
func sameRead(P *an.Prog, a, b ssa.Value) bool {
	if a == b {
		return true
	}
	la, oka := isLoad(a)
	lb, okb := isLoad(b)
	if oka && okb {
		ca, cb := P.CellOf(la.X), P.CellOf(lb.X)
		return ca != nil && ca == cb
	}
	return false
}

// retryExtra: two clauses the loop rules above do not see.
//   - "the wait is cut short by cancellation": nothing in retry.go sleeps unconditionally (time.Sleep); the only blocking
//     operation of waitDuration is its select over the timer and ctx.Done().
//   - "unless the call in flight ends the loop by succeeding or failing fatally": once the operation was called, a
//     cancellation return is reachable only through the not-fatal side of isFatalError(err) (then the wait, then the
//     check at the top of the loop) - not by looking at the context before the error was classified.
func retryExtra(c *Ctx) {
	P := c.P
	var sleeps []ssa.Instruction
	n := 0
	for _, fn := range P.AllFuncs() {
		if !strings.Contains(P.Pos(fn.Pos()), "retry.go") {
			continue
		}
		n++
		sleeps = append(sleeps, P.CallsTo(fn, "time.Sleep")...)
	}
	var sp []string
	for _, in := range sleeps {
		sp = append(sp, P.InstrPos(in))
	}
	c.C.Add("GOX", "retry.go", "no wait ignores cancellation", len(sleeps) == 0 && n > 0,
		pickS(len(sleeps) == 0, "no time.Sleep in retry.go: the back-off wait is the select over the timer and ctx.Done()", "retry.go sleeps unconditionally (time.Sleep): a cancellation during the back-off wait is noticed only when the full delay has passed"), sp...)
	q := c.F("ExponentialRetry")
	if !q.ok() {
		return
	}
	ls := closuresOf(q.fn, func(f *ssa.Function) bool { return an.ClosureRole(f) == "ret" })
	if len(ls) != 1 {
		return
	}
	l := &fq{c: c, fn: ls[0], name: an.FuncName(ls[0])}
	valueCell := cellOfParam(q.fn, q.fn.Params[2])
	ops := an.AllInstrs(l.fn, func(in ssa.Instruction) bool {
		call, ok := in.(*ssa.Call)
		if !ok || call.Call.IsInvoke() || call.Call.StaticCallee() != nil {
			return false
		}
		ld, isL := isLoad(call.Call.Value)
		return isL && valueCell != nil && P.CellOf(ld.X) == valueCell
	})
	fat := P.CallsTo(l.fn, "isFatalError")
	if len(ops) != 1 || len(fat) != 1 {
		return // reported by the loop rules
	}
	fifs, fnegs := P.IfsOn(l.fn, func(cond ssa.Value) bool { return cond == ssa.Value(fat[0].(*ssa.Call)) })
	if len(fifs) != 1 {
		return
	}
	fatalEdge := 0
	if fnegs[0] {
		fatalEdge = 1
	}
	// returns that carry ctx.Err()
	for _, r0 := range returnsOf(l.fn) {
		for _, tp := range c.returnTuples(r0) {
			isCancel := false
			for _, sv := range P.SourcesAt(tp.vals[1], r0) {
				if call, ok := sv.(*ssa.Call); ok && call.Call.IsInvoke() && call.Call.Method.Name() == "Err" {
					isCancel = true
				}
			}
			if !isCancel {
				continue
			}
			// from the operation to this return without taking the not-fatal edge: must not exist
			bypass := P.PathExists(l.fn, ops[0], an.Is(tp.site), nil, cutEdge(fifs[0], 1-fatalEdge))
			l.add("PATH", "a call in flight that fails ends the loop by its own verdict, not by a cancellation noticed meanwhile", !bypass,
				pickS(!bypass, "after value() a cancellation return is reachable only through isFatalError(err) == false", "after the operation returned an error the loop can answer with the context's error before classifying that error: a fatal failure is reported as a cancellation, without the call's result"), tp.site)
		}
	}
}
