package props

import (
	"go/token"
	"go/types"
	"strings"

	"golang.org/x/tools/go/ssa"

	"bbcheck/internal/an"
)

// ifOnLoadOf finds the If in fn that compares a load of field with zero; zeroSucc is the successor
// taken when the field is zero.
func (q *fq) ifZeroTestOfField(field string) (ifs []*ssa.If, zeroSucc []int) {
	is, negs := q.c.P.IfsOn(q.fn, func(cond ssa.Value) bool {
		b, ok := cond.(*ssa.BinOp)
		if !ok || (b.Op != token.EQL && b.Op != token.NEQ) {
			return false
		}
		return (an.IsLoadOfField(b.X, field) && isZero(b.Y)) || (an.IsLoadOfField(b.Y, field) && isZero(b.X))
	})
	for i, ifi := range is {
		b := stripNotV(ifi.Cond).(*ssa.BinOp)
		zeroWhenTrue := b.Op == token.EQL
		if negs[i] {
			zeroWhenTrue = !zeroWhenTrue
		}
		if zeroWhenTrue {
			zeroSucc = append(zeroSucc, 0)
		} else {
			zeroSucc = append(zeroSucc, 1)
		}
		ifs = append(ifs, ifi)
	}
	return
}

func blockingPred(p *an.Prog) an.Pred {
	return func(in ssa.Instruction) bool {
		switch x := in.(type) {
		case *ssa.Send:
			return true
		case *ssa.Select:
			return x.Blocking
		case *ssa.UnOp:
			return x.Op == token.ARROW
		}
		cc := an.CallCommonOf(in)
		if cc == nil {
			return false
		}
		if _, isDefer := in.(*ssa.Defer); isDefer {
			return false
		}
		switch p.CalleeName(cc) {
		case "(*sync.Mutex).Lock", "(*sync.RWMutex).Lock", "(*sync.RWMutex).RLock", "invoke:sync.Locker.Lock", "(*sync.Cond).Wait", "(*sync.WaitGroup).Wait", "time.Sleep",
			"(*ChanCaster).Send", "(*ChanCaster).Add":
			return true
		}
		return false
	}
}

func pubsubC06(c *Ctx) {
	P := c.P
	if q := c.F("(*ChanPubSub).Send"); q.ok() {
		adds := P.CallsTo(q.fn, "(*ChanCaster).Add")
		sends := P.CallsTo(q.fn, "(*ChanCaster).Send")
		loads := P.CallsTo(q.fn, "(*sync/atomic.Int32).Load")
		if q.need(adds, "PROV", "ping.Add") && q.need(sends, "PROV", "ping.Send") && q.need(loads, "PROV", "subscribers.Load") {
			// the count armed is the count loaded under sendingMu (the last load)
			armed := callArg(adds[0], 1)
			okp := false
			for _, s := range P.Sources(armed) {
				for _, l := range loads {
					if s == ssa.Value(l.(*ssa.Call)) && P.Before(q.fn, an.Is(l), adds[0]) {
						okp = true
					}
				}
			}
			q.add("PROV", "the caster is armed with exactly the subscriber count just loaded", okp, pickS(okp, "ping.Add's argument is the loaded count", "ping.Add is not given the subscriber count loaded in this hold (stolen or missing copies)"), adds[0])
			// Add's result must equal that count, else panic
			res := adds[0].(*ssa.Call)
			okc := false
			ifs, _ := P.IfsOn(q.fn, func(cond ssa.Value) bool {
				b, ok := cond.(*ssa.BinOp)
				return ok && (b.Op == token.NEQ || b.Op == token.EQL) && ((b.X == ssa.Value(res) && b.Y == armed) || (b.Y == ssa.Value(res) && b.X == armed))
			})
			okc = len(ifs) == 1
			q.add("PATH", "the caster must have been idle (Add returns exactly the armed count)", okc, "ping.Add(n) != n is tested", adds[0])
			// pongN := sent; Send returns sent
			pst := an.FieldStores(q.fn, "ChanPubSub.pongN")
			if q.need(pst, "PROV", "pongN = sent") {
				oks := false
				for _, s := range P.Sources(pst[0].(*ssa.Store).Val) {
					if s == ssa.Value(sends[0].(*ssa.Call)) {
						oks = true
					}
				}
				q.add("PROV", "the acknowledgements owed equal the copies delivered", oks && len(pst) == 1, pickS(oks, "pongN is ping.Send's result", "pongN is not set to the number of copies ping.Send delivered: Send would return early or hang, and a fast subscriber could take two copies"), pst[0])
				// after publishing pongN, Send returns only through pongN == 0
				ifz, zs := q.ifZeroTestOfField("ChanPubSub.pongN")
				okr := len(ifz) == 1
				if okr {
					okr = !P.PathExists(q.fn, pst[0], an.IsReturn, nil, cutEdge(ifz[0], zs[0]))
				}
				q.add("PATH", "Send returns only after every acknowledgement arrived", okr, pickS(okr, "every path from pongN = sent to a return takes the pongN == 0 edge", "Send can return while acknowledgements are still owed: a subscriber could receive the next message in the same round"), pst[0])
			}
			for _, r := range returnsOf(q.fn) {
				vs := c.retVals(r, 0)
				okv := len(vs) > 0
				for _, v := range vs {
					if cv, isC := constInt(v); isC && cv == 0 {
						continue
					}
					if v != ssa.Value(sends[0].(*ssa.Call)) {
						okv = false
					}
				}
				q.add("PROV", "Send returns 0 or the number of copies delivered", okv, "return value is 0 or ping.Send's result", r)
			}
		}
		// polarity of the three decisions of a Send (the counts are compared, not merely "tested")
		if len(adds) > 0 && len(sends) > 0 && len(loads) > 0 {
			// zeroIf: the If comparing v (possibly converted) with 0; zs = successor taken when v == 0
			zeroIf := func(isV func(ssa.Value) bool) (*ssa.If, int, bool) {
				ifs, negs := P.IfsOn(q.fn, func(cond ssa.Value) bool {
					b, ok := cond.(*ssa.BinOp)
					return ok && (b.Op == token.EQL || b.Op == token.NEQ) && either(b, isV, isZero)
				})
				if len(ifs) != 1 {
					return nil, 0, false
				}
				zs := 0
				if negs[0] {
					zs = 1
				}
				if stripNotV(ifs[0].Cond).(*ssa.BinOp).Op == token.NEQ {
					zs = 1 - zs
				}
				return ifs[0], zs, true
			}
			locked := loads[len(loads)-1].(*ssa.Call)
			derivesFrom := func(root ssa.Value) func(ssa.Value) bool {
				return func(v ssa.Value) bool {
					for _, s := range P.Sources(v) {
						if s == root {
							return true
						}
					}
					return false
				}
			}
			if ifz, zs, ok := zeroIf(derivesFrom(locked)); ok {
				okz := q.onlyViaEdge(adds[0], ifz, 1-zs) && q.onlyViaEdge(sends[0], ifz, 1-zs)
				q.add("PATH", "the caster is armed and the value sent only when somebody is subscribed", okz,
					pickS(okz, "ping.Add / ping.Send are reached only through subscribers != 0", "ping.Add or ping.Send is reachable with a subscriber count of 0 (and skipped when there are subscribers): nobody, or not everybody, would receive"), ifz)
			} else {
				q.undecided("PATH", "the caster is armed and the value sent only when somebody is subscribed", "the subscribers == 0 test on the count loaded under sendingMu was not found")
			}
			// ping.Add(n) != n panics, == n goes on to send
			res := adds[0].(*ssa.Call)
			mIfs, mNegs := P.IfsOn(q.fn, func(cond ssa.Value) bool {
				b, ok := cond.(*ssa.BinOp)
				return ok && (b.Op == token.NEQ || b.Op == token.EQL) && either(b, isVal(res), func(v ssa.Value) bool { return v == callArg(adds[0], 1) })
			})
			if len(mIfs) == 1 {
				match := 1 // successor taken when Add returned exactly n
				if mNegs[0] {
					match = 0
				}
				if stripNotV(mIfs[0].Cond).(*ssa.BinOp).Op == token.EQL {
					match = 1 - match
				}
				okm := q.onlyViaEdge(sends[0], mIfs[0], match) && !P.PathExists(q.fn, mIfs[0], an.IsReturn, nil, cutEdge(mIfs[0], match))
				q.add("PATH", "a caster that was not idle is a panic, an idle one proceeds to send", okm,
					pickS(okm, "ping.Send only through ping.Add(n) == n; the other edge never returns normally", "the comparison of ping.Add's result is inverted or ineffective: Send would proceed on a corrupted caster (or panic on a healthy one)"), mIfs[0])
			}
			// the pong phase is entered iff copies were delivered, and then always
			pstores := an.FieldStores(q.fn, "ChanPubSub.pongN")
			if sIf, zs, ok := zeroIf(derivesFrom(sends[0].(*ssa.Call))); ok && len(pstores) > 0 {
				okp := q.onlyViaEdge(pstores[0], sIf, 1-zs) && !P.PathExists(q.fn, sIf, an.IsReturn, an.In(pstores), cutEdge(sIf, zs))
				q.add("PATH", "acknowledgements are awaited iff copies were delivered", okp,
					pickS(okp, "pongN = sent only through sent != 0, and every return after sent != 0 passes it", "the acknowledgement phase is skipped although copies were delivered (Send returns before the subscribers acknowledged), or entered with nothing owed"), sIf)
			} else {
				q.undecided("PATH", "acknowledgements are awaited iff copies were delivered", "the sent != 0 test was not found")
			}
		}
		// zero-subscriber fast path does not block
		if len(loads) > 0 {
			first := loads[0].(*ssa.Call)
			ifs, negs := P.IfsOn(q.fn, func(cond ssa.Value) bool {
				b, ok := cond.(*ssa.BinOp)
				return ok && b.Op == token.EQL && either(b, isVal(first), isZero)
			})
			okf := len(ifs) == 1
			if okf {
				ts := 0
				if negs[0] {
					ts = 1
				}
				// from the If, with the non-zero edge cut, no blocking operation is reachable before the return
				okf = !P.PathExists(q.fn, ifs[0], blockingPred(P), an.IsReturn, cutEdge(ifs[0], 1-ts)) &&
					!P.PathExists(q.fn, nil, an.Is(ifs[0]), blockingPred(P), nil) == false
				// (second conjunct: nothing blocking before the test either)
				okf = !P.PathExists(q.fn, ifs[0], blockingPred(P), an.IsReturn, cutEdge(ifs[0], 1-ts)) && P.Before(q.fn, an.Is(first), ifs[0]) &&
					!existsBefore(P, q.fn, ifs[0], blockingPred(P))
			}
			q.add("PATH", "Send returns 0 without blocking when nobody is subscribed", okf, pickS(okf, "the first Load()==0 edge reaches return with no lock, wait or channel operation", "the zero-subscriber fast path can block"), first)
		}
	}
	if q := c.F("(*ChanPubSub).Wait"); q.ok() {
		pst := an.FieldStores(q.fn, "ChanPubSub.pongN")
		if q.need(pst, "LIN", "pongN--") {
			for _, s := range pst {
				q.expectLin("LIN", "each Wait consumes exactly one acknowledgement", s.(*ssa.Store).Val, aF(P.PathAtom(P.Eval(nil, s.(*ssa.Store).Addr.(*ssa.FieldAddr).X))+".pongN").AddC(-1), s)
				ifz, zs := q.ifZeroTestOfField("ChanPubSub.pongN")
				okw := false
				for i := range ifz {
					// the loop test is the one that dominates the store
					if P.Before(q.fn, an.Is(ifz[i]), s) && q.onlyViaEdge(s, ifz[i], 1-zs[i]) {
						okw = true
					}
				}
				q.add("PATH", "an acknowledgement is consumed only while one is owed", okw, pickS(okw, "pongN-- reached only through pongN != 0", "Wait can decrement pongN when it is 0"), s)
			}
		}
	}
	// SubscribeContext iterator
	if q := c.F("(*ChanPubSub).SubscribeContext"); q.ok() {
		its := closuresOf(q.fn, func(f *ssa.Function) bool { return len(P.CallsTo(f, "(*ChanPubSub).Wait")) > 0 })
		if len(its) != 1 {
			q.undecided("PATH", "iterator", "expected one closure of SubscribeContext calling Wait")
		} else {
			it := &fq{c: c, fn: its[0], name: an.FuncName(its[0])}
			wait := P.CallsTo(it.fn, "(*ChanPubSub).Wait")[0]
			receivedIsAcknowledged(c, it)
			yields := dynCallsOfParam(c, it.fn, it.fn.Params[0])
			if it.need(yields, "PATH", "yield(v)") {
				it.add("PATH", "a received value is acknowledged before it is yielded", P.Before(it.fn, an.Is(wait), yields[0]), "Wait dominates yield", yields[0])
				// the value yielded is the one received from ping.C
				okv := false
				for _, s := range P.Sources(callArg(yields[0], 0)) {
					if ex, ok := s.(*ssa.Extract); ok {
						if _, isSel := ex.Tuple.(*ssa.Select); isSel {
							okv = true
						}
					}
				}
				it.add("PROV", "the value yielded is the value received", okv, "yield's argument comes from the select's receive", yields[0])
				// no exit between Wait and yield other than the yield itself
				skip := P.PathExists(it.fn, wait, an.IsReturn, an.In(yields), nil)
				it.add("PATH", "a value that was received and acknowledged is always yielded", !skip, pickS(!skip, "every path from Wait to a return passes yield", "the iterator can return between Wait and yield: Send counted a delivery that the subscription never observes"), wait)
			}
			// Wait only for a value actually received (ok == true)
			sels := an.AllInstrs(it.fn, func(in ssa.Instruction) bool {
				s, ok := in.(*ssa.Select)
				if !ok {
					return false
				}
				for _, st := range s.States {
					if an.IsLoadOfField(st.Chan, "ChanCaster.C") {
						return true
					}
				}
				return false
			})
			if it.need(sels, "PATH", "select receiving from ping.C") {
				sel := sels[0].(*ssa.Select)
				// recvOk is extract #1
				var okx ssa.Value
				for _, r := range *sel.Referrers() {
					if ex, ok := r.(*ssa.Extract); ok && ex.Index == 1 {
						okx = ex
					}
				}
				good := false
				if okx != nil {
					ifs, negs := P.IfsOn(it.fn, func(cond ssa.Value) bool { return cond == okx })
					if len(ifs) == 1 {
						ts := 0
						if negs[0] {
							ts = 1
						}
						good = it.onlyViaEdge(wait, ifs[0], ts)
					}
				}
				it.add("PATH", "Wait is called only for a value actually received", good, pickS(good, "Wait reached only through ok == true and dominated by the receive", "Wait can be called without a value having been received from the channel (a closed channel would corrupt the acknowledgement count)"), wait)
			}
		}
	}
	// construction and who-may-send
	if q := c.F("NewChanPubSub"); q.ok() {
		pn := an.AllInstrs(q.fn, an.IsPanic)
		ch := q.fn.Params[0]
		okp := false
		for _, p := range pn {
			// reached iff c == nil or cap(c) != 0
			got := P.PathCond(q.fn, nil, p, nil)
			nilF, capF := "", ""
			for _, f := range got.Forms() {
				if strings.Contains(f, "eq?") {
					nilF = f
				}
				if strings.Contains(f, "cap(") {
					capF = f
				}
			}
			if nilF != "" && capF != "" {
				want := an.DNF{an.Conj{nilF: an.SZero}, an.Conj{nilF: an.SPos, capF: an.SNeg | an.SPos}}
				if ok, _ := an.EquivDNF(got, want); ok {
					okp = true
				}
			}
		}
		_ = ch
		q.add("COND", "only a non-nil unbuffered channel is accepted", okp, pickS(okp, "panic iff c == nil or cap(c) != 0", "NewChanPubSub no longer rejects nil / buffered channels (a buffered channel lets one subscriber take several copies)"), pn...)
	}
	var badSends []ssa.Instruction
	nSend := 0
	for _, fn := range P.Funcs {
		for _, in := range an.AllInstrs(fn, func(in ssa.Instruction) bool {
			switch x := in.(type) {
			case *ssa.Send:
				return an.IsLoadOfField(x.Chan, "ChanCaster.C")
			case *ssa.Select:
				for _, st := range x.States {
					if st.Dir == types.SendOnly && an.IsLoadOfField(st.Chan, "ChanCaster.C") {
						return true
					}
				}
			}
			return false
		}) {
			if an.FuncName(fn) == "(*ChanCaster).Send" {
				nSend++
			} else {
				badSends = append(badSends, in)
			}
		}
	}
	c.C.Add("WR", "(*ChanCaster).Send", "only ChanCaster.Send sends on the caster's channel", len(badSends) == 0 && nSend == 1,
		pickS(len(badSends) == 0, "one send site, in ChanCaster.Send", "another function sends on ChanCaster.C: receivers would get values that no Send accounts for"))
}

func existsBefore(p *an.Prog, fn *ssa.Function, at ssa.Instruction, pred an.Pred) bool {
	// is there an instruction satisfying pred on some path entry -> at ?
	for _, in := range an.AllInstrs(fn, pred) {
		if p.PathExists(fn, nil, an.Is(in), an.Is(at), nil) && p.PathExists(fn, in, an.Is(at), nil, nil) {
			return true
		}
	}
	return false
}

// ------------------------------------------------------------------------------------------------

// subscribersWriters: the subscriber count is modified only by addSubscribers (which every caller reaches with the
// locking the protocol prescribes); a second writer - say a lock-free compare-and-swap "fast path" - bypasses the
// exclusion between subscribing and an in-flight Send.
func subscribersWriters(c *Ctx) {
	P := c.P
	var stray []ssa.Instruction
	n := 0
	for _, fn := range P.AllFuncs() {
		for _, in := range an.AllInstrs(fn, func(in ssa.Instruction) bool {
			cc := an.CallCommonOf(in)
			if cc == nil || cc.IsInvoke() || len(cc.Args) == 0 {
				return false
			}
			switch P.CalleeName(cc) {
			case "(*sync/atomic.Int32).Add", "(*sync/atomic.Int32).CompareAndSwap", "(*sync/atomic.Int32).Store", "(*sync/atomic.Int32).Swap":
				return an.FieldOfAddr(cc.Args[0]) == "ChanPubSub.subscribers"
			}
			return false
		}) {
			n++
			// (in addSubscribers, or spelled out in Add itself - where the lock requirement REQ applies to it just the same)
			if h := an.FuncName(an.Host(in.Parent())); h != "(*ChanPubSub).addSubscribers" && h != "(*ChanPubSub).Add" {
				stray = append(stray, in)
			}
		}
	}
	var ps []string
	for _, in := range stray {
		ps = append(ps, P.InstrPos(in))
	}
	c.C.Add("WR", "(*ChanPubSub).Add", "the subscriber count is modified only by addSubscribers", n > 0 && len(stray) == 0,
		pickS(len(stray) == 0, "every atomic write of ChanPubSub.subscribers is in addSubscribers", "ChanPubSub.subscribers is modified outside addSubscribers: that writer is not covered by the sendingMu protocol (a subscriber could join while a Send is delivering)"), ps...)
}

func pubsubC07(c *Ctx) {
	subscribersWriters(c)
	c.delegates("(*ChanPubSub).Subscribe", "(*ChanPubSub).Add", "recv", "int:1")
	c.delegates("(*ChanPubSub).Unsubscribe", "(*ChanPubSub).Add", "recv", "int:-1")
	P := c.P
	guardFns := map[*ssa.Function]bool{}
	// 7. no false "broken"
	for _, name := range []string{"(*ChanPubSub).Send", "(*ChanPubSub).Add"} {
		q := c.F(name)
		if !q.ok() {
			continue
		}
		for _, d := range an.AllInstrs(q.fn, func(in ssa.Instruction) bool { _, ok := in.(*ssa.Defer); return ok }) {
			// the deferred guard: a closure testing a captured flag, or a library method given the flag's address
			var f *ssa.Function
			var flagPrm *ssa.Parameter
			var cell *ssa.Alloc
			dc := &d.(*ssa.Defer).Call
			if mc, ok := dc.Value.(*ssa.MakeClosure); ok {
				f = mc.Fn.(*ssa.Function)
			} else if callee := dc.StaticCallee(); callee != nil && P.IsLib(an.Canon(callee)) {
				f = an.Canon(callee)
				for i, a := range dc.Args {
					if al, isAl := a.(*ssa.Alloc); isAl && i < len(f.Params) && isBoolT(loadOf(al)) {
						flagPrm, cell = f.Params[i], al
					}
				}
				if flagPrm == nil {
					continue
				}
			} else {
				continue
			}
			mbs := P.CallsTo(f, "(*ChanPubSub).markBroken")
			if len(mbs) == 0 {
				continue
			}
			guardFns[f] = true
			// which cell guards it
			ifs, negs := P.IfsOn(f, func(cond ssa.Value) bool {
				ld, ok := isLoad(cond)
				if !ok {
					return false
				}
				if flagPrm != nil {
					return ld.X == ssa.Value(flagPrm)
				}
				cell = P.CellOf(ld.X)
				return cell != nil
			})
			dq := &fq{c: c, fn: f, name: an.FuncName(f)}
			if len(ifs) != 1 || cell == nil {
				dq.undecided("PATH", "markBroken only if the call did not complete", "the deferred closure does not test a success flag")
				continue
			}
			fs := 1
			if negs[0] {
				fs = 0
			}
			dq.add("PATH", "markBroken only if the call did not complete", dq.onlyViaEdge(mbs[0], ifs[0], fs), "markBroken reached only through success == false", mbs[0])
			var trues []ssa.Instruction
			for _, st := range P.CellStores(cell) {
				if b, isB := constBool(st.Val); isB && b && an.Host(st.Parent()) == q.fn {
					trues = append(trues, st)
				}
			}
			for _, r := range returnsOf(q.fn) {
				if !P.PathExists(q.fn, d, an.Is(r), nil, nil) {
					continue
				}
				bad := P.PathExists(q.fn, d, an.Is(r), an.In(trues), nil)
				q.add("PATH", "every normal exit after the guard was armed sets success", !bad,
					pickS(!bad, "every path from the defer to this return passes success = true", "a normal return is reachable with success still false: the deferred closure marks a healthy instance broken and every later call panics"), r)
			}
		}
	}
	// markBroken's other callers are followed by panic
	if q := c.F("(*ChanPubSub).sanityCheckSubscribersDelta"); q.ok() {
		for _, m := range P.CallsTo(q.fn, "(*ChanPubSub).markBroken") {
			ok := !P.PathExists(q.fn, m, an.IsReturn, nil, nil)
			q.add("PATH", "a failed sanity check panics", ok, "markBroken is followed by panic on every path", m)
		}
	}
	var stray []ssa.Instruction
	for _, fn := range P.Funcs {
		n := an.FuncName(fn)
		if n == "(*ChanPubSub).sanityCheckSubscribersDelta" || strings.HasPrefix(n, "(*ChanPubSub).Send$") || strings.HasPrefix(n, "(*ChanPubSub).Add$") || guardFns[fn] {
			continue
		}
		stray = append(stray, P.CallsTo(fn, "(*ChanPubSub).markBroken")...)
	}
	c.C.Add("WR", "(*ChanPubSub).markBroken", "markBroken is reachable only from the guarded defers and failed sanity checks", len(stray) == 0, "no other caller")
	// 4. the TryRLock spin
	if q := c.F("(*ChanPubSub).Add"); q.ok() {
		trys := P.CallsTo(q.fn, "(*sync.RWMutex).TryRLock")
		var inLoop ssa.Instruction
		for _, t := range trys {
			if P.InCycle(t) {
				inLoop = t
			}
		}
		zeroAdds := an.AllInstrs(q.fn, func(in ssa.Instruction) bool {
			call, ok := in.(*ssa.Call)
			return ok && P.CalleeName(&call.Call) == "(*ChanCaster).Add" && isZero(callArg(in, 1))
		})
		{
			// a departing subscriber only ever polls the send lock: once it has tried (and is therefore on the unsubscribe
			// path) it never queues for it - the sender that holds or awaits the lock may be counting on this very
			// subscriber, which is not going to receive
			blocking := append(P.CallsTo(q.fn, "(*sync.RWMutex).RLock"), P.CallsTo(q.fn, "(*sync.RWMutex).Lock")...)
			waits := false
			for _, t := range trys {
				if len(blocking) > 0 && P.PathExists(q.fn, t, an.In(blocking), nil, nil) {
					waits = true
				}
			}
			if len(trys) > 0 {
				q.add("PATH", "a departing subscription polls the send lock and never queues for it", !waits, pickS(!waits, "no blocking RLock/Lock is reachable after a TryRLock", "the unsubscribe path can block in RLock/Lock after polling: it parks behind a Send that is queued for the write side and will count this subscriber, which never receives - Send, the Unsubscribe and every later call hang"), trys[0])
			}
		}
		if inLoop == nil || len(zeroAdds) != 1 {
			q.undecided("COND", "spin until the read lock is taken or the caster is armed", "the TryRLock loop was not recognised")
		} else {
			res := zeroAdds[0].(*ssa.Call)
			// retry reached iff !ok and ping.Add(0) == 0
			okphi := false
			ifs, negs := P.IfsOn(q.fn, func(cond ssa.Value) bool {
				b, ok := cond.(*ssa.BinOp)
				return ok && (b.Op == token.EQL || b.Op == token.NEQ) && either(b, isVal(res), isZero)
			})
			if len(ifs) == 1 {
				// ts: the successor taken when ping.Add(0) == 0
				ts := 0
				if negs[0] {
					ts = 1
				}
				if stripNotV(ifs[0].Cond).(*ssa.BinOp).Op == token.NEQ {
					ts = 1 - ts
				}
				// a RE-try (TryRLock after a TryRLock) happens only through that edge
				okphi = true
				for _, t := range trys {
					if P.PathExists(q.fn, t, an.Is(inLoop), nil, cutEdge(ifs[0], ts)) {
						okphi = false
					}
				}
			}
			// ping.Add(0) itself only when !ok
			okIfs, okNegs := P.IfsOn(q.fn, func(cond ssa.Value) bool {
				if call, ok := cond.(*ssa.Call); ok && P.CalleeName(&call.Call) == "(*sync.RWMutex).TryRLock" {
					return true // ok is assigned only inside the loop: the value tested is the call's result itself
				}
				ph, ok := cond.(*ssa.Phi)
				if !ok {
					return false
				}
				for _, e := range ph.Edges {
					if call, ok := e.(*ssa.Call); ok && P.CalleeName(&call.Call) == "(*sync.RWMutex).TryRLock" {
						return true
					}
				}
				return false
			})
			okno := false
			for i, ifi := range okIfs {
				fs := 1
				if okNegs[i] {
					fs = 0
				}
				if ifi.Block() == zeroAdds[0].Block().Preds[0] || P.Before(q.fn, an.Is(ifi), zeroAdds[0]) {
					if q.onlyViaEdge(zeroAdds[0], ifi, fs) {
						okno = true
					}
				}
			}
			q.add("COND", "the spin continues iff the read lock was not taken and the caster is not armed", okphi && okno,
				pickS(okphi && okno, "retry reached only through !ok and ping.Add(0) == 0", "the TryRLock loop's continue-condition changed (it could spin for ever or skip routing the decrement through the caster)"), inLoop)
			// RUnlock iff ok; ping.Add(delta) iff !ok
			rus := P.CallsTo(q.fn, "(*sync.RWMutex).RUnlock")
			dAdds := an.AllInstrs(q.fn, func(in ssa.Instruction) bool {
				call, ok := in.(*ssa.Call)
				return ok && P.CalleeName(&call.Call) == "(*ChanCaster).Add" && !isZero(callArg(in, 1))
			})
			for _, ru := range rus {
				if _, isDefer := ru.(*ssa.Defer); isDefer {
					continue
				}
				good := false
				for i, ifi := range okIfs {
					ts := 0
					if okNegs[i] {
						ts = 1
					}
					if q.onlyViaEdge(ru, ifi, ts) {
						good = true
					}
				}
				q.add("PATH", "the read lock is released only if it was taken", good, "RUnlock reached only through ok == true", ru)
			}
			for _, da := range dAdds {
				good := false
				for i, ifi := range okIfs {
					fs := 1
					if okNegs[i] {
						fs = 0
					}
					if q.onlyViaEdge(da, ifi, fs) {
						good = true
					}
				}
				q.add("PATH", "the decrement is routed through the caster only when a send is in flight", good,
					pickS(good, "ping.Add(delta) reached only through ok == false", "ping.Add(delta) can run although the read lock was obtained (no send in flight): it would corrupt the caster's count or block"), da)
				// ... after the subscription was taken out of the count: absorbing can block until the Send in flight has
				// delivered, and a Send that starts before the count is reduced would wait for a subscriber that has left
				{
					var decs []ssa.Instruction
					decs = append(decs, P.CallsTo(q.fn, "(*ChanPubSub).addSubscribers")...)
					for _, in := range an.AllInstrs(q.fn, func(in ssa.Instruction) bool {
						cc := an.CallCommonOf(in)
						return cc != nil && len(cc.Args) > 0 && strings.HasPrefix(P.CalleeName(cc), "(*sync/atomic.") && strings.HasSuffix(P.CalleeName(cc), ").Add") && an.FieldOfAddr(cc.Args[0]) == "ChanPubSub.subscribers"
					}) {
						decs = append(decs, in)
					}
					first := len(decs) > 0 && P.Before(q.fn, an.In(decs), da)
					q.add("PATH", "a departing subscription leaves the count before its copies are absorbed", first,
						pickS(first, "the subscriber count is reduced on every path to ping.Add(delta)", "ping.Add(delta) can run before the subscriber count was reduced: the next Send counts a subscriber that has gone and waits for it for ever"), da)
				}
				// ... once, with the delta of this call: the caster absorbs exactly one in-flight copy per departing
				// subscription (applied once per unit of delta it would absorb |delta|^2 copies, the rest stolen from
				// subscribers that stay)
				once := len(dAdds) == 1 && !P.InCycle(da) && len(q.fn.Params) >= 2 && srcIs(P, callArg(da, 1), q.fn.Params[1]) && len(P.Sources(callArg(da, 1))) == 1
				q.add("PATH", "a departing subscription absorbs exactly its own copies", once,
					pickS(once, "one ping.Add(delta), outside any loop, with Add's own delta", "ping.Add for an unsubscribe runs more than once, or not with this call's delta: it absorbs copies that belong to standing subscribers"), da)
			}
		}
	}
	// 6. SubscribeContext: exactly-once unsubscribe
	if q := c.F("(*ChanPubSub).SubscribeContext"); q.ok() {
		afs := P.CallsTo(q.fn, "context.AfterFunc")
		subs := P.CallsTo(q.fn, "(*ChanPubSub).Subscribe")
		if q.need(afs, "PATH", "AfterFunc(ctx, x.Unsubscribe)") && q.need(subs, "PATH", "Subscribe") {
			q.add("PATH", "the unsubscribe hook is registered once, after subscribing", len(afs) == 1 && P.Before(q.fn, an.Is(subs[0]), afs[0]) && !P.InCycle(afs[0]), "Subscribe dominates the single AfterFunc", afs[0])
			hook := false
			if mc, ok := callArg(afs[0], 1).(*ssa.MakeClosure); ok {
				hf := mc.Fn.(*ssa.Function)
				if strings.Contains(an.FuncName(hf), "Unsubscribe") {
					hook = true // the bound method value x.Unsubscribe
				} else {
					// a literal that does nothing but call x.Unsubscribe() on every path
					us := P.CallsTo(hf, "(*ChanPubSub).Unsubscribe")
					others := an.AllInstrs(hf, func(in ssa.Instruction) bool {
						cc := an.CallCommonOf(in)
						return cc != nil && P.CalleeName(cc) != "(*ChanPubSub).Unsubscribe"
					})
					hook = len(us) == 1 && len(others) == 0 && !P.PathExists(hf, nil, an.IsReturn, an.In(us), nil) && !P.InCycle(us[0])
				}
			}
			q.add("PROV", "the hook is Unsubscribe", hook, "second argument is the bound method x.Unsubscribe", afs[0])
		}
		its := closuresOf(q.fn, func(f *ssa.Function) bool { return len(P.CallsTo(f, "(*ChanPubSub).Wait")) > 0 })
		if len(its) == 1 {
			it := &fq{c: c, fn: its[0], name: an.FuncName(its[0])}
			receivedIsAcknowledged(c, it)
			// calls of stop(): dynamic calls whose callee is a load of the stop cell
			stops := an.AllInstrs(it.fn, func(in ssa.Instruction) bool {
				call, ok := in.(*ssa.Call)
				if !ok || call.Call.IsInvoke() || call.Call.StaticCallee() != nil || len(call.Call.Args) != 0 {
					return false
				}
				return isBoolT(call)
			})
			unsubs := P.CallsTo(it.fn, "(*ChanPubSub).Unsubscribe")
			if it.need(stops, "PATH", "stop()") && it.need(unsubs, "PATH", "Unsubscribe") {
				for _, u := range unsubs {
					good := false
					for _, s := range stops {
						ifs, negs := P.IfsOn(it.fn, func(cond ssa.Value) bool { return cond == ssa.Value(s.(*ssa.Call)) })
						if len(ifs) == 1 {
							ts := 0
							if negs[0] {
								ts = 1
							}
							if it.onlyViaEdge(u, ifs[0], ts) {
								good = true
							}
						}
					}
					it.add("PATH", "the iterator unsubscribes only if it stopped the hook", good, pickS(good, "Unsubscribe reached only through stop() == true", "the iterator can unsubscribe although the context hook also will (double unsubscribe)"), u)
				}
				// every stop()==true region unsubscribes: deferred before any callback, or directly before the panic
				for _, s := range stops {
					ifs, negs := P.IfsOn(it.fn, func(cond ssa.Value) bool { return cond == ssa.Value(s.(*ssa.Call)) })
					if len(ifs) != 1 {
						continue
					}
					ts := 0
					if negs[0] {
						ts = 1
					}
					// from the If via the true edge: every path to return/panic/callback passes an Unsubscribe (call or defer)
					exits := func(in ssa.Instruction) bool {
						if an.IsReturn(in) || an.IsPanic(in) {
							return true
						}
						for _, y := range dynCallsOfParam(c, it.fn, it.fn.Params[0]) {
							if in == y {
								return true
							}
						}
						return false
					}
					leak := P.PathExists(it.fn, ifs[0], exits, an.In(unsubs), cutEdge(ifs[0], 1-ts))
					it.add("PATH", "once the hook is stopped, Unsubscribe is guaranteed (also if yield panics)", !leak,
						pickS(!leak, "an Unsubscribe (deferred, or directly before the panic) precedes every exit and every call of yield", "after stop() returned true an exit (return, panic, or unwinding out of yield) is reachable without Unsubscribe having been called or deferred: the subscription would leak and the next Send would block for ever"), s)
				}
			}
		}
	}
}

// ------------------------------------------------------------------------------------------------

// casterPoison: a positive Add that fails its validation has already added its delta: the damaged state stays in
// place and every later call panics too. (A check BEFORE the add would report the overflow once and then let every
// later call succeed on a count that no longer matches the receivers.)
func casterPoison(c *Ctx) {
	P := c.P
	q := c.F("(*ChanCaster).Add")
	if !q.ok() {
		return
	}
	rl := P.CallsTo(q.fn, "(*sync.RWMutex).RLock")
	adds := an.AllInstrs(q.fn, func(in ssa.Instruction) bool {
		call, ok := in.(*ssa.Call)
		return ok && P.CalleeName(&call.Call) == "(*sync/atomic.Uint64).Add"
	})
	if !q.need(rl, "PATH", "RLock in the positive branch") || !q.need(adds, "PATH", "state.Add") {
		return
	}
	ok := true
	var bad []ssa.Instruction
	for _, pn := range an.AllInstrs(q.fn, an.IsPanic) {
		if !P.PathExists(q.fn, rl[0], an.Is(pn), nil, nil) {
			continue // rejected before the lock: the delta itself is out of range
		}
		if P.PathExists(q.fn, rl[0], an.Is(pn), an.In(adds), nil) {
			ok = false
			bad = append(bad, pn)
		}
	}
	q.add("PATH", "a positive Add that is reported as invalid has left its mark on the state", ok,
		pickS(ok, "every panic reachable from the read lock is preceded by state.Add", "a panic under the read lock can be raised before the state was modified: the violation is reported once and then forgotten"), bad...)
}

// casterSticky: "and every later call panics too". The state word cannot carry that on its own: every Add applies its
// delta before it validates, so a later (itself invalid) Add can move a damaged word back into a valid state
// (Add(-1), Add(1) on an idle caster both panic and leave 0 behind). The violation therefore has to be recorded in
// something no call undoes: a flag of the caster that (1) is set before every panic that follows an access of the
// state, (2) is tested by Add and Send before they touch the state, the set side leading to nothing but a panic, and
// (3) is never cleared.
func casterSticky(c *Ctx) {
	P := c.P
	isState := func(in ssa.Instruction) bool {
		cc := an.CallCommonOf(in)
		if cc == nil || len(cc.Args) == 0 {
			return false
		}
		n := P.CalleeName(cc)
		return strings.HasPrefix(n, "(*sync/atomic.Uint64).") && an.FieldOfAddr(cc.Args[0]) == "ChanCaster.state"
	}
	flagOp := func(in ssa.Instruction, op string) (string, bool) {
		cc := an.CallCommonOf(in)
		if cc == nil || len(cc.Args) == 0 || P.CalleeName(cc) != "(*sync/atomic.Bool)."+op {
			return "", false
		}
		f := an.FieldOfAddr(cc.Args[0])
		return f, strings.HasPrefix(f, "ChanCaster.")
	}
	// (3) never cleared, anywhere
	for _, fn := range P.AllFuncs() {
		if !P.IsLib(an.Canon(fn)) {
			continue
		}
		for _, in := range an.AllInstrs(fn, func(in ssa.Instruction) bool { _, ok := flagOp(in, "Store"); return ok }) {
			bv, isB := constBool(an.CallCommonOf(in).Args[1])
			fq := &fq{c: c, fn: fn, name: an.FuncName(fn)}
			fq.add("WR", "the record of a violation is never cleared", isB && bv, pickS(isB && bv, "the flag is only ever set", "the flag that records an invariant violation can be reset"), in)
		}
		for _, op := range []string{"Swap", "CompareAndSwap"} {
			for _, in := range an.AllInstrs(fn, func(in ssa.Instruction) bool { _, ok := flagOp(in, op); return ok }) {
				fq := &fq{c: c, fn: fn, name: an.FuncName(fn)}
				fq.add("WR", "the record of a violation is never cleared", false, "the flag that records an invariant violation is modified by "+op, in)
			}
		}
	}
	for _, name := range []string{"(*ChanCaster).Add", "(*ChanCaster).Send"} {
		q := c.F(name)
		if !q.ok() {
			continue
		}
		fn := q.fn
		accs := an.AllInstrs(fn, isState)
		if !q.need(accs, "PATH", "access of the state word") {
			continue
		}
		marks := an.AllInstrs(fn, func(in ssa.Instruction) bool {
			_, ok := flagOp(in, "Store")
			return ok
		})
		tests := an.AllInstrs(fn, func(in ssa.Instruction) bool {
			_, ok := flagOp(in, "Load")
			return ok
		})
		// (2) tested first, the set side only panics
		var gate *ssa.If
		gateSet := 0
		for _, t := range tests {
			tv, _ := t.(ssa.Value)
			ifs, negs := P.IfsOn(fn, func(cond ssa.Value) bool { return tv != nil && cond == tv })
			if len(ifs) == 1 {
				gate = ifs[0]
				if negs[0] {
					gateSet = 1
				}
			}
		}
		okGate := gate != nil
		if okGate {
			for _, a := range accs {
				if !q.onlyViaEdge(a, gate, 1-gateSet) {
					okGate = false
				}
			}
			if P.PathExists(fn, gate, an.IsReturn, nil, cutEdge(gate, 1-gateSet)) {
				okGate = false
			}
		}
		q.add("PATH", "a caster that reported a violation refuses every later call", okGate, pickS(okGate, "the violation flag is tested before the state is touched; when it is set the call can only panic", "nothing but the state word records an earlier violation, and a later invalid Add can move that word back into a valid state (Add(-1); Add(1) on an idle caster: both panic, afterwards Add(0) and Send succeed)"), accs[0])
		// (1) set before every panic that follows an access of the state
		for _, pn := range an.AllInstrs(fn, an.IsPanic) {
			after := false
			for _, a := range accs {
				if P.PathExists(fn, a, an.Is(pn), nil, nil) {
					after = true
				}
			}
			if !after {
				continue // argument rejected (or the flag found set) before the state was looked at
			}
			okm := len(marks) > 0 && P.Before(fn, an.In(marks), pn)
			q.add("PATH", "an invariant violation is recorded before it is reported", okm, pickS(okm, "the panic is dominated by setting the violation flag", "this panic leaves no record but the state word itself: see the rule above"), pn)
		}
	}
}

func casterC08(c *Ctx) {
	casterPoison(c)
	casterSticky(c)
	P := c.P
	const max = 2147483647
	if q := c.F("(*ChanCaster).Add"); q.ok() {
		delta := aP(q.param(1))
		adds := P.CallsTo(q.fn, "(*sync/atomic.Uint64).Add")
		if len(adds) != 2 {
			q.undecided("COND", "range checks on delta", "expected two state.Add sites (positive / negative)")
		} else {
			for _, a := range adds {
				got := P.PathCond(q.fn, nil, a, keepForms(delta, delta.AddC(-max), delta.AddC(max)))
				pos := an.DNF{conj(lit(delta, an.SPos), lit(delta.AddC(-max), an.SNeg|an.SZero))}
				neg := an.DNF{conj(lit(delta, an.SNeg), lit(delta.AddC(max), an.SPos|an.SZero))}
				okp, _ := an.EquivDNF(got, pos)
				okn, _ := an.EquivDNF(got, neg)
				q.add("COND", "the state is changed only for a delta within [-MaxInt32, MaxInt32]", okp || okn,
					pickS(okp || okn, "state.Add reached iff 0 < delta <= MaxInt32, resp. -MaxInt32 <= delta < 0", "an out-of-range delta can reach the atomic add (it must panic instead): "+got.String()), a)
			}
		}
		// RNG: the (sign-normalised) delta packed into the atomic add is within [1, MaxInt32] - decided by interval
		// analysis with wrap-around, so that a bound checked after negation (which overflows for MinInt) is seen
		if len(adds) == 2 {
			env := P.NewItvEnv(q.fn, nil)
			for _, a := range adds {
				var packed []ssa.Value
				var walk func(v ssa.Value, d int)
				walk = func(v ssa.Value, d int) {
					if d > 8 {
						return
					}
					switch x := v.(type) {
					case *ssa.Convert:
						if b, ok := x.X.Type().Underlying().(*types.Basic); ok && b.Kind() == types.Int {
							packed = append(packed, x.X)
							return
						}
						walk(x.X, d+1)
					case *ssa.BinOp:
						walk(x.X, d+1)
						walk(x.Y, d+1)
					case *ssa.UnOp:
						walk(x.X, d+1)
					}
				}
				walk(callArg(a, 1), 0)
				ok := len(packed) > 0
				worst := ""
				for _, pv := range packed {
					r := env.At(pv, a.Block())
					if !r.Within(1, max) {
						ok = false
						worst = r.String()
					}
				}
				q.add("RNG", "the delta packed into the state word is within [1, MaxInt32]", ok, pickS(ok, "interval analysis: every int packed into the atomic add is in [1, 2147483647] at this site", "the value packed into the atomic add can be "+worst+" (e.g. -delta overflows for the most negative int): an out-of-range Add would go unnoticed"), a)
			}
		}
		// negative branch: receives only when a send is in flight, exactly delta times
		recvs := an.AllInstrs(q.fn, func(in ssa.Instruction) bool {
			u, ok := in.(*ssa.UnOp)
			return ok && u.Op == token.ARROW && an.IsLoadOfField(u.X, "ChanCaster.C")
		})
		if q.need(recvs, "PATH", "absorbing receive") {
			rv := recvs[0]
			q.add("WL", "a departing receiver absorbs in a loop", P.InCycle(rv), "receive lies in a loop", rv)
			// guarded by lo == MaxInt32 + hi
			ifs, negs := P.IfsOn(q.fn, func(cond ssa.Value) bool {
				b, ok := cond.(*ssa.BinOp)
				if !ok || (b.Op != token.EQL && b.Op != token.NEQ) {
					return false
				}
				isSum := func(v ssa.Value) bool {
					bo, ok := v.(*ssa.BinOp)
					if !ok || bo.Op != token.ADD {
						return false
					}
					cx, okx := constInt(bo.X)
					cy, oky := constInt(bo.Y)
					return (okx && cx == max) || (oky && cy == max)
				}
				return isSum(b.X) || isSum(b.Y)
			})
			good := false
			for i, ifi := range ifs {
				// the edge on which the equality holds (`if lo != max+hi { break }` takes it on the false side)
				ts := 0
				if negs[i] {
					ts = 1
				}
				if stripNotV(ifi.Cond).(*ssa.BinOp).Op == token.NEQ {
					ts = 1 - ts
				}
				if q.onlyViaEdge(rv, ifi, ts) {
					good = true
				}
			}
			q.add("PATH", "values are absorbed only while a Send is in flight (lo == MaxInt32 + hi)", good, pickS(good, "receive reached only through that equality", "a negative Add can receive from the channel when no send is in flight (it would block or steal a value)"), rv)
			// trip count = delta (negated parameter)
			okt := false
			if hi, _, lo, ok := loopBound(P, rv); ok && lo == 0 {
				okt = P.Lin(hi).Equal(delta.Neg())
			}
			q.add("LIN", "exactly |delta| values are absorbed", okt, pickS(okt, "the loop is bounded by -delta", "the absorbing loop is not bounded by the number of departing receivers"), rv)
		}
		// C08.5 / C08.6: the exact conditions under which Add returns normally
		casterAddConds(c, q, adds)
		// every return is guarded; everything else panics
		rets := returnsOf(q.fn)
		nGuard := 0
		for _, r := range rets {
			got := P.PathCond(q.fn, nil, r, nil)
			if len(got) > 0 {
				nGuard++
			}
		}
		pn := an.AllInstrs(q.fn, an.IsPanic)
		q.add("PATH", "unbalanced or overflowing Adds end in a panic", len(pn) >= 3, "three panic exits (positive OOB, negative OOB, invariant violation)", pn...)
	}
	if q := c.F("(*ChanCaster).Send"); q.ok() {
		cas := P.CallsTo(q.fn, "(*sync/atomic.Uint64).CompareAndSwap")
		var arm, reset ssa.Instruction
		for _, x := range cas {
			if isZero(callArg(x, 2)) {
				reset = x
			} else {
				arm = x
			}
		}
		if arm == nil || reset == nil {
			q.undecided("PATH", "arm / reset CAS", "the arming CAS and the reset-to-zero CAS were not both found")
			return
		}
		q.add("WL", "arming retries on a racing decrement", P.InCycle(arm), "the arming CAS lies in a loop", arm)
		sends := an.AllInstrs(q.fn, func(in ssa.Instruction) bool { _, ok := in.(*ssa.Send); return ok })
		if q.need(sends, "PATH", "x.C <- value") {
			snd := sends[0]
			q.add("PATH", "values are sent only after the state was armed", P.Before(q.fn, an.Is(arm), snd) && q.onlyViaEdge(snd, ifOf(P, q.fn, arm.(*ssa.Call)), 0), "send dominated by the successful arming CAS", snd)
			// trip count: hi word of the armed state
			okt := false
			if hi, _, lo, ok := loopBound(P, snd); ok && lo == 0 {
				for _, v := range []ssa.Value{hi} {
					for _, s := range P.Sources(v) {
						if sh, isSh := s.(*ssa.BinOp); isSh && sh.Op == token.SHR {
							if k, isK := constInt(sh.Y); isK && k == 32 && P.IsCallResult(sh.X, "(*sync/atomic.Uint64).Load", 0) && P.Before(q.fn, an.Is(sh.X.(*ssa.Call)), arm) {
								okt = true
							}
						}
					}
				}
			}
			q.add("PROV", "one value is sent per receiver counted when the state was armed", okt, pickS(okt, "the loop bound is uint32(state >> 32) of the loaded state", "the send loop is not bounded by the receiver count of the armed state"), snd)
		}
		// the non-zero return only through the successful reset, everything else panics
		rif := ifOf(P, q.fn, reset.(*ssa.Call))
		for _, r := range returnsOf(q.fn) {
			vs := c.retVals(r, 0)
			zero := len(vs) == 1 && isZero(vs[0])
			if zero {
				// early exits: before arming
				aif := ifOf(P, q.fn, arm.(*ssa.Call))
				okz := aif != nil
				if okz {
					fs := falseSuccOfCallIf(aif, arm.(*ssa.Call))
					okz = fs >= 0 && !P.PathExists(q.fn, aif, an.Is(r), nil, cutEdge(aif, fs))
				}
				q.add("PATH", "Send returns 0 only while nothing was armed (no receivers)", okz, "zero return not reachable from a successful arming CAS", r)
				// ... and only because a loaded state was 0: the return is reached only through the "== 0" edge of a test of
				// a state Load (the unlocked fast path and the locked early exit alike)
				zifs, znegs := P.IfsOn(q.fn, func(cond ssa.Value) bool {
					b, ok := cond.(*ssa.BinOp)
					if !ok || (b.Op != token.EQL && b.Op != token.NEQ) {
						return false
					}
					return either(b, func(v ssa.Value) bool {
						for _, s := range P.Sources(v) {
							if !P.IsCallResult(s, "(*sync/atomic.Uint64).Load", 0) {
								return false
							}
						}
						return len(P.Sources(v)) > 0
					}, isZero)
				})
				okl := false
				for i, zi := range zifs {
					zs := 0
					if znegs[i] {
						zs = 1
					}
					if stripNotV(zi.Cond).(*ssa.BinOp).Op == token.NEQ {
						zs = 1 - zs
					}
					if q.onlyViaEdge(r, zi, zs) {
						okl = true
					}
				}
				q.add("PATH", "Send gives up without sending only when the state it loaded is 0", okl, pickS(okl, "the zero return is reached only through state == 0", "Send can return 0 without delivering although receivers are registered (the state == 0 test is inverted or gone)"), r)
				continue
			}
			okr := rif != nil && P.Before(q.fn, an.Is(reset), r)
			if okr {
				// the reset CAS result must be true on the way: the If on (possibly negated / or-ed) result
				okr = !P.PathExists(q.fn, nil, an.Is(r), an.Is(reset), nil)
			}
			q.add("PATH", "after sending, Send returns only after validating and resetting the state", okr, pickS(okr, "return dominated by the reset CAS", "Send can return a count without having reset (and validated) the state"), r)
			okv := false
			for _, v := range vs {
				for _, s := range P.Sources(v) {
					if sh, isSh := s.(*ssa.BinOp); isSh && sh.Op == token.SHR && P.IsCallResult(sh.X, "(*sync/atomic.Uint64).Load", 0) && P.Before(q.fn, an.Is(arm), sh.X.(*ssa.Call)) && !P.InCycle(sh.X.(*ssa.Call)) {
						okv = true
					}
				}
			}
			q.add("PROV", "the count returned is the receivers left after the sends", okv, "return value is the hi word of the state loaded after the loop", r)
		}
		// failed validation panics: from the reset If's false side no return is reachable
		if rif != nil {
			fs := falseSuccOfCallIf(rif, reset.(*ssa.Call))
			okp := fs >= 0 && !P.PathExists(q.fn, rif, an.IsReturn, nil, cutEdge(rif, 1-fs))
			q.add("PATH", "a failed reset (unregistered receiver) panics", okp, pickS(okp, "the failed-CAS side reaches only panic", "Send can return normally although the state could not be reset: an invariant violation would go unnoticed"), reset)
		}
		// exact conditions: arming iff state != 0, lo == hi, hi <= Max; final return iff hi' <= hi, lo' == hi' + Max, reset CAS ok
		{
			const max = 2147483647
			loads := P.CallsTo(q.fn, "(*sync/atomic.Uint64).Load")
			var pre, post *ssa.Call
			for _, l := range loads {
				lc := l.(*ssa.Call)
				if P.InCycle(lc) && P.Before(q.fn, an.Is(lc), arm) {
					pre = lc
				}
				if P.Before(q.fn, an.Is(arm), lc) && !P.InCycle(lc) {
					post = lc
				}
			}
			if pre == nil || post == nil {
				q.undecided("COND", "exact validation conditions of Send", "the state loads before arming / after the send loop were not found")
			} else {
				h1, l1 := hiLoOf(q.fn, pre)
				h2, l2 := hiLoOf(q.fn, post)
				if h1 == nil || l1 == nil || h2 == nil || l2 == nil {
					q.undecided("COND", "exact validation conditions of Send", "hi/lo words are not extracted as uint32(state>>32) / uint32(state)")
				} else {
					S := P.Lin(pre)
					H1, L1, H2, L2 := P.Lin(h1), P.Lin(l1), P.Lin(h2), P.Lin(l2)
					wantArm := an.DNF{conj(lit(S, an.SNeg|an.SPos), lit(L1.Minus(H1), an.SZero), lit(H1.AddC(-max), an.SNeg|an.SZero))}
					got := P.PathCond(q.fn, pre.Block(), arm, keepForms(S, L1.Minus(H1), H1.AddC(-max)))
					ok, cex := an.EquivDNF(got, wantArm)
					q.add("COND", "the state is armed iff it is non-zero and consistent (lo == hi <= Max)", ok, pickS(ok, "arming CAS reached iff state != 0, lo == hi, hi <= MaxInt32", "arming is attempted iff ["+got.String()+"]; differs for "+cex), arm)
					for _, r := range returnsOf(q.fn) {
						vs := c.retVals(r, 0)
						if len(vs) == 1 && isZero(vs[0]) && P.InCycle(r) == false && P.PathExists(q.fn, pre, an.Is(r), nil, nil) && !P.PathExists(q.fn, arm, an.Is(r), nil, cutEdge(ifOf(P, q.fn, arm.(*ssa.Call)), 1)) {
							g := P.PathCond(q.fn, pre.Block(), r, keepForms(S))
							okz, _ := an.EquivDNF(g, an.DNF{conj(lit(S, an.SZero))})
							q.add("COND", "Send returns 0 under the lock iff the state is 0", okz, "zero return reached iff state == 0", r)
						}
					}
					cr := P.Lin(reset.(*ssa.Call))
					wantRet := an.DNF{conj(lit(H2.Minus(H1), an.SNeg|an.SZero), lit(L2.Minus(H2.AddC(max)), an.SZero), lit(cr, an.SPos))}
					for _, r := range returnsOf(q.fn) {
						if !P.PathExists(q.fn, post, an.Is(r), nil, nil) {
							continue
						}
						g := P.PathCond(q.fn, post.Block(), r, keepForms(H2.Minus(H1), L2.Minus(H2.AddC(max)), cr))
						okr, cex := an.EquivDNF(g, wantRet)
						q.add("COND", "after sending, Send returns iff receivers did not grow, lo == hi + Max, and the reset CAS succeeded", okr,
							pickS(okr, "return reached iff that condition (everything else panics)", "the post-send validation changed: Send returns iff ["+g.String()+"]; differs for "+cex), r)
					}
				}
			}
		}
		// the two validation comparisons exist
		nv := 0
		for _, b := range q.fn.Blocks {
			if ifi, ok := b.Instrs[len(b.Instrs)-1].(*ssa.If); ok {
				if bo, ok := stripNotV(ifi.Cond).(*ssa.BinOp); ok && P.PathExists(q.fn, sends[0], an.Is(ifi), nil, nil) && !P.InCycle(ifi) {
					if bo.Op == token.GTR || bo.Op == token.NEQ || bo.Op == token.LSS || bo.Op == token.EQL || bo.Op == token.LEQ || bo.Op == token.GEQ {
						if !P.PathExists(q.fn, ifi, an.IsReturn, nil, cutEdge(ifi, 1)) || !P.PathExists(q.fn, ifi, an.IsReturn, nil, cutEdge(ifi, 0)) {
							nv++
						}
					}
				}
			}
		}
		q.add("PATH", "the post-send state is validated (receivers not increased, lo == hi + MaxInt32)", nv >= 2, pickS(nv >= 2, "two comparisons after the loop each have a panic-only side", "a validation of the post-send state was dropped"), reset)
	}
}

// loopGuard returns the If that guards the loop containing in (the If in the loop header block that
// has one successor leading to in's block).
func loopGuard(in ssa.Instruction) (*ssa.If, bool) {
	b := in.Block()
	for _, p := range b.Preds {
		if ifi, ok := p.Instrs[len(p.Instrs)-1].(*ssa.If); ok {
			if _, isB := stripNotV(ifi.Cond).(*ssa.BinOp); isB {
				return ifi, true
			}
		}
	}
	return nil, false
}

// ifOf finds the If that branches on the result of call (possibly negated or through a short-circuit).
func ifOf(p *an.Prog, fn *ssa.Function, call *ssa.Call) *ssa.If {
	ifs, _ := p.IfsOn(fn, func(cond ssa.Value) bool { return cond == ssa.Value(call) })
	if len(ifs) == 1 {
		return ifs[0]
	}
	return nil
}

func falseSuccOfCallIf(ifi *ssa.If, call *ssa.Call) int {
	neg := false
	v := ifi.Cond
	for {
		if u, ok := v.(*ssa.UnOp); ok && u.Op == token.NOT {
			v = u.X
			neg = !neg
			continue
		}
		break
	}
	if v != ssa.Value(call) {
		return -1
	}
	if neg {
		return 0
	}
	return 1
}

func init() {
	register(&Prop{
		ID:        "C06",
		Technique: "lock-state simulation (locks held at counting/arming/delivery, atomic sections), value provenance and only-via-edge path rules on ChanPubSub.Send/Wait/the iterator, who-may-send audit",
		Explanation: "in Send, sendMu is held from before the counting load through the last pong wait and sendingMu(W) at the load, at ping.Add and throughout ping.Send (no subscription between counting and delivery); positive Add holds sendingMu(R) at addSubscribers; ping.Add gets exactly the count loaded in that hold and must return it; pongN := ping.Send's result, Send returns that value and only through pongN == 0; " +
			"Wait consumes exactly one acknowledgement and only while one is owed, in a loop; the iterator acknowledges (Wait) a value only if one was received, before yielding it, and always yields it; only a non-nil unbuffered channel is accepted and only ChanCaster.Send sends on it; with no subscribers Send returns 0 without any blocking operation.",
		NotDecided: "that the n receipts are by n distinct subscriptions and each subscription sees a contiguous run (these depend on interleavings inside ChanCaster and are model-checking territory); one global order beyond the serialisation by sendMu.",
		Build: func(c *Ctx) []*an.Oblig {
			pubsubC06(c)
			// membership accounting is a premise of "exactly the standing subscribers, each once": an Unsubscribe that can run
			// before its Subscribe (or twice) absorbs a copy owed to a standing subscriber; an instance falsely marked broken
			// panics instead of returning 0
			pubsubC07(c)
			out := c.sel(func(o *an.Oblig) bool {
				if isUndecided(o) || o.Rule == "ANCHOR" {
					return true
				}
				if ruleIn(o, "AT", "REQ", "S", "SL", "WL", "G") && funcHas(o, "(*ChanPubSub)") {
					return true
				}
				return false
			})
			return append(out, c.C.List...)
		},
		Floors: []Floor{
			floorKey("Send provenance", 3, "PROV/(*ChanPubSub).Send/"),
			floorKey("Send paths", 3, "PATH/(*ChanPubSub).Send/"),
			floorKey("Wait", 2, "/(*ChanPubSub).Wait/"),
			floorKey("iterator", 3, "/(*ChanPubSub).SubscribeContext$ret1/"),
			floorKey("AT Send", 3, "AT/(*ChanPubSub).Send/"),
			floorKey("REQ", 3, "REQ/(*ChanPubSub)"),
			floorRule("WR", "WR", 1),
		},
	})
	register(&Prop{
		ID:        "C07",
		Technique: "lock-order graph, exact lock pairing with path-sensitive flags (flag-guarded deferred unlock, TryRLock web), blocking-under-lock and panic-exit rules from the lock simulator; only-via-edge path rules for the exactly-once unsubscribe and the success flags",
		Explanation: "the acquired-while-holding graph over {sendMu, sendingMu, ChanCaster.mutex, pongC.L} is acyclic; every lock is released exactly once on every normal exit and by deferred calls on every panic exit (Send's flag-guarded deferred unlock, negative Add's TryRLock web); at the pong wait only sendMu remains held, ping.Add(delta) runs with nothing held and only if the read lock was NOT obtained, RUnlock only if it was; " +
			"the spin continues iff !ok and ping.Add(0) == 0; markBroken broadcasts under pongC.L and is reachable only from failed sanity checks (followed by panic) and from defers guarded by a success flag that every normal exit sets; SubscribeContext registers the Unsubscribe hook once, unsubscribes only if stop() returned true, and then always (deferred before yield can run, or directly before the panic); " +
			"the acknowledgement count is waited for in a loop and consumed only while one is owed, one Send at a time from delivery to acknowledgement (a lost or extra pong leaves a Send waiting for ever); the caster's own validations (a panic inside ChanCaster.Send / Add is a false invariant panic of the ChanPubSub) are part of this property's obligations.",
		NotDecided: "absence of deadlock over all interleavings of the atomics protocol (the structural conditions are decided; the interleaving argument is not).",
		Build: func(c *Ctx) []*an.Oblig {
			pubsubC07(c)
			casterC08(c)
			pubsubC06(c) // the acknowledgement accounting: a lost or extra pong leaves a Send waiting for ever
			out := c.sel(func(o *an.Oblig) bool {
				if isUndecided(o) || o.Rule == "ANCHOR" {
					return true
				}
				if ruleIn(o, "P", "B", "PX", "SL", "REQ") && funcHas(o, "(*ChanPubSub)", "(*ChanCaster)") {
					return true
				}
				// waiting for acknowledgements in a loop, and the deliver->acknowledge phase of one Send at a time: without
				// either, the pong count of one Send is consumed by another's waiters and never returns to zero
				if ruleIn(o, "WL", "S") && subjHas(o, "ChanPubSub.pong") {
					return true
				}
				if o.Rule == "AT" && funcHas(o, "(*ChanPubSub).Send") {
					return true
				}
				if o.Rule == "O" && subjHas(o, "ChanPubSub", "ChanCaster") {
					return true
				}
				return false
			})
			var mine []*an.Oblig
			for _, o := range c.C.List {
				// (the caster's own validations included: a panic of ChanCaster.Send / Add inside a ChanPubSub call is a false
				// invariant panic of the ChanPubSub, which then marks the instance broken for good)
				if subjHas(o, "reported a violation", "recorded before it is reported", "record of a violation") {
					continue // what a caster does after a violation is C08's clause, not part of "no false panic"
				}
				if funcHas(o, "(*ChanPubSub)", "(*ChanCaster).Send", "(*ChanCaster).Add") || o.Rule == "ANCHOR" {
					mine = append(mine, o)
				}
			}
			return append(out, mine...)
		},
		Floors: []Floor{
			floorRule("O edges", "O", 4),
			floorKey("P Send", 4, "P/(*ChanPubSub).Send"),
			floorKey("P Add", 3, "P/(*ChanPubSub).Add/"),
			floorRule("PX", "PX", 3),
			floorRule("B", "B", 3),
			floorKey("success flags", 2, "every normal exit after the guard was armed"),
			floorKey("spin", 1, "COND/(*ChanPubSub).Add/"),
			floorKey("unsubscribe", 3, "PATH/(*ChanPubSub).SubscribeContext"),
		},
	})
	register(&Prop{
		ID:        "C08",
		Technique: "path-condition equivalence for the delta range checks, only-via-edge and dominance rules on ChanCaster.Send/Add, lock requirements conditional on the sign of delta (lock simulator), panic-exit lock-leak rule, compile-fail witnesses for the atomic state word",
		Explanation: "the atomic state is changed only for a delta within [-MaxInt32, MaxInt32] (out-of-range deltas panic); Send holds the write lock from its first load to the reset CAS and releases it by a defer on every exit including panics; positive Add holds the read lock at state.Add, negative Add acquires nothing; values are sent only after the arming CAS succeeded, one per receiver of the armed state; " +
			"after the loop Send returns only after the validations and the successful reset CAS, every other exit panics, and the value returned is the hi word read after the loop; a negative Add absorbs exactly |delta| values and only while a send is in flight (lo == MaxInt32 + hi); unbalanced Adds panic; an invariant violation is recorded in the caster's violation flag before it is reported, Add and Send test that flag before they touch the state (set: they can only panic) and nothing clears it; only ChanCaster.Send sends on C; the state word cannot be touched non-atomically (type-level).",
		NotDecided: "the who-received-what statement under racing Adds (interleavings of individual atomic operations).",
		Build: func(c *Ctx) []*an.Oblig {
			casterC08(c)
			pubsubC06WhoSends(c)
			atomWitnesses(c)
			out := c.sel(func(o *an.Oblig) bool {
				if isUndecided(o) || o.Rule == "ANCHOR" {
					return true
				}
				if ruleIn(o, "P", "B", "PX", "REQ", "AT", "CLS") && funcHas(o, "(*ChanCaster)") {
					return true
				}
				return false
			})
			return append(out, c.C.List...)
		},
		Floors: []Floor{
			floorKey("range checks", 1, "COND/(*ChanCaster).Add/"),
			floorKey("Send paths", 5, "PATH/(*ChanCaster).Send/"),
			floorKey("Add paths", 2, "PATH/(*ChanCaster).Add/"),
			floorKey("REQ", 2, "REQ/(*ChanCaster)"),
			floorKey("PX", 1, "PX/(*ChanCaster).Send/"),
			floorRule("ATOM", "ATOM", 3),
		},
	})
}

func pubsubC06WhoSends(c *Ctx) {
	P := c.P
	n, bad := 0, 0
	for _, fn := range P.Funcs {
		for range an.AllInstrs(fn, func(in ssa.Instruction) bool {
			s, ok := in.(*ssa.Send)
			return ok && an.IsLoadOfField(s.Chan, "ChanCaster.C")
		}) {
			if an.FuncName(fn) == "(*ChanCaster).Send" {
				n++
			} else {
				bad++
			}
		}
	}
	c.C.Add("WR", "(*ChanCaster).Send", "only ChanCaster.Send sends on the caster's channel", bad == 0 && n == 1, "one send site")
}

// hiLoOf finds, for a 64-bit state value, the uint32 conversions of its high and low words.
func hiLoOf(fn *ssa.Function, state ssa.Value) (hi, lo ssa.Value) {
	for _, in := range an.AllInstrs(fn, func(in ssa.Instruction) bool { _, ok := in.(*ssa.Convert); return ok }) {
		cv := in.(*ssa.Convert)
		if cv.Type().String() != "uint32" {
			continue
		}
		if stripCT(cv.X) == stripCT(state) {
			lo = cv
		}
		if sh, ok := stripCT(cv.X).(*ssa.BinOp); ok && sh.Op == token.SHR && stripCT(sh.X) == stripCT(state) {
			if k, isK := constInt(sh.Y); isK && k == 32 {
				hi = cv
			}
		}
	}
	return
}

func casterAddConds(c *Ctx, q *fq, adds []ssa.Instruction) {
	P := c.P
	const max = 2147483647
	if len(adds) != 2 {
		return
	}
	delta := aP(q.param(1))
	for _, a := range adds {
		call := a.(*ssa.Call)
		// which branch? the positive one joins with the delta == 0 load through a phi
		var state ssa.Value = call
		positive := false
		for _, r := range *call.Referrers() {
			if ph, ok := r.(*ssa.Phi); ok {
				state, positive = ph, true
			}
		}
		hi, lo := hiLoOf(q.fn, state)
		if hi == nil || lo == nil {
			q.undecided("COND", "validation of the resulting state", "the hi/lo words of the state after the atomic add are not extracted as uint32(state>>32) / uint32(state)", a)
			continue
		}
		H, L := P.Lin(hi), P.Lin(lo)
		if positive {
			// the uint32(delta) used in the comparison
			var du ssa.Value
			for _, in := range an.AllInstrs(q.fn, func(in ssa.Instruction) bool { _, ok := in.(*ssa.Convert); return ok }) {
				cv := in.(*ssa.Convert)
				if cv.Type().String() == "uint32" && cv.X == ssa.Value(q.fn.Params[1]) && cv.Block() != a.Block() {
					du = cv
				}
			}
			if du == nil {
				q.undecided("COND", "positive Add returns iff the state is consistent", "uint32(delta) comparison not found", a)
				continue
			}
			D := P.Lin(du)
			A := lit(H.AddC(-max), an.SNeg|an.SZero)
			B := lit(H.Minus(D), an.SPos|an.SZero)
			C := lit(H.Minus(L), an.SZero)
			Z := lit(delta, an.SZero)
			E := lit(H.AddC(max).Minus(L), an.SZero)
			want := an.DNF{conj(A, B, C), conj(A, B, Z, E)}
			n := 0
			for _, r := range returnsOf(q.fn) {
				if !P.PathExists(q.fn, state.(ssa.Instruction), an.Is(r), nil, nil) {
					continue
				}
				n++
				got := P.PathCond(q.fn, state.(ssa.Instruction).Block(), r, keepForms(H.AddC(-max), H.Minus(D), H.Minus(L), delta, H.AddC(max).Minus(L)))
				ok, cex := an.EquivDNF(got, want)
				q.add("COND", "a non-negative Add returns iff hi <= Max, hi >= delta and (hi == lo, or delta == 0 and hi+Max == lo)", ok,
					pickS(ok, "return reached iff that condition (everything else panics)", "the validation after a non-negative Add changed: it returns iff ["+got.String()+"]; differs for "+cex), r)
			}
			if n == 0 {
				q.undecided("COND", "a non-negative Add returns iff the state is consistent", "no return follows the positive atomic add", a)
			}
			continue
		}
		// negative: delta' = -delta
		var dn ssa.Value
		for _, in := range an.AllInstrs(q.fn, func(in ssa.Instruction) bool { _, ok := in.(*ssa.Convert); return ok }) {
			cv := in.(*ssa.Convert)
			if cv.Type().String() == "uint32" && cv.Block() != a.Block() && P.Lin(cv.X).Equal(delta.Neg()) {
				dn = cv
			}
		}
		if dn == nil {
			q.undecided("COND", "negative Add validates the remaining receivers", "uint32(-delta) comparison not found", a)
			continue
		}
		D := P.Lin(dn)
		// Max - hi >= delta'   <=>   hi + delta' - Max <= 0   (same linear form up to sign; MkLit normalises)
		A := lit(H.AddC(-max), an.SNeg|an.SZero)
		B := lit(linConstMinus(max, H).Minus(D), an.SPos|an.SZero)
		C := lit(L.Minus(H), an.SZero)
		E := lit(L.Minus(H.AddC(max)), an.SZero)
		keep := keepForms(H.AddC(-max), linConstMinus(max, H).Minus(D), L.Minus(H), L.Minus(H.AddC(max)))
		// plain return: iff A, B, lo == hi ; absorbing receive: iff A, B, lo != hi, lo == Max + hi
		recvs := an.AllInstrs(q.fn, func(in ssa.Instruction) bool {
			u, ok := in.(*ssa.UnOp)
			return ok && u.Op == token.ARROW
		})
		for _, r := range returnsOf(q.fn) {
			if !P.PathExists(q.fn, a, an.Is(r), nil, nil) {
				continue
			}
			viaRecv := len(recvs) > 0 && P.PathExists(q.fn, recvs[0], an.Is(r), nil, nil)
			got := P.PathCond(q.fn, a.Block(), r, keep)
			var want an.DNF
			// one return shared by the plain and the absorbing case (single-exit form): reached iff either holds
			wantBoth := an.DNF{conj(A, B, C), conj(A, B, lit(L.Minus(H), an.SNeg|an.SPos), E)}
			if okBoth, _ := an.EquivDNF(got, wantBoth); viaRecv && okBoth {
				q.add("COND", "a negative Add returns iff remaining hi <= Max, Max-hi >= |delta| and (lo == hi, or lo == Max + hi after absorbing)", true, "reached iff that condition", r)
			} else if viaRecv {
				want = an.DNF{conj(A, B, E)}
				// the return after the loop is also reached with zero iterations: same condition
				ok, cex := an.EquivDNF(got, an.DNF{conj(A, B, lit(L.Minus(H), an.SNeg|an.SPos), E)})
				ok2, _ := an.EquivDNF(got, want)
				q.add("COND", "a negative Add absorbs and returns iff remaining hi <= Max, Max-hi >= |delta| and lo == Max + hi", ok || ok2,
					pickS(ok || ok2, "reached iff that condition", "the send-in-flight branch of a negative Add is taken iff ["+got.String()+"]; differs for "+cex), r)
			} else {
				want = an.DNF{conj(A, B, C)}
				ok, cex := an.EquivDNF(got, want)
				q.add("COND", "a negative Add returns at once iff remaining hi <= Max, Max-hi >= |delta| and lo == hi", ok,
					pickS(ok, "reached iff that condition", "the no-send branch of a negative Add is taken iff ["+got.String()+"]; differs for "+cex), r)
			}
		}
		// two's complement subtraction of the packed delta: argument is ^(packed - 1) with the same packing as the positive add
		arg := callArg(a, 1)
		okc := false
		if u, ok := arg.(*ssa.UnOp); ok && u.Op == token.SUB {
			// unsigned negation: -v == ^(v - 1)
			pos := ""
			for _, o := range adds {
				if o != a {
					pos = P.Lin(callArg(o, 1)).String()
				}
			}
			neg := strings.ReplaceAll(P.Lin(u.X).String(), "-P("+q.param(1)+")", "+P("+q.param(1)+")")
			okc = pos != "" && neg == pos
		}
		if u, ok := arg.(*ssa.UnOp); ok && u.Op == token.XOR {
			if sb, ok := u.X.(*ssa.BinOp); ok && sb.Op == token.SUB {
				if k, isK := constInt(sb.Y); isK && k == 1 {
					pos := ""
					for _, o := range adds {
						if o != a {
							pos = P.Lin(callArg(o, 1)).String()
						}
					}
					neg := strings.ReplaceAll(P.Lin(sb.X).String(), "-P("+q.param(1)+")", "+P("+q.param(1)+")")
					okc = pos != "" && neg == pos
				}
			}
		}
		q.add("LIN", "a negative Add subtracts exactly the packed |delta| from both words (two's complement)", okc,
			pickS(okc, "argument is ^(pack(-delta) - 1) with the same packing as the positive add", "the value added for a negative delta is not ^(pack(|delta|) - 1): the two words would not both decrease by |delta|"), a)
	}
}

func linConstMinus(c int64, l an.Lin) an.Lin { return l.Neg().AddC(c) }

// receivedIsAcknowledged: in the SubscribeContext iterator every value received from the channel is
// followed by Wait on every path (contract: receive, then Wait) - returning, panicking aside, or selecting
// again without Wait leaves the Send waiting for a pong for ever.
func receivedIsAcknowledged(c *Ctx, it *fq) {
	P := c.P
	waits := P.CallsTo(it.fn, "(*ChanPubSub).Wait")
	sels := an.AllInstrs(it.fn, func(in ssa.Instruction) bool {
		s, ok := in.(*ssa.Select)
		if !ok {
			return false
		}
		for _, st := range s.States {
			if an.IsLoadOfField(st.Chan, "ChanCaster.C") {
				return true
			}
		}
		return false
	})
	if len(waits) == 0 || len(sels) != 1 {
		it.undecided("PATH", "a received value is always acknowledged", "Wait call or the receiving select not found")
		return
	}
	sel := sels[0].(*ssa.Select)
	okx := resultOf2(sel, 1)
	if okx == nil {
		it.undecided("PATH", "a received value is always acknowledged", "recvOk of the select is not used")
		return
	}
	ifs, negs := P.IfsOn(it.fn, func(cond ssa.Value) bool { return cond == okx })
	if len(ifs) != 1 {
		it.undecided("PATH", "a received value is always acknowledged", "recvOk is not tested exactly once")
		return
	}
	ts := 0
	if negs[0] {
		ts = 1
	}
	exit := func(in ssa.Instruction) bool { return an.IsReturn(in) || in == ssa.Instruction(sel) }
	skipped := P.PathExists(it.fn, ifs[0], exit, an.In(waits), cutEdge(ifs[0], 1-ts))
	it.add("PATH", "a received value is always acknowledged", !skipped,
		pickS(!skipped, "from recvOk == true every path to a return or to the next select passes Wait()", "after receiving a value the iterator can return (or select again) without calling Wait: the Send that delivered it would wait for that acknowledgement for ever"), ifs[0])
}

// loadOf: a value of the element type of the cell (for type tests only).
func loadOf(al *ssa.Alloc) ssa.Value {
	for _, r := range *al.Referrers() {
		if u, ok := r.(*ssa.UnOp); ok && u.Op == token.MUL {
			return u
		}
		if st, ok := r.(*ssa.Store); ok && st.Addr == ssa.Value(al) {
			return st.Val
		}
	}
	return al
}

// stripCT looks through conversions between types of the same representation (a named uint64 and uint64).
func stripCT(v ssa.Value) ssa.Value {
	for {
		switch x := v.(type) {
		case *ssa.ChangeType:
			v = x.X
			continue
		case *ssa.Convert:
			bt, ok1 := x.Type().Underlying().(*types.Basic)
			bf, ok2 := x.X.Type().Underlying().(*types.Basic)
			if ok1 && ok2 && bt.Kind() == bf.Kind() {
				v = x.X
				continue
			}
		}
		return v
	}
}
