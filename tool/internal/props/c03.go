package props

import (
	"go/token"

	"golang.org/x/tools/go/ssa"

	"bbcheck/internal/an"
)

// defaultCleaner: MINFOLD + COND + PROV for DefaultCleaner (C03.1).
func defaultCleaner(c *Ctx) {
	q := c.F("DefaultCleaner")
	if !q.ok() {
		return
	}
	P := c.P
	fn := q.fn
	if len(fn.Params) != 2 {
		q.undecided("MINFOLD", "signature", "DefaultCleaner no longer has (size, offsets) parameters")
		return
	}
	size, offsets := fn.Params[0], fn.Params[1]
	// purity: no stores to memory other than locals, no calls except builtins
	impure := an.AllInstrs(fn, func(in ssa.Instruction) bool {
		switch x := in.(type) {
		case *ssa.Store:
			_, local := x.Addr.(*ssa.Alloc)
			return !local
		case *ssa.MapUpdate, *ssa.Send, *ssa.Go, *ssa.Defer:
			return true
		case *ssa.Call:
			_, isB := x.Call.Value.(*ssa.Builtin)
			return !isB
		}
		return false
	})
	q.add("MINFOLD", "pure function of (size, offsets)", len(impure) == 0, pickS(len(impure) == 0, "no stores, sends, goroutines or non-builtin calls", "DefaultCleaner has side effects or calls: "+instrs(impure)), impure...)
	// the element x
	var xs []*ssa.UnOp
	for _, in := range an.AllInstrs(fn, func(in ssa.Instruction) bool {
		u, ok := isLoad0(in)
		if !ok {
			return false
		}
		ia, ok := u.X.(*ssa.IndexAddr)
		return ok && ia.X == ssa.Value(offsets)
	}) {
		xs = append(xs, in.(*ssa.UnOp))
	}
	if len(xs) != 1 || !P.InCycle(xs[0]) {
		q.undecided("MINFOLD", "loop over offsets", "expected exactly one element load offsets[i] inside a loop")
		return
	}
	x := xs[0]
	body := x.Block()
	xl := P.Lin(x)
	// the accumulator: an int phi seeded with size
	var acc *ssa.Phi
	for _, in := range an.AllInstrs(fn, func(in ssa.Instruction) bool { _, ok := in.(*ssa.Phi); return ok }) {
		ph := in.(*ssa.Phi)
		for _, e := range ph.Edges {
			if e == ssa.Value(size) {
				acc = ph
			}
		}
	}
	if acc == nil {
		q.undecided("MINFOLD", "accumulator seeded with size", "no loop-carried value seeded with the size parameter was found (the fold idiom changed)")
		return
	}
	al := an.LinAtom("phi:" + accName(acc))
	accLeaves, flat := phiLeaves(P, fn, acc, body, keepForms(xl, xl.Minus(al)))
	if !flat {
		q.undecided("MINFOLD", "accumulator takes offset iff 0 < offset < accumulator", "the accumulator is joined before the loop header under a further condition on the offset")
		return
	}
	for _, lf := range accLeaves {
		e, pred, succ := lf.v, lf.from, lf.to
		switch {
		case e == ssa.Value(size):
			q.add("MINFOLD", "accumulator starts at size", !P.InCycle(pred.Instrs[len(pred.Instrs)-1]), "seed edge comes from outside the loop", pred.Instrs[0])
		case e == ssa.Value(acc):
		case e == ssa.Value(x):
			want := an.DNF{conj(lit(xl, an.SPos), lit(xl.Minus(al), an.SNeg))}
			got := P.EdgeCond(fn, body, pred, succ, keepForms(xl, xl.Minus(al)))
			ok, cex := an.EquivDNF(got, want)
			q.add("MINFOLD", "accumulator takes offset iff 0 < offset < accumulator", ok,
				pickS(ok, "update edge taken iff offset > 0 and offset - lowest < 0", "the lowest-offset fold is broken: the accumulator is updated iff ["+got.String()+"], expected iff ["+want.String()+"]; differs for "+cex), pred.Instrs[len(pred.Instrs)-1])
		default:
			// min(acc, x)
			good := false
			if call, ok := e.(*ssa.Call); ok {
				if b, isB := call.Call.Value.(*ssa.Builtin); isB && b.Name() == "min" && len(call.Call.Args) == 2 {
					a0, a1 := call.Call.Args[0], call.Call.Args[1]
					if (a0 == ssa.Value(acc) && a1 == ssa.Value(x)) || (a1 == ssa.Value(acc) && a0 == ssa.Value(x)) {
						want := an.DNF{conj(lit(xl, an.SPos))}
						got := P.EdgeCond(fn, body, pred, succ, keepForms(xl))
						good, _ = an.EquivDNF(got, want)
					}
				}
			}
			q.add("MINFOLD", "accumulator takes offset iff 0 < offset < accumulator", good, pickS(good, "update is min(lowest, offset) for positive offsets", "the accumulator is updated with "+e.String()+", which is not the lowest positive offset"), pred.Instrs[len(pred.Instrs)-1])
		}
	}
	// the active flag: a bool phi seeded false, set true iff offset > 0
	var active *ssa.Phi
	for _, in := range an.AllInstrs(fn, func(in ssa.Instruction) bool { _, ok := in.(*ssa.Phi); return ok }) {
		ph := in.(*ssa.Phi)
		if ph.Block() == acc.Block() && isBoolT(ph) {
			active = ph
		}
	}
	if active == nil {
		q.undecided("MINFOLD", "active flag", "no loop-carried boolean recording whether a positive offset was seen")
		return
	}
	actLeaves, flat := phiLeaves(P, fn, active, body, keepForms(xl))
	if !flat {
		q.undecided("COND", "active := true iff offset > 0", "the active flag is joined before the loop header under a further condition on the offset")
		return
	}
	for _, lf := range actLeaves {
		e, pred, succ := lf.v, lf.from, lf.to
		if e == ssa.Value(active) {
			// unchanged: taken only for non-positive offsets (or before the loop)
			if P.InCycle(pred.Instrs[len(pred.Instrs)-1]) {
				got := P.EdgeCond(fn, body, pred, succ, keepForms(xl))
				ok, _ := an.EquivDNF(got, an.DNF{conj(lit(xl, an.SNeg|an.SZero))})
				okNeg, _ := an.EquivDNF(got, an.DNF{conj(lit(xl, an.SNeg))})
				q.add("COND", "negative offsets are ignored", ok || okNeg, pickS(ok || okNeg, "flag unchanged exactly for non-positive offsets", "the active flag is left unchanged for some positive offset: "+got.String()), pred.Instrs[len(pred.Instrs)-1])
			}
			continue
		}
		bv, isB := constBool(e)
		if !isB {
			q.add("COND", "active := true iff offset > 0", false, "the active flag is assigned a non-constant", pred.Instrs[0])
			continue
		}
		if !bv {
			q.add("COND", "active starts false", !P.InCycle(pred.Instrs[len(pred.Instrs)-1]), "false only on the seed edge", pred.Instrs[0])
			continue
		}
		got := P.EdgeCond(fn, body, pred, succ, keepForms(xl))
		// the true edges together must cover exactly offset > 0; each one must at least imply it
		implies, _ := an.ImpliesDNF(got, an.DNF{conj(lit(xl, an.SPos))})
		q.add("COND", "active := true iff offset > 0", implies, pickS(implies, "set only for positive offsets", "active is set for a non-positive offset: "+got.String()), pred.Instrs[len(pred.Instrs)-1])
	}
	// returns
	n0, nAcc := 0, 0
	for _, r := range returnsOf(fn) {
		if len(r.Results) != 1 {
			continue
		}
		v := r.Results[0]
		if cv, isC := constInt(v); isC {
			if cv != 0 {
				q.add("PROV", "returns only 0 or the lowest offset", false, "returns the constant "+v.String(), r)
				continue
			}
			n0++
			if P.InCycle(r) || P.PathExists(fn, x, an.Is(r), func(in ssa.Instruction) bool { return in.Block() == acc.Block() }, nil) {
				// early exit inside the loop body: iff offset == 0
				got := P.PathCond(fn, body, r, keepForms(xl))
				ok, cex := an.EquivDNF(got, an.DNF{conj(lit(xl, an.SZero))})
				q.add("COND", "early return 0 iff some offset == 0", ok, pickS(ok, "reached iff offset == 0", "the early return 0 is taken iff ["+got.String()+"]; "+cex), r)
			} else {
				fl := P.Lin(active)
				got := P.PathCond(fn, acc.Block(), r, keepForms(fl))
				ok, cex := an.EquivDNF(got, an.DNF{conj(lit(fl, an.SZero))})
				q.add("COND", "final return 0 iff no active consumer", ok, pickS(ok, "reached iff the active flag is false", "the final return 0 is taken iff ["+got.String()+"]; "+cex), r)
			}
			continue
		}
		if v == ssa.Value(acc) {
			nAcc++
			fl := P.Lin(active)
			got := P.PathCond(fn, acc.Block(), r, keepForms(fl))
			ok, cex := an.EquivDNF(got, an.DNF{conj(lit(fl, an.SPos))})
			q.add("COND", "returns the lowest offset iff an active consumer exists", ok, pickS(ok, "reached iff the active flag is true", "the accumulator is returned iff ["+got.String()+"]; "+cex), r)
			continue
		}
		q.add("PROV", "returns only 0 or the lowest offset", false, "returns "+v.String()+", which is neither 0 nor the accumulator", r)
	}
	q.add("PROV", "returns only 0 or the lowest offset", n0 >= 1 && nAcc == 1, pickS(n0 >= 1 && nAcc == 1, "return values are the constant 0 and the accumulator", "expected returns of 0 and of the accumulator"))
}

// phiLeaves flattens the edges of a loop-header phi through join phis that sit
// inside the loop body (the end of a switch or if-chain): each leaf is a
// value and the CFG edge on which it is chosen. A nested join is only
// flattened when the way from it to the header does not depend on the kept
// forms, so the condition of the leaf edge is the condition of the update.
type phiLeaf struct {
	v        ssa.Value
	from, to *ssa.BasicBlock
}

func phiLeaves(P *an.Prog, fn *ssa.Function, header *ssa.Phi, body *ssa.BasicBlock, keep func(string) bool) ([]phiLeaf, bool) {
	var out []phiLeaf
	ok := true
	seen := map[*ssa.Phi]bool{header: true}
	var walk func(ph *ssa.Phi)
	walk = func(ph *ssa.Phi) {
		for i, e := range ph.Edges {
			pred := ph.Block().Preds[i]
			if p2, isPhi := e.(*ssa.Phi); isPhi && !seen[p2] && p2.Block() != header.Block() && p2.Block() == pred && P.InCycle(p2) {
				seen[p2] = true
				// from the nested join, the edge into ph's block must be unconditional
				if len(pred.Succs) != 1 {
					taut, _ := an.EquivDNF(P.EdgeCond(fn, p2.Block(), pred, ph.Block(), keep), an.DNF{an.Conj{}})
					if !taut {
						ok = false
					}
				}
				walk(p2)
				continue
			}
			out = append(out, phiLeaf{e, pred, ph.Block()})
		}
	}
	walk(header)
	return out, ok
}

func accName(ph *ssa.Phi) string {
	if ph.Comment != "" {
		return ph.Comment
	}
	return ph.Name()
}

func isBoolT(v ssa.Value) bool {
	return v.Type().Underlying().String() == "bool"
}

func isLoad0(in ssa.Instruction) (*ssa.UnOp, bool) {
	u, ok := in.(*ssa.UnOp)
	return u, ok && u.Op == token.MUL
}

func fixedBufferCleaner(c *Ctx) {
	q := c.F("FixedBufferCleaner$ret1")
	if !q.ok() {
		return
	}
	P := c.P
	par := c.P.Func("FixedBufferCleaner")
	if par == nil || len(par.Params) < 2 || len(q.fn.Params) != 2 {
		q.undecided("COND", "signature", "FixedBufferCleaner's shape changed")
		return
	}
	size := aP(q.param(0))
	maxL, targetL := aP(par.Params[0].Name()), aP(par.Params[1].Name())
	nForced, nDefault := 0, 0
	for _, r := range returnsOf(q.fn) {
		vs := c.retVals(r, 0)
		for _, v := range vs {
			if P.IsCallResult(v, "DefaultCleaner", 0) {
				nDefault++
				call := v.(*ssa.Call)
				same := callArg(call, 0) == ssa.Value(q.fn.Params[0]) && callArg(call, 1) == ssa.Value(q.fn.Params[1])
				q.add("PROV", "defers to DefaultCleaner(size, offsets) unchanged", same, pickS(same, "arguments are the closure's own parameters", "DefaultCleaner is called with modified arguments"), call)
				q.expectCond("COND", "default branch iff size <= max", call, nil, an.DNF{conj(lit(size.Minus(maxL), an.SNeg|an.SZero))}, keepForms(size.Minus(maxL)))
				continue
			}
			nForced++
			q.expectLin("LIN", "forced trim = size - target", v, size.Minus(targetL), r)
			q.expectCond("COND", "forced branch iff size > max", r, nil, an.DNF{conj(lit(size.Minus(maxL), an.SPos))}, keepForms(size.Minus(maxL)))
		}
	}
	q.add("PROV", "two outcomes: forced trim or the default cleaner", nForced >= 1 && nDefault >= 1, "every return is the forced trim or the delegation (each checked above)")
	// the constructor hands out that closure for every (max, target): a configuration that silently gets another
	// cleaner (e.g. DefaultCleaner when target == max) never forces a trim, and the buffer is no longer bounded by max
	pq := &fq{c: c, fn: par, name: "FixedBufferCleaner"}
	for _, r := range returnsOf(par) {
		okc := false
		for _, v := range c.retVals(r, 0) {
			okc = false
			for _, s := range P.Sources(v) {
				if ci, isCI := s.(*ssa.ChangeType); isCI {
					s = ci.X
				}
				if mc, isMC := s.(*ssa.MakeClosure); isMC && mc.Fn == ssa.Value(q.fn) {
					okc = true
				} else {
					okc = false
					break
				}
			}
			if !okc {
				break
			}
		}
		pq.add("PROV", "every configuration gets the threshold cleaner", okc, pickS(okc, "the result is the closure checked above", "FixedBufferCleaner can return something other than its threshold closure: for those (max, target) no trim is ever forced and the buffer is not bounded by max"), r)
	}
}

func cleanupLogic(c *Ctx) {
	q := c.F("(*Buffer).cleanupLogic")
	if !q.ok() {
		return
	}
	P := c.P
	b := q.param(0)
	lenB := aLen(b + ".buffer")
	// the cleaner call
	calls := P.CallsTo(q.fn, "field:CleanerConfig.Cleaner")
	if q.need(calls, "PROV", "call of the configured cleaner") {
		call := calls[0]
		q.expectLin("LIN", "cleaner sees the current size", callArg(call, 0), lenB, call)
		a1 := callArg(call, 1)
		okv := a1 != nil && P.IsCallResult(a1, "(*Buffer).consumerOffsets", 0)
		q.add("PROV", "cleaner sees every consumer's relative offset", okv, pickS(okv, "second argument is consumerOffsets()", "the cleaner is not given consumerOffsets()"), call)
	}
	// the reslice and its guards
	var sl *ssa.Slice
	for _, in := range an.FieldStores(q.fn, "Buffer.buffer") {
		if s, ok := in.(*ssa.Store).Val.(*ssa.Slice); ok {
			sl = s
		}
	}
	if sl == nil || sl.Low == nil {
		q.undecided("COND", "shift is clamped to (0, len]", "reslice buffer[s:] not found")
		return
	}
	sL := P.Lin(sl.Low)
	got := P.PathCond(q.fn, nil, sl, keepForms(sL))
	pos := len(got) > 0
	if pos {
		pos, _ = an.ImpliesDNF(got, an.DNF{conj(lit(sL, an.SPos|an.SZero))})
	}
	q.add("COND", "shift >= 0 at the reslice", pos, pickS(pos, "every path to buffer[s:] established s >= 0", "the reslice is reachable with a negative shift (negative cleaner results must be ignored, not applied): "+got.String()), sl)
	// a pass that reports "changed" has removed at least one value: the cleaner goroutine repeats the pass while it
	// reports a change (holding the buffer's lock), so a change that removes nothing would never end
	for _, r := range returnsOf(q.fn) {
		vs := c.retVals(r, 0)
		mayTrue := false
		for _, v := range vs {
			if b, isB := constBool(v); !isB || b {
				mayTrue = true
			}
		}
		if !mayTrue {
			continue
		}
		// the value of the shift that was applied: the reslice's low bound (after clamping)
		g := P.PathCond(q.fn, nil, r, keepForms(sL))
		okp := len(g) > 0 && P.Before(q.fn, an.Is(sl), r)
		if okp {
			okp, _ = an.ImpliesDNF(g, an.DNF{conj(lit(sL, an.SPos))})
		}
		if !okp && len(vs) == 1 {
			// a single exit that returns a computed flag (`applied := shift > 0; if applied { ... }; return applied`): the
			// flag is true only for s > 0, and on the paths where it is true - the true edge of its own test - the
			// reslice was passed
			if _, isB := constBool(vs[0]); !isB {
				l := P.CondLit(vs[0], true)
				pos := l.Form == lit(sL, an.SPos).Form && l.Set == lit(sL, an.SPos).Set
				ifs, negs := P.IfsOn(q.fn, func(cond ssa.Value) bool { return cond == vs[0] })
				var cuts []an.EdgeCut
				for i, ifi := range ifs {
					fs := 1
					if negs[i] {
						fs = 0
					}
					cuts = append(cuts, cutEdge(ifi, fs))
				}
				through := len(ifs) > 0 && !P.PathExists(q.fn, nil, an.Is(r), an.Is(sl), func(b *ssa.BasicBlock, i int) bool {
					for _, c := range cuts {
						if c(b, i) {
							return true
						}
					}
					return false
				})
				okp = pos && through
			}
		}
		q.add("COND", "a cleanup pass reports a change only if it removed at least one value", okp,
			pickS(okp, "the true return is reached only after buffer[s:] with s > 0 (tested after the clamp)", "cleanupLogic can report a change after a shift of 0 (e.g. the clamp to len(buffer) applied after the s <= 0 test): the cleaner repeats the pass for ever with the buffer locked"), r)
	}
	// and the converse: a pass that removed something says so (the cleaner goroutine re-checks only then; the
	// broadcast made here cannot wake the goroutine that is running this very pass)
	for _, r := range returnsOf(q.fn) {
		if !P.PathExists(q.fn, sl, an.Is(r), nil, nil) {
			continue
		}
		okr := true
		for _, v := range c.retVals(r, 0) {
			if b, isB := constBool(v); isB {
				okr = okr && b
				continue
			}
			// a computed result: it must follow from what the path to the return established
			l := P.CondLit(v, true)
			g := P.PathCond(q.fn, nil, r, func(f string) bool { return an.FormBase(f) == an.FormBase(l.Form) })
			imp := len(g) > 0
			if imp {
				imp, _ = an.ImpliesDNF(g, an.DNF{an.Conj{l.Form: l.Set}})
			}
			if !imp {
				// the flag returned is the very value whose true edge guards the reslice: wherever the reslice was
				// passed, it is true (an SSA value does not change)
				ifs, negs := P.IfsOn(q.fn, func(cond ssa.Value) bool { return cond == v })
				for i, ifi := range ifs {
					ts := 0
					if negs[i] {
						ts = 1
					}
					if q.onlyViaEdge(sl, ifi, ts) {
						imp = true
					}
				}
			}
			okr = okr && imp
		}
		q.add("PATH", "a cleanup pass that removed values reports a change", okr,
			pickS(okr, "every return after buffer[s:] yields true", "after shifting the buffer cleanupLogic can report 'no change': the cleaner goroutine then does not re-check, and whatever the pass left behind (a partial trim by FixedBufferCleaner or a custom cleaner) stays buffered with no further activity"), r)
	}
	// upper bound: s <= len(buffer)
	// (the value may come out of a helper that is analysed as part of this function)
	low, lowFn := sl.Low, q.fn
	var lowRets []*ssa.Return // several returns of a helper: each one is judged like an incoming edge
	for {
		if rv, okr := P.ReachingStore(low); okr {
			low = rv
			continue
		}
		if prm, isPrm := low.(*ssa.Parameter); isPrm && an.IsTransparent(prm.Parent()) {
			// a parameter of a helper analysed as part of this function: the argument at its only call site
			site := an.TransparentSite(prm.Parent())
			moved := false
			for i, pp := range prm.Parent().Params {
				if pp == prm && site != nil && i < len(site.Call.Args) {
					low, lowFn, moved = site.Call.Args[i], site.Parent(), true
				}
			}
			if moved {
				continue
			}
			break
		}
		call, isCall := low.(*ssa.Call)
		if !isCall {
			break
		}
		k := an.TransparentCallee(call)
		if k == nil {
			break
		}
		var rets []*ssa.Return
		for _, b := range k.Blocks {
			if r, ok := b.Instrs[len(b.Instrs)-1].(*ssa.Return); ok {
				rets = append(rets, r)
			}
		}
		if len(rets) > 1 {
			ok1 := true
			for _, r := range rets {
				if len(r.Results) != 1 {
					ok1 = false
				}
			}
			if ok1 {
				lowRets, lowFn = rets, k
			}
			break
		}
		if len(rets) != 1 || len(rets[0].Results) != 1 {
			break
		}
		low, lowFn = rets[0].Results[0], k
	}
	upper := func(v ssa.Value, pred, succ *ssa.BasicBlock, at ssa.Instruction) bool {
		if call, ok := v.(*ssa.Call); ok {
			if bi, isB := call.Call.Value.(*ssa.Builtin); isB && bi.Name() == "min" {
				for _, a := range call.Call.Args {
					if P.Lin(a).Equal(lenB) {
						return true
					}
				}
			}
		}
		if P.Lin(v).Equal(lenB) {
			return true
		}
		d := P.Lin(v).Minus(lenB)
		var g an.DNF
		if pred != nil {
			g = P.EdgeCond(lowFn, nil, pred, succ, keepForms(d))
		} else {
			g = P.PathCond(lowFn, nil, at, keepForms(d))
		}
		if len(g) == 0 {
			return false
		}
		okI, _ := an.ImpliesDNF(g, an.DNF{conj(lit(d, an.SNeg|an.SZero))})
		return okI
	}
	clamped := true
	if len(lowRets) > 0 {
		for _, r := range lowRets {
			if !upper(r.Results[0], nil, nil, r) {
				clamped = false
			}
		}
	} else if ph, ok := low.(*ssa.Phi); ok {
		for i, e := range ph.Edges {
			pred := ph.Block().Preds[i]
			if !upper(e, pred, ph.Block(), nil) {
				clamped = false
			}
		}
	} else if lowFn == q.fn {
		clamped = upper(low, nil, nil, sl)
	} else {
		clamped = upper(low, nil, nil, lowFn.Blocks[len(lowFn.Blocks)-1].Instrs[0])
	}
	q.add("COND", "shift <= len(buffer) at the reslice", clamped, pickS(clamped, "every value reaching s is len(buffer) or was compared <= len(buffer)", "an over-large cleaner result reaches buffer[s:] unclamped (would panic or evict beyond the buffer)"), sl)
	// nil-ing stays below the shift
	for _, in := range an.AllInstrs(q.fn, func(in ssa.Instruction) bool {
		st, ok := in.(*ssa.Store)
		if !ok {
			return false
		}
		ia, ok := st.Addr.(*ssa.IndexAddr)
		if !ok {
			return false
		}
		isB, _ := sliceOfField(P, ia.X, "Buffer.buffer")
		return isB
	}) {
		ia := in.(*ssa.Store).Addr.(*ssa.IndexAddr)
		var okb bool
		if _, via := sliceOfField(P, ia.X, "Buffer.buffer"); via != nil {
			// buffer[:shift][x]: the index expression itself cannot reach an element at or beyond the shift
			okb = (via.Low == nil || isZero(via.Low)) && via.High != nil && P.Lin(via.High).Equal(sL)
		} else {
			d := P.Lin(ia.Index).Minus(sL)
			g := P.PathCond(q.fn, nil, in, keepForms(d))
			okb = len(g) > 0
			if okb {
				okb, _ = an.ImpliesDNF(g, an.DNF{conj(lit(d, an.SNeg))})
			}
		}
		q.add("COND", "only the dropped prefix is nil-ed", okb, pickS(okb, "index < shift on every path to the element store", "an element at or beyond the shift can be nil-ed (a retained value would be destroyed)"), in)
	}
}

func consumerOffsets(c *Ctx) {
	q := c.F("(*Buffer).consumerOffsets")
	if !q.ok() {
		return
	}
	P := c.P
	b := q.param(0)
	apps := P.CallsTo(q.fn, "builtin:append")
	// the other idiom: result := make([]int, len(consumers)); result[i] = ...; i++
	var idxStores []ssa.Instruction
	for _, in := range an.AllInstrs(q.fn, func(in ssa.Instruction) bool { _, ok := in.(*ssa.Store); return ok }) {
		if ia, ok := in.(*ssa.Store).Addr.(*ssa.IndexAddr); ok {
			for _, src := range P.Sources(ia.X) {
				if mk, isMk := src.(*ssa.MakeSlice); isMk && P.Lin(mk.Len).Equal(aLen(b+".consumers")) {
					idxStores = append(idxStores, in)
				}
			}
		}
	}
	nexts := an.AllInstrs(q.fn, func(in ssa.Instruction) bool { _, ok := in.(*ssa.Next); return ok })
	if !q.need(append(append([]ssa.Instruction{}, apps...), idxStores...), "LIN", "append of a relative offset") || !q.need(nexts, "LIN", "range over Buffer.consumers") {
		return
	}
	nx := nexts[0].(*ssa.Next)
	if rg, ok := nx.Iter.(*ssa.Range); !ok || !an.IsLoadOfField(rg.X, "Buffer.consumers") {
		q.add("PROV", "ranges over every registered consumer", false, "the range is not over Buffer.consumers", nx)
		return
	}
	contribution := func(elem ssa.Value, a ssa.Instruction) {
		want := an.LinAtom("range(" + b + ".consumers)#2").Minus(aF(b + ".offset"))
		// ranging over the keys and looking each one up is the same value
		if alt := aM(b+".consumers", an.LinAtom("range("+b+".consumers)#1")).Minus(aF(b + ".offset")); P.Lin(elem).Equal(alt) {
			want = alt
		}
		q.expectLin("LIN", "relative offset = committed - base", elem, want, a)
		// unconditional in the range body
		got := P.PathCond(q.fn, nx.Block(), a, nil)
		uncond := len(got) == 1 && len(got[0]) == 1
		q.add("COND", "every consumer contributes an offset", uncond, pickS(uncond, "the contribution depends only on the range's own ok", "the contribution of a consumer's offset is conditional: some consumer would not gate eviction: "+got.String()), a)
	}
	for _, a := range apps {
		// appended element
		var elem ssa.Value
		if sl, ok := callArg(a, 1).(*ssa.Slice); ok {
			if arr, ok := sl.X.(*ssa.Alloc); ok {
				for _, r := range *arr.Referrers() {
					if ia, ok := r.(*ssa.IndexAddr); ok {
						for _, r2 := range *ia.Referrers() {
							if st, ok := r2.(*ssa.Store); ok {
								elem = st.Val
							}
						}
					}
				}
			}
		}
		if elem == nil {
			q.undecided("LIN", "relative offset = committed - base", "cannot find the appended element", a)
			continue
		}
		contribution(elem, a)
	}
	for _, st := range idxStores {
		contribution(st.(*ssa.Store).Val, st)
		// the slot index is a counter that advances once per consumer
		idx := st.(*ssa.Store).Addr.(*ssa.IndexAddr).Index
		okc := false
		if ph, isPh := idx.(*ssa.Phi); isPh && len(ph.Edges) == 2 {
			for i, e := range ph.Edges {
				if cv, isC := constInt(e); isC && cv == 0 {
					if inc, isB := ph.Edges[1-i].(*ssa.BinOp); isB && inc.Op == token.ADD && P.Lin(inc).Equal(P.Lin(ph).AddC(1)) {
						okc = P.Before(q.fn, an.Is(st), inc) || inc.Block() == st.Block()
					}
				}
			}
		}
		q.add("LIN", "each consumer gets its own slot", okc, pickS(okc, "the slot index starts at 0 and advances by one per consumer", "the slot index is not a per-consumer counter: offsets could overwrite each other or leave zero slots (a zero offset blocks, a missing one unblocks eviction)"), st)
	}
}

func sizeAndSlice(c *Ctx) {
	P := c.P
	if q := c.F("(*Buffer).Size"); q.ok() {
		for _, r := range returnsOf(q.fn) {
			for _, v := range c.retVals(r, 0) {
				q.expectLin("LIN", "Size = len(buffer)", v, aLen(q.param(0)+".buffer"), r)
			}
		}
	}
	if q := c.F("(*Buffer).Slice"); q.ok() {
		cps := P.CallsTo(q.fn, "builtin:copy")
		if q.need(cps, "PROV", "copy of the buffer") {
			src := callArg(cps[0], 1)
			ok := an.IsLoadOfField(src, "Buffer.buffer")
			q.add("PROV", "Slice copies the whole buffer", ok, "copy source is Buffer.buffer", cps[0])
			dst := callArg(cps[0], 0)
			mk, isMk := dst.(*ssa.MakeSlice)
			okl := isMk && P.Lin(mk.Len).Equal(aLen(q.param(0)+".buffer"))
			q.add("LIN", "Slice's copy has len(buffer) elements", okl, "destination is make([]T, len(buffer))", cps[0])
		}
	}
}

func init() {
	register(&Prop{
		ID:        "C03",
		Technique: "fold-idiom recogniser (min-fold) with path-condition equivalence by sign enumeration; linear-form and guard-fact checks on SSA",
		Explanation: "DefaultCleaner is a pure min-fold: accumulator seeded with size, updated to an offset iff 0 < offset < accumulator, early 0 iff an offset is 0, negatives ignored, 0 iff no positive offset, returns only 0 or the accumulator; " +
			"FixedBufferCleaner forces size - target iff size > max and otherwise returns DefaultCleaner(size, offsets) unchanged; cleanupLogic passes len(buffer) and every consumer's committed - base offset to the cleaner, clamps the shift to (0, len], nils only the dropped prefix; " +
			"get() turns a negative index into an error (shared with C01); Size/Slice are len/copy of the buffer under the read lock; Diff's form (shared with C02).",
		NotDecided: "anything beyond the recognised fold idiom (an unrecognised rewrite of DefaultCleaner is reported as undecided, i.e. fails); 'for every multiset of offsets' is covered by the fold structure, not enumerated.",
		Build: func(c *Ctx) []*an.Oblig {
			defaultCleaner(c)
			fixedBufferCleaner(c)
			cleanupLogic(c)
			consumerOffsets(c)
			sizeAndSlice(c)
			getIndex(c)
			bufferRangeDiff(c)
			registerAndCommit(c)
			getAsync(c)          // "fails loudly" also for a consumer that falls behind while it is blocked: get()'s error must end the wait
			bufferWriterAudit(c) // Slice/Size equal the put order only if Put copies into the buffer's own array and only a prefix is ever dropped
			out := c.sel(func(o *an.Oblig) bool {
				if isUndecided(o) || o.Rule == "ANCHOR" {
					return true
				}
				if ruleIn(o, "G", "ESC", "AT", "REQ") && funcHas(o, "(*Buffer).cleanupLogic", "(*Buffer).consumerOffsets", "(*Buffer).Size", "(*Buffer).Slice", "(*Buffer).Diff", "(*Buffer).NewConsumer", "(*Buffer).commit") {
					return true
				}
				if o.Rule == "REQ" && subjHas(o, "Diff reads") {
					return true
				}
				// Slice / Size equal the put order: a Put that is refused because the buffer is closed leaves nothing behind
				if ruleIn(o, "AT") && funcHas(o, "(*Buffer).Put") {
					return true
				}
				return false
			})
			var mine []*an.Oblig
			for _, o := range c.C.List {
				if funcHas(o, "(*Buffer).getAsync") && !subjHas(o, "a verdict of get() ends the wait", "the waiter reports an error only if get() failed") {
					continue // the rest of getAsync belongs to C01 / C05
				}
				if funcHas(o, "DefaultCleaner", "FixedBufferCleaner", "cleanupLogic", "consumerOffsets", "(*Buffer).Size", "(*Buffer).Slice", "(*Buffer).get", "(*Buffer).Diff", "(*Buffer).NewConsumer", "(*Buffer).commit") || o.Rule == "ANCHOR" || o.Rule == "WR" {
					mine = append(mine, o)
				}
			}
			return append(out, mine...)
		},
		Floors: []Floor{
			floorRule("MINFOLD", "MINFOLD", 3),
			floorKey("DefaultCleaner conditions", 4, "COND/DefaultCleaner/"),
			floorKey("FixedBufferCleaner", 4, "/FixedBufferCleaner$ret1/"),
			floorKey("cleanupLogic guards", 3, "COND/(*Buffer).cleanupLogic/"),
			floorKey("consumerOffsets", 2, "/(*Buffer).consumerOffsets/"),
			floorKey("get guards", 2, "COND/(*Buffer).get/"),
			floorKey("Diff snapshot under both locks", 4, "REQ/", "Diff reads"),
		},
	})
}
