// Package props holds the frozen slot fillings (tables) and the per-property obligation lists.
// Every row was confirmed by reading the code; every exception names one symbol and one reason.
package props

import "bbcheck/internal/an"

const cleanupMutex = "local((*Buffer).cleanup).sync.Mutex#0"
const callOnce = "local((*Exclusive).call$1).sync.Once#0"

// E1Tables is the slot filling of the lock-state simulator (DESIGN.md section 3, rules G/P/O/B/HO/S/SL/WL).
func E1Tables() *an.Tables {
	g := func(t, f string, lock ...string) an.FieldRule {
		return an.FieldRule{Type: t, Field: f, Class: an.ClsGuarded, Lock: lock}
	}
	c := func(t, f string, cls an.Class, lock ...string) an.FieldRule {
		return an.FieldRule{Type: t, Field: f, Class: cls, Lock: lock}
	}
	return &an.Tables{
		Fields: []an.FieldRule{
			// Buffer
			g("Buffer", "buffer", "mutex"), g("Buffer", "offset", "mutex"), g("Buffer", "cleaner", "mutex"),
			c("Buffer", "consumers", an.ClsGuarded, "mutex"), // header is INIT-ONCE in ensure (listed exception), contents guarded
			c("Buffer", "done", an.ClsInitOnce, "mutex"), c("Buffer", "ctx", an.ClsInitOnce, "mutex"),
			c("Buffer", "cancel", an.ClsInitOnce, "mutex"), c("Buffer", "cond", an.ClsInitOnce, "mutex"),
			c("Buffer", "mutex", an.ClsSync), c("Buffer", "close", an.ClsSync),
			// consumer
			g("consumer", "offset", "mutex"),
			c("consumer", "cond", an.ClsInitOnce), c("consumer", "done", an.ClsInitOnce), c("consumer", "ctx", an.ClsInitOnce),
			c("consumer", "cancel", an.ClsInitOnce), c("consumer", "producer", an.ClsInitOnce),
			c("consumer", "mutex", an.ClsSync), c("consumer", "close", an.ClsSync),
			// Channel
			g("Channel", "buffer", "mutex"), g("Channel", "rollback", "mutex"),
			c("Channel", "valid", an.ClsInitOnce), c("Channel", "source", an.ClsInitOnce), c("Channel", "ctx", an.ClsInitOnce),
			c("Channel", "cancel", an.ClsInitOnce), c("Channel", "done", an.ClsInitOnce), c("Channel", "rate", an.ClsInitOnce),
			c("Channel", "mutex", an.ClsSync), c("Channel", "close", an.ClsSync),
			// Exclusive
			g("Exclusive", "work", "mutex"), c("Exclusive", "mutex", an.ClsSync),
			g("exclusiveItem", "ts", "mutex"), g("exclusiveItem", "work", "mutex"), g("exclusiveItem", "wait", "mutex"),
			g("exclusiveItem", "running", "mutex"), g("exclusiveItem", "complete", "mutex"), g("exclusiveItem", "count", "mutex"),
			g("exclusiveItem", "result", "mutex"), g("exclusiveItem", "err", "mutex"),
			c("exclusiveItem", "mutex", an.ClsInitOnce), c("exclusiveItem", "cond", an.ClsInitOnce),
			// Workers
			g("Workers", "cond", "mutex"), g("Workers", "count", "mutex"), g("Workers", "target", "mutex"), g("Workers", "queue", "mutex"),
			c("Workers", "mutex", an.ClsSync),
			// Worker
			g("Worker", "wg", "mu"), g("Worker", "stop", "mu"), g("Worker", "done", "mu"), c("Worker", "mu", an.ClsSync),
			// Notifier
			g("Notifier", "subscribers", "mutex"), c("Notifier", "mutex", an.ClsSync),
			// ChanCaster
			c("ChanCaster", "C", an.ClsConfig), c("ChanCaster", "mutex", an.ClsSync), c("ChanCaster", "state", an.ClsAtomic),
			// ChanPubSub
			g("ChanPubSub", "pongN", "pongC", "L"),
			c("ChanPubSub", "ping", an.ClsSync), c("ChanPubSub", "pongC", an.ClsInitOnce), c("ChanPubSub", "broken", an.ClsInitOnce),
			c("ChanPubSub", "sendMu", an.ClsSync), c("ChanPubSub", "sendingMu", an.ClsSync), c("ChanPubSub", "subscribers", an.ClsAtomic),
		},
		Conds: []an.CondRule{
			{Type: "Buffer", Field: "cond", LockAlias: []string{"mutex"}, Preds: []string{"Buffer.consumers", "Buffer.buffer", "Buffer.offset"}},
			{Type: "consumer", Field: "cond", LockAlias: []string{"mutex"}, Preds: []string{"consumer.offset"}},
			{Type: "Workers", Field: "cond", LockAlias: []string{"mutex"}, Preds: []string{"Workers.count"}},
			{Type: "exclusiveItem", Field: "cond", LockAlias: []string{"mutex"}, Preds: []string{"exclusiveItem.running"},
				NonDirtyBool: map[string]bool{"exclusiveItem.running": true}}, // waiters wait while running: storing true wakes nobody
			{Type: "ChanPubSub", Field: "pongC", LockAlias: nil, Preds: []string{"ChanPubSub.pongN"}},
		},
		CondBcast: []an.CondBroadcast{
			{Func: "(*Workers).worker", Field: "Workers.count", Why: "Wait waits for count == 0; the broadcast is issued exactly when the decrement reaches 0"},
			{Func: "(*ChanPubSub).Wait", Field: "ChanPubSub.pongN", Why: "Send waits for pongN == 0; other Wait callers were already woken by Send's broadcast"},
		},
		SExempt: []an.Exception{
			{Rule: "S", Func: "(*Buffer).ensure$", Subject: "Buffer.consumers", Why: "lazy init of the map header: no waiter can exist before cond does (it is created in the same batch)"},
			{Rule: "S", Func: "(*Workers).Call", Subject: "Workers.count", Why: "waiters wait for count == 0; an increment cannot satisfy them"},
		},
		GExempt: []an.Exception{
			{Rule: "G", Func: "(*Worker).do", Subject: "Worker.stop", Kind: "read", Why: "written before the go statement that starts do; reset only after <-x.done, which follows close(x.done) in do"},
			{Rule: "G", Func: "(*Worker).do", Subject: "Worker.done", Kind: "read", Why: "same hand-over as Worker.stop"},
			{Rule: "G", Func: "(*Exclusive).call$1", Subject: "exclusiveItem.work", Kind: "read", Why: "the item was replaced in the map under both locks before the unlock; writers require e.work[key] == item under both locks"},
			{Rule: "G", Func: "(*Buffer).ensure", Subject: "Buffer.consumers", Kind: "read", Why: "documented double-checked init of the map header: the first call precedes sharing and the header is never rewritten"},
		},
		CellExempt: []an.Exception{
			{Rule: "CELL", Func: "(*Buffer).cleanup$1$1", Subject: "timer", Kind: "read", Why: "timer is written before the go statement that starts this goroutine; the next write happens only after this goroutine's own deferred reset"},
		},
		Block: []an.BlockRow{
			{Func: "(*consumer).Get", Op: "recv", Held: []string{"consumer.mutex"}, Why: "Get serialises readers of one consumer; C12's proviso names a blocked Get"},
			{Func: "(*Buffer).Close$1", Op: "condwait", Held: []string{"Buffer.close"}, Why: "a second Close must not overtake the first; it waits for consumers to deregister",
				Alt: [][]string{{"Buffer.close", "consumer.close"}, {"Buffer.close", "Channel.close"}}},
			{Func: "(*consumer).Close$1", Op: "condwait", Held: []string{"consumer.close"}, Why: "Close waits until uncommitted reads are resolved (documented)"},
			{Func: "(*ChanCaster).Send", Op: "send", Held: []string{"ChanCaster.mutex"}, Why: "prevents receivers being added while sending (field comment)",
				Alt: [][]string{{"ChanCaster.mutex", "ChanPubSub.sendMu", "ChanPubSub.sendingMu"}}},
			{Func: "(*ChanPubSub).Send", Op: "condwait", Held: []string{"ChanPubSub.sendMu"}, Why: "sendMu exists for the sanity of the ping-pong pattern (field comment)"},
			{Func: "(*Worker).wait", Op: "recv", Held: []string{"Worker.mu"}, Why: "Do must block while the instance is stopping (documented)"},
			{Func: "(*Notifier).PublishContext", Op: "reflect.Select", Held: []string{"Notifier.mutex"}, Why: "publish holds the read lock for its whole duration (documented on Unsubscribe)"},
			{Func: "(*Buffer).cleanupLogic", Op: "callback", Held: []string{"Buffer.mutex", cleanupMutex}, Why: "the cleaner sees a consistent size/offset snapshot"},
			{Func: "WaitCond", Op: "callback", Held: []string{"param(cond).L"}, Why: "fn is documented to be called with the locker held"},
			{Func: "(*Exclusive).call$1", Op: "send", Held: []string{"exclusiveItem.mutex"}, Why: "outcome has capacity 1 and receives exactly one send per call (C10.4 checks the exclusion)"},
			{Func: "(*Exclusive).call$1$1$1", Op: "send", Held: []string{callOnce}, Why: "outcome has capacity 1 and receives exactly one send per call (C10.4 checks the exclusion)"},
		},
		HandOffs: []an.HandOff{
			{Spawner: "(*Exclusive).call", Goroutine: "(*Exclusive).call$1", Class: "exclusiveItem.mutex"},
		},
		InitFuncs: map[string][]string{
			// prefixes: any init closure nested in ensure (each runs under the write lock behind a nil re-check)
			"Buffer.ctx":    {"(*Buffer).ensure$"},
			"Buffer.cancel": {"(*Buffer).ensure$"},
			"Buffer.done":   {"(*Buffer).ensure$"},
			"Buffer.cond":   {"(*Buffer).ensure$"},
		},
		RootPre: map[string][]string{
			"WaitCond": {"cond.L"},
		},
	}
}
