// Package props holds the frozen slot fillings (tables) and the per-property obligation lists.
// Every row was confirmed by reading the code; every exception names one symbol and one reason.
package props

import "bbcheck/internal/an"

const cleanupMutex = "local((*Buffer).cleanup).sync.Mutex#0"
const callOnce = "local((*Exclusive).call$go1).sync.Once#0"

// E1Tables is the slot filling of the lock-state simulator (DESIGN.md section 3, rules G/P/O/B/HO/S/SL/WL).
func E1Tables() *an.Tables {
	g := func(t, f string, lock ...string) an.FieldRule {
		return an.FieldRule{Type: t, Field: f, Class: an.ClsGuarded, Lock: lock}
	}
	c := func(t, f string, cls an.Class, lock ...string) an.FieldRule {
		return an.FieldRule{Type: t, Field: f, Class: cls, Lock: lock}
	}
	return &an.Tables{
		Fields: []an.FieldRule{
			// Buffer
			g("Buffer", "buffer", "mutex"), g("Buffer", "offset", "mutex"), g("Buffer", "cleaner", "mutex"),
			c("Buffer", "consumers", an.ClsGuarded, "mutex"), // header is INIT-ONCE in ensure (listed exception), contents guarded
			c("Buffer", "done", an.ClsInitOnce, "mutex"), c("Buffer", "ctx", an.ClsInitOnce, "mutex"),
			c("Buffer", "cancel", an.ClsInitOnce, "mutex"), c("Buffer", "cond", an.ClsInitOnce, "mutex"),
			c("Buffer", "mutex", an.ClsSync), c("Buffer", "close", an.ClsSync),
			// consumer
			g("consumer", "offset", "mutex"),
			c("consumer", "cond", an.ClsInitOnce), c("consumer", "done", an.ClsInitOnce), c("consumer", "ctx", an.ClsInitOnce),
			c("consumer", "cancel", an.ClsInitOnce), c("consumer", "producer", an.ClsInitOnce),
			c("consumer", "mutex", an.ClsSync), c("consumer", "close", an.ClsSync),
			// Channel
			g("Channel", "buffer", "mutex"), g("Channel", "rollback", "mutex"),
			c("Channel", "valid", an.ClsInitOnce), c("Channel", "source", an.ClsInitOnce), c("Channel", "ctx", an.ClsInitOnce),
			c("Channel", "cancel", an.ClsInitOnce), c("Channel", "done", an.ClsInitOnce), c("Channel", "rate", an.ClsInitOnce),
			c("Channel", "mutex", an.ClsSync), c("Channel", "close", an.ClsSync),
			// Exclusive
			g("Exclusive", "work", "mutex"), c("Exclusive", "mutex", an.ClsSync),
			g("exclusiveItem", "ts", "mutex"), g("exclusiveItem", "work", "mutex"), g("exclusiveItem", "wait", "mutex"),
			g("exclusiveItem", "running", "mutex"), g("exclusiveItem", "complete", "mutex"), g("exclusiveItem", "count", "mutex"),
			g("exclusiveItem", "result", "mutex"), g("exclusiveItem", "err", "mutex"),
			c("exclusiveItem", "mutex", an.ClsInitOnce), c("exclusiveItem", "cond", an.ClsInitOnce),
			// Workers
			g("Workers", "cond", "mutex"), g("Workers", "count", "mutex"), g("Workers", "target", "mutex"), g("Workers", "queue", "mutex"),
			c("Workers", "mutex", an.ClsSync),
			// Worker
			g("Worker", "wg", "mu"), g("Worker", "stop", "mu"), g("Worker", "done", "mu"), c("Worker", "mu", an.ClsSync),
			// Notifier
			g("Notifier", "subscribers", "mutex"), c("Notifier", "mutex", an.ClsSync),
			// ChanCaster
			c("ChanCaster", "C", an.ClsConfig), c("ChanCaster", "mutex", an.ClsSync), c("ChanCaster", "state", an.ClsAtomic), c("ChanCaster", "broken", an.ClsAtomic),
			// ChanPubSub
			g("ChanPubSub", "pongN", "pongC", "L"),
			c("ChanPubSub", "ping", an.ClsSync), c("ChanPubSub", "pongC", an.ClsInitOnce), c("ChanPubSub", "broken", an.ClsInitOnce),
			c("ChanPubSub", "sendMu", an.ClsSync), c("ChanPubSub", "sendingMu", an.ClsSync), c("ChanPubSub", "subscribers", an.ClsAtomic),
		},
		Conds: []an.CondRule{
			{Type: "Buffer", Field: "cond", LockAlias: []string{"mutex"}, Preds: []string{"Buffer.consumers", "Buffer.buffer", "Buffer.offset"}},
			{Type: "consumer", Field: "cond", LockAlias: []string{"mutex"}, Preds: []string{"consumer.offset"}},
			{Type: "Workers", Field: "cond", LockAlias: []string{"mutex"}, Preds: []string{"Workers.count"}},
			{Type: "exclusiveItem", Field: "cond", LockAlias: []string{"mutex"}, Preds: []string{"exclusiveItem.running"},
				NonDirtyBool: map[string]bool{"exclusiveItem.running": true}}, // waiters wait while running: storing true wakes nobody
			{Type: "ChanPubSub", Field: "pongC", LockAlias: nil, Preds: []string{"ChanPubSub.pongN"}},
		},
		CondBcast: []an.CondBroadcast{
			{Func: "(*Workers).worker", Field: "Workers.count", Why: "Wait waits for count == 0; the broadcast is issued exactly when the decrement reaches 0"},
			{Func: "(*ChanPubSub).Wait", Field: "ChanPubSub.pongN", Why: "Send waits for pongN == 0; other Wait callers were already woken by Send's broadcast"},
		},
		SExempt: []an.Exception{
			{Rule: "S", Func: "(*Buffer).ensure$", Subject: "Buffer.consumers", Why: "lazy init of the map header: no waiter can exist before cond does (it is created in the same batch)"},
			{Rule: "S", Func: "(*Workers).Call", Subject: "Workers.count", Why: "waiters wait for count == 0; an increment cannot satisfy them"},
		},
		GExempt: []an.Exception{
			{Rule: "G", Func: "(*Worker).do", Subject: "Worker.stop", Kind: "read", Why: "written before the go statement that starts do; reset only after <-x.done, which follows close(x.done) in do"},
			{Rule: "G", Func: "(*Worker).do", Subject: "Worker.done", Kind: "read", Why: "same hand-over as Worker.stop"},
			{Rule: "G", Func: "(*Exclusive).call$go1", Subject: "exclusiveItem.work", Kind: "read", Why: "the item was replaced in the map under both locks before the unlock; writers require e.work[key] == item under both locks"},
			{Rule: "G", Func: "(*Buffer).ensure", Subject: "Buffer.consumers", Kind: "read", Why: "documented double-checked init of the map header: the first call precedes sharing and the header is never rewritten"},
		},
		CellExempt: []an.Exception{
			{Rule: "CELL", Func: "(*Buffer).cleanup$fn1$go1", Subject: "*time.Timer", Kind: "read", Why: "timer is written before the go statement that starts this goroutine; the next write happens only after this goroutine's own deferred reset"},
		},
		Block: []an.BlockRow{
			{Func: "(*consumer).Get", Op: "recv", Held: []string{"consumer.mutex"}, Why: "Get serialises readers of one consumer; C12's proviso names a blocked Get"},
			{Func: "(*Buffer).Close$Do1", Op: "condwait", Held: []string{"Buffer.close"}, Why: "a second Close must not overtake the first; it waits for consumers to deregister",
				Alt: [][]string{{"Buffer.close", "consumer.close"}, {"Buffer.close", "Channel.close"}}},
			{Func: "(*consumer).Close$Do1", Op: "condwait", Held: []string{"consumer.close"}, Why: "Close waits until uncommitted reads are resolved (documented)"},
			{Func: "(*ChanCaster).Send", Op: "send", Held: []string{"ChanCaster.mutex"}, Why: "prevents receivers being added while sending (field comment)",
				Alt: [][]string{{"ChanCaster.mutex", "ChanPubSub.sendMu", "ChanPubSub.sendingMu"}}},
			{Func: "(*ChanPubSub).Send", Op: "condwait", Held: []string{"ChanPubSub.sendMu"}, Why: "sendMu exists for the sanity of the ping-pong pattern (field comment)"},
			{Func: "(*Worker).wait", Op: "recv", Held: []string{"Worker.mu"}, Why: "Do must block while the instance is stopping (documented)"},
			{Func: "(*Notifier).PublishContext", Op: "reflect.Select", Held: []string{"Notifier.mutex"}, Why: "publish holds the read lock for its whole duration (documented on Unsubscribe)"},
			{Func: "(*Buffer).cleanupLogic", Op: "callback", Held: []string{"Buffer.mutex", cleanupMutex}, Why: "the cleaner sees a consistent size/offset snapshot"},
			{Func: "WaitCond", Op: "callback", Held: []string{"param(cond).L"}, Why: "fn is documented to be called with the locker held"},
			{Func: "(*Exclusive).call$go1", Op: "send", Held: []string{"exclusiveItem.mutex"}, Why: "outcome has capacity 1 and receives exactly one send per call (C10.4 checks the exclusion)"},
			{Func: "(*Exclusive).call$go1$arg1$Do1", Op: "send", Held: []string{callOnce}, Why: "outcome has capacity 1 and receives exactly one send per call (C10.4 checks the exclusion)"},
		},
		HandOffs: []an.HandOff{
			{Spawner: "(*Exclusive).call", Goroutine: "(*Exclusive).call$go1", Class: "exclusiveItem.mutex"},
		},
		InitFuncs: map[string][]string{
			// prefixes: any init closure nested in ensure (each runs under the write lock behind a nil re-check)
			"Buffer.ctx":    {"(*Buffer).ensure$"},
			"Buffer.cancel": {"(*Buffer).ensure$"},
			"Buffer.done":   {"(*Buffer).ensure$"},
			"Buffer.cond":   {"(*Buffer).ensure$"},
		},
		RootPre: map[string][]string{
			"WaitCond": {"cond.L"},
		},
		Sections: []an.Section{
			// Buffer / consumer (C01, C02, C03, C12)
			{ID: "consumer.offset read-modify-write", From: "read:consumer.offset", To: "write:consumer.offset", Lock: "consumer.mutex", Why: "the uncommitted delta is advanced / reset in the hold in which it was read"},
			{ID: "consumer.Get position->advance", Func: "(*consumer).Get", From: "call:invoke:bigbuff.producer.getAsync", To: "write:consumer.offset", Lock: "consumer.mutex", Why: "the position handed to getAsync stays valid until the delta is advanced"},
			{ID: "consumer.Commit fold->reset", Func: "(*consumer).Commit", From: "call:invoke:bigbuff.producer.commit", To: "write:consumer.offset", Lock: "consumer.mutex", Why: "the delta is zeroed in the hold in which it was folded into the committed offset"},
			{ID: "Put closed-check->append", Func: "(*Buffer).Put", From: "read:Buffer.ctx", To: "write:Buffer.buffer", Lock: "Buffer.mutex", Why: "a closed buffer accepts nothing"},
			{ID: "Put append->broadcast", Func: "(*Buffer).Put", From: "write:Buffer.buffer", To: "broadcast:Buffer.cond", Lock: "Buffer.mutex", Why: "the whole batch becomes visible atomically"},
			{ID: "NewConsumer closed-check->register", Func: "(*Buffer).NewConsumer", From: "read:Buffer.ctx", To: "write:Buffer.consumers[]", Lock: "Buffer.mutex", Why: "no consumer is registered on a closed buffer"},
			{ID: "NewConsumer base->register", Func: "(*Buffer).NewConsumer", From: "read:Buffer.offset", To: "write:Buffer.consumers[]", Lock: "Buffer.mutex", Why: "the consumer starts at the base offset current at registration"},
			{ID: "commit lookup->store", Func: "(*Buffer).commit", From: "read:Buffer.consumers[]", To: "write:Buffer.consumers[]", Lock: "Buffer.mutex", Why: "committed offset read and updated atomically"},
			{ID: "cleanupLogic offsets->shift", Func: "(*Buffer).cleanupLogic", From: "call:(*Buffer).consumerOffsets", To: "write:Buffer.offset", Lock: "Buffer.mutex", Why: "the shift is applied to the state the cleaner saw"},
			{ID: "cleanupLogic reslice->base", Func: "(*Buffer).cleanupLogic", From: "write:Buffer.buffer", To: "write:Buffer.offset", Lock: "Buffer.mutex", Why: "buffer and base offset move together"},
			{ID: "get lookup->index", Func: "(*Buffer).get", From: "read:Buffer.consumers[]", To: "read:Buffer.buffer[]", Lock: "Buffer.mutex", Why: "offset, base and element are read in one hold"},
			// cleaner cooldown (C04): the decision to re-broadcast is taken in the hold that clears the cooldown
			{ID: "cooldown clear->re-broadcast decision", Func: "(*Buffer).cleanup$*", From: "write:cell(*time.Timer)", To: "read:cell(bool)", Lock: cleanupMutex, Why: "a change seen between reading the flag and clearing the timer would set the flag again and never be re-broadcast"},
			// Channel (C13)
			{ID: "Channel.rollback read-modify-write", From: "read:Channel.rollback", To: "write:Channel.rollback", Lock: "Channel.mutex", Why: "replay counter updated in the hold in which it was read"},
			{ID: "Channel.Get closed-check->take", Func: "(*Channel).Get$call1", From: "read:Channel.ctx", To: "write:Channel.buffer", Lock: "Channel.mutex", Why: "nothing is taken from the source once closed"},
			{ID: "Channel.Get closed-check->replay", Func: "(*Channel).Get$call1", From: "read:Channel.ctx", To: "write:Channel.rollback", Lock: "Channel.mutex", Why: "state is not modified once closed"},
			{ID: "Channel.Commit closed-check->drop", Func: "(*Channel).Commit", From: "read:Channel.ctx", To: "write:Channel.buffer", Lock: "Channel.mutex", Why: "Commit fails after close without changing state"},
			{ID: "Channel.Rollback pending->mark", Func: "(*Channel).Rollback", From: "read:Channel.buffer", To: "write:Channel.rollback", Lock: "Channel.mutex", Why: "the number of delivered entries is marked for replay in the hold in which it was counted"},
			{ID: "Channel.Commit pending->drop", Func: "(*Channel).Commit", From: "read:Channel.rollback", To: "write:Channel.buffer", Lock: "Channel.mutex", Why: "exactly the delivered entries are dropped"},
			// Workers (C14)
			{ID: "Workers.count read-modify-write", From: "read:Workers.count", To: "write:Workers.count", Lock: "Workers.mutex", Why: "worker accounting is atomic"},
			{ID: "Workers enqueue->spawn", Func: "(*Workers).Call", From: "write:Workers.queue", To: "go:(*Workers).worker", Lock: "Workers.mutex", Why: "top-up decided in the hold of the enqueue"},
			{ID: "Workers target->spawn", Func: "(*Workers).Call", From: "write:Workers.target", To: "go:(*Workers).worker", Lock: "Workers.mutex", Why: "top-up uses the target set by this call"},
			{ID: "worker exit-decision->decrement", Func: "(*Workers).worker*", From: "read:Workers.queue", To: "write:Workers.count", Lock: "Workers.mutex", Why: "a worker leaves in the hold in which it decided to leave (a Call enqueuing in between would count it as available)"},
			{ID: "worker head->dequeue", Func: "(*Workers).worker", From: "read:Workers.queue[]", To: "write:Workers.queue", Lock: "Workers.mutex", Why: "the item taken is the one removed"},
			// Worker (C17)
			{ID: "Worker idle-check->start do", Func: "(*Worker).Do", From: "read:Worker.stop", To: "go:(*Worker).do", Lock: "Worker.mu", Why: "an instance starts only when none exists"},
			{ID: "Worker idle-check->start wait", Func: "(*Worker).Do", From: "read:Worker.done", To: "go:(*Worker).wait", Lock: "Worker.mu", Why: "one watcher per instance"},
			{ID: "Worker register holder", Func: "(*Worker).Do", From: "read:Worker.wg", To: "call:(*sync.WaitGroup).Add", Lock: "Worker.mu", Why: "a holder is registered on the wait group in the hold in which it was read (the watcher cannot take and drain it in between)"},
			{ID: "Worker take wg", Func: "(*Worker).wait", From: "read:Worker.wg", To: "write:Worker.wg", Lock: "Worker.mu", Why: "the wait group is taken and cleared atomically"},
			{ID: "Worker stop-decision->reset", Func: "(*Worker).wait", From: "read:Worker.wg", To: "write:Worker.stop", Lock: "Worker.mu", Why: "Do blocks from the decision to stop until the instance has exited"},
			// Exclusive (C10)
			{ID: "Exclusive validate->count", Func: "(*Exclusive).call", From: "read:Exclusive.work[]", To: "write:exclusiveItem.count", Lock: "Exclusive.mutex", Why: "a call attaches only to the item currently in the map"},
			{ID: "Exclusive validate->work", Func: "(*Exclusive).call", From: "read:Exclusive.work[]", To: "write:exclusiveItem.work", Lock: "Exclusive.mutex", Why: "same"},
			{ID: "Exclusive validate->wait", Func: "(*Exclusive).call", From: "read:Exclusive.work[]", To: "write:exclusiveItem.wait", Lock: "Exclusive.mutex", Why: "same"},
			{ID: "Exclusive successor count->delete", Func: "(*Exclusive).call$go1", From: "read:exclusiveItem.count", To: "delete:Exclusive.work", Lock: "exclusiveItem.mutex", Why: "the key is deleted in the hold in which the successor was seen unused"},
			// ChanPubSub (C06)
			{ID: "Send count->arm", Func: "(*ChanPubSub).Send", From: "call:(*sync/atomic.Int32).Load", To: "call:(*ChanCaster).Add", Lock: "ChanPubSub.sendingMu", Why: "no subscription between counting and arming"},
			{ID: "Send arm->deliver", Func: "(*ChanPubSub).Send", From: "call:(*ChanCaster).Add", To: "call:(*ChanCaster).Send", Lock: "ChanPubSub.sendingMu", Why: "no subscription between arming and delivery"},
			{ID: "Send deliver->pong under sendMu", Func: "(*ChanPubSub).Send", From: "call:(*ChanCaster).Send", To: "write:ChanPubSub.pongN", Lock: "ChanPubSub.sendMu", Why: "Sends are serialised through the acknowledgement phase"},
			{ID: "ChanCaster.Send arm->reset", Func: "(*ChanCaster).Send", From: "call:(*sync/atomic.Uint64).Load", To: "call:(*sync/atomic.Uint64).CompareAndSwap", Lock: "ChanCaster.mutex", Why: "Send holds the write lock from the first load to the reset"},
		},
		Requires: []an.Require{
			{ID: "Worker holder registered under mu", Func: "(*Worker).Do", Event: "call:(*sync.WaitGroup).Add", Lock: "Worker.mu", Write: true, Why: "registration is atomic with the watcher's take-and-clear of the wait group"},
			{ID: "Exclusive map update under item mutex", Func: "(*Exclusive).call$go1", Event: "write:Exclusive.work[]", Lock: "exclusiveItem.mutex", Write: true, Why: "successor installed / key deleted while the key's item mutex is held"},
			{ID: "Channel.Close cancels inside the hold", Func: "(*Channel).Close$Do1", Event: "call:field:Channel.cancel", Lock: "Channel.mutex", Write: true, Why: "a Get that holds the mutex sees the cancelled context before taking from the source"},
			{ID: "ChanPubSub.Send delivers under sendingMu", Func: "(*ChanPubSub).Send", Event: "call:(*ChanCaster).Send", Lock: "ChanPubSub.sendingMu", Write: true, Why: "no subscription during delivery"},
			{ID: "ChanPubSub.Send delivers under sendMu", Func: "(*ChanPubSub).Send", Event: "call:(*ChanCaster).Send", Lock: "ChanPubSub.sendMu", Write: true, Why: "sends are serialised"},
			{ID: "ChanPubSub positive Add under sendingMu", Func: "(*ChanPubSub).Add", Event: "atomicwrite:ChanPubSub.subscribers", Inlined: true, Lock: "ChanPubSub.sendingMu", Param: "delta", SignMask: 4, Why: "subscribing is excluded while a Send counts and delivers"},
			{ID: "ChanCaster positive Add under read lock", Func: "(*ChanCaster).Add", Event: "call:(*sync/atomic.Uint64).Add", Lock: "ChanCaster.mutex", Param: "delta", SignMask: 4, Why: "a registration cannot overlap a Send"},
			// Buffer.Diff is one atomic snapshot of the consumer's position and the buffer (C02, C03)
			{ID: "Diff reads the buffer length inside the consumer's hold", Func: "(*Buffer).Diff", Event: "read:Buffer.buffer", Lock: "consumer.mutex", Inlined: true, Why: "a Get of that consumer between the two reads makes Diff disagree with puts - position"},
			{ID: "Diff reads the base offset inside the consumer's hold", Func: "(*Buffer).Diff", Event: "read:Buffer.offset", Lock: "consumer.mutex", Inlined: true, Why: "a Get of that consumer between the two reads makes Diff disagree with puts - position"},
			{ID: "Diff reads the committed offset inside the consumer's hold", Func: "(*Buffer).Diff", Event: "read:Buffer.consumers[]", Lock: "consumer.mutex", Inlined: true, Why: "a Commit of that consumer between the two reads would be counted twice or not at all"},
			{ID: "Diff reads the position inside the buffer's hold", Func: "(*Buffer).Diff", Event: "read:consumer.offset", Lock: "Buffer.mutex", Inlined: true, Why: "a Put between the two reads makes Diff disagree with puts - position"},
			{ID: "ChanCaster.Send sends under write lock", Func: "(*ChanCaster).Send", Event: "call:(*sync/atomic.Uint64).CompareAndSwap", Lock: "ChanCaster.mutex", Write: true, Why: "arming and reset happen under the write lock"},
		},
	}
}
