package props

import (
	"go/token"
	"strings"

	"golang.org/x/tools/go/ssa"

	"bbcheck/internal/an"
)

// usesValue: does v (through cells / phis / conversions) come from want?
func usesValue(p *an.Prog, v, want ssa.Value) bool {
	if v == want {
		return true
	}
	for _, s := range p.Sources(v) {
		if s == want {
			return true
		}
	}
	return false
}

// relRules: REL for WithCancel / timers / AfterFunc (C12.1).
func relRules(c *Ctx) {
	P := c.P
	discards := map[string]string{
		"ChainAfterFunc": "the exactly-once behaviour relies on never stopping the primary's hook (documented on ChainAfterFunc)",
		"CombineContext": "the de-registration hook lives as long as the result context (one-way transition, documented)",
	}
	nCancel, nTimer, nAfter := 0, 0, 0
	nDiscard := map[*ssa.Function]int{}
	for _, fn := range P.Funcs {
		q := &fq{c: c, fn: fn, name: an.FuncName(fn)}
		for _, wc := range append(append(P.CallsTo(fn, "context.WithCancel"), P.CallsTo(fn, "context.WithTimeout")...), P.CallsTo(fn, "context.WithDeadline")...) {
			nCancel++
			cancel := resultOf(wc, 1)
			if cancel == nil {
				q.add("REL", "cancel func of a derived context is released", false, "the cancel function returned by WithCancel is discarded: the derived context leaks until its parent ends", wc)
				continue
			}
			var sites []ssa.Instruction
			fieldOwned := ""
			for _, in := range an.AllInstrs(fn, func(in ssa.Instruction) bool { return true }) {
				switch x := in.(type) {
				case *ssa.Call, *ssa.Defer, *ssa.Go:
					cc := an.CallCommonOf(in)
					if !cc.IsInvoke() && cc.StaticCallee() == nil && usesValue(P, cc.Value, cancel) {
						sites = append(sites, in)
					}
					// handed to context.AfterFunc as the hook
					if P.CalleeName(cc) == "context.AfterFunc" && len(cc.Args) == 2 && usesValue(P, cc.Args[1], cancel) {
						sites = append(sites, in)
					}
					// deferred / called closure that calls it (flag-guarded cleanup)
					if mc, ok := cc.Value.(*ssa.MakeClosure); ok {
						f := mc.Fn.(*ssa.Function)
						for _, in2 := range an.AllInstrs(f, func(i ssa.Instruction) bool { return an.CallCommonOf(i) != nil }) {
							c2 := an.CallCommonOf(in2)
							if !c2.IsInvoke() && c2.StaticCallee() == nil && usesValue(P, c2.Value, cancel) {
								sites = append(sites, in)
							}
						}
					}
				case *ssa.Return:
					for _, r := range x.Results {
						if usesValue(P, r, cancel) {
							sites = append(sites, in)
						}
					}
				case *ssa.Store:
					if x.Val == cancel {
						if f := an.FieldOfAddr(x.Addr); f != "" {
							fieldOwned = f
							sites = append(sites, in)
						}
					}
				}
			}
			ok := len(sites) > 0 && P.AfterAll(fn, wc, an.In(sites))
			det := "called, deferred, returned or handed to its owner on every path"
			if !ok && an.FuncName(fn) == "CombineContext" {
				// confirmed hand-over: the cancel func becomes the AfterFunc hook of every non-nil other (C16 checks
				// that each gets one; the n == 0 case returned earlier) and the result is a child of the primary
				for _, s := range sites {
					if cc := an.CallCommonOf(s); cc != nil && P.CalleeName(cc) == "context.AfterFunc" && P.InCycle(s) {
						ok = true
						det = "handed to context.AfterFunc for every other context (documented: cleanup relies on one of the contexts being cancelled)"
					}
				}
			}
			if ok && fieldOwned != "" {
				// the owner must call it when closed
				owner := false
				for _, g := range P.Funcs {
					if len(P.CallsTo(g, "field:"+fieldOwned)) > 0 && strings.Contains(an.FuncName(g), "Close") {
						owner = true
					}
				}
				ok = owner
				det = "stored in " + fieldOwned + ", which the type's Close calls"
				if !owner {
					det = "the cancel function is stored in " + fieldOwned + " but no Close method calls it: the watcher goroutine of that object never exits"
				}
			} else if !ok {
				det = "a path from WithCancel to a return neither calls, defers nor hands over the cancel function: the derived context (and any goroutine waiting on it) leaks"
			}
			q.add("REL", "cancel func of a derived context is released", ok, det, wc)
		}
		for _, name := range []string{"time.NewTimer", "time.NewTicker"} {
			for _, nt := range P.CallsTo(fn, name) {
				nTimer++
				tv := ssa.Value(nt.(*ssa.Call))
				stop := "(*time.Timer).Stop"
				if name == "time.NewTicker" {
					stop = "(*time.Ticker).Stop"
				}
				var sites []ssa.Instruction
				for _, s := range P.CallsTo(fn, stop) {
					if usesValue(P, callArg(s, 0), tv) {
						sites = append(sites, s)
					}
				}
				ok := len(sites) > 0 && P.AfterAll(fn, nt, an.In(sites))
				det := "Stop is called or deferred on every path"
				if !ok {
					// stored into a captured cell whose goroutine defers Stop (the cleaner's cooldown timer)
					for _, r := range *nt.(*ssa.Call).Referrers() {
						if st, isSt := r.(*ssa.Store); isSt {
							if cell := P.CellOf(st.Addr); cell != nil {
								for _, g := range allNested(fn) {
									for _, s := range P.CallsTo(g, stop) {
										if ld, isL := isLoad(callArg(s, 0)); isL && P.CellOf(ld.X) == cell {
											if _, isD := s.(*ssa.Defer); isD {
												ok = true
												det = "stored in the cell " + cell.Comment + "; the goroutine started right after defers Stop on it"
											}
										}
									}
								}
							}
						}
					}
				}
				if !ok {
					// handed as an argument to the goroutine started right after, which defers Stop on that parameter
					for _, gi := range an.AllInstrs(fn, func(in ssa.Instruction) bool { _, isGo := in.(*ssa.Go); return isGo }) {
						gc := an.CallCommonOf(gi)
						mc, isMC := gc.Value.(*ssa.MakeClosure)
						if !isMC || !P.AfterAll(fn, nt, an.Is(gi)) {
							continue
						}
						gfn := mc.Fn.(*ssa.Function)
						for i, a := range gc.Args {
							if !usesValue(P, a, tv) || i >= len(gfn.Params) {
								continue
							}
							for _, s := range P.CallsTo(gfn, stop) {
								if _, isD := s.(*ssa.Defer); isD && callArg(s, 0) == ssa.Value(gfn.Params[i]) && gfn.Blocks[0] == s.Block() {
									ok = true
									det = "passed to the goroutine started right after, which defers Stop on it"
								}
							}
						}
					}
				}
				if !ok {
					// a deferred closure registered before the creation stops whatever the variable holds at exit
					for _, r := range *nt.(*ssa.Call).Referrers() {
						st, isSt := r.(*ssa.Store)
						if !isSt {
							continue
						}
						cell := P.CellOf(st.Addr)
						if cell == nil {
							continue
						}
						for _, d := range an.AllInstrs(fn, func(in ssa.Instruction) bool { _, isD := in.(*ssa.Defer); return isD }) {
							mc, isMC := d.(*ssa.Defer).Call.Value.(*ssa.MakeClosure)
							// registered before the creation, or on every path right after it
							if !isMC || !(P.Before(fn, an.Is(d), nt) || P.AfterAll(fn, nt, an.Is(d))) {
								continue
							}
							g := mc.Fn.(*ssa.Function)
							gq := &fq{c: c, fn: g, name: an.FuncName(g)}
							for _, s := range P.CallsTo(g, stop) {
								ld, isL := isLoad(callArg(s, 0))
								if !isL || P.CellOf(ld.X) != cell {
									continue
								}
								ifn, ns, found := gq.nilTestOf(func(v ssa.Value) bool {
									l2, isL2 := isLoad(v)
									return isL2 && P.CellOf(l2.X) == cell
								})
								if !found && !P.PathExists(g, nil, an.IsReturn, an.Is(s), nil) {
									ok, det = true, "a deferred closure registered before the creation stops it on every exit"
								} else if found && !P.PathExists(g, ifn, an.IsReturn, an.Is(s), cutEdge(ifn, ns)) {
									ok, det = true, "a deferred closure registered before the creation stops it on every exit if it was created"
								}
							}
						}
					}
				}
				if !ok {
					det = "a timer/ticker is created but not stopped on every path (its resources and, for a ticker, its goroutine are kept alive)"
				}
				q.add("REL", "timers and tickers are stopped", ok, det, nt)
			}
		}
		for _, af := range P.CallsTo(fn, "context.AfterFunc") {
			nAfter++
			used := false
			if call, ok := af.(*ssa.Call); ok {
				for _, r := range *call.Referrers() {
					if _, dbg := r.(*ssa.DebugRef); !dbg {
						used = true
					}
				}
			}
			if used {
				q.add("REL", "an AfterFunc registration's stop function is kept", true, "the stop function is used", af)
				continue
			}
			why, listed := discards[an.FuncName(fn)]
			if listed {
				// the documented discard is one particular registration: in ChainAfterFunc the hook on the primary (first
				// parameter), in CombineContext the hook on the derived result; a second discard, or a discard of the hook on
				// the other context, is not covered
				nDiscard[fn]++
				on := callArg(af, 0)
				switch an.FuncName(fn) {
				case "ChainAfterFunc":
					listed = len(fn.Params) > 0 && srcIs(P, on, fn.Params[0])
				case "CombineContext":
					listed = false
					for _, sv := range P.Sources(on) {
						if P.IsCallResult(sv, "context.WithCancel", 0) {
							listed = true
						}
					}
				}
				if nDiscard[fn] > 1 {
					listed = false
				}
			}
			q.add("REL", "an AfterFunc registration's stop function is kept", listed, pickS(listed, "confirmed discard: "+why, "the stop function of an AfterFunc registration is discarded: the hook (and what it references) stays registered until that context ends"), af)
		}
	}
	c.C.Add("REL", "-", "census of acquire sites", nCancel >= 5 && nTimer >= 3 && nAfter >= 3, "WithCancel/timer/AfterFunc sites were found and checked")
}

// goxRules: every blocking operation inside a goroutine started by the library has a release witness.
func goxRules(c *Ctx) {
	type row struct{ fn, op, witness string }
	rows := []row{
		{"(*Buffer).NewConsumer$go1", "recv", "<-c.ctx.Done(): consumer.ctx is derived from Buffer.ctx and its cancel is called by consumer.Close (REL field-owned)"},
		{"(*consumer).Close$Do1", "condwait", "proviso of C12: waits until uncommitted reads are resolved"},
		{"(*Channel).cleanup", "recv", "<-c.ctx.Done(): Channel.cancel is called by Channel.Close (REL field-owned)"},
		{"(*Buffer).cleanup$fn1$go1", "recv", "<-timer.C of a finite timer created just before the go statement"},
		{"(*Buffer).Close$Do1", "condwait", "proviso of C12: waits until every consumer deregistered (they close themselves when Buffer.ctx is cancelled)"},
		{"(*Buffer).cleanupLogic", "callback", "user cleaner callback"},
		{"WaitCond", "condwait", "woken by the watcher's Broadcast when the context passed in is cancelled (C05 rules): Buffer.ctx for the cleaner, the combined context for getAsync"},
		{"WaitCond$go1", "recv", "<-ctx.Done() of the context derived in WaitCond, cancelled by WaitCond's deferred cancel"},
		{"(*Exclusive).call$go1", "condwait", "waits for running == false, which every runner clears on every path after its work returns (C09)"},
		{"(*Exclusive).call$go1", "callback", "user work function"},
		{"(*Exclusive).call$go1", "sleep", "finite sleep (the requested wait)"},
		{"(*Exclusive).call$go1", "send", "capacity-1 outcome channel, single send (C10)"},
		{"(*Exclusive).call$go1$arg1$Do1", "send", "capacity-1 outcome channel, single send (C10)"},
		{"(*Notifier).SubscribeCancel$go1", "recv", "<-ctx.Done() of a context whose cancel function is returned to the caller"},
		{"(*Worker).do", "callback", "user function, told to stop by close(x.stop)"},
		{"(*Worker).wait", "wgwait", "released when every holder called its done function"},
		{"(*Worker).wait", "recv", "<-x.done, closed by do() after the function returned"},
		{"(*Workers).worker$call1", "callback", "user function"},
		{"(*Workers).worker$call1", "send", "capacity-1 reply channel, single send (C14)"},
		{"ConflatedContext$go1", "wgwait", "every wg.Add(1) is paired with a ChainAfterFunc(result, input, wg.Done) (C16)"},
		{"LinearAttempt$go1", "select", "select with a <-ctx.Done() case (C20)"},
	}
	seen := map[string]bool{}
	for _, b := range c.Sim.Blocked {
		if !strings.Contains(b.Root, "<go at") && !strings.Contains(b.Root, "<context.AfterFunc") {
			continue
		}
		k := b.Func + "|" + b.Op
		if seen[k] {
			continue
		}
		seen[k] = true
		w := ""
		for _, r := range rows {
			if r.fn == b.Func && r.op == b.Op {
				w = r.witness
			}
		}
		c.C.Add("GOX", b.Func, "blocking "+b.Op+" in a library goroutine has a release witness", w != "",
			pickS(w != "", w, "a goroutine started by the library blocks here ("+b.Op+") and no release witness is recorded for it: nothing guarantees that the goroutine exits once every handle is closed and every context cancelled"), b.Pos)
	}
	// the spawn census: every go statement starts a known function
	known := map[string]bool{}
	for _, r := range rows {
		known[r.fn] = true
	}
	for _, extra := range []string{"(*Buffer).cleanup", "(*Buffer).getAsync$go1", "(*Workers).worker"} {
		known[extra] = true
	}
	for _, sp := range c.Sim.Spawns {
		if sp.Kind != "go" {
			continue
		}
		c.C.Add("GOX", sp.Spawner, "go statement starts a goroutine with recorded exit witnesses: "+sp.Func, known[sp.Func],
			pickS(known[sp.Func], "listed", "a new goroutine ("+sp.Func+") is started and nothing is recorded about how it exits"), sp.Pos)
	}
	// structural parts of the witnesses
	P := c.P
	recvDoneOf := func(fnName, field string) {
		q := c.F(fnName)
		if !q.ok() {
			return
		}
		recvs := an.AllInstrs(q.fn, func(in ssa.Instruction) bool {
			u, ok := in.(*ssa.UnOp)
			return ok && u.Op == token.ARROW
		})
		ok := false
		for _, r := range recvs {
			if call, isC := r.(*ssa.UnOp).X.(*ssa.Call); isC && call.Call.IsInvoke() && call.Call.Method.Name() == "Done" && an.IsLoadOfField(call.Call.Value, field) {
				ok = true
			}
		}
		q.add("GOX", "the watcher waits on the object's own context", ok && len(recvs) == 1, pickS(ok, "<-"+field+".Done()", "the watcher goroutine blocks on something other than "+field+".Done()"), recvs...)
		cl := P.CallsTo(q.fn, "(*"+strings.Split(field, ".")[0]+").Close")
		okd := false
		for _, x := range cl {
			if _, isD := x.(*ssa.Defer); isD {
				okd = true
			}
		}
		// ... or called explicitly on every path after the wait
		if !okd && len(recvs) == 1 && len(cl) > 0 {
			okd = !P.PathExists(q.fn, recvs[0], an.IsReturn, an.In(cl), nil)
		}
		q.add("GOX", "context cancellation closes the object", okd, pickS(okd, "Close is deferred in the watcher, or called on every path after the wait", "the watcher can finish without closing the object"), cl...)
	}
	recvDoneOf("(*Buffer).NewConsumer$go1", "consumer.ctx")
	recvDoneOf("(*Channel).cleanup", "Channel.ctx")
	if q := c.F("(*Buffer).NewConsumer"); q.ok() {
		wcs := P.CallsTo(q.fn, "context.WithCancel")
		if q.need(wcs, "PROV", "consumer context") {
			q.add("PROV", "closing the buffer closes its consumers", an.IsLoadOfField(callArg(wcs[0], 0), "Buffer.ctx"), "consumer.ctx is a child of Buffer.ctx", wcs[0])
		}
	}
}

// onceRules: close sites and Close() results (C12.3).
func onceRules(c *Ctx) {
	P := c.P
	kinds := map[string]string{
		"(*Buffer).Close$Do1":            "once",
		"(*consumer).Close$Do1":          "once",
		"(*Channel).Close$Do1":           "once",
		"(*Exclusive).call$go1":          "C10: single send+close, exclusive with resolve's",
		"(*Exclusive).call$go1$arg1$Do1": "once",
		"(*Workers).worker$call1":        "single deferred close of the per-item reply channel (C14)",
		"(*Worker).wait":                 "close(stop) once per instance, in the hold in which no holder re-registered (C17)",
		"(*Worker).do":                   "close(done) once per instance, after fn returned (C17)",
		"LinearAttempt":                  "C20: closes are on mutually exclusive paths",
		"LinearAttempt$go1":              "C20: single deferred close in the goroutine",
		"(*ChanPubSub).markBroken":       "tolerated double close under recover(): misuse path only (documented in the source)",
	}
	n := 0
	for _, fn := range P.Funcs {
		name := an.FuncName(fn)
		q := &fq{c: c, fn: fn, name: name}
		for _, cl := range P.CallsTo(fn, "builtin:close") {
			n++
			k, listed := kinds[name]
			if !listed && an.ClosureRole(fn) == "defer" && fn.Parent() != nil {
				// a deferred literal of a listed function, registered once (not in a loop): it runs once per run of that
				// function, like a deferred close written there directly
				if pk, ok := kinds[an.FuncName(fn.Parent())]; ok && pk != "once" {
					once := false
					for _, d := range an.AllInstrs(fn.Parent(), func(in ssa.Instruction) bool { _, isD := in.(*ssa.Defer); return isD }) {
						if mc, isMC := d.(*ssa.Defer).Call.Value.(*ssa.MakeClosure); isMC && mc.Fn == ssa.Value(fn) && !P.InCycle(d) {
							once = true
						}
					}
					if once {
						k, listed = pk+" (in its deferred literal)", true
					}
				}
			}
			if !listed {
				q.add("ONCE", "close site is known to run at most once per channel", false, "a channel is closed here and nothing establishes that it happens at most once (a second close panics)", cl)
				continue
			}
			ok := true
			det := k
			if k == "once" {
				// the enclosing closure is (nested in) the argument of a sync.Once.Do
				ok = false
				for f := fn; f != nil; f = f.Parent() {
					par := f.Parent()
					if par == nil {
						break
					}
					for _, d := range P.CallsTo(par, "(*sync.Once).Do") {
						if mc, isMC := callArg(d, 1).(*ssa.MakeClosure); isMC && mc.Fn == ssa.Value(f) {
							ok = true
						}
					}
				}
				det = pickS(ok, "inside a sync.Once.Do body", "this close is no longer inside a sync.Once.Do body: a second Close would panic on the closed channel")
			}
			if P.InCycle(cl) {
				ok = false
				det = "close inside a loop"
			}
			q.add("ONCE", "close site is known to run at most once per channel", ok, det, cl)
		}
	}
	c.C.Add("ONCE", "-", "census of close sites", n >= 10, "close sites were found and classified")
	// Close() returns an error the second time
	for _, name := range []string{"(*Buffer).Close", "(*consumer).Close", "(*Channel).Close"} {
		q := c.F(name)
		if !q.ok() {
			continue
		}
		for _, r := range returnsOf(q.fn) {
			vs := c.retVals(r, 0)
			hasErr, nilOnlyInOnce := false, true
			for _, v := range c.P.Sources(r.Results[0]) {
				if P.IsCallResult(v, "errors.New", 0) {
					hasErr = true
				}
			}
			_ = vs
			// every store of nil to the result cell is inside the Once body
			if ld, isL := isLoad(r.Results[0]); isL {
				if cell := P.CellOf(ld.X); cell != nil {
					for _, st := range P.CellStores(cell) {
						if isNilConst(st.Val) && st.Parent() == q.fn {
							nilOnlyInOnce = false
						}
					}
				}
			}
			// the other idiom: a flag set only inside the Once body decides between nil and the error
			if !hasErr && allNil(vs) {
				fIfs, fNegs := P.IfsOn(q.fn, func(cond ssa.Value) bool {
					ld, isL := isLoad(cond)
					if !isL || !isBoolT(cond) {
						return false
					}
					cell := P.CellOf(ld.X)
					if cell == nil {
						return false
					}
					// every store of true to the flag lies in a closure handed to (*sync.Once).Do
					sts := P.CellStores(cell)
					for _, st := range sts {
						if b, isB := constBool(st.Val); isB && !b {
							continue
						}
						if st.Parent() == q.fn || an.ClosureRole(an.Host(st.Parent())) != "Do" {
							return false
						}
					}
					return len(sts) > 0
				})
				for i, fi := range fIfs {
					ts := 0
					if fNegs[i] {
						ts = 1
					}
					if q.onlyViaEdge(r, fi, ts) {
						hasErr, nilOnlyInOnce = true, true
					}
				}
				if hasErr {
					// ... and the other edge yields an error
					hasErr = false
					for _, r2 := range returnsOf(q.fn) {
						for _, v := range c.retVals(r2, 0) {
							if P.IsCallResult(v, "errors.New", 0) {
								hasErr = true
							}
						}
					}
				}
			} else if hasErr && len(vs) == 1 && P.IsCallResult(vs[0], "errors.New", 0) && func() bool {
				for _, r2 := range returnsOf(q.fn) {
					if r2 != r && allNil(c.retVals(r2, 0)) {
						return true
					}
				}
				return false
			}() {
				// the error return of the flag idiom: judged together with the nil return
				continue
			}
			q.add("ONCE", "only the first Close returns nil", hasErr && nilOnlyInOnce, pickS(hasErr && nilOnlyInOnce, "the result starts as an error and is set to nil only inside the Once body", "Close can return nil without having run the close body (a second Close must return an error)"), r)
		}
	}
}

// closedGuards: C12.4 (beyond the atomic sections of E1).
func closedGuards(c *Ctx) {
	P := c.P
	// a closed state that was observed is reported, not ignored
	c.errPolarity("(*Buffer).Put", "(*Buffer).NewConsumer", "(*consumer).Get", "(*consumer).Commit", "(*Channel).Get", "(*Channel).Commit", "(*Buffer).get")
	// Done() hands out the channel that Close closes
	c.returnsField("(*Buffer).Done", "Buffer.done", "the channel observers wait on must be the one Close closes")
	c.returnsField("(*consumer).Done", "consumer.done", "the channel observers wait on must be the one Close closes")
	c.returnsField("(*Channel).Done", "Channel.done", "the channel observers wait on must be the one Close closes")
	if q := c.F("(*consumer).Get"); q.ok() {
		errs := an.AllInstrs(q.fn, func(in ssa.Instruction) bool {
			call, ok := in.(*ssa.Call)
			return ok && call.Call.IsInvoke() && call.Call.Method.Name() == "Err" && an.IsLoadOfField(call.Call.Value, "consumer.ctx")
		})
		gas := P.CallsTo(q.fn, "invoke:bigbuff.producer.getAsync")
		if q.need(errs, "PATH", "c.ctx.Err()") && q.need(gas, "PATH", "getAsync") {
			ok := P.Before(q.fn, an.In(errs), gas[0]) && q.onlyAfterSuccess(errs[0], gas[0])
			q.add("PATH", "a closed consumer fails Get before touching the buffer", ok, "getAsync dominated by the c.ctx.Err() check, reached through its nil edge", gas[0])
		}
	}
	if q := c.F("(*Buffer).Close$Do1"); q.ok() {
		cs := P.CallsTo(q.fn, "field:Buffer.cancel")
		ws := P.CallsTo(q.fn, "(*sync.Cond).Wait")
		if q.need(cs, "PATH", "b.cancel()") && q.need(ws, "PATH", "wait for consumers") {
			q.add("PATH", "Buffer.Close cancels before waiting for the consumers", P.Before(q.fn, an.Is(cs[0]), ws[0]), "cancel dominates the wait (consumers close themselves on cancellation)", cs[0])
		}
	}
	if q := c.F("(*consumer).Close$Do1"); q.ok() {
		var dClose, dDelete ssa.Instruction
		for _, d := range an.AllInstrs(q.fn, func(in ssa.Instruction) bool { _, ok := in.(*ssa.Defer); return ok }) {
			switch P.CalleeName(an.CallCommonOf(d)) {
			case "builtin:close":
				dClose = d
			case "invoke:bigbuff.producer.delete":
				dDelete = d
			}
		}
		ok := dClose != nil && dDelete != nil && P.Before(q.fn, an.Is(dClose), dDelete)
		q.add("PATH", "a consumer's Done is closed only after it deregistered from the buffer", ok, pickS(ok, "defer close(done) is registered before defer producer.delete (so it runs after it)", "consumer.Close can close Done before the consumer is removed from the buffer"), dClose)
		cs := P.CallsTo(q.fn, "field:consumer.cancel")
		ws := P.CallsTo(q.fn, "(*sync.Cond).Wait")
		if q.need(cs, "PATH", "c.cancel()") && q.need(ws, "PATH", "wait for offset 0") {
			q.add("PATH", "consumer.Close cancels before waiting", P.Before(q.fn, an.Is(cs[0]), ws[0]), "cancel dominates the wait (a blocked Get is released)", cs[0])
		}
	}
	// every Close body closes its done channel on every exit
	for _, x := range [][2]string{{"(*Buffer).Close$Do1", "Buffer.done"}, {"(*consumer).Close$Do1", "consumer.done"}, {"(*Channel).Close$Do1", "Channel.done"}} {
		q := c.F(x[0])
		if !q.ok() {
			continue
		}
		cl := an.AllInstrs(q.fn, func(in ssa.Instruction) bool {
			cc := an.CallCommonOf(in)
			if cc == nil {
				return false
			}
			b, ok := cc.Value.(*ssa.Builtin)
			return ok && b.Name() == "close" && an.IsLoadOfField(cc.Args[0], x[1])
		})
		ok := len(cl) == 1 && !P.PathExists(q.fn, nil, an.IsReturn, an.In(cl), nil)
		q.add("PATH", "closing closes the Done channel", ok, pickS(ok, "close("+x[1]+") (deferred) on every path of the close body", "the close body can finish without closing "+x[1]+": Done would never be closed"), cl...)
	}
	ensureRecheck(c, true)
}

// ensureRecheck - Buffer.ensure: every lazily initialised field is re-checked under the lock. (A cond that is
// replaced by a second racing first use strands the waiters parked on the old one: C05.)
func ensureRecheck(c *Ctx, count bool) {
	P := c.P
	if q := c.F("(*Buffer).ensure"); q.ok() {
		n := 0
		for _, cl := range allNested(q.fn) {
			cq := &fq{c: c, fn: cl, name: an.FuncName(cl)}
			for _, f := range []string{"Buffer.ctx", "Buffer.cancel", "Buffer.consumers", "Buffer.done", "Buffer.cleaner", "Buffer.cond"} {
				for _, st := range an.FieldStores(cl, f) {
					guarded := false
					for _, g := range []string{"Buffer.ctx", "Buffer.cancel", "Buffer.consumers", "Buffer.done", "Buffer.cleaner", "Buffer.cond"} {
						ifs, negs := P.IfsOn(cl, func(cond ssa.Value) bool {
							b, ok := cond.(*ssa.BinOp)
							return ok && (b.Op == token.EQL || b.Op == token.NEQ) && either(b, loadOfField(g), isNilConst)
						})
						for i, ifi := range ifs {
							b := stripNotV(ifi.Cond).(*ssa.BinOp)
							nilWhenTrue := b.Op == token.EQL
							if negs[i] {
								nilWhenTrue = !nilWhenTrue
							}
							ns := 1
							if nilWhenTrue {
								ns = 0
							}
							if (g == f || (f == "Buffer.ctx" && g == "Buffer.cancel")) && cq.onlyViaEdge(st, ifi, ns) {
								guarded = true
							}
						}
					}
					n++
					cq.add("PATH", "lazy initialisation of "+f+" is re-checked under the lock", guarded,
						pickS(guarded, "store reached only through "+f+" == nil, evaluated inside the locked closure", f+" can be initialised twice: a second first-use racing the first would replace it (e.g. a Done channel that Close never closes)"), st)
				}
			}
		}
		if count {
			q.add("PATH", "lazy initialisers found", n >= 6, "six lazily initialised fields")
		}
	}
}

func init() {
	register(&Prop{
		ID:        "C12",
		Technique: "lifecycle rules on SSA: acquire/release pairing (WithCancel, timers, AfterFunc), goroutine exit witnesses over the simulator's spawn and blocking-operation census, close-once classification, closed-state guards (dominance / atomic sections)",
		Explanation: "every WithCancel's cancel function is called, deferred, returned or stored in a field that the type's Close calls, on every path; every timer/ticker is stopped; every AfterFunc registration's stop is used or is one of two documented discards; every go statement starts a function whose every blocking operation has a recorded release witness (new goroutines or new blocking operations fail the check), watchers wait on the object's own context and defer Close; " +
			"every close() site is inside a sync.Once body or a documented once-per-channel site; Close methods return nil only from inside the Once body; Put/NewConsumer/Get/Commit check the closed state in the hold in which they act; Buffer.Close and consumer.Close cancel before waiting, consumer contexts are children of Buffer.ctx, Done channels are closed after cancellation/deregistration; Buffer.ensure re-checks every lazily initialised field under the lock.",
		NotDecided: "termination (liveness) of Close under the provisos; that user callbacks return.",
		Build: func(c *Ctx) []*an.Oblig {
			relRules(c)
			goxRules(c)
			onceRules(c)
			closedGuards(c)
			channelClose(c)
			subscribeCancelContext(c) // cancel must release a publisher blocked on the subscription (or Publish, and with it the watcher's Unsubscribe, never return)
			getPerCallContext(c)
			waitCond(c)
			cleanupLogic(c) // the cleaner repeats a pass while it reports a change, holding the lock Close needs: it must make progress
			out := c.sel(func(o *an.Oblig) bool {
				if isUndecided(o) || o.Rule == "ANCHOR" {
					return true
				}
				if o.Rule == "AT" && subjHas(o, "closed-check") {
					return true
				}
				if o.Rule == "REQ" && funcHas(o, "(*Channel).Close") {
					return true
				}
				if o.Rule == "B" && funcHas(o, "Close") {
					return true
				}
				if o.Rule == "O" && subjHas(o, "Buffer.", "consumer.", "Channel.") {
					return true
				}
				// lock pairing (incl. panic exits) and the wake-ups Close depends on: an unpaired lock or a lost
				// wake-up of consumer.cond / Buffer.cond makes Close (or every later call) block for ever
				if ruleIn(o, "P", "PX", "WL", "S", "SL") && funcHas(o, "(*Buffer)", "(*consumer)", "(*Channel)") {
					return true
				}
				return false
			})
			return append(out, c.C.List...)
		},
		Floors: []Floor{
			floorKey("REL cancel", 6, "REL/", "cancel func"),
			floorKey("REL timers", 3, "REL/", "timers and tickers"),
			floorKey("REL AfterFunc", 3, "REL/", "AfterFunc"),
			floorKey("GOX blocking ops", 15, "GOX/", "blocking"),
			floorKey("GOX go statements", 10, "GOX/", "go statement"),
			floorKey("ONCE close sites", 8, "ONCE/", "close site"),
			floorKey("Close results", 3, "ONCE/", "only the first Close"),
			floorKey("closed-state sections", 4, "AT/", "closed-check"),
			floorKey("ensure re-checks", 6, "lazy initialisation of"),
		},
	})
}

// getPerCallContext: every blocking consumer.Get hands getAsync a context of its own that is cancelled when Get
// returns. getAsync combines it with the buffer's and the consumer's contexts; the hooks CombineContext registers on
// those long-lived contexts are released only when that combined context is cancelled - without the per-call cancel
// each Get that had to wait leaves two registrations (and, for a custom context, a goroutine) behind until the buffer
// is closed.
func getPerCallContext(c *Ctx) {
	P := c.P
	q := c.F("(*consumer).Get")
	if !q.ok() {
		return
	}
	gas := an.AllInstrs(q.fn, func(in ssa.Instruction) bool {
		cc := an.CallCommonOf(in)
		return cc != nil && cc.IsInvoke() && cc.Method.Name() == "getAsync"
	})
	if !q.need(gas, "REL", "producer.getAsync call") {
		return
	}
	wcs := P.CallsTo(q.fn, "context.WithCancel")
	ok := false
	det := "getAsync is not given a context derived for this call and cancelled by a defer"
	for _, w := range wcs {
		derived, cancel := resultOf(w, 0), resultOf(w, 1)
		arg := callArg(gas[0], 0)
		same := arg == derived
		if !same {
			if rv, okr := P.ReachingStore(arg); okr {
				same = rv == derived
			}
		}
		if !same || cancel == nil {
			continue
		}
		for _, d := range an.AllInstrs(q.fn, func(in ssa.Instruction) bool { _, isD := in.(*ssa.Defer); return isD }) {
			if d.(*ssa.Defer).Call.Value == cancel && P.Before(q.fn, an.Is(d), gas[0]) && !P.InCycle(d) {
				ok, det = true, "ctx, cancel := WithCancel(ctx); defer cancel() dominates getAsync(ctx, ...)"
			}
		}
	}
	q.add("REL", "each Get releases what it registered on the long-lived contexts", ok, det, gas[0])
}
