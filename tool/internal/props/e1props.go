package props

import (
	"go/types"

	"golang.org/x/tools/go/ssa"

	"bbcheck/internal/an"
)

// guardedFloors: every GUARDED row of the table must match at least one checked access.
func guardedFloors() []Floor {
	var fl []Floor
	for _, r := range E1Tables().Fields {
		if r.Class != an.ClsGuarded {
			continue
		}
		name := r.Type + "." + r.Field
		fl = append(fl, Floor{Desc: "G row " + name, Min: 1, Match: func(o *an.Oblig) bool {
			return o.Rule == "G" && subjHas(o, ":"+name)
		}})
	}
	return fl
}

func init() {
	register(&Prop{
		ID:        "C11",
		Technique: "lockset (guarded-by) analysis over SSA with path-sensitive lock-state simulation and in-package inlining; field-class audit; escape audit",
		Explanation: "guarded-by for every shared field of Buffer, consumer, Channel, Exclusive, exclusiveItem, Workers, Worker, Notifier, ChanPubSub (table in tool/internal/props/tables.go) in every calling context; " +
			"write accesses need the write lock; INIT-ONCE fields are stored only during construction or in the listed initialisers; atomic/sync fields are never copied; " +
			"captured cells shared with goroutines have a common lock (or are never written after sharing); guarded slices/maps/pointers are not returned without a copy; the Exclusive item-mutex hand-off is respected.",
		NotDecided: "happens-before through user callbacks; the five reasoned exceptions (Worker.do, cleanup timer goroutine, Exclusive work read, Buffer.ensure double-checked header reads) are trusted with their stated reasons.",
		Build: func(c *Ctx) []*an.Oblig {
			fieldClassCensus(c)
			atomWitnesses(c)
			bufferWriterAudit(c) // values are published by copying them into the buffer's own array under the lock (no aliasing of caller memory)
			lazyWriteOnce(c)     // the premise of Buffer.ensure's unlocked double-checked reads
			out := c.sel(func(o *an.Oblig) bool {
				return ruleIn(o, "G", "CLS", "ESC", "HO", "ANCHOR") || isUndecided(o)
			})
			out = append(out, c.C.List...)
			// the premises of the reasoned exceptions are obligations of this property too: an unlocked read is race-free
			// only while the ordering argument in its "Why" holds
			mark := len(c.C.List)
			exclusiveC10(c)     // Exclusive work read: item fields are written only while the item is the one in the map, under both locks
			workerRules(c)      // Worker.do's reads of stop/done: reset only after <-done, done closed only after fn returned
			cooldownProtocol(c) // cleanup timer cell: written before the go statement, cleared only by that goroutine's deferred reset
			premise := func(o *an.Oblig) bool {
				return subjHas(o, "attaches only to the item currently in the map", "Exclusive validate->", "the instance slot is freed only after the instance exited",
					"done is closed only after the function returned", "the cooldown timer is never re-armed", "the cooldown is always cleared when the timer goroutine exits",
					"arming the cooldown always starts the timer goroutine")
			}
			for _, o := range c.C.List[mark:] {
				if premise(o) || isUndecided(o) || o.Rule == "ANCHOR" {
					out = append(out, o)
				}
			}
			out = append(out, c.sel(func(o *an.Oblig) bool { return o.Rule == "AT" && premise(o) })...)
			return out
		},
		Floors: append(guardedFloors(),
			floorRule("G obligations (half of the confirmed count)", "G", 60),
			floorRule("hand-off", "HO", 1),
			floorRule("shared captured cells", "G", 3, "cell:"),
		),
	})

}

// fieldClassCensus: every field of the concurrency-safe types has a class in the table (a new field
// without a class is an analysis failure, not a silent pass), and every table row names a real field.
func fieldClassCensus(c *Ctx) {
	tracked := []string{"Buffer", "consumer", "Channel", "Exclusive", "exclusiveItem", "Workers", "Worker", "Notifier", "ChanCaster", "ChanPubSub"}
	have := map[string]an.Class{}
	for _, r := range E1Tables().Fields {
		have[r.Type+"."+r.Field] = r.Class
	}
	n := 0
	for _, tn := range tracked {
		obj := c.P.Types.Scope().Lookup(tn)
		if obj == nil {
			c.C.Undecided("CLS", tn, "type exists", "tracked type "+tn+" not found")
			continue
		}
		st, ok := obj.Type().Underlying().(*types.Struct)
		if !ok {
			c.C.Undecided("CLS", tn, "type is a struct", "tracked type "+tn+" is no longer a struct")
			continue
		}
		for i := 0; i < st.NumFields(); i++ {
			f := st.Field(i)
			key := tn + "." + f.Name()
			_, ok := have[key]
			n++
			if !ok {
				c.C.Undecided("CLS", tn, "field "+f.Name()+" has a class", "field "+key+" has no class in the guarded-by table (GUARDED / INIT-ONCE / ATOMIC / SYNC / CONFIG): it is shared state the lockset rule would silently ignore")
				continue
			}
			// sanity of the class against the type
			ts := f.Type().String()
			cls := have[key]
			okc := true
			if cls == an.ClsAtomic && !contains2(ts, "sync/atomic.") {
				okc = false
			}
			if cls == an.ClsSync && !(contains2(ts, "sync.") || contains2(ts, "ChanCaster")) {
				okc = false
			}
			if (contains2(ts, "sync/atomic.")) && cls != an.ClsAtomic {
				okc = false
			}
			c.C.Add("CLS", tn, "field "+f.Name()+" has a class", okc, pickS(okc, "classified; class agrees with the field's type ("+ts+")", "the class recorded for "+key+" does not fit its type "+ts))
		}
	}
	_ = n
}

func contains2(s, sub string) bool {
	for i := 0; i+len(sub) <= len(s); i++ {
		if s[i:i+len(sub)] == sub {
			return true
		}
	}
	return false
}

// lazyWriteOnce: Buffer.ensure reads ctx, cancel, consumers, done and cond without the lock (double-checked
// initialisation). Those reads are race-free only while each of the fields is written once, by its initialiser in
// ensure: a later store anywhere else - even under the write lock - races with every concurrent public call.
func lazyWriteOnce(c *Ctx) {
	P := c.P
	for _, f := range []string{"Buffer.ctx", "Buffer.cancel", "Buffer.consumers", "Buffer.done", "Buffer.cond"} {
		var stray []ssa.Instruction
		n := 0
		for _, fn := range P.AllFuncs() {
			for _, st := range an.FieldStores(fn, f) {
				n++
				host := fn
				for host.Parent() != nil {
					host = host.Parent()
				}
				if an.FuncName(an.Host(host)) != "(*Buffer).ensure" {
					stray = append(stray, st)
				}
			}
		}
		var sp []string
		for _, in := range stray {
			sp = append(sp, P.InstrPos(in))
		}
		c.C.Add("WR", "(*Buffer).ensure", f+" is written only by its lazy initialiser", len(stray) == 0 && n > 0,
			pickS(len(stray) == 0, "every store is in a closure of ensure", f+" is stored outside ensure: ensure's unlocked `== nil` test of it (made by every public method) races with that store"), sp...)
	}
}
