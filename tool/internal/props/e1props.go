package props

import (
	"bbcheck/internal/an"
)

// guardedFloors: every GUARDED row of the table must match at least one checked access.
func guardedFloors() []Floor {
	var fl []Floor
	for _, r := range E1Tables().Fields {
		if r.Class != an.ClsGuarded {
			continue
		}
		name := r.Type + "." + r.Field
		fl = append(fl, Floor{Desc: "G row " + name, Min: 1, Match: func(o *an.Oblig) bool {
			return o.Rule == "G" && subjHas(o, ":"+name)
		}})
	}
	return fl
}

func init() {
	register(&Prop{
		ID:        "C11",
		Technique: "lockset (guarded-by) analysis over SSA with path-sensitive lock-state simulation and in-package inlining; field-class audit; escape audit",
		Explanation: "guarded-by for every shared field of Buffer, consumer, Channel, Exclusive, exclusiveItem, Workers, Worker, Notifier, ChanPubSub (table in tool/internal/props/tables.go) in every calling context; " +
			"write accesses need the write lock; INIT-ONCE fields are stored only during construction or in the listed initialisers; atomic/sync fields are never copied; " +
			"captured cells shared with goroutines have a common lock (or are never written after sharing); guarded slices/maps/pointers are not returned without a copy; the Exclusive item-mutex hand-off is respected.",
		NotDecided: "happens-before through user callbacks; the five reasoned exceptions (Worker.do, cleanup timer goroutine, Exclusive work read, Buffer.ensure double-checked header reads) are trusted with their stated reasons.",
		Build: func(c *Ctx) []*an.Oblig {
			return c.sel(func(o *an.Oblig) bool {
				return ruleIn(o, "G", "CLS", "ESC", "HO", "ANCHOR") || isUndecided(o)
			})
		},
		Floors: append(guardedFloors(),
			floorRule("G obligations (half of the confirmed count)", "G", 60),
			floorRule("hand-off", "HO", 1),
			floorRule("shared captured cells", "G", 3, "cell:"),
		),
	})

}
