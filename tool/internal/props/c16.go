package props

import (
	"go/token"
	"go/types"
	"strings"

	"golang.org/x/tools/go/ssa"

	"bbcheck/internal/an"
)

func combineContext(c *Ctx) {
	q := c.F("CombineContext")
	if !q.ok() {
		return
	}
	P := c.P
	fn := q.fn
	var deregFn *ssa.Function // the de-registration hook when it is a closure of CombineContext rather than stops.Stop
	primary, others := fn.Params[0], fn.Params[1]
	wcs := P.CallsTo(fn, "context.WithCancel")
	if len(wcs) != 2 {
		q.undecided("PROV", "shape", "expected two WithCancel sites (already-cancelled other / wiring)")
		return
	}
	// classify: the early one is followed by an immediate cancel() and return
	var early, main ssa.Instruction
	for _, w := range wcs {
		cancel := resultOf(w, 1)
		direct := false
		for _, in := range an.AllInstrs(fn, func(in ssa.Instruction) bool { _, ok := in.(*ssa.Call); return ok }) {
			cc := an.CallCommonOf(in)
			if !cc.IsInvoke() && cc.StaticCallee() == nil && cancel != nil && cc.Value == cancel {
				direct = true
			}
		}
		if direct {
			early = w
		} else {
			main = w
		}
	}
	if early == nil || main == nil {
		q.undecided("PROV", "shape", "could not tell the already-cancelled branch from the wiring branch")
		return
	}
	isPrimary := func(v ssa.Value) bool {
		for _, s := range P.Sources(v) {
			if s == ssa.Value(primary) {
				return true
			}
			if P.IsCallResult(s, "context.Background", 0) {
				continue
			}
			return false
		}
		return true
	}
	for _, w := range wcs {
		q.add("PROV", "the result is a child of the primary context (carries its values)", isPrimary(callArg(w, 0)), "WithCancel's parent is the primary (or Background for nil)", w)
	}
	// returns: primary unchanged, or the derived context of one of the two sites
	rets := returnsOf(fn)
	// (a return of a value joined from several arms - `if n != 0 { ctx = derived }; return ctx` - is judged arm by arm)
	var tuples []retTuple
	for _, r0 := range rets {
		tps := c.returnTuples(r0)
		mixed := false
		for _, tp := range tps {
			if tp.vals[0] == resultOf(main, 0) || tp.vals[0] == resultOf(early, 0) {
				mixed = true
			}
		}
		if len(tps) > 1 && !mixed {
			// a join of spellings of the primary (nil replaced by Background): one return
			tps = []retTuple{{site: r0, ret: r0, vals: r0.Results}}
		}
		tuples = append(tuples, tps...)
	}
	for _, tp := range tuples {
		r, v := tp.site, tp.vals[0]
		switch {
		case v == resultOf(early, 0):
			// cancelled before return
			cancel := resultOf(early, 1)
			calls := an.AllInstrs(fn, func(in ssa.Instruction) bool {
				cc := an.CallCommonOf(in)
				return cc != nil && !cc.IsInvoke() && cc.StaticCallee() == nil && cc.Value == cancel
			})
			ok := len(calls) > 0 && P.Before(fn, an.In(calls), r)
			q.add("PATH", "if an other context is already cancelled the result is returned cancelled", ok, pickS(ok, "cancel() dominates the return of the derived context", "the context derived for the already-cancelled case is returned without being cancelled"), r)
			// reached only where some non-nil other has Err() != nil
			errs := an.AllInstrs(fn, func(in ssa.Instruction) bool {
				call, ok := in.(*ssa.Call)
				return ok && call.Call.IsInvoke() && call.Call.Method.Name() == "Err" && !isPrimary(call.Call.Value)
			})
			okc := len(errs) > 0 && P.Before(fn, an.In(errs), early) && !q.onlyAfterSuccess(errs[0], early) && !P.PathExists(fn, errs[0], an.Is(early), nil, errEdges(P, fn, false))
			q.add("PATH", "the already-cancelled branch is taken only for an other whose Err() is non-nil", okc, "reached only through other.Err() != nil", early)
		case v == resultOf(main, 0):
			// every non-nil other gets AfterFunc(other, cancel)
			cancel := resultOf(main, 1)
			hooks := an.AllInstrs(fn, func(in ssa.Instruction) bool {
				cc := an.CallCommonOf(in)
				return cc != nil && P.CalleeName(cc) == "context.AfterFunc" && len(cc.Args) == 2 && usesValue(P, cc.Args[1], cancel)
			})
			if q.need(hooks, "PATH", "AfterFunc(other, cancel)") {
				h := hooks[0]
				elem := callArg(h, 0)
				fromOthers := false
				if ld, isL := isLoad(elem); isL {
					if ia, isIA := ld.X.(*ssa.IndexAddr); isIA && ia.X == ssa.Value(others) {
						fromOthers = true
					}
				}
				q.add("PROV", "the hook is registered on the other context itself", fromOthers && P.InCycle(h), "AfterFunc(others[i], cancel) inside the loop over others", h)
				// in the loop body the registration depends only on other != nil
				got := P.PathCond(fn, bodyBlockOf(elem), h, nil)
				only := len(got) == 1 && len(got[0]) == 1
				if only {
					for f, set := range got[0] {
						// eq?(other, nil) is zero when equal: the registration must sit on the "not nil" side
						only = strings.Contains(f, "eq?") && set == an.SPos
					}
				}
				q.add("COND", "every non-nil other context can cancel the result", only, pickS(only, "the registration is conditional on other != nil only", "some non-nil other context is skipped: its cancellation would not cancel the result ("+got.String()+")"), h)
				// its stop function is collected
				collected := false
				if call, isC := h.(*ssa.Call); isC {
					for _, r := range *call.Referrers() {
						if st, isSt := r.(*ssa.Store); isSt {
							if _, isIA := st.Addr.(*ssa.IndexAddr); isIA {
								collected = true
							}
						}
					}
				}
				q.add("REL", "every hook's stop function is collected", collected, "appended to the stops slice", h)
			}
			// the de-registration hook on the result
			dereg := an.AllInstrs(fn, func(in ssa.Instruction) bool {
				cc := an.CallCommonOf(in)
				if cc == nil || P.CalleeName(cc) != "context.AfterFunc" || len(cc.Args) != 2 || cc.Args[0] != resultOf(main, 0) {
					return false
				}
				mc, ok := cc.Args[1].(*ssa.MakeClosure)
				if !ok {
					return false
				}
				// the hook is stops.Stop, or a closure of this function that does the same: either way a function that
				// calls every collected stop function (judged below on whatever function it is)
				hf := mc.Fn.(*ssa.Function)
				if strings.Contains(an.FuncName(hf), "stopCallbackSlice).Stop") {
					return true
				}
				if hf.Parent() == fn && stopsEveryHook(P, hf) {
					deregFn = hf
					return true
				}
				return false
			})
			ok := len(dereg) == 1 && P.Before(fn, an.Is(dereg[0]), r)
			q.add("REL", "the hooks are deregistered when the result is cancelled", ok, pickS(ok, "AfterFunc(result, stops.Stop) dominates the return", "the hooks registered on the other contexts are never deregistered: each call leaks one registration per other context until those contexts end"), r)
		default:
			// the primary itself: only if it is already cancelled or no non-nil other exists
			okp := isPrimary(v)
			q.add("PROV", "otherwise the primary is returned unchanged", okp, "return value is the primary", r)
			// (A) through primary.Err() != nil, or (B) through counter == 0 where the counter counts the non-nil others
			why := ""
			pifs, pnegs := P.IfsOn(fn, func(cond ssa.Value) bool {
				b, ok := cond.(*ssa.BinOp)
				if !ok || (b.Op != token.EQL && b.Op != token.NEQ) {
					return false
				}
				return either(b, func(v ssa.Value) bool {
					call, isC := v.(*ssa.Call)
					return isC && call.Call.IsInvoke() && call.Call.Method.Name() == "Err" && isPrimary(call.Call.Value)
				}, isNilConst)
			})
			for i, ifi := range pifs {
				nn := 0
				if pnegs[i] {
					nn = 1
				}
				if stripNotV(ifi.Cond).(*ssa.BinOp).Op == token.EQL {
					nn = 1 - nn
				}
				if tp.via(q, ifi, nn) {
					why = "reached only through primary.Err() != nil"
				}
			}
			if why == "" {
				zifs, znegs := P.IfsOn(fn, func(cond ssa.Value) bool {
					b, ok := cond.(*ssa.BinOp)
					if !ok || (b.Op != token.EQL && b.Op != token.NEQ) {
						return false
					}
					return either(b, func(v ssa.Value) bool { _, isPh := v.(*ssa.Phi); return isPh && isIntT(v) }, isZero)
				})
				for i, ifi := range zifs {
					b := stripNotV(ifi.Cond).(*ssa.BinOp)
					zs := 0
					if znegs[i] {
						zs = 1
					}
					if b.Op == token.NEQ {
						zs = 1 - zs
					}
					ph, _ := b.X.(*ssa.Phi)
					if ph == nil {
						ph, _ = b.Y.(*ssa.Phi)
					}
					// the counter: starts at 0 and is incremented on the path of a non-nil, live other
					counts := false
					if ph != nil {
						for _, e := range P.Sources(ph) {
							if inc, isB := e.(*ssa.BinOp); isB && inc.Op == token.ADD {
								errs := an.AllInstrs(fn, func(in ssa.Instruction) bool {
									call, ok := in.(*ssa.Call)
									return ok && call.Call.IsInvoke() && call.Call.Method.Name() == "Err" && !isPrimary(call.Call.Value)
								})
								if len(errs) > 0 && q.onlyAfterSuccess(errs[0], inc) && P.Before(fn, an.In(errs), inc) {
									counts = true
								}
							}
						}
					}
					if counts && tp.via(q, ifi, zs) {
						why = "reached only through (number of non-nil, live others) == 0"
					}
				}
			}
			if why == "" && len(fn.Params) >= 2 {
				// an explicit early exit for an empty list of others
				isLenOthers := func(v ssa.Value) bool {
					call, ok := v.(*ssa.Call)
					if !ok || len(call.Call.Args) != 1 {
						return false
					}
					b, isB := call.Call.Value.(*ssa.Builtin)
					return isB && b.Name() == "len" && call.Call.Args[0] == ssa.Value(fn.Params[len(fn.Params)-1])
				}
				lifs, lnegs := P.IfsOn(fn, func(cond ssa.Value) bool {
					b, ok := cond.(*ssa.BinOp)
					return ok && (b.Op == token.EQL || b.Op == token.NEQ) && either(b, isLenOthers, isZero)
				})
				for i, ifi := range lifs {
					zs := 0
					if lnegs[i] {
						zs = 1
					}
					if stripNotV(ifi.Cond).(*ssa.BinOp).Op == token.NEQ {
						zs = 1 - zs
					}
					if tp.via(q, ifi, zs) {
						why = "reached only through len(others) == 0"
					}
				}
			}
			q.add("PATH", "the primary is returned unchanged only if it is cancelled or there is nothing to combine", why != "", pickS(why != "", why, "the primary context itself is returned although it is live and other contexts were given: their cancellation would not cancel the result"), r)
		}
	}
	// the pre-check is a two-way decision on Err(): every non-nil other is either counted (still live) or makes the
	// result cancelled - whatever the KIND of its error (context.Canceled, DeadlineExceeded, a custom cause)
	{
		errs := an.AllInstrs(fn, func(in ssa.Instruction) bool {
			call, ok := in.(*ssa.Call)
			return ok && call.Call.IsInvoke() && call.Call.Method.Name() == "Err" && !isPrimary(call.Call.Value)
		})
		var incs []ssa.Instruction
		for _, in := range an.AllInstrs(fn, func(in ssa.Instruction) bool {
			b, ok := in.(*ssa.BinOp)
			if !ok || b.Op != token.ADD || !isIntT(b) {
				return false
			}
			ph, isPh := b.X.(*ssa.Phi)
			k, isK := constInt(b.Y)
			// (the range's own index is advanced in the loop header, next to its phi: not the counter)
			return isPh && isK && k == 1 && ph.Block() != b.Block()
		}) {
			incs = append(incs, in)
		}
		if len(errs) > 0 && len(incs) > 0 {
			e := errs[0]
			stop := func(in ssa.Instruction) bool { return in == e || an.IsReturn(in) || in == main }
			avoid := func(in ssa.Instruction) bool {
				for _, x := range incs {
					if x == in {
						return true
					}
				}
				return in == early
			}
			skip := P.PathExists(fn, e, stop, avoid, nil)
			q.add("PATH", "every non-nil other context is either counted as live or makes the result cancelled", !skip,
				pickS(!skip, "from other.Err() every path passes n++ or the already-cancelled branch", "an other context can fall through the pre-check uncounted and without cancelling the result (e.g. only context.Canceled is recognised, not a deadline): the result is not already cancelled although an input is"), e)
		}
	}
	// an other context is used (Err, AfterFunc) only where it was found non-nil
	for _, in := range an.AllInstrs(fn, func(in ssa.Instruction) bool {
		call, ok := in.(*ssa.Call)
		if !ok {
			return false
		}
		if call.Call.IsInvoke() && !isPrimary(call.Call.Value) && (call.Call.Method.Name() == "Err" || call.Call.Method.Name() == "Done") {
			return true
		}
		return P.CalleeName(&call.Call) == "context.AfterFunc" && len(call.Call.Args) == 2 && !isPrimary(call.Call.Args[0]) && call.Call.Args[0] != resultOf(main, 0)
	}) {
		call := in.(*ssa.Call)
		recv := call.Call.Value
		if !call.Call.IsInvoke() {
			recv = call.Call.Args[0]
		}
		ifn, ns, found := q.nilTestOf(func(v ssa.Value) bool { return v == recv })
		ok := found && q.onlyViaEdge(in, ifn, 1-ns)
		q.add("PATH", "an other context is consulted only where it is not nil", ok, pickS(ok, "reached only through other != nil", "a nil entry of others is dereferenced, or non-nil entries are skipped: the nil test of the element is missing or inverted"), in)
	}
	// the pre-check examines EVERY other context: the loop that tests other.Err() is left only through its
	// header (all inspected) or by returning the cancelled result - never by a break into the wiring code
	{
		errs := an.AllInstrs(fn, func(in ssa.Instruction) bool {
			call, ok := in.(*ssa.Call)
			return ok && call.Call.IsInvoke() && call.Call.Method.Name() == "Err" && !isPrimary(call.Call.Value)
		})
		if q.need(errs, "PATH", "other.Err() pre-check") {
			comp, cyc := P.SCC(fn)
			cid := comp[errs[0].Block()]
			ok := cyc[cid]
			var header *ssa.BasicBlock
			if ok {
				for _, b := range fn.Blocks {
					if comp[b] != cid {
						continue
					}
					for _, sb := range b.Succs {
						if comp[sb] == cid {
							continue
						}
						// an exit edge: fine if it leads straight to a return/panic-only region, else it must be the header's
						leadsOut := P.PathExists(fn, sb.Instrs[0], an.Is(main), nil, nil) || sb.Instrs[0] == main
						if !leadsOut {
							continue
						}
						if header == nil {
							header = b
						} else if header != b {
							ok = false
						}
					}
				}
				if header != nil {
					// the header is the block holding the range test (it dominates the Err() call)
					ok = ok && header.Dominates(errs[0].Block())
				}
			}
			q.add("PATH", "every other context is examined for prior cancellation", ok,
				pickS(ok, "the pre-check loop is left towards the wiring code only through its header (all others inspected)", "the pre-check loop can be left early (e.g. a break after the first non-nil other): an already-cancelled other further down the list would not make the result already cancelled"), errs[0])
		}
	}
	if deregFn != nil {
		// the de-registration is a closure of CombineContext (judged where it was found)
		(&fq{c: c, fn: deregFn, name: an.FuncName(deregFn)}).add("REL", "Stop stops every collected hook", true, "calls each element in a loop")
	} else if stop := c.F("(stopCallbackSlice).Stop"); stop.ok() {
		ok := stopsEveryHook(P, stop.fn)
		stop.add("REL", "Stop stops every collected hook", ok, "calls each element in a loop")
	}
}

// stopsEveryHook: the function's only dynamic call is made in a loop (over the collected stop functions).
func stopsEveryHook(P *an.Prog, f *ssa.Function) bool {
	calls := an.AllInstrs(f, func(in ssa.Instruction) bool {
		call, ok := in.(*ssa.Call)
		if !ok || call.Call.IsInvoke() || call.Call.StaticCallee() != nil {
			return false
		}
		_, isB := call.Call.Value.(*ssa.Builtin)
		return !isB
	})
	return len(calls) == 1 && P.InCycle(calls[0])
}

func bodyBlockOf(v ssa.Value) *ssa.BasicBlock {
	if in, ok := v.(ssa.Instruction); ok {
		return in.Block()
	}
	return nil
}

func conflatedContext(c *Ctx) {
	q := c.F("ConflatedContext")
	if !q.ok() {
		return
	}
	P := c.P
	fn := q.fn
	wcs := P.CallsTo(fn, "context.WithCancel")
	wo := P.CallsTo(fn, "context.WithoutCancel")
	if !q.need(wcs, "PROV", "WithCancel") || !q.need(wo, "PROV", "WithoutCancel") {
		return
	}
	okp := callArg(wcs[0], 0) == ssa.Value(wo[0].(*ssa.Call))
	first := false
	if ld, isL := isLoad(callArg(wo[0], 0)); isL {
		if ia, isIA := ld.X.(*ssa.IndexAddr); isIA && ia.X == ssa.Value(fn.Params[0]) && isZero(ia.Index) {
			first = true
		}
	}
	// ... on every way out: what ConflatedContext returns is that derived context (also when every input was already
	// cancelled - a shared pre-cancelled context would drop the first input's values)
	for _, r := range returnsOf(fn) {
		okr := true
		for _, v := range c.retVals(r, 0) {
			if !P.IsCallResult(v, "context.WithCancel", 0) {
				okr = false
			}
		}
		q.add("PROV", "every return hands back the context derived from the first input", okr, pickS(okr, "the returned context is WithCancel's result", "ConflatedContext can return a context that is not derived from its first input: the result would not carry that input's values"), r)
	}
	q.add("PROV", "the result carries the first input's values but not its cancellation", okp && first, pickS(okp && first, "WithCancel(WithoutCancel(contexts[0]))", "the result is not built on WithoutCancel(contexts[0]): cancelling the first input alone would cancel the result"), wcs[0])
	// per live input: wg.Add(1) next to ChainAfterFunc(result, input, wg.Done)
	chains := P.CallsTo(fn, "ChainAfterFunc")
	adds := P.CallsTo(fn, "(*sync.WaitGroup).Add")
	if q.need(chains, "PATH", "ChainAfterFunc per input") {
		ch := chains[0]
		var paired ssa.Instruction
		for _, a := range adds {
			if a.Block() == ch.Block() {
				paired = a
			}
		}
		okb := paired != nil && P.Before(fn, an.Is(paired), ch) && P.InCycle(ch)
		q.add("PATH", "each live input is counted exactly where its hook is registered", okb, pickS(okb, "wg.Add(1) and ChainAfterFunc(...) in the same block of the loop", "an input can be counted without a hook being registered for it (the result would never be cancelled), or hooked without being counted (premature cancel / negative counter)"), ch)
		// arguments
		res := usesValue(P, callArg(ch, 0), resultOf(wcs[0], 0))
		inp := false
		if ld, isL := isLoad(callArg(ch, 1)); isL {
			if ia, isIA := ld.X.(*ssa.IndexAddr); isIA && ia.X == ssa.Value(fn.Params[0]) {
				inp = true
			}
		}
		done := false
		if mc, isMC := callArg(ch, 2).(*ssa.MakeClosure); isMC && strings.Contains(mc.Fn.(*ssa.Function).String(), "WaitGroup).Done") {
			done = true
		}
		if !done {
			// a literal shared by all hooks whose whole effect is one wg.Done()
			if srcs := P.Sources(callArg(ch, 2)); len(srcs) == 1 {
				if mc, isMC := srcs[0].(*ssa.MakeClosure); isMC {
					lf := mc.Fn.(*ssa.Function)
					all := an.AllInstrs(lf, func(in ssa.Instruction) bool { return an.CallCommonOf(in) != nil })
					if len(all) == 1 && P.CalleeName(an.CallCommonOf(all[0])) == "(*sync.WaitGroup).Done" && !P.InCycle(all[0]) {
						if _, isGo := all[0].(*ssa.Go); !isGo && len(an.AllInstrs(lf, func(in ssa.Instruction) bool { _, ok := in.(*ssa.Store); return ok })) == 0 {
							done = true
						}
					}
				}
			}
		}
		q.add("PROV", "the hook is wg.Done, registered on the input, cleaned up with the result", res && inp && done, "ChainAfterFunc(result, contexts[i], wg.Done)", ch)
		// live inputs only: Err() == nil edge, and the same Err() decides
		errs := an.AllInstrs(fn, func(in ssa.Instruction) bool {
			call, ok := in.(*ssa.Call)
			return ok && call.Call.IsInvoke() && call.Call.Method.Name() == "Err"
		})
		okl := len(errs) == 1 && errs[0].Block() != nil && q.onlyAfterSuccess(errs[0], ch) && P.Before(fn, an.Is(errs[0]), ch)
		q.add("PATH", "liveness of an input is tested once, in the pass that registers its hook", okl && len(errs) == 1,
			pickS(okl, "a single Err() call per input decides both counting and registration", "an input's liveness is tested more than once: an input cancelled between the tests is counted but never hooked, and the result is never cancelled"), errs...)
	}
	// every live input is hooked: from the live edge of the Err() test there is no way to the next input (or out of the
	// loop) that skips ChainAfterFunc - e.g. for inputs that can never be cancelled, which must keep the result alive
	if len(chains) > 0 {
		errs := an.AllInstrs(fn, func(in ssa.Instruction) bool {
			call, ok := in.(*ssa.Call)
			return ok && call.Call.IsInvoke() && call.Call.Method.Name() == "Err"
		})
		if len(errs) == 1 {
			ec := errs[0].(*ssa.Call)
			if ifn, ns, found := q.nilTestOf(func(v ssa.Value) bool { return v == ssa.Value(ec) }); found {
				next := func(in ssa.Instruction) bool { return in == errs[0] || an.IsReturn(in) }
				skip := P.PathExists(fn, ifn, next, an.In(chains), cutEdge(ifn, 1-ns))
				q.add("PATH", "every live input is counted and hooked", !skip,
					pickS(!skip, "from Err() == nil every path to the next input or out of the loop passes ChainAfterFunc", "a live input can be skipped (not counted, not hooked): the result would be cancelled while that input is still live"), ifn)
			} else {
				q.undecided("PATH", "every live input is counted and hooked", "the nil test of ctx.Err() was not found")
			}
		}
	}
	// the variadic inputs are only read: filtering them in place (append to contexts[:0]) would change which input is
	// "the first" (whose values the result carries) and what the caller's slice holds
	{
		var writes []ssa.Instruction
		for _, in := range an.AllInstrs(fn, func(in ssa.Instruction) bool { return true }) {
			switch x := in.(type) {
			case *ssa.Store:
				if ia, ok := x.Addr.(*ssa.IndexAddr); ok && srcIs(P, ia.X, fn.Params[0]) {
					writes = append(writes, in)
				}
			case *ssa.Call:
				if b, ok := x.Call.Value.(*ssa.Builtin); ok && (b.Name() == "append" || b.Name() == "copy" || b.Name() == "clear") && len(x.Call.Args) > 0 {
					for _, s := range P.Sources(x.Call.Args[0]) {
						if sl, isS := s.(*ssa.Slice); isS && srcIs(P, sl.X, fn.Params[0]) {
							writes = append(writes, in)
						} else if s == ssa.Value(fn.Params[0]) {
							writes = append(writes, in)
						}
					}
				}
			}
		}
		q.add("WR", "the input slice is never written", len(writes) == 0, pickS(len(writes) == 0, "no store, append, copy or clear targets contexts", "the caller's slice of inputs is modified in place: contexts[0] may no longer be the first input when the result's values are taken from it"), writes...)
	}
	// guard count: Add(1) before the loop, Done after it, wait goroutine, success flag
	var guardAdd, guardDone ssa.Instruction
	for _, a := range adds {
		if !P.InCycle(a) {
			guardAdd = a
		}
	}
	for _, d := range P.CallsTo(fn, "(*sync.WaitGroup).Done") {
		if _, isCall := d.(*ssa.Call); isCall {
			guardDone = d
		}
	}
	gos := an.AllInstrs(fn, func(in ssa.Instruction) bool { _, ok := in.(*ssa.Go); return ok })
	if guardAdd == nil || guardDone == nil || len(gos) != 1 || len(chains) == 0 {
		q.undecided("PATH", "guard count", "guard Add/Done or the waiter goroutine not found")
		return
	}
	// "at least one input is live" as remembered for the early exit: a flag that starts false and is only ever set to
	// true, or a counter that starts at 0 and is only ever incremented - in both cases on the live side of the Err()
	// test and nowhere else (a flag overwritten per input would report the last input only)
	{
		errs := an.AllInstrs(fn, func(in ssa.Instruction) bool {
			call, ok := in.(*ssa.Call)
			return ok && call.Call.IsInvoke() && call.Call.Method.Name() == "Err"
		})
		for _, b := range fn.Blocks {
			ifi, isIf := b.Instrs[len(b.Instrs)-1].(*ssa.If)
			if !isIf || P.InCycle(ifi) || !b.Dominates(gos[0].Block()) {
				continue
			}
			var mem *ssa.Phi
			cnd := stripNotV(ifi.Cond)
			if ph, ok := cnd.(*ssa.Phi); ok && isBoolT(ph) {
				mem = ph
			} else if bo, ok := cnd.(*ssa.BinOp); ok {
				for _, v := range []ssa.Value{bo.X, bo.Y} {
					if ph, ok := v.(*ssa.Phi); ok && isIntT(ph) {
						mem = ph
					}
				}
			}
			if mem == nil {
				continue
			}
			good, why := true, "starts false / 0, set or incremented only for a live input"
			seen := map[*ssa.Phi]bool{}
			var walk func(ph *ssa.Phi)
			walk = func(ph *ssa.Phi) {
				if seen[ph] {
					return
				}
				seen[ph] = true
				for i, e := range ph.Edges {
					pred := ph.Block().Preds[i]
					last := pred.Instrs[len(pred.Instrs)-1]
					if p2, ok := e.(*ssa.Phi); ok {
						walk(p2)
						continue
					}
					live := len(errs) == 1 && P.InCycle(last) && P.Before(fn, an.Is(errs[0]), last) && q.onlyAfterSuccess(errs[0], last)
					if bv, ok := constBool(e); ok {
						if bv && !live {
							good, why = false, "the flag is set on a path that has not seen a live input"
						}
						if !bv && P.InCycle(last) {
							good, why = false, "the flag is cleared inside the loop: an earlier live input is forgotten"
						}
						continue
					}
					if k, ok := constInt(e); ok && k == 0 && !P.InCycle(last) {
						continue
					}
					if inc, ok := e.(*ssa.BinOp); ok && inc.Op == token.ADD && isIntT(inc) {
						_, xs := inc.X.(*ssa.Phi)
						k, isK := constInt(inc.Y)
						if xs && seen[inc.X.(*ssa.Phi)] && isK && k > 0 && live {
							continue
						}
					}
					good, why = false, "what the early exit tests is overwritten with "+e.String()+": it no longer says whether any input was live"
				}
			}
			walk(mem)
			q.add("PATH", "the early exit is taken only if no input at all was live", good, why, ifi)
		}
	}
	okg := P.Before(fn, an.Is(guardAdd), chains[0]) && !P.InCycle(guardDone) && !P.PathExists(fn, guardDone, an.In(chains), nil, nil) && P.Before(fn, an.Is(guardDone), gos[0])
	q.add("PATH", "a guard count keeps the counter positive while inputs are wired", okg, pickS(okg, "Add(1) before the loop, Done() after it and before the waiter starts", "the guard count is released before every input is wired: an input cancelled during construction could cancel the result prematurely"), guardDone)
	if mc, ok := gos[0].(*ssa.Go).Call.Value.(*ssa.MakeClosure); ok {
		wf := mc.Fn.(*ssa.Function)
		wq := &fq{c: c, fn: wf, name: an.FuncName(wf)}
		ws := P.CallsTo(wf, "(*sync.WaitGroup).Wait")
		cs := an.AllInstrs(wf, func(in ssa.Instruction) bool {
			cc := an.CallCommonOf(in)
			return cc != nil && !cc.IsInvoke() && cc.StaticCallee() == nil
		})
		okw := len(ws) == 1 && len(cs) == 1 && P.Before(wf, an.Is(ws[0]), cs[0])
		wq.add("PATH", "the result is cancelled once every input is cancelled", okw, "wg.Wait() then cancel()", ws...)
	}
	// all dead => cancel via the deferred closure (success stays false)
	var succ *ssa.Alloc
	for _, in := range an.AllInstrs(fn, func(in ssa.Instruction) bool { _, ok := in.(*ssa.Alloc); return ok }) {
		if al := in.(*ssa.Alloc); P.Captured(al) && isBoolPtr(al) {
			succ = al
		}
	}
	if succ != nil {
		var trues []ssa.Instruction
		nonConst := false
		for _, st := range P.CellStores(succ) {
			// a store of a join of constants is judged arm by arm (the flag handed back by a helper)
			for _, t := range storeTuples(st) {
				if b, isB := constBool(t.val); isB {
					if b {
						trues = append(trues, t.site)
					}
				} else {
					nonConst = true
				}
			}
		}
		okt := len(trues) == 1 && !nonConst && P.Before(fn, an.Is(gos[0]), trues[0])
		q.add("PATH", "if no input is live the result is cancelled at once", okt, pickS(okt, "success is set only after the waiter was started; otherwise the deferred closure cancels", "success can be set without the waiter having been started"), trues...)
	}
	pn := an.AllInstrs(fn, an.IsPanic)
	q.add("PATH", "zero inputs panic", len(pn) == 1, "panic on len(contexts) == 0", pn...)
}

func chainAfterFunc(c *Ctx) {
	q := c.F("ChainAfterFunc")
	if !q.ok() {
		return
	}
	P := c.P
	fn := q.fn
	afs := P.CallsTo(fn, "context.AfterFunc")
	if len(afs) != 2 {
		q.undecided("PATH", "two registrations", "expected exactly two AfterFunc registrations")
		return
	}
	var onOther, onPrimary ssa.Instruction
	for _, a := range afs {
		switch {
		case usesValue(P, callArg(a, 0), fn.Params[1]):
			onOther = a
		case usesValue(P, callArg(a, 0), fn.Params[0]):
			onPrimary = a
		}
	}
	if onOther == nil || onPrimary == nil {
		q.add("PROV", "f is registered on other, the guard hook on the primary", false, "the two registrations are not on (other, ctx)")
		return
	}
	q.add("PROV", "f is registered on other, the guard hook on the primary", usesValue(P, callArg(onOther, 1), fn.Params[2]), "AfterFunc(other, f)", onOther)
	mc, ok := callArg(onPrimary, 1).(*ssa.MakeClosure)
	if !ok {
		q.add("PATH", "the primary's hook calls f only if it stopped other's hook", false, "the primary's hook is not a closure")
		return
	}
	h := mc.Fn.(*ssa.Function)
	hq := &fq{c: c, fn: h, name: an.FuncName(h)}
	// the only call of f in the hook is under stop() == true, where stop is onOther's result
	var fcalls, scalls []ssa.Instruction
	for _, in := range an.AllInstrs(h, func(in ssa.Instruction) bool {
		cc := an.CallCommonOf(in)
		return cc != nil && !cc.IsInvoke() && cc.StaticCallee() == nil
	}) {
		cc := an.CallCommonOf(in)
		if usesValue(P, cc.Value, fn.Params[2]) {
			fcalls = append(fcalls, in)
		} else if usesValue(P, cc.Value, ssa.Value(onOther.(*ssa.Call))) {
			scalls = append(scalls, in)
		}
	}
	if len(fcalls) != 1 || len(scalls) != 1 {
		hq.add("PATH", "the primary's hook calls f only if it stopped other's hook", false, "expected exactly one stop() call and one f() call in the hook (f must run at most once more, licensed by stop())")
		return
	}
	sc := scalls[0].(*ssa.Call)
	ifs, negs := P.IfsOn(h, func(cond ssa.Value) bool { return cond == ssa.Value(sc) })
	good := len(ifs) == 1
	if good {
		ts := 0
		if negs[0] {
			ts = 1
		}
		good = hq.onlyViaEdge(fcalls[0], ifs[0], ts) && !P.InCycle(fcalls[0])
	}
	hq.add("PATH", "the primary's hook calls f only if it stopped other's hook", good,
		pickS(good, "f() reached only through stop() == true, stop being other's registration", "f can be called from the primary's hook without stop() having returned true (or under another test): with both contexts cancelled together f would run twice, or never"), fcalls[0])
	// f is called nowhere else
	other := dynCallsOfParam(c, fn, fn.Params[2])
	q.add("WR", "f is not called directly", len(other) == 0, "ChainAfterFunc itself never calls f", other...)
	_ = token.NOT
}

func init() {
	register(&Prop{
		ID:        "C16",
		Technique: "value provenance of the returned contexts, hook-registration path rules (one registration per input, conditional only on the documented test), only-via-edge rule for the stop()-licensed second call",
		Explanation: "CombineContext returns the primary unchanged, or a WithCancel child of the primary that is cancelled before return iff an other is already cancelled, or a child with AfterFunc(other, cancel) registered for every non-nil other (conditional on other != nil only), whose stop functions are all collected and deregistered by a hook on the result; " +
			"ConflatedContext's result is WithCancel(WithoutCancel(contexts[0])); each input's liveness is tested once and, in that same block, counted (wg.Add) and hooked (ChainAfterFunc(result, input, wg.Done)); a guard count spans the wiring; the waiter cancels after wg.Wait; all-dead inputs cancel at once; zero inputs panic; " +
			"ChainAfterFunc registers f on other and calls f from the primary's hook exactly under stop() == true of that registration, nowhere else.",
		NotDecided: "atomicity of stop() against the running hook (package context, trusted); promptness.",
		Build: func(c *Ctx) []*an.Oblig {
			combineContext(c)
			conflatedContext(c)
			chainAfterFunc(c)
			out := c.sel(func(o *an.Oblig) bool { return isUndecided(o) || o.Rule == "ANCHOR" })
			return append(out, c.C.List...)
		},
		Floors: []Floor{
			floorKey("CombineContext", 7, "/CombineContext/"),
			floorKey("ConflatedContext", 6, "/ConflatedContext"),
			floorKey("ChainAfterFunc", 3, "/ChainAfterFunc"),
		},
	})
}

func isBoolPtr(al *ssa.Alloc) bool {
	return al.Type().Underlying().(*types.Pointer).Elem().String() == "bool"
}

func isIntT(v ssa.Value) bool {
	b, ok := v.Type().Underlying().(*types.Basic)
	return ok && b.Info()&types.IsInteger != 0
}
