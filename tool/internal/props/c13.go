package props

import (
	"go/token"
	"golang.org/x/tools/go/ssa"
	"strings"

	"bbcheck/internal/an"
)

func channelRules(c *Ctx) {
	P := c.P
	// ---- Get's attempt closure
	getQ := c.F("(*Channel).Get")
	if getQ.ok() {
		as := closuresOf(getQ.fn, func(f *ssa.Function) bool { return len(P.CallsTo(f, "(reflect.Value).TryRecv")) > 0 })
		if len(as) != 1 {
			getQ.undecided("PATH", "attempt closure", "expected one closure of Channel.Get calling TryRecv")
		} else {
			a := &fq{c: c, fn: as[0], name: an.FuncName(as[0])}
			// what the attempt decided is what Get returns: once the attempt reported that it is finished (it took or
			// replayed a value, or found the Channel closed) nothing overwrites the results on the way out - a late
			// "the caller's context is cancelled by now" would fail a Get that has already consumed a value
			{
				var site *ssa.Call
				for _, in := range an.AllInstrs(getQ.fn, func(in ssa.Instruction) bool {
					call, ok := in.(*ssa.Call)
					if !ok {
						return false
					}
					if mc, isMC := call.Call.Value.(*ssa.MakeClosure); isMC && mc.Fn == ssa.Value(as[0]) {
						return true
					}
					// (or a helper method analysed as part of Get)
					return an.TransparentCallee(call) == as[0]
				}) {
					site = in.(*ssa.Call)
				}
				if site == nil {
					getQ.undecided("PATH", "the attempt's verdict is final", "the call of the attempt closure was not found")
				} else {
					ifs, negs := P.IfsOn(getQ.fn, func(cond ssa.Value) bool {
						if cond == ssa.Value(site) {
							return true
						}
						// the "finished" flag as one of several results
						ex, isE := cond.(*ssa.Extract)
						return isE && ex.Tuple == ssa.Value(site) && isBoolT(ex)
					})
					okf := len(ifs) == 1
					if okf {
						ts := 0
						if negs[0] {
							ts = 1
						}
						// from the "finished" edge: no store and no call before the return
						start := ifs[0].Block().Succs[ts]
						if len(start.Instrs) > 0 {
							touched := func(in ssa.Instruction) bool {
								switch x := in.(type) {
								case *ssa.Store:
									// (copying the attempt's own results into the result slots is not a new decision)
									if ex, isE := x.Val.(*ssa.Extract); isE && ex.Tuple == ssa.Value(site) {
										return false
									}
									// ... nor is handing over the variables the attempt filled in (explicit `return value, err` of the
									// captured locals, spilled into the result slots because Get defers)
									if ld, isL := isLoad(x.Val); isL {
										if mc, isMC := site.Call.Value.(*ssa.MakeClosure); isMC {
											for _, b := range mc.Bindings {
												if _, isSlot := x.Addr.(*ssa.Alloc); isSlot && b == ld.X {
													return false
												}
											}
										}
									}
									return true
								case *ssa.Call:
									return true
								}
								return false
							}
							first := start.Instrs[0]
							okf = !touched(first) && !P.PathExists(getQ.fn, first, touched, an.IsReturn, cutEdge(ifs[0], 1-ts))
						}
					}
					getQ.add("PATH", "the attempt's verdict is final", okf, pickS(okf, "from the attempt's 'finished' edge Get returns without writing its results again", "after the attempt has taken (or replayed) a value Get can still replace its results - e.g. by a late check of the caller's context - so a Get fails although it consumed a value, which is then never returned"), site)
				}
			}
			// the receiver is reached through a captured cell: name it from a field load
			rbLoads := an.FieldLoads(a.fn, "Channel.rollback")
			bufLoads := an.FieldLoads(a.fn, "Channel.buffer")
			if a.need(rbLoads, "LIN", "load of Channel.rollback") && a.need(bufLoads, "LIN", "load of Channel.buffer") {
				rb := P.Lin(rbLoads[0].(*ssa.UnOp))
				ln := an.LinAtom("len(" + P.PathAtom(P.Eval(nil, bufLoads[0].(*ssa.UnOp).X)) + ")")
				// replay element
				elems := an.AllInstrs(a.fn, func(in ssa.Instruction) bool {
					ia, ok := in.(*ssa.IndexAddr)
					return ok && an.IsLoadOfField(ia.X, "Channel.buffer")
				})
				if a.need(elems, "LIN", "replay element buffer[len-rollback]") {
					for _, e := range elems {
						a.expectLin("LIN", "replay index = len(buffer) - rollback", e.(*ssa.IndexAddr).Index, ln.Minus(rb), e)
						got := P.PathCond(a.fn, nil, e, keepForms(rb))
						ok, cex := an.EquivDNF(got, an.DNF{conj(lit(rb, an.SPos))})
						a.add("COND", "replay branch iff rollback > 0", ok, pickS(ok, "reached iff rollback > 0", "replay is attempted iff ["+got.String()+"]; "+cex), e)
					}
				}
				for _, s := range an.FieldStores(a.fn, "Channel.rollback") {
					a.expectLin("LIN", "rollback decreases by exactly one per replayed value", s.(*ssa.Store).Val, rb.AddC(-1), s)
					got := P.PathCond(a.fn, nil, s, keepForms(rb))
					ok, _ := an.EquivDNF(got, an.DNF{conj(lit(rb, an.SPos))})
					a.add("COND", "rollback is decremented only while positive", ok, "store reached iff rollback > 0", s)
				}
				// source is polled only while nothing is left to replay
				trs := P.CallsTo(a.fn, "(reflect.Value).TryRecv")
				for _, t := range trs {
					got := P.PathCond(a.fn, nil, t, keepForms(rb))
					ok, cex := an.EquivDNF(got, an.DNF{conj(lit(rb, an.SNeg|an.SZero))})
					a.add("COND", "the source is read only when nothing is left to replay", ok, pickS(ok, "TryRecv reached iff rollback <= 0", "TryRecv is reached iff ["+got.String()+"]; "+cex), t)
				}
			}
			// closed check before any state change
			errCalls := an.AllInstrs(a.fn, func(in ssa.Instruction) bool {
				call, ok := in.(*ssa.Call)
				return ok && call.Call.IsInvoke() && call.Call.Method.Name() == "Err" && an.IsLoadOfField(call.Call.Value, "Channel.ctx")
			})
			muts := append(an.FieldStores(a.fn, "Channel.buffer"), an.FieldStores(a.fn, "Channel.rollback")...)
			muts = append(muts, P.CallsTo(a.fn, "(reflect.Value).TryRecv")...)
			if a.need(errCalls, "PATH", "c.ctx.Err() check") {
				for _, m := range muts {
					ok := P.Before(a.fn, an.In(errCalls), m) && a.onlyAfterSuccess(errCalls[0], m)
					a.add("PATH", "a closed Channel takes nothing and changes nothing", ok,
						pickS(ok, "dominated by the c.ctx.Err() check and reached only through its nil edge", "the Channel's state (or its source) is touched without first checking, in the same hold, that the Channel is not closed"), m)
				}
			}
			// append only if TryRecv ok, value is v.Interface()
			trs := P.CallsTo(a.fn, "(reflect.Value).TryRecv")
			for _, s := range an.FieldStores(a.fn, "Channel.buffer") {
				st := s.(*ssa.Store)
				call, isCall := st.Val.(*ssa.Call)
				good := false
				if isCall && len(trs) == 1 {
					if b, isB := call.Call.Value.(*ssa.Builtin); isB && b.Name() == "append" && an.IsLoadOfField(call.Call.Args[0], "Channel.buffer") {
						okv := resultOf(trs[0], 1)
						if okv != nil {
							ifs, negs := P.IfsOn(a.fn, func(cond ssa.Value) bool { return cond == okv })
							if len(ifs) == 1 {
								ts := 0
								if negs[0] {
									ts = 1
								}
								good = a.onlyViaEdge(s, ifs[0], ts)
							}
						}
					}
				}
				a.add("PATH", "a value is buffered only if TryRecv delivered one", good, pickS(good, "append reached only through ok == true (a closed source never yields zero values)", "values are appended without TryRecv having reported ok"), s)
				// appended element is v.Interface()
				if isCall {
					okp := false
					if sl, ok := call.Call.Args[1].(*ssa.Slice); ok {
						if arr, ok := sl.X.(*ssa.Alloc); ok {
							for _, r := range *arr.Referrers() {
								if ia, ok := r.(*ssa.IndexAddr); ok {
									for _, r2 := range *ia.Referrers() {
										if stv, ok := r2.(*ssa.Store); ok {
											for _, src := range P.Sources(stv.Val) {
												if P.IsCallResult(src, "(reflect.Value).Interface", 0) {
													okp = true
												}
											}
										}
									}
								}
							}
						}
					}
					a.add("PROV", "the buffered value is the received one", okp, "appended element is v.Interface()", s)
				}
			}
			// no blocking receive on the source anywhere
			var bad []ssa.Instruction
			for _, fn := range P.Funcs {
				for _, n := range []string{"(reflect.Value).Recv", "reflect.Select"} {
					for _, in := range P.CallsTo(fn, n) {
						if an.FuncName(fn) != "(*Notifier).PublishContext" {
							bad = append(bad, in)
						}
					}
				}
			}
			a.add("WR", "the source is received from only by TryRecv", len(bad) == 0, "no Recv/Select on the source", bad...)
		}
	}
	// ---- Commit
	if q := c.F("(*Channel).Commit"); q.ok() {
		recv := q.param(0)
		pend := aLen(recv + ".buffer").Minus(aF(recv + ".rollback"))
		sts := an.FieldStores(q.fn, "Channel.buffer")
		if q.need(sts, "LIN", "reslice of Channel.buffer") {
			for _, s := range sts {
				sl, ok := s.(*ssa.Store).Val.(*ssa.Slice)
				good := ok && an.IsLoadOfField(sl.X, "Channel.buffer") && sl.High == nil && sl.Low != nil
				q.add("WR", "Commit only drops a prefix of the pending buffer", good, "store is buffer[n:]", s)
				if good {
					q.expectLin("LIN", "Commit drops exactly the delivered entries (len - rollback)", sl.Low, pend, s)
				}
				got := P.PathCond(q.fn, nil, s, keepForms(pend))
				okc, cex := an.EquivDNF(got, an.DNF{conj(lit(pend, an.SNeg|an.SPos))})
				q.add("COND", "Commit acts iff something was delivered", okc, pickS(okc, "reached iff len - rollback != 0", "the drop is reached iff ["+got.String()+"]; "+cex), s)
			}
		}
		for _, in := range an.AllInstrs(q.fn, func(in ssa.Instruction) bool {
			st, ok := in.(*ssa.Store)
			if !ok {
				return false
			}
			ia, ok := st.Addr.(*ssa.IndexAddr)
			return ok && an.IsLoadOfField(ia.X, "Channel.buffer")
		}) {
			st := in.(*ssa.Store)
			d := P.Lin(st.Addr.(*ssa.IndexAddr).Index).Minus(pend)
			g := P.PathCond(q.fn, nil, in, keepForms(d))
			okb := len(g) > 0 && isNilConst(st.Val)
			if okb {
				okb, _ = an.ImpliesDNF(g, an.DNF{conj(lit(d, an.SNeg))})
			}
			if !okb && isNilConst(st.Val) {
				// a counted loop over [lo, hi) whose counter is the index (also in its rotated / range-over-int form)
				if ph, isPh := st.Addr.(*ssa.IndexAddr).Index.(*ssa.Phi); isPh {
					if hi, _, lo, okl := loopBound(P, in); okl && lo >= 0 && hi != nil && P.Lin(hi).Equal(pend) {
						counter := false
						for _, e := range ph.Edges {
							if bo, isB := e.(*ssa.BinOp); isB && bo.Op == token.ADD && bo.X == ssa.Value(ph) {
								counter = true
							}
						}
						okb = counter
					}
				}
			}
			q.add("COND", "only delivered entries are nil-ed", okb, pickS(okb, "index < len - rollback and value nil", "an entry that was not delivered can be nil-ed (index < len - rollback not established: "+g.String()+"; index form "+d.String()+")"), in)
		}
		for _, r := range returnsOf(q.fn) {
			if allNil(c.retVals(r, 0)) {
				continue
			}
			clean := true
			for _, s := range sts {
				if P.PathExists(q.fn, s, an.Is(r), nil, nil) {
					clean = false
				}
			}
			q.add("PATH", "a failing Commit changes nothing", clean, "no store precedes the error return", r)
		}
		q.add("WR", "Commit does not touch the replay counter", len(an.FieldStores(q.fn, "Channel.rollback")) == 0, "no store to Channel.rollback")
	}
	// ---- Rollback
	if q := c.F("(*Channel).Rollback"); q.ok() {
		recv := q.param(0)
		pend := aLen(recv + ".buffer").Minus(aF(recv + ".rollback"))
		sts := an.FieldStores(q.fn, "Channel.rollback")
		if q.need(sts, "LIN", "store to Channel.rollback") {
			for _, s := range sts {
				q.expectLin("LIN", "Rollback marks every buffered entry for replay (rollback = len(buffer))", s.(*ssa.Store).Val, aLen(recv+".buffer"), s)
				got := P.PathCond(q.fn, nil, s, keepForms(pend))
				okc, cex := an.EquivDNF(got, an.DNF{conj(lit(pend, an.SNeg|an.SPos))})
				q.add("COND", "Rollback acts iff something was delivered", okc, pickS(okc, "reached iff len - rollback != 0", "reached iff ["+got.String()+"]; "+cex), s)
			}
		}
		q.add("WR", "Rollback does not drop buffered values", len(an.FieldStores(q.fn, "Channel.buffer")) == 0, "no store to Channel.buffer")
	}
	// ---- Buffer() copies
	if q := c.F("(*Channel).Buffer"); q.ok() {
		cps := P.CallsTo(q.fn, "builtin:copy")
		if q.need(cps, "ESC", "copy of the pending buffer") {
			dst, src := callArg(cps[0], 0), callArg(cps[0], 1)
			mk, isMk := dst.(*ssa.MakeSlice)
			ok := an.IsLoadOfField(src, "Channel.buffer") && isMk && P.Lin(mk.Len).Equal(aLen(q.param(0)+".buffer"))
			q.add("ESC", "Buffer() returns a full copy", ok, "copy(make([]T, len(buffer)), buffer)", cps[0])
			// the copy is skipped only for a nil/empty buffer (not, e.g., when everything is rolled back)
			got := P.PathCond(q.fn, nil, cps[0], nil)
			okg := len(got) > 0
			for _, f := range got.Forms() {
				if !(strings.Contains(f, q.param(0)+".buffer") && !strings.Contains(f, "rollback")) {
					okg = false
				}
			}
			q.add("COND", "Buffer() returns every taken-but-uncommitted value (skips the copy only for an empty buffer)", okg,
				pickS(okg, "the copy depends only on the buffer being non-nil/non-empty", "Buffer() can return nil although uncommitted values are buffered: "+got.String()), cps[0])
		}
	}
	// ---- Close: cancel then close(done), inside the Once and the hold
	channelClose(c)
}

func channelClose(c *Ctx) {
	P := c.P
	q := c.F("(*Channel).Close")
	if !q.ok() {
		return
	}
	cls := closuresOf(q.fn, func(f *ssa.Function) bool { return len(P.CallsTo(f, "field:Channel.cancel")) > 0 })
	if len(cls) != 1 {
		q.undecided("PATH", "close body", "expected one closure of Channel.Close calling c.cancel")
		return
	}
	b := &fq{c: c, fn: cls[0], name: an.FuncName(cls[0])}
	cancel := P.CallsTo(b.fn, "field:Channel.cancel")[0]
	closes := an.AllInstrs(b.fn, func(in ssa.Instruction) bool {
		cc := an.CallCommonOf(in)
		if cc == nil {
			return false
		}
		bi, ok := cc.Value.(*ssa.Builtin)
		return ok && bi.Name() == "close" && an.IsLoadOfField(cc.Args[0], "Channel.done")
	})
	if b.need(closes, "ONCE", "close(c.done)") {
		cl := closes[0]
		_, deferred := cl.(*ssa.Defer)
		ok := deferred || P.Before(b.fn, an.Is(cancel), cl)
		b.add("PATH", "Done is closed only after the context is cancelled", ok, pickS(ok, "close(done) is deferred / follows cancel()", "done can be closed before the context is cancelled: a Get could still take a value after Done"), cl)
		b.add("ONCE", "close(c.done) happens once", len(closes) == 1 && !P.InCycle(cl), "single close site inside the Once body", cl)
	}
	// the closure is the argument of Once.Do
	dos := P.CallsTo(q.fn, "(*sync.Once).Do")
	okd := false
	for _, d := range dos {
		if mc, ok := callArg(d, 1).(*ssa.MakeClosure); ok && mc.Fn == ssa.Value(b.fn) {
			okd = true
		}
	}
	q.add("ONCE", "the close body runs under sync.Once", okd, "passed to c.close.Do", dos...)
}

func channelErrs(c *Ctx) { c.errPolarity("(*Channel).Get", "(*Channel).Commit") }

func init() {
	register(&Prop{
		ID:        "C13",
		Technique: "representation-invariant audit of Channel (linear forms, path-condition equivalence, only-via-edge rules on SSA) plus guarded-by and atomic-section typestate from the lock simulator",
		Explanation: "buffer and rollback are accessed only under Channel.mutex and each operation is one uninterrupted hold; Get replays buffer[len - rollback] and decrements rollback by one iff rollback > 0, otherwise polls the source with TryRecv only, appends v.Interface() only if ok, and touches nothing unless c.ctx.Err() == nil was checked in the same hold; " +
			"Commit drops exactly the first len - rollback entries (nil-ing only those) and fails, changing nothing, iff that is 0 or the Channel is closed; Rollback sets rollback = len(buffer) and fails iff nothing was delivered; Buffer() returns a copy; Close cancels inside the hold and closes done after it, once.",
		NotDecided: "linearizability as a statement over histories (each operation being one critical section of one mutex is decided; the real-time order is the mutex's); what is left in the source channel.",
		Build: func(c *Ctx) []*an.Oblig {
			channelRules(c)
			channelErrs(c)
			mark13 := len(c.C.List)
			goxRules(c)
			onceRules(c)
			var keep13 []*an.Oblig
			for i, o := range c.C.List {
				if i < mark13 || funcHas(o, "(*Channel)") {
					keep13 = append(keep13, o)
				}
			}
			c.C.List = keep13
			out := c.sel(func(o *an.Oblig) bool {
				if isUndecided(o) || o.Rule == "ANCHOR" {
					return true
				}
				if ruleIn(o, "G", "AT", "REQ", "P", "ESC") && funcHas(o, "(*Channel)") {
					return true
				}
				return false
			})
			return append(out, c.C.List...)
		},
		Floors: []Floor{
			floorRule("LIN", "LIN", 4),
			floorRule("COND", "COND", 6),
			floorKey("Get closed-check", 2, "PATH/(*Channel).Get$call1/"),
			floorKey("G Channel.buffer", 4, "G/", "Channel.buffer"),
			floorKey("G Channel.rollback", 4, "G/", "Channel.rollback"),
			floorKey("AT Channel", 5, "AT/(*Channel)"),
			floorKey("Close", 3, "/(*Channel).Close"),
		},
	})
}
