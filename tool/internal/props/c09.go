package props

import (
	"fmt"
	"go/token"
	"go/types"
	"strings"

	"golang.org/x/tools/go/ssa"

	"bbcheck/internal/an"
)

type exclusiveAnchors struct {
	call, runner, resolve, body *fq
	work                        ssa.Instruction // item.work(resolve)
	succ                        *ssa.Alloc      // the successor item
	itemCell                    *ssa.Alloc
}

func exclusiveAnchorsOf(c *Ctx) *exclusiveAnchors {
	P := c.P
	succProg = P
	a := &exclusiveAnchors{call: c.F("(*Exclusive).call")}
	if !a.call.ok() {
		return nil
	}
	rs := closuresOf(a.call.fn, func(f *ssa.Function) bool { return len(P.CallsTo(f, "field:exclusiveItem.work")) > 0 })
	if len(rs) != 1 {
		a.call.undecided("PATH", "runner goroutine", "expected one closure of Exclusive.call that calls item.work")
		return nil
	}
	a.runner = &fq{c: c, fn: rs[0], name: an.FuncName(rs[0])}
	a.work = P.CallsTo(a.runner.fn, "field:exclusiveItem.work")[0]
	for _, in := range an.AllInstrs(a.runner.fn, func(in ssa.Instruction) bool {
		al, ok := in.(*ssa.Alloc)
		if !ok {
			return false
		}
		n, ok := al.Type().Underlying().(*types.Pointer).Elem().(*types.Named)
		return ok && n.Obj().Name() == "exclusiveItem"
	}) {
		a.succ = in.(*ssa.Alloc)
	}
	if a.succ == nil {
		a.runner.undecided("PATH", "successor item", "no successor exclusiveItem is allocated by the runner")
		return nil
	}
	a.itemCell = nil
	rv := closuresOf(a.runner.fn, func(f *ssa.Function) bool { return len(P.CallsTo(f, "(*sync.Once).Do")) > 0 })
	if len(rv) == 1 {
		a.resolve = &fq{c: c, fn: rv[0], name: an.FuncName(rv[0])}
		if len(rv[0].AnonFuncs) == 1 {
			a.body = &fq{c: c, fn: rv[0].AnonFuncs[0], name: an.FuncName(rv[0].AnonFuncs[0])}
		}
	}
	return a
}

// succProg resolves "is this value the successor item" through transparent helpers (set by exclusiveAnchorsOf).
var succProg *an.Prog

func isSucc(v ssa.Value, succ *ssa.Alloc) bool {
	if v == ssa.Value(succ) {
		return true
	}
	if succProg != nil {
		srcs := succProg.Sources(v)
		return len(srcs) == 1 && srcs[0] == ssa.Value(succ)
	}
	return false
}

func isSuccField(v ssa.Value, succ *ssa.Alloc, field string) bool {
	fa, ok := v.(*ssa.FieldAddr)
	return ok && isSucc(fa.X, succ) && an.FieldOfAddr(fa) == field
}

func exclusiveC09(c *Ctx) {
	a := exclusiveAnchorsOf(c)
	if a == nil {
		return
	}
	P := c.P
	r := a.runner
	// 1. successor.running = false only after the work function returned, and on every normal path
	var clears []ssa.Instruction
	for _, in := range an.FieldStores(r.fn, "exclusiveItem.running") {
		st := in.(*ssa.Store)
		if !isSuccField(st.Addr, a.succ, "exclusiveItem.running") {
			continue
		}
		if b, isB := constBool(st.Val); isB && !b {
			clears = append(clears, in)
			ok := P.Before(r.fn, an.Is(a.work), in)
			r.add("PATH", "the successor's running flag is cleared only after the work function returned", ok,
				pickS(ok, "the store is dominated by the return of item.work(resolve)", "the successor's running flag can be cleared before the work function has returned: the next execution for the key could overlap this one"), in)
		}
	}
	okAll := len(clears) > 0 && P.AfterAll(r.fn, a.work, an.In(clears))
	r.add("PATH", "the successor is always released after the work returned", okAll, pickS(okAll, "every normal path after the work call clears successor.running", "a path after the work call never clears the successor's running flag: later calls for the key would wait for ever"), a.work)
	// the successor must not be reachable from resolve (it would allow clearing the flag at resolve time)
	shared := false
	for _, in := range an.AllInstrs(r.fn, func(in ssa.Instruction) bool { _, ok := in.(*ssa.MakeClosure); return ok }) {
		// (a literal that is invoked on the spot runs as part of the runner itself: it is not handed to anybody)
		if lf, isF := in.(*ssa.MakeClosure).Fn.(*ssa.Function); isF && (an.ClosureRole(lf) == "call" || an.IsTransparent(lf)) {
			continue
		}
		for _, b := range in.(*ssa.MakeClosure).Bindings {
			if isSucc(b, a.succ) {
				shared = true
			}
			if cell, ok := b.(*ssa.Alloc); ok {
				for _, st := range P.CellStores(cell) {
					if isSucc(st.Val, a.succ) {
						shared = true
					}
				}
			}
		}
	}
	r.add("WR", "only the runner (not resolve) can touch the successor", !shared, pickS(!shared, "the successor item is not captured by any closure", "the successor item is captured by a closure (resolve): its running flag could be cleared when the work resolves instead of when it returns"))
	// 2. allocated running, installed before the work call
	initTrue := false
	for _, in := range an.FieldStores(r.fn, "exclusiveItem.running") {
		st := in.(*ssa.Store)
		if isSuccField(st.Addr, a.succ, "exclusiveItem.running") {
			if b, isB := constBool(st.Val); isB && b {
				initTrue = true
			}
		}
	}
	installs := an.AllInstrs(r.fn, func(in ssa.Instruction) bool {
		mu, ok := in.(*ssa.MapUpdate)
		return ok && an.IsLoadOfField(mu.Map, "Exclusive.work") && isSucc(mu.Value, a.succ)
	})
	r.add("PATH", "the successor is created already running", initTrue, pickS(initTrue, "running: true in the composite literal", "the successor item is not marked running when installed: a new call could start while this work runs"))
	if r.need(installs, "PATH", "e.work[key] = successor") {
		ok := P.Before(r.fn, an.Is(installs[0]), a.work)
		r.add("PATH", "the successor is installed before the work starts", ok, pickS(ok, "map update dominates the work call", "the work can start before the successor replaced the item in the map: later calls could share this execution"), installs[0])
	}
	// 3. runner election in one hold
	var sets []ssa.Instruction
	for _, in := range an.FieldStores(r.fn, "exclusiveItem.running") {
		st := in.(*ssa.Store)
		if isSuccField(st.Addr, a.succ, "exclusiveItem.running") {
			continue
		}
		if b, isB := constBool(st.Val); isB && b {
			sets = append(sets, in)
		}
	}
	if r.need(sets, "PATH", "item.running = true") {
		set := sets[0]
		unlocks := P.CallsTo(r.fn, "(*sync.Mutex).Unlock")
		broken := false
		for _, u := range unlocks {
			if P.PathExists(r.fn, nil, an.Is(u), nil, nil) && P.PathExists(r.fn, u, an.Is(set), nil, nil) {
				broken = true
			}
		}
		r.add("PATH", "the runner claims the item in the hold in which it saw it idle", !broken, pickS(!broken, "no Unlock lies between the goroutine's start (lock handed over) / its last Wait and running = true", "the item mutex is released between observing running == false and setting running = true: two runners could claim the item"), set)
		ifr, negr := P.IfsOn(r.fn, func(cond ssa.Value) bool { return an.IsLoadOfField(cond, "exclusiveItem.running") })
		ifc, negc := P.IfsOn(r.fn, func(cond ssa.Value) bool { return an.IsLoadOfField(cond, "exclusiveItem.complete") })
		ok := len(ifr) == 1 && len(ifc) == 1
		if ok {
			fs := func(neg bool) int {
				if neg {
					return 0
				}
				return 1
			}
			ok = r.onlyViaEdge(set, ifr[0], fs(negr[0])) && r.onlyViaEdge(set, ifc[0], fs(negc[0]))
		}
		r.add("PATH", "an item is claimed only when it is neither running nor complete", ok, "running = true reached only through running == false and complete == false", set)
	}
	// 5. lock objects are per key
	for _, fn := range P.Funcs {
		for _, in := range an.FieldStores(fn, "exclusiveItem.mutex") {
			st := in.(*ssa.Store)
			_, fresh := st.Val.(*ssa.Alloc)
			val := st.Val
			if !fresh && !an.IsLoadOfField(val, "exclusiveItem.mutex") {
				// a local alias of the predecessor's mutex (mu := item.mutex, possibly captured)
				if srcs := P.Sources(val); len(srcs) == 1 {
					val = srcs[0]
					_, fresh = val.(*ssa.Alloc)
				}
			}
			same := an.IsLoadOfField(val, "exclusiveItem.mutex")
			if same {
				// must be the predecessor in the same map slot (the captured current item)
				ld, _ := isLoad(val)
				base := ld.X.(*ssa.FieldAddr).X
				srcs := P.Sources(base)
				okb := len(srcs) > 0
				for _, s := range srcs {
					if isNilConst(s) {
						continue // a nil item has no mutex to inherit (reading it would panic)
					}
					if ex, isEx := s.(*ssa.Extract); isEx {
						s = ex.Tuple
					}
					if lk, isLk := s.(*ssa.Lookup); isLk && an.IsLoadOfField(lk.X, "Exclusive.work") {
						continue // the item found in the map
					}
					if al, isAl := s.(*ssa.Alloc); isAl {
						// ... or the item this call has just created and put into the map
						inMap := false
						for _, mu := range an.AllInstrs(al.Parent(), func(in ssa.Instruction) bool { _, ok := in.(*ssa.MapUpdate); return ok }) {
							m := mu.(*ssa.MapUpdate)
							if an.IsLoadOfField(m.Map, "Exclusive.work") && srcIs(P, m.Value, al) {
								inMap = true
							}
						}
						if inMap {
							continue
						}
					}
					okb = false
				}
				same = okb
			}
			(&fq{c: c, fn: fn, name: an.FuncName(fn)}).add("PROV", "an item's mutex is fresh or inherited from its predecessor for the same key", fresh || same,
				pickS(fresh || same, "no lock object is shared across keys", "an item's mutex comes from somewhere else: keys would be serialised against each other"), in)
		}
	}
}

func exclusiveC10(c *Ctx) {
	a := exclusiveAnchorsOf(c)
	if a == nil {
		return
	}
	P := c.P
	q := a.call
	// 0. "wait <= 0 is ignored": the runner sleeps only when the item's wait is positive. (item.wait - time.Since(ts)
	// wraps around for a wait near the minimum Duration - e.g. time.Time{}.Sub(time.Now()) - and would sleep ~292 years
	// with the key occupied: that call, and every later one for the key, would never be answered.)
	{
		r := a.runner
		sleeps := P.CallsTo(r.fn, "time.Sleep")
		var waitLd ssa.Value
		for _, in := range an.AllInstrs(r.fn, func(in ssa.Instruction) bool {
			u, ok := in.(*ssa.UnOp)
			return ok && u.Op == token.MUL && an.FieldOfAddr(u.X) == "exclusiveItem.wait"
		}) {
			waitLd = in.(*ssa.UnOp)
		}
		if len(sleeps) == 0 {
			r.add("COND", "the runner sleeps only for a positive wait", true, "the runner never sleeps")
		} else if waitLd == nil {
			r.undecided("COND", "the runner sleeps only for a positive wait", "the runner sleeps but never reads item.wait", sleeps[0])
		} else {
			wl := P.Lin(waitLd)
			for _, sl := range sleeps {
				got := P.PathCond(r.fn, nil, sl, keepForms(wl))
				ok := len(got) > 0
				if ok {
					ok, _ = an.ImpliesDNF(got, an.DNF{conj(lit(wl, an.SPos))})
				}
				r.add("COND", "the runner sleeps only for a positive wait", ok,
					pickS(ok, "time.Sleep is reached only where item.wait > 0 was established", "time.Sleep is reachable without item.wait > 0 having been tested: the remaining-wait subtraction wraps around for a wait near the minimum Duration and the runner would sleep for centuries holding the key; paths: "+got.String()), sl)
			}
		}
	}
	// 0a. the wait is a single bounded sleep measured from a start time that is fixed by the first caller: the sleep is
	// not repeated, and item.ts is written only while it is still the zero time (a start time refreshed by every
	// attaching call, re-read by a sleeping runner, postpones the execution for as long as calls keep arriving)
	{
		r := a.runner
		for _, sl := range P.CallsTo(r.fn, "time.Sleep") {
			r.add("PATH", "the runner waits at most once before executing", !P.InCycle(sl), pickS(!P.InCycle(sl), "time.Sleep is not in a loop", "the runner's wait is repeated in a loop: calls that keep attaching can postpone the execution indefinitely"), sl)
		}
		for _, st := range an.FieldStores(q.fn, "exclusiveItem.ts") {
			if _, isAlloc := st.(*ssa.Store).Addr.(*ssa.FieldAddr).X.(*ssa.Alloc); isAlloc {
				continue
			}
			zifs, znegs := P.IfsOn(q.fn, func(cond ssa.Value) bool {
				b, ok := cond.(*ssa.BinOp)
				if !ok || (b.Op != token.EQL && b.Op != token.NEQ) {
					return false
				}
				zero := func(v ssa.Value) bool { k, isK := v.(*ssa.Const); return isK && k.Value == nil }
				return either(b, loadOfField("exclusiveItem.ts"), zero)
			})
			// (or item.ts.IsZero())
			cifs, cnegs := P.IfsOn(q.fn, func(cond ssa.Value) bool {
				call, ok := cond.(*ssa.Call)
				return ok && P.CalleeName(&call.Call) == "(time.Time).IsZero" && len(call.Call.Args) == 1 && loadOfField("exclusiveItem.ts")(call.Call.Args[0])
			})
			okz := false
			for i, zi := range cifs {
				zs := 0
				if cnegs[i] {
					zs = 1
				}
				if q.onlyViaEdge(st, zi, zs) {
					okz = true
				}
			}
			for i, zi := range zifs {
				zs := 0
				if znegs[i] {
					zs = 1
				}
				if stripNotV(zi.Cond).(*ssa.BinOp).Op == token.NEQ {
					zs = 1 - zs
				}
				if q.onlyViaEdge(st, zi, zs) {
					okz = true
				}
			}
			q.add("PATH", "the batch's start time is set once, by its first caller", okz, pickS(okz, "item.ts is stored only where it was still the zero time", "item.ts is overwritten by later callers: the remaining wait is measured from the last call instead of the first"), st)
		}
	}
	// 0b. a rejected call (nil receiver or work) leaves nothing behind: no panic is reachable once the key's entry exists
	{
		var ups []ssa.Instruction
		for _, in := range an.AllInstrs(q.fn, func(in ssa.Instruction) bool {
			mu, ok := in.(*ssa.MapUpdate)
			return ok && an.IsLoadOfField(mu.Map, "Exclusive.work")
		}) {
			ups = append(ups, in)
		}
		for _, u := range ups {
			okp := !P.PathExists(q.fn, u, an.IsPanic, nil, nil)
			q.add("PATH", "a rejected call leaves no per-key state behind", okp, pickS(okp, "no panic is reachable after the key's entry was created", "call can panic after it created the entry for the key: an idle item stays in the map for ever"), u)
		}
	}
	// 1. attach only to the item currently in the map
	eqIfs, negs := P.IfsOn(q.fn, func(cond ssa.Value) bool {
		b, ok := cond.(*ssa.BinOp)
		if !ok || (b.Op != token.EQL && b.Op != token.NEQ) {
			return false
		}
		isLk := func(v ssa.Value) bool {
			switch x := v.(type) {
			case *ssa.Lookup:
				return an.IsLoadOfField(x.X, "Exclusive.work")
			case *ssa.Extract:
				if lk, ok := x.Tuple.(*ssa.Lookup); ok {
					return an.IsLoadOfField(lk.X, "Exclusive.work")
				}
			}
			return false
		}
		// (the item itself may be the result of the earlier lookup, not a variable it was stored into)
		// (a defensive `v != nil` on the looked-up entry is not the validity test)
		return (isLk(b.X) || isLk(b.Y)) && b.X != b.Y && !isNilConst(b.X) && !isNilConst(b.Y)
	})
	if len(eqIfs) != 1 {
		q.undecided("PATH", "validity test e.work[key] == item", "the re-validation of the item against the map was not found as a single equality test")
	} else {
		// ts: the successor taken when the map's entry IS the item
		ts := 0
		if negs[0] {
			ts = 1
		}
		if stripNotV(eqIfs[0].Cond).(*ssa.BinOp).Op == token.NEQ {
			ts = 1 - ts
		}
		for _, f := range []string{"exclusiveItem.work", "exclusiveItem.wait", "exclusiveItem.count", "exclusiveItem.ts"} {
			for _, s := range an.FieldStores(q.fn, f) {
				if _, isAlloc := s.(*ssa.Store).Addr.(*ssa.FieldAddr).X.(*ssa.Alloc); isAlloc {
					continue // initialisation of a fresh item
				}
				ok := q.onlyViaEdge(s, eqIfs[0], ts)
				q.add("PATH", "a call attaches only to the item currently in the map ("+f+")", ok,
					pickS(ok, "the store is reachable only through e.work[key] == item", "a call can register itself on an item that is no longer the map's entry for the key: it could be answered by an execution begun before it, or run concurrently with another execution for the key"), s)
			}
		}
		// the start-style fast path: returns nil only after having attached (count++) to a valid item
		cnts := an.FieldStores(q.fn, "exclusiveItem.count")
		for _, r := range returnsOf(q.fn) {
			vs := c.retVals(r, 0)
			if !allNil(vs) {
				continue
			}
			okr := len(cnts) > 0 && P.Before(q.fn, an.In(cnts), r) && q.onlyViaEdge(r, eqIfs[0], ts)
			q.add("PATH", "a Start returns early only after it attached to the item currently in the map", okr,
				pickS(okr, "the nil return is dominated by count++ and reached only through e.work[key] == item", "a start-style call can return without having attached to a valid item: no execution would follow that Start"), r)
			// ... and only if it is not the first caller of the item (the first one spawns the runner): reached only through
			// the "!= 1" edge of a test of the incremented count
			cifs, cnegs := P.IfsOn(q.fn, func(cond ssa.Value) bool {
				b, ok := cond.(*ssa.BinOp)
				if !ok || (b.Op != token.EQL && b.Op != token.NEQ) {
					return false
				}
				return either(b, loadOfField("exclusiveItem.count"), func(v ssa.Value) bool { k, isK := constInt(v); return isK && k == 1 })
			})
			okc := false
			for i, ci := range cifs {
				ne := 0 // successor taken when count != 1
				if cnegs[i] {
					ne = 1
				}
				if stripNotV(ci.Cond).(*ssa.BinOp).Op == token.EQL {
					ne = 1 - ne
				}
				if q.onlyViaEdge(r, ci, ne) && P.Before(q.fn, an.In(cnts), ci) {
					okc = true
				}
			}
			q.add("PATH", "a Start returns early only if an earlier caller of the item spawns the runner", okc,
				pickS(okc, "the nil return is reached only through count != 1 (tested after count++)", "the first caller of an item can take the start-style early return: nobody would run the work"), r)
		}
		for _, s := range an.FieldStores(q.fn, "exclusiveItem.count") {
			if ld, isL := isLoad(s.(*ssa.Store).Addr.(*ssa.FieldAddr).X); isL {
				base := P.PathAtom(P.Eval(nil, ld))
				_ = base
			}
			lv := P.Lin(s.(*ssa.Store).Val)
			one := false
			for _, ldc := range an.FieldLoads(q.fn, "exclusiveItem.count") {
				if lv.Equal(P.Lin(ldc.(*ssa.UnOp)).AddC(1)) {
					one = true
				}
			}
			q.add("LIN", "each attached call is counted once", one, "count = count + 1", s)
		}
	}
	// outcome channel
	mks := an.AllInstrs(q.fn, func(in ssa.Instruction) bool { _, ok := in.(*ssa.MakeChan); return ok })
	if q.need(mks, "GOX", "outcome channel") {
		cv, isC := constInt(mks[0].(*ssa.MakeChan).Size)
		q.add("GOX", "the outcome channel is buffered", isC && cv >= 1, pickS(isC && cv >= 1, "make(chan, 1): delivering the outcome never blocks the runner", "the outcome channel is unbuffered: an async caller that never receives would block the runner for ever"), mks[0])
	}
	r := a.runner
	// 3. resolve
	if a.resolve == nil || a.body == nil {
		r.add("ONCE", "resolve is once-only", false, "resolve is no longer a closure whose body is a single sync.Once.Do(...) call: two racing resolve calls could both deliver")
	} else {
		rs := a.resolve
		var others []ssa.Instruction
		dos := P.CallsTo(rs.fn, "(*sync.Once).Do")
		for _, in := range an.AllInstrs(rs.fn, func(in ssa.Instruction) bool {
			switch x := in.(type) {
			case *ssa.Call:
				return true
			case *ssa.Store:
				_, local := x.Addr.(*ssa.Alloc)
				return !local
			case *ssa.Send, *ssa.MapUpdate, *ssa.Go:
				return true
			}
			return false
		}) {
			if !an.In(dos)(in) {
				others = append(others, in)
			}
		}
		okr := len(dos) == 1 && len(others) == 0
		if okr {
			_, isAlloc := callArg(dos[0], 0).(*ssa.Alloc)
			okr = isAlloc || P.CellOf(callArg(dos[0], 0)) != nil
		}
		rs.add("ONCE", "resolve is once-only", okr, pickS(okr, "the body is exactly once.Do(...) on the per-execution Once", "resolve does something outside once.Do: "+instrs(others)), dos...)
		// forced resolve after the work
		forced := an.AllInstrs(r.fn, func(in ssa.Instruction) bool {
			call, ok := in.(*ssa.Call)
			if !ok || in == a.work {
				return false
			}
			mc, ok := call.Call.Value.(*ssa.MakeClosure)
			if !ok || mc.Fn != ssa.Value(rs.fn) {
				return false
			}
			if len(call.Call.Args) != 2 || !isNilConst(call.Call.Args[0]) {
				return false
			}
			ld, isL := isLoad(call.Call.Args[1])
			if !isL {
				return false
			}
			g, isG := ld.X.(*ssa.Global)
			return isG && g.Name() == "errResolveNotCalled"
		})
		okf := len(forced) > 0 && P.AfterAll(r.fn, a.work, an.In(forced))
		r.add("PATH", "resolve is forced with errResolveNotCalled after the work function returns", okf,
			pickS(okf, "resolve(nil, errResolveNotCalled) follows the work call on every normal path", "after the work function returns, resolve(nil, errResolveNotCalled) is not called on every path: a work function that never resolves would leave coalesced callers waiting for ever"), a.work)
		// the body: sends+close only if outcome != nil; stores result, err, complete, running=false, broadcast
		b := a.body
		sends := an.AllInstrs(b.fn, func(in ssa.Instruction) bool { _, ok := in.(*ssa.Send); return ok })
		if b.need(sends, "PATH", "delivery of the outcome") {
			closes := P.CallsTo(b.fn, "builtin:close")
			okc := len(sends) == 1 && len(closes) == 1 && P.AfterAll(b.fn, sends[0], an.In(closes)) && !P.InCycle(sends[0])
			b.add("ONCE", "the runner's outcome is sent once and the channel closed", okc, "one send followed by close on every path", sends[0])
			ifn, nilSucc, found := b.nilTestOf(sameChanVar(P, sends[0].(*ssa.Send).Chan))
			okn := found && b.onlyViaEdge(sends[0], ifn, 1-nilSucc)
			b.add("PATH", "start-style calls have no outcome to deliver", okn, "send reached only through outcome != nil", sends[0])
			own := ownOutcome(sends[0].(*ssa.Send))
			b.add("PROV", "the runner's caller receives an outcome object of its own", own, pickS(own, "a fresh &ExclusiveOutcome{...} that goes nowhere else", "the outcome sent to the runner's caller is also reachable from elsewhere (stored on the item, sent twice): coalesced callers would share one mutable object, and one caller's edit shows up as another's result"), sends[0])
		}
		for _, f := range []string{"exclusiveItem.result", "exclusiveItem.err", "exclusiveItem.complete", "exclusiveItem.running"} {
			st := an.FieldStores(b.fn, f)
			okst := len(st) == 1 && !P.PathExists(b.fn, nil, an.IsReturn, an.In(st), nil)
			b.add("PATH", "resolving records "+f+" for coalesced waiters", okst, "stored on every path of the once body", st...)
		}
		// a resolved item is complete whatever the outcome was: an item left running=false, complete=false would be
		// picked up by the next goroutine of the batch as if it were new - a second runner on a used item, which
		// replaces the successor the first runner installed (two executions for the key at once)
		for _, s := range an.FieldStores(b.fn, "exclusiveItem.complete") {
			bv, isB := constBool(s.(*ssa.Store).Val)
			b.add("PROV", "resolving always completes the item", isB && bv, pickS(isB && bv, "item.complete = true", "whether the item counts as completed depends on the outcome: the remaining goroutines of the batch would run the work again on the used item"), s)
		}
		for _, s := range an.FieldStores(b.fn, "exclusiveItem.result") {
			b.add("PROV", "waiters get the resolved result", s.(*ssa.Store).Val == ssa.Value(rs.fn.Params[0]) || srcIs(P, s.(*ssa.Store).Val, rs.fn.Params[0]), "item.result = result", s)
		}
		for _, s := range an.FieldStores(b.fn, "exclusiveItem.err") {
			b.add("PROV", "waiters get the resolved error", srcIs(P, s.(*ssa.Store).Val, rs.fn.Params[1]), "item.err = err", s)
		}
	}
	// 4/5. the coalesced-waiter delivery
	wsends := an.AllInstrs(r.fn, func(in ssa.Instruction) bool { _, ok := in.(*ssa.Send); return ok })
	if r.need(wsends, "PATH", "delivery to a coalesced waiter") {
		ws := wsends[0].(*ssa.Send)
		ifc, negc := P.IfsOn(r.fn, func(cond ssa.Value) bool { return an.IsLoadOfField(cond, "exclusiveItem.complete") })
		okc := len(ifc) == 1
		if okc {
			ts := 0
			if negc[0] {
				ts = 1
			}
			okc = r.onlyViaEdge(ws, ifc[0], ts)
		}
		r.add("PATH", "a waiter copies the result only from a completed item", okc, "send reached only through complete == true", ws)
		{
			own := ownOutcome(ws)
			r.add("PROV", "every coalesced waiter receives an outcome object of its own", own, pickS(own, "a fresh &ExclusiveOutcome{...} per waiter", "coalesced waiters are handed one shared outcome object (e.g. a pointer kept on the item): what one caller does to its outcome is seen by the others as the execution's result"), ws)
		}
		// ... only if there is an outcome channel, and then always
		wifn, wnil, wfound := r.nilTestOf(sameChanVar(P, ws.Chan))
		okw := wfound && r.onlyViaEdge(ws, wifn, 1-wnil) && !P.PathExists(r.fn, wifn, an.IsReturn, an.Is(ws), cutEdge(wifn, wnil))
		r.add("PATH", "a waiter with an outcome channel always gets the completed result", okw, pickS(okw, "the send is reached only through outcome != nil, and from there on every path", "a coalesced caller can be left without an outcome (or a start-style call sends on a nil channel and blocks for ever)"), ws)
		excl := !P.PathExists(r.fn, ws, an.Is(a.work), nil, nil)
		r.add("PATH", "a waiter's outcome and the runner's outcome are mutually exclusive", excl, pickS(excl, "no path leads from the waiter's send to the work call (hence to resolve)", "after delivering a completed result the goroutine can still run the work and deliver a second outcome"), ws)
		closes := P.CallsTo(r.fn, "builtin:close")
		r.add("ONCE", "the waiter's outcome channel is closed after its single send", len(closes) == 1 && P.AfterAll(r.fn, ws, an.In(closes)), "close follows the send", ws)
		// values
		okv := 0
		if al, isA := ws.X.(*ssa.Alloc); isA {
			for _, ref := range *al.Referrers() {
				if fa, ok := ref.(*ssa.FieldAddr); ok {
					for _, r2 := range *fa.Referrers() {
						if st, ok := r2.(*ssa.Store); ok && (an.IsLoadOfField(st.Val, "exclusiveItem.result") || an.IsLoadOfField(st.Val, "exclusiveItem.err")) {
							okv++
						}
					}
				}
			}
		}
		r.add("PROV", "coalesced callers receive the identical result and error", okv == 2, "Result/Error are loads of item.result/item.err", ws)
	}
	// 7. delete only if nobody attached to the successor
	dels := P.CallsTo(r.fn, "builtin:delete")
	if r.need(dels, "PATH", "delete(e.work, key)") {
		ifz, negz := P.IfsOn(r.fn, func(cond ssa.Value) bool {
			b, ok := cond.(*ssa.BinOp)
			if !ok || (b.Op != token.EQL && b.Op != token.NEQ) {
				return false
			}
			return either(b, func(v ssa.Value) bool {
				ld, isL := isLoad(v)
				return isL && isSuccField(ld.X, a.succ, "exclusiveItem.count")
			}, isZero)
		})
		okd := len(ifz) == 1
		if okd {
			b := stripNotV(ifz[0].Cond).(*ssa.BinOp)
			zeroWhenTrue := b.Op == token.EQL
			if negz[0] {
				zeroWhenTrue = !zeroWhenTrue
			}
			ts := 1
			if zeroWhenTrue {
				ts = 0
			}
			okd = r.onlyViaEdge(dels[0], ifz[0], ts)
		}
		r.add("PATH", "the key is deleted only if nobody attached to the successor", okd, pickS(okd, "delete reached only through successor.count == 0", "the key can be deleted while calls are attached to the successor (they would be stranded, and a fresh call could run concurrently)"), dels[0])
		cleared := P.Before(r.fn, an.Is(a.work), dels[0])
		r.add("PATH", "per-key state is removed only after the work returned", cleared, "delete dominated by the work call", dels[0])
		// ... and whenever nobody attached: from the count test, its zero edge leads to the delete under no further
		// condition ("when nothing is pending no per-key state remains")
		if okd {
			b := stripNotV(ifz[0].Cond).(*ssa.BinOp)
			zeroWhenTrue := b.Op == token.EQL
			if negz[0] {
				zeroWhenTrue = !zeroWhenTrue
			}
			ts := 1
			if zeroWhenTrue {
				ts = 0
			}
			start := ifz[0].Block().Succs[ts]
			always := false
			if len(start.Instrs) > 0 {
				// no way from the zero edge to the end of the epilogue (the item's unlock / the return) that avoids the delete
				always = !P.PathExists(r.fn, start.Instrs[0], an.IsReturn, an.Is(dels[0]), nil) || start.Instrs[0] == dels[0]
				if start.Instrs[0] == dels[0] {
					always = true
				}
			}
			r.add("PATH", "an idle key leaves no state behind", always, pickS(always, "successor.count == 0 always reaches delete(e.work, key)", "with nobody attached to the successor the key's entry can be left in the map (a further condition guards the delete): per-key state remains although nothing is pending"), dels[0])
		}
	}
}

func srcIs(p *an.Prog, v ssa.Value, want ssa.Value) bool {
	for _, s := range p.Sources(v) {
		if s == want {
			return true
		}
	}
	return false
}

func isZero(v ssa.Value) bool {
	i, ok := constInt(v)
	return ok && i == 0
}

func stripNotV(v ssa.Value) ssa.Value {
	for {
		if u, ok := v.(*ssa.UnOp); ok && u.Op == token.NOT {
			v = u.X
			continue
		}
		return v
	}
}

func init() {
	register(&Prop{
		ID:        "C09",
		Technique: "path rules (dominance, must-pass-through, only-via-edge) on the runner goroutine's SSA; blocking-under-lock, hand-off and guarded-by rules from the lock simulator; provenance of per-key lock objects",
		Explanation: "the successor item is created already running and installed in the map (under both locks) before the work starts; its running flag is cleared only after item.work(resolve) returned, on every normal path, by the runner only (resolve cannot reach the successor), with a Broadcast in the same hold; the runner claims an item (running = true) in the hold in which it saw it neither running nor complete; " +
			"Exclusive.mutex is never held across a blocking operation or callback, the work runs with no lock held; an item's mutex/cond are fresh or inherited from the predecessor in the same map slot, so keys do not share lock objects.",
		NotDecided: "non-overlap as a statement about instants (the necessary ordering of the flag clear after the work's return is decided); independence of keys as a latency statement.",
		Build: func(c *Ctx) []*an.Oblig {
			exclusiveC09(c)
			exclusiveC10(c) // the attach discipline and the delete guard are premises of C09 as well
			exclusiveWiring(c)
			out := c.sel(func(o *an.Oblig) bool {
				if isUndecided(o) || o.Rule == "ANCHOR" {
					return true
				}
				if ruleIn(o, "G", "B", "HO", "S", "SL", "WL", "P", "REQ") && funcHas(o, "(*Exclusive).call") {
					return true
				}
				if o.Rule == "O" && subjHas(o, "exclusiveItem.mutex", "Exclusive.mutex") {
					return true
				}
				return false
			})
			return append(out, c.C.List...)
		},
		Floors: []Floor{
			floorKey("runner path rules", 6, "PATH/(*Exclusive).call$go1/"),
			floorRule("B", "B", 4),
			floorRule("HO", "HO", 1),
			floorKey("S running", 1, "S/(*Exclusive).call$go1", "exclusiveItem.running"),
			floorKey("lock provenance", 2, "PROV/", "an item's mutex"),
			floorKey("map update under item mutex", 1, "REQ/(*Exclusive).call$go1/"),
		},
	})
	register(&Prop{
		ID:        "C10",
		Technique: "path rules on Exclusive.call and its runner (only-via-edge for the attach discipline, must-pass-through for the forced resolve, once-only shape of resolve), atomic sections from the lock simulator",
		Explanation: "a call attaches (work, wait, count++) only through the e.work[key] == item edge, with both locks held, in the hold of that lookup; the item is replaced in the map before its work starts (C09.2); resolve's body is exactly one sync.Once.Do and resolve(nil, errResolveNotCalled) follows the work call on every normal path; " +
			"the outcome channel has capacity 1, is sent once and closed by exactly one of two mutually exclusive sites, both only if an outcome channel exists; coalesced waiters copy item.result/item.err only from a completed item; the key is deleted only if successor.count == 0, in that hold, after the work returned.",
		NotDecided: "'began after the call was made' as a real-time statement; executions <= calls as a count.",
		Build: func(c *Ctx) []*an.Oblig {
			exclusiveC10(c)
			exclusiveC09installOnly(c)
			exclusiveWiring(c)
			out := c.sel(func(o *an.Oblig) bool {
				if isUndecided(o) || o.Rule == "ANCHOR" {
					return true
				}
				if ruleIn(o, "AT", "REQ", "P", "G") && funcHas(o, "(*Exclusive).call") {
					return true
				}
				// coalesced callers are answered when the execution resolves: every write of the item's state wakes them
				if ruleIn(o, "S", "SL", "WL") && funcHas(o, "(*Exclusive).call") {
					return true
				}
				if o.Rule == "O" && subjHas(o, "exclusiveItem.mutex->Exclusive.mutex") {
					return true
				}
				return false
			})
			return append(out, c.C.List...)
		},
		Floors: []Floor{
			floorKey("attach discipline", 3, "PATH/(*Exclusive).call/"),
			floorRule("ONCE", "ONCE", 3),
			floorKey("forced resolve", 1, "PATH/(*Exclusive).call$go1/resolve is forced"),
			floorKey("AT validate->attach", 3, "AT/(*Exclusive).call/"),
			floorKey("delete", 1, "PATH/(*Exclusive).call$go1/", "deleted only if"),
		},
	})
}

// exclusiveC09installOnly re-uses C09.2 (detach before run) for C10.
func exclusiveC09installOnly(c *Ctx) {
	a := exclusiveAnchorsOf(c)
	if a == nil {
		return
	}
	installs := an.AllInstrs(a.runner.fn, func(in ssa.Instruction) bool {
		mu, ok := in.(*ssa.MapUpdate)
		return ok && an.IsLoadOfField(mu.Map, "Exclusive.work") && isSucc(mu.Value, a.succ)
	})
	if a.runner.need(installs, "PATH", "e.work[key] = successor") {
		ok := c.P.Before(a.runner.fn, an.Is(installs[0]), a.work)
		a.runner.add("PATH", "the item is detached from the map before its work starts", ok, "map update dominates the work call", installs[0])
	}
}

// exclusiveWiring: the public entry points hand exactly their own key, work and wait to the core (directly through
// CallWithOptions' options or by delegating to a sibling entry point), the option constructors set exactly their own
// field, and CallWithOptions applies every option to the config it passes to call(). A wrapper that drops or swaps
// the key on one path serialises that work under the wrong key: it overlaps work of its own key and is delayed by
// work of another.
func exclusiveWiring(c *Ctx) {
	P := c.P
	type ep struct {
		name    string
		hasWait bool
		start   bool
	}
	eps := []ep{
		{"(*Exclusive).Call", false, false}, {"(*Exclusive).CallAfter", true, false}, {"(*Exclusive).CallAsync", false, false},
		{"(*Exclusive).CallAfterAsync", true, false}, {"(*Exclusive).Start", false, true}, {"(*Exclusive).StartAfter", true, true},
	}
	isEP := map[string]ep{}
	for _, e := range eps {
		isEP[e.name] = e
	}
	const cwo = "(*Exclusive).CallWithOptions"
	for _, e := range eps {
		q := c.F(e.name)
		if !q.ok() {
			continue
		}
		// params: receiver, key, value[, wait]
		if len(q.fn.Params) < 3 || (e.hasWait && len(q.fn.Params) < 4) {
			q.undecided("PROV", "entry point wiring", "unexpected signature")
			continue
		}
		key, val := ssa.Value(q.fn.Params[1]), ssa.Value(q.fn.Params[2])
		var wait ssa.Value
		if e.hasWait {
			wait = q.fn.Params[3]
		}
		var outs []ssa.Instruction
		for _, in := range an.AllInstrs(q.fn, func(in ssa.Instruction) bool { return an.CallCommonOf(in) != nil }) {
			cc := an.CallCommonOf(in)
			n := P.CalleeName(cc)
			if _, is := isEP[n]; !is && n != cwo {
				continue
			}
			outs = append(outs, in)
			okKey, okVal, okWait, okStart := false, false, !e.hasWait, false
			detail := ""
			if n == cwo {
				// the variadic options: values stored into the backing array of the slice argument
				var opts []*ssa.Call
				if len(cc.Args) >= 2 {
					if sl, isS := cc.Args[1].(*ssa.Slice); isS {
						if al, isA := sl.X.(*ssa.Alloc); isA {
							for _, r := range *al.Referrers() {
								ia, isIA := r.(*ssa.IndexAddr)
								if !isIA {
									continue
								}
								for _, rr := range *ia.Referrers() {
									if st, isSt := rr.(*ssa.Store); isSt && st.Addr == ssa.Value(ia) {
										for _, s := range P.Sources(st.Val) {
											if call, isC := s.(*ssa.Call); isC {
												opts = append(opts, call)
											}
										}
									}
								}
							}
						}
					}
				}
				startTrue, waitSeen := false, false
				for _, o := range opts {
					if len(o.Call.Args) != 1 {
						continue
					}
					a := o.Call.Args[0]
					switch P.CalleeName(&o.Call) {
					case "ExclusiveKey":
						okKey = okKey || srcIs(P, a, key)
					case "ExclusiveValue", "ExclusiveWork":
						okVal = okVal || srcIs(P, a, val)
					case "ExclusiveWait":
						waitSeen = true
						if e.hasWait {
							okWait = okWait || srcIs(P, a, wait)
						} else if !isZero(a) {
							okWait = false
						}
					case "ExclusiveStart":
						if b, isB := constBool(a); isB && b {
							startTrue = true
						}
					}
				}
				_ = waitSeen
				okStart = startTrue == e.start
				detail = "CallWithOptions(" + fmt.Sprint(len(opts)) + " options)"
			} else {
				t := isEP[n]
				okKey = len(cc.Args) > 1 && srcIs(P, cc.Args[1], key)
				okVal = len(cc.Args) > 2 && srcIs(P, cc.Args[2], val)
				if t.hasWait && len(cc.Args) > 3 {
					if e.hasWait {
						okWait = srcIs(P, cc.Args[3], wait)
					} else {
						okWait = isZero(cc.Args[3])
					}
				} else if e.hasWait {
					okWait = false // the wait would be dropped
				}
				okStart = t.start == e.start
				detail = "delegates to " + n
			}
			ok := okKey && okVal && okWait && okStart
			bad := ""
			if !okKey {
				bad += " key"
			}
			if !okVal {
				bad += " work"
			}
			if !okWait {
				bad += " wait"
			}
			if !okStart {
				bad += " start-mode"
			}
			q.add("PROV", "the entry point hands its own key, work and wait to the core", ok,
				pickS(ok, detail+" with this call's key, work, wait and start mode", detail+" without this call's"+bad+": the work would run under another key / configuration than the caller asked for"), in)
		}
		if q.need(outs, "PROV", "call into the core from "+e.name) {
			skip := P.PathExists(q.fn, nil, an.IsReturn, an.In(outs), nil)
			q.add("PATH", "every path of the entry point reaches the core", !skip, pickS(!skip, "no return without CallWithOptions / a sibling entry point", "the entry point can return without submitting the work"), outs[0])
		}
	}
	exclusiveValueRule(c)
	rateLimitTimer(c)
	// option constructors: the returned closure sets exactly its own field from the constructor's argument
	for _, oc := range [][2]string{{"ExclusiveKey", "exclusiveConfig.key"}, {"ExclusiveWork", "exclusiveConfig.work"}, {"ExclusiveWait", "exclusiveConfig.wait"}, {"ExclusiveStart", "exclusiveConfig.start"}} {
		q := c.F(oc[0])
		if !q.ok() {
			continue
		}
		cls := closuresOf(q.fn, func(f *ssa.Function) bool { return an.ClosureRole(f) == "ret" })
		if len(cls) != 1 {
			q.undecided("WR", "option "+oc[0]+" sets its field", "expected exactly one returned closure")
			continue
		}
		var stores []ssa.Instruction
		for _, in := range an.AllInstrs(cls[0], func(in ssa.Instruction) bool { _, ok := in.(*ssa.Store); return ok }) {
			if f := an.FieldOfAddr(in.(*ssa.Store).Addr); strings.HasPrefix(f, "exclusiveConfig.") {
				stores = append(stores, in)
			}
		}
		ok := len(stores) == 1 && an.FieldOfAddr(stores[0].(*ssa.Store).Addr) == oc[1] && srcIs(P, stores[0].(*ssa.Store).Val, q.fn.Params[0])
		q.add("WR", "option "+oc[0]+" sets exactly its own field from its argument", ok, pickS(ok, "one store: "+oc[1]+" := the argument", "the option writes another field, another value, or more than one field of the config"), stores...)
	}
	// CallWithOptions: every option is applied to the config that is passed to call()
	if q := c.F(cwo); q.ok() {
		calls := P.CallsTo(q.fn, "(*Exclusive).call")
		var applies []ssa.Instruction
		var cfg *ssa.Alloc
		for _, in := range an.AllInstrs(q.fn, func(in ssa.Instruction) bool {
			call, ok := in.(*ssa.Call)
			return ok && call.Call.StaticCallee() == nil && !call.Call.IsInvoke() && len(call.Call.Args) == 1
		}) {
			if al, isA := in.(*ssa.Call).Call.Args[0].(*ssa.Alloc); isA {
				if n, isN := al.Type().Underlying().(*types.Pointer).Elem().(*types.Named); isN && n.Obj().Name() == "exclusiveConfig" {
					applies = append(applies, in)
					cfg = al
				}
			}
		}
		if q.need(calls, "PROV", "call of call()") && q.need(applies, "PROV", "option(&config)") {
			// the applied callee is an element of the options slice, inside a loop over it
			ap := applies[0].(*ssa.Call)
			fromOpts := false
			for _, s := range P.Sources(ap.Call.Value) {
				if ld, isL := isLoad(s); isL {
					if ia, isIA := ld.X.(*ssa.IndexAddr); isIA && ia.X == ssa.Value(q.fn.Params[1]) {
						fromOpts = true
					}
				}
			}
			ok := fromOpts && P.InCycle(ap) && P.PathExists(q.fn, ap, an.Is(calls[0]), nil, nil)
			// ... and call() receives that config
			passes := false
			if ld, isL := isLoad(callArg(calls[0], 1)); isL && ld.X == ssa.Value(cfg) {
				passes = true
			}
			if !passes {
				// call() taking the configuration field by field: every argument is a distinct field of that config
				cc := an.CallCommonOf(calls[0])
				seen := map[int]bool{}
				all := len(cc.Args) > 1
				for _, a := range cc.Args[1:] {
					ld, isL := isLoad(a)
					if !isL {
						all = false
						break
					}
					fa, isFA := ld.X.(*ssa.FieldAddr)
					if !isFA || fa.X != ssa.Value(cfg) || seen[fa.Field] {
						all = false
						break
					}
					seen[fa.Field] = true
				}
				passes = all
			}
			q.add("PROV", "every option is applied to the config handed to call()", ok && passes,
				pickS(ok && passes, "for each options[i]: options[i](&config); call(config)", "CallWithOptions does not apply every given option to the config it passes on"), calls[0])
		}
	}
}

// exclusiveValueRule: ExclusiveValue adapts a plain function into work that resolves exactly once with exactly that
// function's result, and hands it to ExclusiveWork (a nil function stays a nil work, which call() rejects).
func exclusiveValueRule(c *Ctx) {
	P := c.P
	q := c.F("ExclusiveValue")
	if !q.ok() {
		return
	}
	// the adapter: the closure that takes one func parameter (resolve)
	cls := closuresOf(q.fn, func(f *ssa.Function) bool {
		if len(f.Params) != 1 {
			return false
		}
		_, isSig := f.Params[0].Type().Underlying().(*types.Signature)
		return isSig
	})
	if len(cls) != 1 {
		q.undecided("PROV", "ExclusiveValue adapter", "expected one adapter closure taking resolve")
		return
	}
	a := &fq{c: c, fn: cls[0], name: an.FuncName(cls[0])}
	var valCalls, resCalls []ssa.Instruction
	for _, in := range an.AllInstrs(a.fn, func(in ssa.Instruction) bool { _, ok := in.(*ssa.Call); return ok }) {
		call := in.(*ssa.Call)
		if call.Call.IsInvoke() || call.Call.StaticCallee() != nil {
			continue
		}
		if call.Call.Value == ssa.Value(a.fn.Params[0]) {
			resCalls = append(resCalls, in)
		} else if srcIs(P, call.Call.Value, q.fn.Params[0]) {
			valCalls = append(valCalls, in)
		}
	}
	ok := len(valCalls) == 1 && len(resCalls) == 1 && !P.InCycle(valCalls[0]) && !P.InCycle(resCalls[0])
	if ok {
		vc, rc := valCalls[0].(*ssa.Call), resCalls[0].(*ssa.Call)
		ok = len(rc.Call.Args) == 2 && rc.Call.Args[0] == resultOf2(vc, 0) && rc.Call.Args[1] == resultOf2(vc, 1) &&
			!P.PathExists(a.fn, nil, an.IsReturn, an.Is(rc), nil)
	}
	a.add("PROV", "the adapter resolves exactly once with the function's own result", ok,
		pickS(ok, "resolve(value()) - one call of value, one call of resolve with both results, on every path", "the adapter does not pass value()'s result and error to resolve exactly once"))
	works := P.CallsTo(q.fn, "ExclusiveWork")
	okw := len(works) >= 1
	installs := false
	isWork := map[ssa.Value]bool{}
	for _, w := range works {
		if wc, isC := w.(*ssa.Call); isC {
			isWork[wc] = true
		}
		for _, s := range P.Sources(callArg(w, 0)) {
			if mc, isMC := s.(*ssa.MakeClosure); isMC && mc.Fn == ssa.Value(a.fn) {
				installs = true
			} else if fnv, isF := s.(*ssa.Function); isF && fnv == a.fn {
				installs = true
			} else if !isNilConst(s) {
				okw = false
			}
		}
	}
	okw = okw && installs
	for _, r := range returnsOf(q.fn) {
		for _, v := range c.retVals(r, 0) {
			if !isWork[v] {
				okw = false
			}
		}
	}
	q.add("PROV", "ExclusiveValue installs the adapter as the work", okw, pickS(okw, "return ExclusiveWork(adapter or nil)", "ExclusiveValue does not return ExclusiveWork of its adapter"), works...)
}

// rateLimitTimer: ExclusiveRateLimit's option is reused across keys and executions of different keys overlap, so the
// timer that pads an execution is created by that execution (never hoisted into the option and re-armed): a shared
// timer fires once and leaves every other waiting execution - and with it its key - stuck for ever.
func rateLimitTimer(c *Ctx) {
	P := c.P
	q := c.F("ExclusiveRateLimit")
	if !q.ok() {
		return
	}
	var news, resets []ssa.Instruction
	var where []*ssa.Function
	for _, fn := range append([]*ssa.Function{q.fn}, allNested(q.fn)...) {
		for _, in := range P.CallsTo(fn, "time.NewTimer") {
			news = append(news, in)
			where = append(where, fn)
		}
		resets = append(resets, P.CallsTo(fn, "(*time.Timer).Reset")...)
	}
	if len(news) == 0 {
		q.add("WR", "the padding timer belongs to one execution", true, "no timer")
		return
	}
	ok := len(resets) == 0
	for i, fn := range where {
		// the function that creates the timer is the work wrapper itself: the one that calls the wrapped work
		callsWork := false
		for _, in := range an.AllInstrs(fn, func(in ssa.Instruction) bool {
			call, isC := in.(*ssa.Call)
			return isC && !call.Call.IsInvoke() && call.Call.StaticCallee() == nil
		}) {
			if _, isB := in.(*ssa.Call).Call.Value.(*ssa.Builtin); !isB {
				callsWork = true
			}
		}
		if !callsWork || !P.PathExists(fn, nil, an.Is(news[i]), nil, nil) {
			ok = false
		}
	}
	q.add("WR", "the padding timer belongs to one execution", ok, pickS(ok, "time.NewTimer is called by the work wrapper itself and never Reset", "the rate limiter's timer is created outside the per-execution wrapper or re-armed with Reset: executions of different keys sharing the option would wait on one timer"), news...)
	// the wrapped work runs *inside* the wrapper: a direct call in the wrapper's own body (not on a goroutine that the
	// wrapper may stop waiting for - say when its context ends), so that "the wrapper returned" implies "the work
	// returned", which is what Exclusive takes as the end of the execution
	var workCalls, gos []ssa.Instruction
	var inWrapper []bool
	for _, fn := range allNested(q.fn) {
		gos = append(gos, an.AllInstrs(fn, func(in ssa.Instruction) bool { _, isGo := in.(*ssa.Go); return isGo })...)
		for _, in := range an.AllInstrs(fn, func(in ssa.Instruction) bool {
			cc := an.CallCommonOf(in)
			if cc == nil || cc.IsInvoke() || cc.StaticCallee() != nil {
				return false
			}
			if _, isB := cc.Value.(*ssa.Builtin); isB {
				return false
			}
			// the callee is the wrapped work: a parameter of function type of an enclosing literal
			for _, sv := range P.Sources(cc.Value) {
				if prm, isP := sv.(*ssa.Parameter); isP && prm.Parent() != fn {
					if _, isSig := prm.Type().Underlying().(*types.Signature); isSig {
						return true
					}
				}
			}
			return false
		}) {
			workCalls = append(workCalls, in)
			_, isCall := in.(*ssa.Call)
			// the wrapper is made for that one work function: it is a literal of the function that receives the work as
			// its parameter (a wrapper made once per option and handed the work through a shared variable runs whichever
			// work was wrapped last - on any key)
			perWork := false
			for _, sv := range P.Sources(an.CallCommonOf(in).Value) {
				if prm, isP := sv.(*ssa.Parameter); isP {
					perWork = prm.Parent() == fn.Parent()
				}
			}
			if !perWork {
				isCall = false
			}
			// the wrapper: the literal that takes resolve (its one parameter, of function type)
			isW := len(fn.Params) == 1
			if isW {
				_, isW = fn.Params[0].Type().Underlying().(*types.Signature)
			}
			inWrapper = append(inWrapper, isCall && isW && !P.InCycle(in))
		}
	}
	okw := len(workCalls) == 1 && inWrapper[0] && len(gos) == 0
	q.add("PATH", "the rate-limited work runs inside the wrapper, which returns only after it", okw,
		pickS(okw, "value(resolve) is a plain call in the wrapper's own body; no goroutine is started", "the wrapped work is not (only) called directly in the wrapper - e.g. it runs on a goroutine the wrapper can stop waiting for: the wrapper, and with it the execution as Exclusive sees it, can end while the work is still running, and the next work for the key overlaps it"), workCalls...)
}

// sameChanVar: the tested value is a read of the variable the channel operand was read from (through direction
// conversions), or - as before - a load of the very same type.
func sameChanVar(P *an.Prog, ch ssa.Value) func(ssa.Value) bool {
	strip := func(v ssa.Value) ssa.Value {
		for {
			if ct, ok := v.(*ssa.ChangeType); ok {
				v = ct.X
				continue
			}
			return v
		}
	}
	cellOf := func(v ssa.Value) *ssa.Alloc {
		if ld, ok := isLoad(strip(v)); ok {
			return P.CellOf(ld.X)
		}
		return nil
	}
	want := cellOf(ch)
	return func(v ssa.Value) bool {
		if _, isL := isLoad(v); isL && v.Type().String() == ch.Type().String() {
			return true
		}
		return want != nil && cellOf(v) == want
	}
}

// ownOutcome: the value sent is an object allocated for this send alone - its address goes nowhere but into the
// channel (field initialisation aside), so no two callers, and no caller and the item, share one outcome.
func ownOutcome(send *ssa.Send) bool {
	al, ok := send.X.(*ssa.Alloc)
	if !ok || !al.Heap {
		return false
	}
	for _, r := range *al.Referrers() {
		switch x := r.(type) {
		case *ssa.FieldAddr:
			for _, rr := range *x.Referrers() {
				if st, isSt := rr.(*ssa.Store); !isSt || st.Addr != ssa.Value(x) {
					return false
				}
			}
		case *ssa.Send:
			if x != send {
				return false
			}
		case *ssa.DebugRef:
		default:
			return false
		}
	}
	return true
}
