package props

import (
	"sort"
	"strings"

	"bbcheck/internal/an"
)

// Ctx is what a property evaluation sees: the resolved program and the E1 results.
type Ctx struct {
	P      *an.Prog
	Sim    *an.Sim
	SimObs []*an.Oblig // E1 obligations (incl. lock order)
	C      *an.Collector
}

// Floor is an anti-vacuity requirement: at least Min obligations must match.
type Floor struct {
	Desc  string
	Match func(o *an.Oblig) bool
	Min   int
}

// Prop is one property's verdict procedure.
type Prop struct {
	ID          string
	Technique   string
	Explanation string   // what is decided
	NotDecided  string   // what is not
	Trusted     []string // trusted base specific to the property
	Build       func(c *Ctx) []*an.Oblig
	Floors      []Floor
}

var registry = map[string]*Prop{}

func register(p *Prop) { registry[p.ID] = p }

func Get(id string) *Prop { return registry[id] }

func IDs() []string {
	var r []string
	for k := range registry {
		r = append(r, k)
	}
	sort.Strings(r)
	return r
}

// sel filters E1 obligations.
func (c *Ctx) sel(pred func(o *an.Oblig) bool) []*an.Oblig {
	var out []*an.Oblig
	for _, o := range c.SimObs {
		if pred(o) {
			out = append(out, o)
		}
	}
	return out
}

func ruleIn(o *an.Oblig, rules ...string) bool {
	for _, r := range rules {
		if o.Rule == r {
			return true
		}
	}
	return false
}

func funcHas(o *an.Oblig, subs ...string) bool {
	for _, s := range subs {
		if strings.Contains(o.Func, s) {
			return true
		}
	}
	return false
}

func subjHas(o *an.Oblig, subs ...string) bool {
	for _, s := range subs {
		if strings.Contains(o.Subject, s) {
			return true
		}
	}
	return false
}

// undecidedAll: UNDECIDED obligations of E1 always belong to every property that uses E1.
func isUndecided(o *an.Oblig) bool { return o.Status == "undecided" }

func floorRule(desc, rule string, min int, subj ...string) Floor {
	return Floor{Desc: desc, Min: min, Match: func(o *an.Oblig) bool {
		if o.Rule != rule {
			return false
		}
		if len(subj) == 0 {
			return true
		}
		return subjHas(o, subj...)
	}}
}

func floorKey(desc string, min int, parts ...string) Floor {
	return Floor{Desc: desc, Min: min, Match: func(o *an.Oblig) bool {
		for _, p := range parts {
			if !strings.Contains(o.Key, p) {
				return false
			}
		}
		return true
	}}
}
