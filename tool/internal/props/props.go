package props

import (
	"sort"
	"strings"

	"bbcheck/internal/an"
)

// Ctx is what a property evaluation sees: the resolved program and the E1 results.
type Ctx struct {
	P      *an.Prog
	Sim    *an.Sim
	SimObs []*an.Oblig // E1 obligations (incl. lock order)
	C      *an.Collector
	PropID string // the property being built (scopes UNDECIDED simulator obligations)
}

// Floor is an anti-vacuity requirement: at least Min obligations must match.
type Floor struct {
	Desc  string
	Match func(o *an.Oblig) bool
	Min   int
}

// Prop is one property's verdict procedure.
type Prop struct {
	ID          string
	Technique   string
	Explanation string   // what is decided
	NotDecided  string   // what is not
	Trusted     []string // trusted base specific to the property
	Build       func(c *Ctx) []*an.Oblig
	Floors      []Floor
}

var registry = map[string]*Prop{}

func register(p *Prop) {
	build := p.Build
	p.Build = func(c *Ctx) []*an.Oblig {
		c.PropID = p.ID
		return build(c)
	}
	registry[p.ID] = p
}

func Get(id string) *Prop { return registry[id] }

func IDs() []string {
	var r []string
	for k := range registry {
		r = append(r, k)
	}
	sort.Strings(r)
	return r
}

// sel filters E1 obligations.
// undecidedScope: an UNDECIDED simulator obligation (state explosion, unresolved lock identity ...) about a function
// belongs to the properties that depend on that function; it does not fail the checks of unrelated properties.
// (C11 and C12 span the whole package.)
var undecidedScope = map[string][]string{
	"C01": {"(*Buffer)", "(*consumer)", "Range", "WaitCond", "Cleaner"},
	"C02": {"(*Buffer)", "(*consumer)", "Range", "WaitCond", "Cleaner"},
	"C03": {"(*Buffer)", "(*consumer)", "Range", "WaitCond", "Cleaner"},
	"C04": {"(*Buffer)", "(*consumer)", "Range", "WaitCond", "Cleaner"},
	"C05": {"(*Buffer)", "(*consumer)", "Range", "WaitCond", "Cleaner", "CombineContext"},
	"C06": {"(*ChanPubSub)", "(*ChanCaster)", "NewChanPubSub", "NewChanCaster"},
	"C07": {"(*ChanPubSub)", "(*ChanCaster)", "NewChanPubSub", "NewChanCaster"},
	"C08": {"(*ChanPubSub)", "(*ChanCaster)", "NewChanPubSub", "NewChanCaster"},
	"C09": {"(*Exclusive)", "Exclusive"},
	"C10": {"(*Exclusive)", "Exclusive"},
	"C13": {"(*Channel)", "NewChannel"},
	"C14": {"(*Workers)"},
	"C15": {"(*Notifier)", "valueOfNotifierTarget"},
	"C16": {"CombineContext", "ConflatedContext", "ChainAfterFunc", "stopCallbackSlice"},
	"C17": {"(*Worker)"},
	"C18": {"ExponentialRetry", "FatalError", "fatalError", "init$"},
	"C19": {"Call", "callable", "resolveArgs", "typesArgs", "typesInOut", "typeNilable", "NewCallable"},
	"C20": {"LinearAttempt"},
}

func (c *Ctx) inUndecidedScope(o *an.Oblig) bool {
	sc, has := undecidedScope[c.PropID]
	if !has || o.Func == "" || o.Func == "-" {
		return true
	}
	for _, s := range sc {
		if strings.Contains(o.Func, s) {
			return true
		}
	}
	return false
}

func (c *Ctx) sel(pred func(o *an.Oblig) bool) []*an.Oblig {
	var out []*an.Oblig
	for _, o := range c.SimObs {
		if o.Status == "undecided" && o.Rule != "ANCHOR" && !c.inUndecidedScope(o) {
			continue
		}
		if pred(o) {
			out = append(out, o)
		}
	}
	return out
}

func ruleIn(o *an.Oblig, rules ...string) bool {
	for _, r := range rules {
		if o.Rule == r {
			return true
		}
	}
	return false
}

func funcHas(o *an.Oblig, subs ...string) bool {
	for _, s := range subs {
		if strings.Contains(o.Func, s) {
			return true
		}
	}
	return false
}

func subjHas(o *an.Oblig, subs ...string) bool {
	for _, s := range subs {
		if strings.Contains(o.Subject, s) {
			return true
		}
	}
	return false
}

// undecidedAll: UNDECIDED obligations of E1 always belong to every property that uses E1.
func isUndecided(o *an.Oblig) bool { return o.Status == "undecided" }

func floorRule(desc, rule string, min int, subj ...string) Floor {
	return Floor{Desc: desc, Min: min, Match: func(o *an.Oblig) bool {
		if o.Rule != rule {
			return false
		}
		if len(subj) == 0 {
			return true
		}
		return subjHas(o, subj...)
	}}
}

func floorKey(desc string, min int, parts ...string) Floor {
	return Floor{Desc: desc, Min: min, Match: func(o *an.Oblig) bool {
		for _, p := range parts {
			if !strings.Contains(o.Key, p) {
				return false
			}
		}
		return true
	}}
}
