package props

import (
	"fmt"
	"go/token"
	"go/types"
	"regexp"
	"strings"

	"golang.org/x/tools/go/ssa"

	"bbcheck/internal/an"
)

// rvExceptions: reasoned exemptions of the reflect-validity rule (one symbol each).
var rvExceptions = map[string]string{
	"CallResults$ret1$MakeFunc1": "the results thunk re-reads results[i], which the validation loop of CallResults proved to be non-nil pointers before the thunk was built (the thunk is created only after every error return)",
}

// rvObligations converts E6 findings for the functions selected by pick.
func rvObligations(c *Ctx, pick func(fn string) bool) int {
	n := 0
	for _, f := range c.P.RVAnalyse() {
		name := an.FuncName(f.Fn)
		if !pick(name) {
			continue
		}
		n++
		ok, why := f.OK, f.Why
		if !ok {
			if ex, has := rvExceptions[name]; has {
				ok, why = true, "confirmed exception: "+ex
			}
		}
		c.C.Add("RV", name, f.Subject+" -> "+useName(c.P, f.Use), ok, why, c.P.InstrPos(f.Use))
	}
	return n
}

func useName(p *an.Prog, in ssa.Instruction) string {
	if cc := an.CallCommonOf(in); cc != nil {
		return p.CalleeName(cc)
	}
	if _, ok := in.(*ssa.Store); ok {
		return "store"
	}
	return "use"
}

func callableRules(c *Ctx) {
	P := c.P
	// validate-before-invoke in callable.Call
	if q := c.F("(*callable).Call"); q.ok() {
		calls := P.CallsTo(q.fn, "(reflect.Value).Call")
		inv := P.CallsTo(q.fn, "invoke:bigbuff.callableValue.Call")
		if q.need(inv, "PATH", "the function call") {
			fcall := inv[0]
			q.add("PATH", "the function is invoked exactly once", len(inv) == 1 && !P.InCycle(fcall), "one call site, not in a loop", inv...)
			for _, r := range returnsOf(q.fn) {
				if allNil(c.retVals(r, 0)) {
					ok := P.Before(q.fn, an.Is(fcall), r)
					q.add("PATH", "a nil result means the function was invoked", ok, "nil-error return dominated by the call", r)
					continue
				}
				bad := P.PathExists(q.fn, fcall, an.Is(r), nil, nil)
				for _, rc := range calls {
					if P.PathExists(q.fn, rc, an.Is(r), nil, nil) {
						bad = true
					}
				}
				q.add("PATH", "every error is returned before anything is invoked", !bad, pickS(!bad, "no reflect Call / function call precedes this error return", "an error return is reachable after the args thunk, the function or the results thunk was invoked"), r)
			}
			// args thunk before the function, results thunk after
			for _, rc := range calls {
				before := P.PathExists(q.fn, rc, an.Is(fcall), nil, nil)
				after := P.PathExists(q.fn, fcall, an.Is(rc), nil, nil)
				q.add("PATH", "args are produced before, results consumed after the call", before != after, "each reflect Call is strictly before or strictly after the function call", rc)
			}
		}
	}
	// options: the thunk is stored only after every error return; validation predicate
	for _, name := range []string{"CallArgs$ret1", "CallResults$ret1", "CallResultsSlice$ret1"} {
		q := c.F(name)
		if !q.ok() {
			continue
		}
		sts := append(an.FieldStores(q.fn, "callConfig.args"), an.FieldStores(q.fn, "callConfig.results")...)
		if !q.need(sts, "PATH", "store of the thunk") {
			continue
		}
		for _, r := range returnsOf(q.fn) {
			if allNil(c.retVals(r, 0)) {
				continue
			}
			clean := true
			for _, s := range sts {
				if P.PathExists(q.fn, s, an.Is(r), nil, nil) {
					clean = false
				}
			}
			q.add("PATH", "an option that fails leaves the call configuration untouched", clean, "no store precedes the error return", r)
		}
		if name != "CallArgs$ret1" {
			asg := P.CallsTo(q.fn, "invoke:reflect.Type.AssignableTo")
			conv := P.CallsTo(q.fn, "invoke:reflect.Type.ConvertibleTo")
			ok := len(asg) >= 1 && len(conv) == 0
			for _, a := range asg {
				for _, s := range sts {
					if !P.PathExists(q.fn, a, an.Is(s), nil, nil) {
						ok = false
					}
				}
			}
			q.add("WR", "result targets are validated with AssignableTo (the precondition of reflect.Value.Set)", ok, pickS(ok, "AssignableTo checked before the thunk is stored", "result targets are not validated with AssignableTo: a convertible-but-not-assignable target would pass validation and make Set panic after the function was called"), asg...)
		}
	}
	if q := c.F("resolveArgs"); q.ok() {
		asg := P.CallsTo(q.fn, "invoke:reflect.Type.AssignableTo")
		conv := P.CallsTo(q.fn, "invoke:reflect.Type.ConvertibleTo")
		q.add("WR", "arguments are validated with AssignableTo", len(asg) >= 1 && len(conv) == 0 && P.InCycle(asg[0]), "AssignableTo in the loop over parameters", asg...)
		// args[i] is indexed only where len(args) == len(in) was established
		prm := q.fn.Params[1]
		idxs := an.AllInstrs(q.fn, func(in ssa.Instruction) bool {
			ia, ok := in.(*ssa.IndexAddr)
			return ok && ia.X == ssa.Value(prm)
		})
		lenIfs, negs := P.IfsOn(q.fn, func(cond ssa.Value) bool {
			b, ok := cond.(*ssa.BinOp)
			if !ok || (b.Op != token.NEQ && b.Op != token.EQL) {
				return false
			}
			isLenArgs := func(v ssa.Value) bool {
				call, ok := v.(*ssa.Call)
				if !ok {
					return false
				}
				bi, ok := call.Call.Value.(*ssa.Builtin)
				return ok && bi.Name() == "len" && call.Call.Args[0] == ssa.Value(prm)
			}
			isLen := func(v ssa.Value) bool {
				call, ok := v.(*ssa.Call)
				if !ok {
					return false
				}
				bi, ok := call.Call.Value.(*ssa.Builtin)
				return ok && bi.Name() == "len"
			}
			return either(b, isLenArgs, isLen)
		})
		oka := len(idxs) > 0 && len(lenIfs) == 1
		if oka {
			b := stripNotV(lenIfs[0].Cond).(*ssa.BinOp)
			eqWhenTrue := b.Op == token.EQL
			if negs[0] {
				eqWhenTrue = !eqWhenTrue
			}
			es := 1
			if eqWhenTrue {
				es = 0
			}
			for _, ix := range idxs {
				if !q.onlyViaEdge(ix, lenIfs[0], es) {
					oka = false
				}
			}
		}
		q.add("PATH", "arguments are indexed only after their number was checked against the parameters", oka,
			pickS(oka, "every args[i] is reachable only through len(args) == len(in)", "args[i] can be indexed on a path that skipped the arity check (e.g. too few arguments for a variadic function with mandatory parameters): Call would panic instead of returning an error"), idxs...)
		// arity: error iff len(args) != len(in)
		rets := returnsOf(q.fn)
		q.add("PATH", "arity mismatch is an error", len(rets) >= 3, "three returns: arity error, assignability error, success", nil)
	}
	// the args thunk passes exactly the given arguments: Set iff args[i] != nil
	if q := c.F("CallArgs$ret1$MakeFunc1"); q.ok() {
		sets := P.CallsTo(q.fn, "(reflect.Value).Set")
		if q.need(sets, "COND", "results[i].Set(ValueOf(args[i]))") {
			s := sets[0]
			vo, isVO := callArg(s, 1).(*ssa.Call)
			okv := isVO && P.CalleeName(&vo.Call) == "reflect.ValueOf"
			q.add("PROV", "each argument is passed as given", okv, "Set(reflect.ValueOf(args[i]))", s)
			got := P.PathCond(q.fn, loopBodyOf(s), s, nil)
			only := len(got) == 1 && len(got[0]) == 1
			if only {
				for f, set := range got[0] {
					only = strings.Contains(f, "eq?") && strings.Contains(f, "args") && set == an.SPos
				}
			}
			q.add("COND", "an argument is replaced by the zero value only if it is an untyped nil", only,
				pickS(only, "Set is skipped iff args[i] == nil", "the argument thunk skips Set under another condition: some non-nil (e.g. typed-nil) arguments would be replaced by the zero value: "+got.String()), s)
		}
	}
	typeNilableRule(c)
	// Set on result targets only inside the results thunks
	var stray []ssa.Instruction
	for _, fn := range P.Funcs {
		n := an.FuncName(fn)
		if n == "CallArgs$ret1$MakeFunc1" || n == "CallResults$ret1$MakeFunc1" || n == "CallResultsSlice$ret1$MakeFunc1" {
			continue
		}
		if !strings.Contains(P.Pos(fn.Pos()), "callable.go") {
			continue
		}
		// every reflect.Value method that writes through the Value (Set*, Grow, Clear, Send, Close) and reflect.Copy
		stray = append(stray, an.AllInstrs(fn, func(in ssa.Instruction) bool {
			cc := an.CallCommonOf(in)
			if cc == nil {
				return false
			}
			n := P.CalleeName(cc)
			if n == "reflect.Copy" {
				return true
			}
			if m, ok := strings.CutPrefix(n, "(reflect.Value)."); ok {
				return strings.HasPrefix(m, "Set") || m == "Grow" || m == "Clear" || m == "Send" || m == "TrySend" || m == "Close"
			}
			return false
		})...)
	}
	var sp []string
	for _, in := range stray {
		sp = append(sp, P.InstrPos(in))
	}
	c.C.Add("WR", "callable.go", "result targets are written only by the results thunks", len(stray) == 0,
		pickS(len(stray) == 0, "no reflect.Value mutator (Set*, Grow, Clear, Send, Close, reflect.Copy) outside the thunks", "a reflect.Value is mutated outside the thunks: a target can be touched although Call later returns an error without invoking the function"), sp...)
}

// loopBodyOf: the entry block of the innermost loop body containing in (approximated by the
// dominator chain: the first dominator that is a loop-header successor).
func loopBodyOf(in ssa.Instruction) *ssa.BasicBlock {
	b := in.Block()
	for d := b; d != nil; d = d.Idom() {
		if strings.Contains(d.Comment, "body") {
			return d
		}
	}
	return nil
}

func init() {
	register(&Prop{
		ID:        "C19",
		Technique: "reflect validity typestate/taint analysis (sources: ValueOf/TypeOf of possibly-nil interfaces, flowing through slices, returns and parameters; sinks: Value/Type methods; sanitisers: Kind/IsValid/nil tests on the surviving edge) plus validate-before-invoke path rules",
		Explanation: "every reflect.ValueOf/TypeOf of a possibly-nil interface in callable.go (incl. the Types that flow from typesArgs through a slice into resolveArgs) is used only where Kind()==K, IsValid() or a nil test established validity (the defect repaired by 9473d38; one reasoned exception: the results thunk); " +
			"callable.Call returns every error before the args thunk, the function or the results thunk is invoked, invokes the function exactly once, args before and results after; each option stores its thunk only after every error return; targets/arguments are validated with AssignableTo; the args thunk skips Set only for an untyped nil; result targets are written only by the results thunks; " +
			"every reflect.FuncOf is reached only where its type list was found to hold at most 128 entries (the defect repaired by d0cbc9c); kind-restricted reflect calls are guarded by a Kind test on the same expression (or the kind follows from construction); nothing in callable.go recovers, so a panic of the called function propagates.",
		NotDecided: "arity/assignability for arbitrary signatures (run-time types): e.g. Call(fn(int) int, CallResults(&r)) without CallArgs panics inside reflect ('too few input arguments') - outside static reach.",
		Build: func(c *Ctx) []*an.Oblig {
			rvObligations(c, func(fn string) bool {
				return strings.HasPrefix(fn, "Call") || strings.HasPrefix(fn, "(*callable)") || fn == "NewCallable" || fn == "resolveArgs" || fn == "typesArgs" || fn == "typesInOut"
			})
			callableRules(c)
			packageCall(c)
			reflectKinds(c, "callable.go")
			funcOfArity(c, "callable.go")
			noRecover(c, "callable.go")
			callerSlicesReadOnly(c, "callable.go")
			everyArgumentValidated(c)
			resultsStored(c)
			c.errPolarity("Call")
			out := c.sel(func(o *an.Oblig) bool { return isUndecided(o) || o.Rule == "ANCHOR" })
			return append(out, c.C.List...)
		},
		Floors: []Floor{
			floorRule("RV", "RV", 10),
			floorKey("RV resolveArgs", 1, "RV/resolveArgs/"),
			floorKey("RV CallResults", 2, "RV/CallResults$ret1/"),
			floorKey("validate-before-invoke", 4, "PATH/(*callable).Call/"),
			floorRule("WR", "WR", 4),
		},
	})
}

// packageCall: bigbuff.Call applies every option, returns the first option error without calling, and otherwise invokes
// caller.Call exactly once with the configured thunks, returning its error; MustCall is Call + panic on error.
func packageCall(c *Ctx) {
	P := c.P
	q := c.F("Call")
	if !q.ok() {
		return
	}
	invs := P.CallsTo(q.fn, "invoke:bigbuff.Callable.Call")
	opts := an.AllInstrs(q.fn, func(in ssa.Instruction) bool {
		call, ok := in.(*ssa.Call)
		if !ok || call.Call.IsInvoke() || call.Call.StaticCallee() != nil {
			return false
		}
		if _, isB := call.Call.Value.(*ssa.Builtin); isB {
			return false
		}
		return len(call.Call.Args) == 1
	})
	if !q.need(invs, "PATH", "caller.Call(...)") || !q.need(opts, "PATH", "option(config)") {
		return
	}
	inv := invs[0]
	once := len(invs) == 1 && !P.InCycle(inv)
	q.add("PATH", "the callable is invoked at most once", once, pickS(once, "one caller.Call, outside any loop", "caller.Call can run more than once per Call"), inv)
	// options come from the variadic parameter, in a loop, each error returned before the invocation
	op := opts[0].(*ssa.Call)
	fromOpts := false
	for _, s := range P.Sources(op.Call.Value) {
		if ld, isL := isLoad(s); isL {
			if ia, isIA := ld.X.(*ssa.IndexAddr); isIA && ia.X == ssa.Value(q.fn.Params[1]) {
				fromOpts = true
			}
		}
	}
	okOpt := len(opts) == 1 && fromOpts && P.InCycle(op) && q.onlyAfterSuccess(op, inv)
	q.add("PATH", "every option is applied and an option error prevents the invocation", okOpt,
		pickS(okOpt, "for each options[i]: err := options[i](config); caller.Call only through err == nil", "an option's error does not stop Call before the function is invoked, or not every option is applied"), op)
	// the invocation gets config.args / config.results of the config the options were applied to
	cfgOK := false
	if a, r := callArg(inv, 0), callArg(inv, 1); a != nil && r != nil {
		la, okA := isLoad(a)
		lr, okR := isLoad(r)
		if okA && okR && an.FieldOfAddr(la.X) == "callConfig.args" && an.FieldOfAddr(lr.X) == "callConfig.results" {
			fa, _ := la.X.(*ssa.FieldAddr)
			fr, _ := lr.X.(*ssa.FieldAddr)
			cfgOK = fa != nil && fr != nil && fa.X == fr.X && fa.X == op.Call.Args[0]
		}
	}
	// ... and that config is this call's own: a fresh allocation of Call (a recycled or shared configuration would
	// carry a thunk from an earlier call whose later option failed)
	fresh := true
	for _, sv := range P.SourcesAt(op.Call.Args[0], op) {
		if isNilConst(sv) {
			continue // the error arm of a constructor helper: nothing to inherit from
		}
		if al, isA := sv.(*ssa.Alloc); !isA || al.Parent() != q.fn {
			fresh = false
		}
	}
	q.add("PROV", "every Call starts from its own empty configuration", fresh, pickS(fresh, "the config handed to the options is allocated by this Call", "the configuration the options fill in is not allocated by this Call (pooled, cached or shared): thunks set by an earlier call can reach a later one"), op)
	q.add("PROV", "the callable receives the thunks the options configured", cfgOK, pickS(cfgOK, "caller.Call(config.args, config.results) of the config passed to every option", "caller.Call does not receive config.args / config.results of the config the options filled in"), inv)
	// returns: the invocation's error, or an error that precedes it
	for _, r := range returnsOf(q.fn) {
		after := P.PathExists(q.fn, inv, an.Is(r), nil, nil)
		if after {
			okr := false
			for _, v := range c.retVals(r, 0) {
				okr = v == ssa.Value(inv.(*ssa.Call))
			}
			q.add("PROV", "Call returns the callable's own verdict", okr, pickS(okr, "return caller.Call(...)", "after invoking the function Call returns something other than caller.Call's error"), r)
		} else {
			okr := !anyNil(c.retVals(r, 0))
			q.add("PATH", "Call reports success only after invoking", okr, pickS(okr, "every return that precedes the invocation carries an error", "Call can return nil without having invoked the function"), r)
		}
	}
	if m := c.F("MustCall"); m.ok() {
		c.delegates("MustCall", "Call", "p0", "p1")
		pans := an.AllInstrs(m.fn, an.IsPanic)
		calls := P.CallsTo(m.fn, "Call")
		okp := len(pans) == 1 && len(calls) == 1
		if okp {
			call := calls[0].(*ssa.Call)
			ifn, ns, found := m.nilTestOf(func(v ssa.Value) bool { return v == ssa.Value(call) })
			okp = found && m.onlyViaEdge(pans[0], ifn, 1-ns) && !P.PathExists(m.fn, ifn, an.IsReturn, nil, cutEdge(ifn, ns))
		}
		m.add("PATH", "MustCall panics iff Call returned an error", okp, pickS(okp, "panic only through err != nil, and always then", "MustCall can swallow an error or panic without one"), pans...)
	}
}

// reflectKinds (RK): reflect methods that panic unless the receiver has a certain kind (Elem, IsNil, Call, NumIn, ...)
// are reached only where that kind was established: through the matching edge of a Kind() comparison on the same
// reflect expression, or by construction (reflect.New / MakeFunc / MakeSlice, ValueOf of a statically typed operand).
// This is the structural part of "Call never panics on its own account" for the validation code.
var rkAllowed = map[string][]string{
	"(reflect.Value).Elem":           {"Interface", "Pointer"},
	"(reflect.Value).IsNil":          {"Chan", "Func", "Interface", "Map", "Pointer", "Slice", "UnsafePointer"},
	"(reflect.Value).Call":           {"Func"},
	"(reflect.Value).Len":            {"Array", "Chan", "Map", "Slice", "String"},
	"(reflect.Value).Index":          {"Array", "Slice", "String"},
	"invoke:reflect.Type.NumIn":      {"Func"},
	"invoke:reflect.Type.NumOut":     {"Func"},
	"invoke:reflect.Type.In":         {"Func"},
	"invoke:reflect.Type.Out":        {"Func"},
	"invoke:reflect.Type.IsVariadic": {"Func"},
	"invoke:reflect.Type.Elem":       {"Array", "Chan", "Map", "Pointer", "Slice"},
	"invoke:reflect.Type.ChanDir":    {"Chan"},
	"reflect.Append":                 {"Slice"},
}

// rkExempt: receivers whose kind is established elsewhere, with the obligation that establishes it.
var rkExempt = map[string]string{
	"F:notifierSubscriber.target": "a subscriber's target is stored only from valueOfNotifierTarget's result, which returns only for a channel (obligations PATH/valueOfNotifierTarget, PROV/(*Notifier).SubscribeContext)",
	"F:callConfig.this":           "callConfig.this is stored only by Call, from caller.Type(), and the options run only through Kind() == Func (obligations WR/PATH callConfig.this)",
}

func reflectKinds(c *Ctx, inFile string) {
	P := c.P
	kindConst := func(v ssa.Value) (string, bool) {
		cv, ok := constInt(v)
		if !ok {
			return "", false
		}
		if n, isN := v.Type().(*types.Named); !isN || n.Obj().Name() != "Kind" {
			return "", false
		}
		for _, k := range []string{"Invalid", "Bool", "Array", "Chan", "Func", "Interface", "Map", "Pointer", "Slice", "String", "Struct", "UnsafePointer"} {
			if x, okc := P.PkgConstInt("reflect", k); okc && x == cv {
				return k, true
			}
		}
		return "?", true
	}
	var key func(v ssa.Value, d int) string
	key = func(v ssa.Value, d int) string {
		if d > 8 {
			return "?"
		}
		srcs := P.Sources(v)
		if len(srcs) == 1 {
			v = srcs[0]
		}
		switch x := v.(type) {
		case *ssa.Call:
			n := P.CalleeName(&x.Call)
			switch n {
			case "(reflect.Value).Elem":
				return key(x.Call.Args[0], d+1) + ".Elem"
			case "invoke:reflect.Type.Elem":
				return key(x.Call.Value, d+1) + ".Elem"
			case "(reflect.Value).Type":
				return key(x.Call.Args[0], d+1)
			case "reflect.ValueOf", "reflect.TypeOf":
				return "of(" + key(x.Call.Args[0], d+1) + ")"
			}
			return x.Name() + "@" + an.FuncName(x.Parent())
		case *ssa.UnOp:
			if x.Op == token.MUL {
				if f := an.FieldOfAddr(x.X); f != "" {
					return "F:" + f
				}
				if ia, isIA := x.X.(*ssa.IndexAddr); isIA {
					return "elem(" + key(ia.X, d+1) + ")" // any element: the validation loops return on the first bad one
				}
			}
		case *ssa.FreeVar:
			// the captured variable of the enclosing function
			if par := x.Parent().Parent(); par != nil {
				for _, in := range an.AllInstrs(par, func(in ssa.Instruction) bool { _, ok := in.(*ssa.MakeClosure); return ok }) {
					mc := in.(*ssa.MakeClosure)
					if mc.Fn == ssa.Value(x.Parent()) {
						for i, fv := range x.Parent().FreeVars {
							if fv == x && i < len(mc.Bindings) {
								b := mc.Bindings[i]
								if al, isAl := b.(*ssa.Alloc); isAl {
									// a captured cell: its (only) stored value
									if sts := P.CellStores(al); len(sts) == 1 {
										return key(sts[0].Val, d+1)
									}
								}
								return key(b, d+1)
							}
						}
					}
				}
			}
		case *ssa.Parameter:
			return "P:" + x.Name() + "@" + an.FuncName(x.Parent())
		case *ssa.MakeInterface:
			return key(x.X, d+1)
		}
		return v.Name() + "@" + an.FuncName(valueParent(v))
	}
	byConstruction := func(v ssa.Value, allowed []string) bool {
		has := func(k string) bool {
			for _, a := range allowed {
				if a == k {
					return true
				}
			}
			return false
		}
		for _, s := range P.Sources(v) {
			call, ok := s.(*ssa.Call)
			if !ok {
				return false
			}
			switch P.CalleeName(&call.Call) {
			case "reflect.New":
				if !has("Pointer") {
					return false
				}
			case "reflect.MakeFunc":
				if !has("Func") {
					return false
				}
			case "reflect.MakeSlice", "reflect.Append":
				if !has("Slice") {
					return false
				}
			case "reflect.ValueOf", "reflect.TypeOf":
				mi, isMI := call.Call.Args[0].(*ssa.MakeInterface)
				if !isMI {
					return false
				}
				k := ""
				switch mi.X.Type().Underlying().(type) {
				case *types.Signature:
					k = "Func"
				case *types.Pointer:
					k = "Pointer"
				case *types.Slice:
					k = "Slice"
				case *types.Map:
					k = "Map"
				case *types.Chan:
					k = "Chan"
				}
				if k == "" || !has(k) {
					return false
				}
			default:
				return false
			}
		}
		return true
	}
	n := 0
	collect := func(fn *ssa.Function) []struct {
		ifi  *ssa.If
		succ int
		kind string
		key  string
	} {
		type ktest = struct {
			ifi  *ssa.If
			succ int
			kind string
			key  string
		}
		var tests []ktest
		ifs, negs := P.IfsOn(fn, func(cond ssa.Value) bool {
			b, ok := cond.(*ssa.BinOp)
			if !ok || (b.Op != token.EQL && b.Op != token.NEQ) {
				return false
			}
			_, kx := kindConst(b.X)
			_, ky := kindConst(b.Y)
			return kx != ky
		})
		for i, ifi := range ifs {
			b := stripNotV(ifi.Cond).(*ssa.BinOp)
			kv, other := b.Y, b.X
			if _, isK := kindConst(b.X); isK {
				kv, other = b.X, b.Y
			}
			kname, _ := kindConst(kv)
			var recv ssa.Value
			for _, s := range P.Sources(other) {
				if call, isC := s.(*ssa.Call); isC {
					switch P.CalleeName(&call.Call) {
					case "(reflect.Value).Kind":
						recv = call.Call.Args[0]
					case "invoke:reflect.Type.Kind":
						recv = call.Call.Value
					}
				}
			}
			if recv == nil {
				continue
			}
			eq := 0
			if negs[i] {
				eq = 1
			}
			if b.Op == token.NEQ {
				eq = 1 - eq
			}
			tests = append(tests, ktest{ifi, eq, kname, key(recv, 0)})
		}
		return tests
	}
	for _, fn := range P.Funcs {
		if !strings.Contains(P.Pos(fn.Pos()), inFile) {
			continue
		}
		q := &fq{c: c, fn: fn, name: an.FuncName(fn)}
		tests := collect(fn)
		for _, in := range an.AllInstrs(fn, func(in ssa.Instruction) bool {
			cc := an.CallCommonOf(in)
			return cc != nil && rkAllowed[P.CalleeName(cc)] != nil
		}) {
			cc := an.CallCommonOf(in)
			name := P.CalleeName(cc)
			allowed := rkAllowed[name]
			recv := cc.Value
			if !cc.IsInvoke() {
				recv = cc.Args[0]
			}
			k := key(recv, 0)
			ok, why := false, ""
			switch {
			case byConstruction(recv, allowed):
				ok, why = true, "the receiver's kind follows from how it was made"
			case rkExempt[k] != "":
				ok, why = true, rkExempt[k]
			default:
				for _, t := range tests {
					if t.key != k {
						continue
					}
					for _, a := range allowed {
						if a == t.kind && q.onlyViaEdge(in, t.ifi, t.succ) {
							ok, why = true, "reached only through Kind() == reflect."+a
						}
					}
				}
				// established by an enclosing function before this closure was created: the creation site of each closure on
				// the way is reachable only through the matching edge of a Kind() comparison on the same expression
				child := fn
				for anc := fn.Parent(); !ok && anc != nil; child, anc = anc, anc.Parent() {
					aq := &fq{c: c, fn: anc, name: an.FuncName(anc)}
					var sites []ssa.Instruction
					for _, mi := range an.AllInstrs(anc, func(in ssa.Instruction) bool { _, ok := in.(*ssa.MakeClosure); return ok }) {
						if mi.(*ssa.MakeClosure).Fn == ssa.Value(child) {
							sites = append(sites, mi)
						}
					}
					for _, t := range collect(anc) {
						if t.key != k || len(sites) == 0 {
							continue
						}
						for _, a := range allowed {
							if a != t.kind {
								continue
							}
							all := true
							for _, st := range sites {
								// the failing edge never leads to the creation site (the test may sit in a validation loop)
								// (a test inside a helper that is analysed as part of anc hands its verdict back through a result,
								// which a path query cannot follow: there only reachability through the matching edge is required)
								inHelper := an.Host(t.ifi.Parent()) != t.ifi.Parent()
								if (!inHelper && P.PathExists(anc, t.ifi, an.Is(st), nil, cutEdge(t.ifi, t.succ))) || !P.PathExists(anc, t.ifi, an.Is(st), nil, cutEdge(t.ifi, 1-t.succ)) {
									all = false
								}
							}
							_ = aq
							if all {
								ok, why = true, "the closure is created only after "+an.FuncName(anc)+" established Kind() == reflect."+a
							}
						}
					}
				}
				// the same for a variable kept in a register: a phi of the zero Value and validated values
				if ph, isPh := recv.(*ssa.Phi); !ok && isPh {
					good := true
					hasZero := false
					for i, e := range ph.Edges {
						if cz, isC := e.(*ssa.Const); isC && cz.Value == nil {
							hasZero = true
							continue
						}
						ek := key(e, 0)
						found := false
						pred := ph.Block().Preds[i]
						for _, t := range tests {
							if t.key != ek {
								continue
							}
							for _, a := range allowed {
								if a == t.kind && q.onlyViaEdge(pred.Instrs[len(pred.Instrs)-1], t.ifi, t.succ) {
									found = true
								}
							}
						}
						if !found {
							good = false
						}
					}
					zero := !hasZero
					zIfs, zNegs := P.IfsOn(fn, func(cond ssa.Value) bool {
						b, okb := cond.(*ssa.BinOp)
						if !okb || (b.Op != token.EQL && b.Op != token.NEQ) {
							return false
						}
						return either(b, isVal(ph), func(v ssa.Value) bool { cz, isc := v.(*ssa.Const); return isc && cz.Value == nil })
					})
					for i, zi := range zIfs {
						nz := 0
						if zNegs[i] {
							nz = 1
						}
						if stripNotV(zi.Cond).(*ssa.BinOp).Op == token.EQL {
							nz = 1 - nz
						}
						if q.onlyViaEdge(in, zi, nz) {
							zero = true
						}
					}
					// ... or by IsValid()
					vIfs, vNegs := P.IfsOn(fn, func(cond ssa.Value) bool {
						call, isC := cond.(*ssa.Call)
						return isC && P.CalleeName(&call.Call) == "(reflect.Value).IsValid" && call.Call.Args[0] == ssa.Value(ph)
					})
					for i, vi := range vIfs {
						ts := 0
						if vNegs[i] {
							ts = 1
						}
						if q.onlyViaEdge(in, vi, ts) {
							zero = true
						}
					}
					if !zero {
						// ... or by a test that decides the same thing: the arm that leaves the variable zero cannot have been
						// taken where the call stands (`if results != nil { v = validated }` ... `if results == nil { return }`)
						zero = true
						for _, sv := range P.SourcesAt(ph, in) {
							if cz, isC := sv.(*ssa.Const); isC && cz.Value == nil {
								zero = false
							}
						}
					}
					if good && zero {
						ok, why = true, "the variable is either the zero Value (excluded by the comparison with reflect.Value{}) or a value whose Kind() was established"
					}
				}
				// a local reflect.Value variable that is either zero or a validated value, used only where it is not zero
				if ld, isL := isLoad(recv); !ok && isL {
					if cell := P.CellOf(ld.X); cell != nil && cell.Parent() == fn {
						sts := P.CellStores(cell)
						good := len(sts) > 0
						for _, st := range sts {
							sk := key(st.Val, 0)
							found := false
							for _, t := range tests {
								if t.key != sk {
									continue
								}
								for _, a := range allowed {
									if a == t.kind && !P.PathExists(fn, st, an.Is(in), nil, cutEdge(t.ifi, t.succ)) {
										found = true
									}
								}
							}
							if !found {
								good = false
							}
						}
						// the zero value (no store executed) is excluded by a comparison with reflect.Value{}
						zIfs, zNegs := P.IfsOn(fn, func(cond ssa.Value) bool {
							b, okb := cond.(*ssa.BinOp)
							if !okb || (b.Op != token.EQL && b.Op != token.NEQ) {
								return false
							}
							isC := func(v ssa.Value) bool {
								l, isl := isLoad(v)
								return isl && P.CellOf(l.X) == cell
							}
							isZ := func(v ssa.Value) bool {
								cz, isc := v.(*ssa.Const)
								return isc && cz.Value == nil
							}
							return either(b, isC, isZ)
						})
						zero := false
						var stI []ssa.Instruction
						for _, st := range sts {
							stI = append(stI, st)
						}
						for i, zi := range zIfs {
							nz := 0 // successor taken when the variable is not the zero Value
							if zNegs[i] {
								nz = 1
							}
							if stripNotV(zi.Cond).(*ssa.BinOp).Op == token.EQL {
								nz = 1 - nz
							}
							if !P.PathExists(fn, nil, an.Is(in), an.In(stI), cutEdge(zi, nz)) {
								zero = true
							}
						}
						if good && zero {
							ok, why = true, "the variable is either the zero Value (excluded by the comparison with reflect.Value{}) or a value whose Kind() was established"
						}
					}
				}
				// a parameter of an unexported function: every call site passes an exempt receiver
				if prm, isP := recv.(*ssa.Parameter); !ok && isP && fn.Object() != nil && !fn.Object().Exported() {
					sites, good := 0, true
					for _, g := range P.Funcs {
						for _, cs := range P.CallsTo(g, an.FuncName(fn)) {
							sites++
							idx := -1
							for i, pp := range fn.Params {
								if pp == prm {
									idx = i
								}
							}
							if idx < 0 || rkExempt[key(an.CallCommonOf(cs).Args[idx], 0)] == "" {
								good = false
							}
						}
					}
					if sites > 0 && good {
						ok, why = true, "every caller passes callConfig.this"
					}
				}
			}
			// the variadic parameter's type is a slice by definition of IsVariadic
			if !ok && name == "invoke:reflect.Type.Elem" && an.FuncName(fn) == "resolveArgs" {
				vifs, vnegs := P.IfsOn(fn, func(cond ssa.Value) bool { return P.IsCallResult(cond, "invoke:reflect.Type.IsVariadic", 0) })
				for i, vi := range vifs {
					ts := 0
					if vnegs[i] {
						ts = 1
					}
					if q.onlyViaEdge(in, vi, ts) {
						ok, why = true, "reached only through IsVariadic(): the last parameter of a variadic function is a slice"
					}
				}
			}
			n++
			q.add("RK", strings.TrimPrefix(strings.TrimPrefix(name, "invoke:"), "(")+" on "+rkDisplay.ReplaceAllString(k, "a local value"), ok,
				pickS(ok, why, name+" panics unless its receiver's kind is one of "+strings.Join(allowed, "/")+", and no Kind() comparison on the same reflect expression guards this call (nor does the receiver's kind follow from its construction)"), in)
		}
	}
	// premise of the callConfig.this exemption
	if q := c.F("Call"); inFile == "callable.go" && q.ok() {
		okw := true
		for _, fn := range P.Funcs {
			for _, st := range an.FieldStores(fn, "callConfig.this") {
				if an.FuncName(fn) != "Call" {
					okw = false
				}
				_ = st
			}
		}
		// inside Call the config is built with this: caller.Type() and checked before any option runs
		ksrc := false
		for _, in := range an.AllInstrs(q.fn, func(in ssa.Instruction) bool { _, ok := in.(*ssa.Store); return ok }) {
			if an.FieldOfAddr(in.(*ssa.Store).Addr) == "callConfig.this" && P.IsCallResult(in.(*ssa.Store).Val, "invoke:bigbuff.Callable.Type", 0) {
				ksrc = true
			}
		}
		// ... and the options (which rely on it) run only where Call established Kind() == Func
		okk := false
		for _, t := range collect(q.fn) {
			if t.key == "F:callConfig.this" && t.kind == "Func" {
				okk = true
				for _, in := range an.AllInstrs(q.fn, func(in ssa.Instruction) bool {
					call, ok := in.(*ssa.Call)
					return ok && (call.Call.IsInvoke() && call.Call.Method.Name() == "Call" || !call.Call.IsInvoke() && call.Call.StaticCallee() == nil && len(call.Call.Args) == 1)
				}) {
					if _, isB := in.(*ssa.Call).Call.Value.(*ssa.Builtin); isB {
						continue
					}
					if !q.onlyViaEdge(in, t.ifi, t.succ) {
						okk = false
					}
				}
			}
		}
		q.add("PATH", "options and the invocation run only for a callable of kind Func", okk, pickS(okk, "option(config) and caller.Call are reached only through config.this.Kind() == reflect.Func", "Call proceeds with a callable type that is not a func (the options and resolveArgs would panic in reflect)"))
		q.add("WR", "callConfig.this is the callable's type, set only by Call", okw && ksrc, pickS(okw && ksrc, "one store, in Call, of caller.Type()", "callConfig.this is written elsewhere or not from caller.Type()"))
	}
	if inFile == "callable.go" {
		c.C.Add("RK", "callable.go", "kind-restricted reflect calls found", n >= 12, fmt.Sprintf("%d calls checked", n))
	}
}

func valueParent(v ssa.Value) *ssa.Function {
	if in, ok := v.(ssa.Instruction); ok {
		return in.Parent()
	}
	return v.Parent()
}

var rkDisplay = regexp.MustCompile(`t[0-9]+@[^)]*`)

// typeNilableRule: an untyped nil is accepted exactly for the kinds whose values can be nil (powerset analysis of the
// function over the finite domain of reflect.Kind; nothing is executed).
func typeNilableRule(c *Ctx) {
	P := c.P
	if q := c.F("typeNilable"); q.ok() {
		kinds := []string{"Invalid", "Bool", "Int", "Int8", "Int16", "Int32", "Int64", "Uint", "Uint8", "Uint16", "Uint32", "Uint64", "Uintptr", "Float32", "Float64",
			"Complex64", "Complex128", "Array", "Chan", "Func", "Interface", "Map", "Pointer", "Slice", "String", "Struct", "UnsafePointer"}
		nilable := map[string]bool{"Chan": true, "Func": true, "Interface": true, "Map": true, "Pointer": true, "Slice": true, "UnsafePointer": true}
		var domain, want uint64
		okd := true
		for _, k := range kinds {
			v, okc := P.PkgConstInt("reflect", k)
			if !okc || v < 0 || v > 62 {
				okd = false
				continue
			}
			domain |= 1 << uint(v)
			if nilable[k] {
				want |= 1 << uint(v)
			}
		}
		if !okd || len(q.fn.Params) != 1 {
			q.undecided("COND", "typeNilable is true exactly for the nilable kinds", "reflect.Kind constants could not be resolved")
		} else {
			isK := func(v ssa.Value) bool {
				call, ok := v.(*ssa.Call)
				return ok && call.Call.IsInvoke() && call.Call.Method.Name() == "Kind" && call.Call.Value == ssa.Value(q.fn.Params[0])
			}
			got, okt, why := P.TrueSet(q.fn, isK, domain)
			if !okt {
				q.undecided("COND", "typeNilable is true exactly for the nilable kinds", "typeNilable is no longer a pure function of t.Kind() compared with constants: "+why)
			} else {
				var diff []string
				for _, k := range kinds {
					v, _ := P.PkgConstInt("reflect", k)
					if (got^want)&(1<<uint(v)) != 0 {
						diff = append(diff, k)
					}
				}
				q.add("COND", "typeNilable is true exactly for the nilable kinds", got == want,
					pickS(got == want, "true for Chan, Func, Interface, Map, Pointer, Slice, UnsafePointer and false for the other 20 kinds", "typeNilable answers wrongly for kind(s) "+strings.Join(diff, ", ")+": an untyped nil would be accepted for a type that has no nil (Call would invoke the function with a zero value instead of returning an error) or rejected for one that has"))
			}
		}
	}
}

// funcOfArity: reflect.FuncOf panics ("too many arguments") when len(in)+len(out) exceeds 128, whatever the types are.
// Every FuncOf in the file is therefore reached only where the length of its (single) non-nil type list was compared
// against a constant and found to be at most 128. (A precondition of the reflect call, like the kind preconditions of
// RK: a function or argument list of 129 entries must be answered with an error, not a panic.)
func funcOfArity(c *Ctx, inFile string) {
	P := c.P
	n := 0
	for _, fn := range P.Funcs {
		if !strings.Contains(P.Pos(fn.Pos()), inFile) {
			continue
		}
		q := &fq{c: c, fn: fn, name: an.FuncName(fn)}
		for _, site := range P.CallsTo(fn, "reflect.FuncOf") {
			n++
			cc := an.CallCommonOf(site)
			var lists []ssa.Value
			for _, a := range cc.Args[:2] {
				if !isNilConst(a) {
					lists = append(lists, a)
				}
			}
			if len(lists) == 0 {
				q.add("RV", "reflect.FuncOf is given at most 128 types", true, "no type list", site)
				continue
			}
			if len(lists) > 1 {
				q.undecided("RV", "reflect.FuncOf is given at most 128 types", "both type lists are non-empty: their sum is not bounded by this rule", site)
				continue
			}
			// the len(list) reads the function makes (of the same value, through cells and temporaries)
			srcs := map[ssa.Value]bool{}
			for _, s := range P.Sources(lists[0]) {
				srcs[s] = true
			}
			ok := false
			for _, ln := range an.AllInstrs(fn, func(in ssa.Instruction) bool {
				call, isC := in.(*ssa.Call)
				if !isC {
					return false
				}
				b, isB := call.Call.Value.(*ssa.Builtin)
				if !isB || b.Name() != "len" {
					return false
				}
				for _, s := range P.Sources(call.Call.Args[0]) {
					if !srcs[s] {
						return false
					}
				}
				return true
			}) {
				d := P.Lin(ln.(*ssa.Call)).AddC(-128)
				got := P.PathCond(fn, nil, site, keepForms(d))
				if len(got) == 0 {
					continue
				}
				if imp, _ := an.ImpliesDNF(got, an.DNF{conj(lit(d, an.SNeg|an.SZero))}); imp {
					ok = true
				}
			}
			q.add("RV", "reflect.FuncOf is given at most 128 types", ok, pickS(ok, "reached only where len(list) <= 128 was established", "reflect.FuncOf panics for more than 128 types and nothing bounds the list: a call with 129 arguments (or a function with 129 results) panics instead of returning an error"), site)
		}
	}
	if n == 0 {
		c.C.Undecided("RV", inFile, "reflect.FuncOf", "no reflect.FuncOf call found in "+inFile+": the thunk construction changed, re-confirm")
	}
}

// noRecover: "only a panic raised by the called function itself propagates" - and it does propagate: nothing in the
// file recovers. (A recover around the invocation cannot tell the function's own panic from the library's.) The
// detector is the one that finds the package's only recover (chanpubsub.go), which is the rule's positive control.
// callerSlicesReadOnly: the variadic slices the caller hands to CallArgs / CallResults (and whatever else the functions
// of the file receive or capture as a slice) are only read. The option value is reusable and may alias the caller's
// own slice: writing a resolved value back into args[i] changes what the next Call with the same option passes.
func callerSlicesReadOnly(c *Ctx, inFile string) {
	P := c.P
	q := &fq{c: c, name: "callable.go"}
	var bad []ssa.Instruction
	n := 0
	for _, fn := range P.AllFuncs() {
		if len(fn.Blocks) == 0 || !P.IsLib(an.Canon(fn)) || !strings.Contains(P.Pos(fn.Pos()), inFile) {
			continue
		}
		n++
		given := func(v ssa.Value) bool {
			for _, sv := range P.Sources(v) {
				switch x := sv.(type) {
				case *ssa.Parameter, *ssa.FreeVar:
					return true
				case *ssa.UnOp:
					if x.Op == token.MUL {
						if _, isFV := x.X.(*ssa.FreeVar); isFV {
							return true
						}
					}
				case *ssa.Slice:
					for _, s2 := range P.Sources(x.X) {
						switch s2.(type) {
						case *ssa.Parameter, *ssa.FreeVar:
							return true
						}
					}
				}
			}
			return false
		}
		for _, in := range an.AllInstrs(fn, func(in ssa.Instruction) bool { return true }) {
			switch x := in.(type) {
			case *ssa.Store:
				if ia, ok := x.Addr.(*ssa.IndexAddr); ok {
					if _, isSl := ia.X.Type().Underlying().(*types.Slice); isSl && given(ia.X) {
						bad = append(bad, in)
					}
				}
			case *ssa.Call:
				if b, ok := x.Call.Value.(*ssa.Builtin); ok && (b.Name() == "copy" || b.Name() == "clear") && len(x.Call.Args) > 0 && given(x.Call.Args[0]) {
					bad = append(bad, in)
				}
			}
		}
	}
	if n == 0 {
		q.undecided("WR", "the caller's argument and target slices are only read", "no function of "+inFile+" found")
		return
	}
	q.add("WR", "the caller's argument and target slices are only read", len(bad) == 0, pickS(len(bad) == 0, "no element store, copy or clear into a slice that was received or captured", "an element of a slice the caller passed in (or the option captured) is overwritten: the option value and the caller's slice are changed by a Call"), bad...)
}

// everyArgumentValidated: in resolveArgs every argument position is judged - by AssignableTo, or by typeNilable for an
// untyped nil - before the loop moves on: no way round the validation loop avoids both (a "same as the previous
// argument" shortcut skips the check against *this* position's parameter type).
func everyArgumentValidated(c *Ctx) {
	q := c.F("resolveArgs")
	if !q.ok() {
		return
	}
	P := c.P
	fn := q.fn
	var vals []ssa.Instruction
	for _, in := range an.AllInstrs(fn, func(in ssa.Instruction) bool {
		cc := an.CallCommonOf(in)
		if cc == nil || !P.InCycle(in) {
			return false
		}
		if cc.IsInvoke() && cc.Method.Name() == "AssignableTo" {
			return true
		}
		return P.CalleeName(cc) == "typeNilable"
	}) {
		vals = append(vals, in)
	}
	if !q.need(vals, "PATH", "validation of an argument position") {
		return
	}
	// the loop that validates: the innermost header (a block with an If that has one successor leaving the cycle) which
	// dominates every validation call
	bad := false
	found := false
	for _, b := range fn.Blocks {
		ifi, isIf := b.Instrs[len(b.Instrs)-1].(*ssa.If)
		if !isIf || !P.InCycle(ifi) {
			continue
		}
		dom := true
		for _, v := range vals {
			if !b.Dominates(v.Block()) {
				dom = false
			}
		}
		if !dom {
			continue
		}
		exit := -1
		for i, sc := range b.Succs {
			if len(sc.Instrs) > 0 && !P.InCycle(sc.Instrs[0]) {
				exit = i
			}
		}
		if exit < 0 {
			continue
		}
		found = true
		if P.PathExists(fn, ifi, an.Is(ifi), an.In(vals), cutEdge(ifi, exit)) {
			bad = true
		}
	}
	if !found {
		q.undecided("PATH", "every argument position is validated", "the validation loop of resolveArgs was not recognised")
		return
	}
	q.add("PATH", "every argument position is validated", !bad, pickS(!bad, "every trip round the validation loop passes AssignableTo or typeNilable", "an argument position can be accepted without being checked against its parameter type: reflect would panic inside the thunk, or a nil would reach a non-nilable parameter"), vals...)
}

func noRecover(c *Ctx, inFile string) {
	P := c.P
	isRecover := func(in ssa.Instruction) bool {
		cc := an.CallCommonOf(in)
		if cc == nil {
			return false
		}
		b, ok := cc.Value.(*ssa.Builtin)
		return ok && b.Name() == "recover"
	}
	total := 0
	for _, fn := range P.AllFuncs() {
		sites := an.AllInstrs(fn, isRecover)
		if len(sites) == 0 {
			continue
		}
		if an.IsTransparent(fn) {
			continue // reported with its host
		}
		total += len(sites)
		if !strings.Contains(P.Pos(fn.Pos()), inFile) {
			continue
		}
		q := &fq{c: c, fn: fn, name: an.FuncName(fn)}
		q.add("PATH", "a panic of the called function propagates", false, "recover() in "+inFile+": a panic raised by the called function (or by anything else) is swallowed or converted", sites...)
	}
	q := c.F("(*callable).Call")
	if q.ok() {
		q.add("PATH", "a panic of the called function propagates", total > 0, pickS(total > 0, "no recover() in "+inFile+" (the detector sees the package's other recover sites)", "the recover detector found no site in the whole package: its positive control is gone, re-confirm"))
	}
}

// resultsStored: "stores exactly the values a direct call would return". The results thunk of CallResults sets every
// target, on every path through its loop, to the value it received for that position - not to something derived from
// it, and not only under a condition (a nil interface result skipped "because it is invalid" leaves a stale value in
// the target). CallResultsSlice appends the received values themselves and skips the write only when there are none.
func resultsStored(c *Ctx) {
	P := c.P
	if q := c.F("CallResults$ret1$MakeFunc1"); q.ok() && len(q.fn.Params) == 1 {
		args := q.fn.Params[0]
		sets := P.CallsTo(q.fn, "(reflect.Value).Set")
		if q.need(sets, "PROV", "Set of a result target") {
			for _, st := range sets {
				// the element of args this iteration received
				var elem ssa.Instruction
				okv := false
				srcs := P.Sources(callArg(st, 1))
				if len(srcs) == 1 {
					switch x := srcs[0].(type) {
					case *ssa.Extract:
						if nx, isN := x.Tuple.(*ssa.Next); isN && x.Index == 1 {
							if rg, isR := nx.Iter.(*ssa.Range); isR && usesValue(P, rg.X, args) {
								okv, elem = true, nx
							}
						}
					case *ssa.UnOp:
						if ia, isIA := x.X.(*ssa.IndexAddr); isIA && x.Op == token.MUL && usesValue(P, ia.X, args) {
							okv, elem = true, x
						}
					}
				}
				q.add("PROV", "each target is set to the result received for its position", okv && P.InCycle(st),
					pickS(okv, "Set(args[i]) in the loop over args", "a target is set to something other than the received result itself (e.g. its Elem()): what is stored can differ from what a direct call returns"), st)
				if elem != nil {
					// (leaving the loop when the range is exhausted is not a skipped element)
					var cut an.EdgeCut
					if nx, isN := elem.(*ssa.Next); isN {
						okIfs, okNegs := P.IfsOn(q.fn, func(cond ssa.Value) bool {
							ex, isE := cond.(*ssa.Extract)
							return isE && ex.Tuple == ssa.Value(nx) && ex.Index == 0
						})
						if len(okIfs) == 1 {
							exit := 1
							if okNegs[0] {
								exit = 0
							}
							cut = cutEdge(okIfs[0], exit)
						}
					}
					skip := P.PathExists(q.fn, elem, func(in ssa.Instruction) bool { return in == elem || an.IsReturn(in) }, an.Is(st), cut)
					q.add("PATH", "every received result is stored", !skip,
						pickS(!skip, "no way from taking args[i] to the next element or the return avoids Set", "a received result can be skipped (e.g. only valid / non-nil values are stored): the target keeps a stale value although Call reports success"), st)
				}
			}
		}
	}
	if q := c.F("CallResultsSlice$ret1$MakeFunc1"); q.ok() && len(q.fn.Params) == 1 {
		args := q.fn.Params[0]
		apps := P.CallsTo(q.fn, "reflect.Append")
		if q.need(apps, "PROV", "reflect.Append of the results") {
			okv := usesValue(P, callArg(apps[0], 1), args)
			q.add("PROV", "the received results themselves are appended", okv, pickS(okv, "Append(slice, args...)", "what is appended is not the received results"), apps[0])
		}
	}
}
