package props

import (
	"go/token"
	"go/types"

	"golang.org/x/tools/go/ssa"

	"bbcheck/internal/an"
)

func isErrorType(t types.Type) bool {
	n, ok := t.(*types.Named)
	return ok && n.Obj().Pkg() == nil && n.Obj().Name() == "error"
}

// errEdges returns an EdgeCut that removes, for every `err ==/!= nil` test on an error-typed value
// in fn, the successor taken when the error is nil (nilSide=true) or non-nil (nilSide=false).
func errEdges(p *an.Prog, fn *ssa.Function, nilSide bool) an.EdgeCut {
	type edge struct {
		b *ssa.BasicBlock
		i int
	}
	cut := map[edge]bool{}
	for _, b := range fn.Blocks {
		if len(b.Instrs) == 0 {
			continue
		}
		ifi, ok := b.Instrs[len(b.Instrs)-1].(*ssa.If)
		if !ok {
			continue
		}
		nilWhenTrue, ok := errTestPolarity(ifi.Cond, 0)
		if !ok {
			continue
		}
		nilIdx := 1
		if nilWhenTrue {
			nilIdx = 0
		}
		if nilSide {
			cut[edge{b, nilIdx}] = true
		} else {
			cut[edge{b, 1 - nilIdx}] = true
		}
	}
	return func(b *ssa.BasicBlock, i int) bool { return cut[edge{b, i}] }
}

// errTestPolarity: cond is a nil test of an error value - directly, negated, or remembered in a boolean that is joined
// from such tests and from constants on the not-nil side only (`live = ctx.Err() == nil` on one arm, live left false
// on the others: live implies that the test found nil). nilWhenTrue tells which outcome of cond means "was nil".
func errTestPolarity(c ssa.Value, depth int) (nilWhenTrue, ok bool) {
	if depth > 4 {
		return false, false
	}
	switch x := c.(type) {
	case *ssa.UnOp:
		if x.Op == token.NOT {
			r, ok := errTestPolarity(x.X, depth+1)
			return !r, ok
		}
	case *ssa.BinOp:
		if x.Op != token.EQL && x.Op != token.NEQ {
			return false, false
		}
		var other ssa.Value
		if isNilConst(x.Y) {
			other = x.X
		} else if isNilConst(x.X) {
			other = x.Y
		}
		if other == nil || !isErrorType(other.Type()) {
			return false, false
		}
		return x.Op == token.EQL, true
	case *ssa.Phi:
		if !isBoolT(x) {
			return false, false
		}
		have := false
		var consts []bool
		for _, e := range x.Edges {
			if bv, isB := constBool(e); isB {
				consts = append(consts, bv)
				continue
			}
			r, ok := errTestPolarity(e, depth+1)
			if !ok || (have && r != nilWhenTrue) {
				return false, false
			}
			nilWhenTrue, have = r, true
		}
		if !have {
			return false, false
		}
		for _, bv := range consts {
			if bv == nilWhenTrue {
				// a constant on the "was nil" side: the boolean can say so without any test
				return false, false
			}
		}
		return nilWhenTrue, true
	}
	return false, false
}

// onlyAfterSuccess: every path from call to site goes through the nil side of an error test.
func (q *fq) onlyAfterSuccess(call, site ssa.Instruction) bool {
	return !q.c.P.PathExists(q.fn, call, an.Is(site), nil, errEdges(q.c.P, q.fn, true))
}

func consumerCommitRollback(c *Ctx) {
	P := c.P
	if q := c.F("(*consumer).Commit"); q.ok() {
		recv := q.param(0)
		calls := P.CallsTo(q.fn, "invoke:bigbuff.producer.commit")
		stores := an.FieldStores(q.fn, "consumer.offset")
		if q.need(calls, "PATH", "call of producer.commit") && q.need(stores, "PATH", "store to consumer.offset") {
			call := calls[0]
			q.add("PROV", "commit is called for this consumer", callArg(call, 0) == ssa.Value(q.fn.Params[0]), "first argument is the receiver", call)
			q.expectLin("LIN", "commit folds exactly the uncommitted delta", callArg(call, 1), aF(recv+".offset"), call)
			off := aF(recv + ".offset")
			q.expectCond("COND", "commit is attempted iff something is pending", call, nil, an.DNF{conj(lit(off, an.SNeg|an.SPos))}, keepForms(off))
			for _, s := range stores {
				st := s.(*ssa.Store)
				v, isC := constInt(st.Val)
				q.add("LIN", "Commit resets the delta to zero", isC && v == 0, pickS(isC && v == 0, "stores the constant 0", "Commit stores something other than 0 into consumer.offset: "+st.Val.String()), s)
				good := P.Before(q.fn, an.Is(call), s) && q.onlyAfterSuccess(call, s)
				q.add("PATH", "delta is zeroed only after producer.commit succeeded", good,
					pickS(good, "the store is dominated by the commit call and reached only through its err == nil edge", "consumer.offset is zeroed on a path where producer.commit was not called or failed: reads would be lost or become permanent wrongly"), s)
			}
			for _, r := range returnsOf(q.fn) {
				if allNil(c.retVals(r, 0)) {
					okp := P.Before(q.fn, an.In(stores), r)
					q.add("PATH", "a successful Commit has zeroed the delta", okp, pickS(okp, "nil-error return dominated by the reset", "Commit can return nil without zeroing the delta: the committed reads would be committed again"), r)
					continue
				}
				clean := true
				for _, s := range stores {
					if P.PathExists(q.fn, s, an.Is(r), nil, nil) {
						clean = false
					}
				}
				// one return for both outcomes (`if err == nil { reset }; return err`): judged along the edges of the nil test
				// of the returned value
				if vs := c.retVals(r, 0); !clean && len(vs) == 1 {
					if ifn, ns, found := q.nilTestOf(func(v ssa.Value) bool { return v == vs[0] }); found {
						clean = true
						for _, s := range stores {
							if !q.onlyViaEdge(s, ifn, ns) {
								clean = false
							}
						}
						okp := !P.PathExists(q.fn, ifn, an.Is(r), an.In(stores), cutEdge(ifn, 1-ns))
						q.add("PATH", "a successful Commit has zeroed the delta", okp, pickS(okp, "from err == nil every path to the return passes the reset", "Commit can return nil without zeroing the delta: the committed reads would be committed again"), r)
					}
				}
				q.add("PATH", "a failing Commit changes nothing", clean, pickS(clean, "no store to consumer.offset precedes this error return", "an error return of Commit is reachable after consumer.offset was modified"), r)
			}
		}
	}
	if q := c.F("(*consumer).Rollback"); q.ok() {
		recv := q.param(0)
		stores := an.FieldStores(q.fn, "consumer.offset")
		if q.need(stores, "PATH", "store to consumer.offset") {
			off := aF(recv + ".offset")
			for _, s := range stores {
				st := s.(*ssa.Store)
				v, isC := constInt(st.Val)
				q.add("LIN", "Rollback resets the delta to zero", isC && v == 0, pickS(isC && v == 0, "stores the constant 0", "Rollback stores something other than 0: "+st.Val.String()), s)
				q.expectCond("COND", "Rollback acts iff something is pending", s, nil, an.DNF{conj(lit(off, an.SNeg|an.SPos))}, keepForms(off))
			}
			inv := an.AllInstrs(q.fn, func(in ssa.Instruction) bool {
				cc := an.CallCommonOf(in)
				return cc != nil && cc.IsInvoke() && an.IsLoadOfField(cc.Value, "consumer.producer")
			})
			q.add("WR", "Rollback does not touch the committed offset", len(inv) == 0, pickS(len(inv) == 0, "no call on the producer", "Rollback calls into the producer (the committed offset must not move on rollback)"), inv...)
			for _, r := range returnsOf(q.fn) {
				if allNil(c.retVals(r, 0)) {
					okp := P.Before(q.fn, an.In(stores), r)
					q.add("PATH", "a successful Rollback has zeroed the delta", okp, "nil-error return dominated by the reset", r)
					continue
				}
				clean := true
				for _, s := range stores {
					if P.PathExists(q.fn, s, an.Is(r), nil, nil) {
						clean = false
					}
				}
				q.add("PATH", "a failing Rollback changes nothing", clean, "no store precedes the error return", r)
			}
		}
	}
}

// findClosure returns the anonymous functions nested in fn whose body satisfies pred.
func closuresOf(fn *ssa.Function, pred func(f *ssa.Function) bool) []*ssa.Function {
	var out []*ssa.Function
	for _, a := range fn.AnonFuncs {
		if an.IsTransparent(a) {
			continue // part of fn itself
		}
		if pred(a) {
			out = append(out, a)
		}
	}
	return out
}

func packageRange(c *Ctx) {
	P := c.P
	q := c.F("Range")
	if !q.ok() {
		return
	}
	// the per-iteration closure: the one that calls Consumer.Get
	its := closuresOf(q.fn, func(f *ssa.Function) bool { return len(P.CallsTo(f, "invoke:bigbuff.Consumer.Get")) > 0 })
	if len(its) != 1 {
		q.undecided("PATH", "per-iteration closure", "expected exactly one closure of Range that calls Consumer.Get")
		return
	}
	it := &fq{c: c, fn: its[0], name: an.FuncName(its[0])}
	get := P.CallsTo(it.fn, "invoke:bigbuff.Consumer.Get")[0]
	commits := P.CallsTo(it.fn, "invoke:bigbuff.Consumer.Commit")
	if !it.need(commits, "PATH", "call of Consumer.Commit") {
		return
	}
	commit := commits[0]
	// the callback call: a dynamic call whose callee is a load of the fn cell
	fnCalls := an.AllInstrs(it.fn, func(in ssa.Instruction) bool {
		call, ok := in.(*ssa.Call)
		if !ok || call.Call.IsInvoke() || call.Call.StaticCallee() != nil {
			return false
		}
		_, isB := call.Call.Value.(*ssa.Builtin)
		return !isB
	})
	if !it.need(fnCalls, "PATH", "call of the user callback") {
		return
	}
	fnCall := fnCalls[0]
	it.add("PATH", "callback runs only after Get succeeded", P.Before(it.fn, an.Is(get), fnCall) && it.onlyAfterSuccess(get, fnCall),
		"fn call dominated by Get and reached only through its err == nil edge", fnCall)
	okc := P.Before(it.fn, an.Is(fnCall), commit)
	it.add("PATH", "Commit happens only after the callback returned", okc,
		pickS(okc, "Commit is dominated by the callback call", "Commit is reachable without the callback having returned: a value could be committed before it was processed"), commit)
	{
		// ... and always then: once the callback has returned normally nothing but Commit's own failure keeps the value
		// uncommitted (an exit between the two would roll back a value that was already processed)
		skip := P.PathExists(it.fn, fnCall, an.IsReturn, an.Is(commit), nil)
		it.add("PATH", "a value whose callback returned is committed", !skip,
			pickS(!skip, "every path from the callback's return to an exit of the iteration passes Commit", "the iteration can end between the callback's return and Commit (e.g. on a context check): a value that was processed is rolled back and handed out again"), fnCall)
	}
	// PROV: the value handed to the callback is Get's value
	{
		a := callArg(fnCall, 1)
		good := a != nil && P.IsCallResult(a, "invoke:bigbuff.Consumer.Get", 0)
		it.add("PROV", "callback receives the value just read", good, "second argument is Get's first result", fnCall)
	}
	// the deferred rollback closure
	var deferIn ssa.Instruction
	var rb *ssa.Function
	for _, d := range an.AllInstrs(it.fn, func(in ssa.Instruction) bool { _, ok := in.(*ssa.Defer); return ok }) {
		df := d.(*ssa.Defer)
		if mc, ok := df.Call.Value.(*ssa.MakeClosure); ok {
			f := mc.Fn.(*ssa.Function)
			if len(P.CallsTo(f, "invoke:bigbuff.Consumer.Rollback")) > 0 {
				deferIn, rb = d, f
			}
		}
	}
	if rb == nil {
		it.add("PATH", "rollback is deferred before Get", false, "no deferred closure calling Consumer.Rollback was found in the per-iteration function: a panic in the callback or a failing Commit would leave the value consumed")
		return
	}
	it.add("PATH", "rollback is deferred before Get", P.Before(it.fn, an.Is(deferIn), get), "the defer dominates the Get call (so it covers Get/fn/Commit failures and panics)", deferIn)
	rq := &fq{c: c, fn: rb, name: an.FuncName(rb)}
	var succCell *ssa.Alloc
	rollback := P.CallsTo(rb, "invoke:bigbuff.Consumer.Rollback")[0]
	// find the If in rb on a load of a bool cell owned by it.fn
	ifs, negs := P.IfsOn(rb, func(cond ssa.Value) bool {
		ld, ok := isLoad(cond)
		if !ok {
			return false
		}
		cell := P.CellOf(ld.X)
		return cell != nil && cell.Parent() == it.fn && (succCell == nil || cell == succCell)
	})
	if len(ifs) != 1 {
		rq.undecided("PATH", "rollback unless success", "expected one test of the success flag in the deferred closure")
		return
	}
	if succCell == nil {
		succCell = P.CellOf(ifs[0].Cond.(*ssa.UnOp).X)
	}
	falseSucc := 1
	if negs[0] {
		falseSucc = 0
	}
	only := rq.onlyViaEdge(rollback, ifs[0], falseSucc)
	always := !P.PathExists(rb, nil, an.IsReturn, an.Is(rollback), cutEdge(ifs[0], 1-falseSucc))
	rq.add("PATH", "Rollback runs iff the iteration did not succeed", only && always,
		pickS(only && always, "Rollback is called on exactly the success==false side", "the deferred closure does not roll back exactly when success is false"), rollback)
	// success := true only after Commit succeeded
	sst := P.CellStores(succCell)
	nTrue := 0
	for _, st := range sst {
		if st.Parent() != it.fn {
			it.add("PATH", "success flag set only after Commit", false, "the success flag is written outside the per-iteration function", st)
			continue
		}
		bv, isB := constBool(st.Val)
		if isB && !bv {
			continue
		}
		nTrue++
		good := isB && P.Before(it.fn, an.Is(commit), st) && it.onlyAfterSuccess(commit, st) && P.Before(it.fn, an.Is(fnCall), st)
		it.add("PATH", "success flag set only after Commit", good,
			pickS(good, "success := true is dominated by the callback and by Commit and reached only through Commit's err == nil edge", "success is set before Commit has succeeded: a failing Commit or a panic would not roll back"), st)
	}
	if nTrue == 0 {
		it.add("PATH", "success flag set only after Commit", false, "success is never set: every iteration would roll back")
	}
	// Range loop: each iteration is preceded by the ctx check; stops when the closure returns false
	calls := an.AllInstrs(q.fn, func(in ssa.Instruction) bool {
		call, ok := in.(*ssa.Call)
		if !ok {
			return false
		}
		mc, ok := call.Call.Value.(*ssa.MakeClosure)
		return ok && mc.Fn == ssa.Value(it.fn)
	})
	if q.need(calls, "PATH", "call of the per-iteration closure") {
		q.add("WL", "Range iterates", P.InCycle(calls[0]), "the per-iteration closure is called in a loop", calls[0])
	}
	// the index handed to the callback starts at 0 and grows by one per value
	if idx := callArg(fnCall, 0); idx != nil {
		if ld, isL := isLoad(idx); isL {
			if cell := P.CellOf(ld.X); cell != nil {
				good := false
				n := 0
				for _, in := range an.AllInstrs(q.fn, func(in ssa.Instruction) bool { _, ok := in.(*ssa.Store); return ok }) {
					st := in.(*ssa.Store)
					al, isA := st.Addr.(*ssa.Alloc)
					if !isA || al.Comment != cell.Comment || al.Type() != cell.Type() {
						continue
					}
					if bo, isB := st.Val.(*ssa.BinOp); isB && bo.Op == token.ADD {
						n++
						if k, isK := constInt(bo.Y); isK && k == 1 {
							good = true
						} else {
							good = false
						}
					}
				}
				it.add("LIN", "the callback's index counts the values one by one", good && n == 1, "index' = index + 1", fnCall)
			}
		}
	}
}

func bufferRangeDiff(c *Ctx) {
	P := c.P
	if q := c.F("(*Buffer).Diff"); q.ok() {
		lks := an.AllInstrs(q.fn, func(in ssa.Instruction) bool {
			l, ok := in.(*ssa.Lookup)
			return ok && an.IsLoadOfField(l.X, "Buffer.consumers")
		})
		if q.need(lks, "LIN", "lookup in Buffer.consumers") {
			lk := lks[0].(*ssa.Lookup)
			key := P.Lin(lk.Index)
			b := q.param(0)
			offLoads := an.FieldLoads(q.fn, "consumer.offset")
			if q.need(offLoads, "LIN", "load of consumer.offset") {
				cmOff := P.Lin(offLoads[0].(*ssa.UnOp))
				want := aLen(b + ".buffer").Minus(aM(b+".consumers", key)).Minus(cmOff).Plus(aF(b + ".offset"))
				n := 0
				for _, r := range returnsOf(q.fn) {
					vs := c.retVals(r, 0)
					if len(vs) == 1 {
						if _, isC := constInt(vs[0]); isC {
							continue
						}
						n++
						q.expectLin("LIN", "Diff = len(buffer) - (committed + delta - base)", vs[0], want, r)
					}
				}
				if n == 0 {
					q.undecided("LIN", "Diff = len(buffer) - (committed + delta - base)", "no non-constant return found")
				}
			}
		}
	}
	q := c.F("(*Buffer).Range")
	if !q.ok() {
		return
	}
	rcalls := P.CallsTo(q.fn, "Range")
	dcalls := P.CallsTo(q.fn, "(*Buffer).Diff")
	if q.need(rcalls, "COND", "delegation to Range") && q.need(dcalls, "COND", "call of Diff") {
		d0, d1 := resultOf(dcalls[0], 0), resultOf(dcalls[0], 1)
		if d0 == nil || d1 == nil {
			q.undecided("COND", "delegation iff something is available", "Diff's results are not both used")
		} else {
			diff, okv := P.Lin(d0), P.Lin(d1)
			q.expectCond("COND", "delegates to Range iff ok and diff > 0", rcalls[0], nil, an.DNF{conj(lit(okv, an.SPos), lit(diff, an.SPos))}, keepForms(diff, okv))
		}
		q.add("PATH", "Diff is consulted before delegating", P.Before(q.fn, an.Is(dcalls[0]), rcalls[0]), "Diff dominates the Range call", rcalls[0])
	}
	// the wrapper callback: returns fn(...) && ok && diff > 0
	ws := closuresOf(q.fn, func(f *ssa.Function) bool { return len(P.CallsTo(f, "(*Buffer).Diff")) > 0 })
	if len(ws) != 1 {
		q.undecided("COND", "wrapper callback", "expected exactly one closure of Buffer.Range that calls Diff")
		return
	}
	w := &fq{c: c, fn: ws[0], name: an.FuncName(ws[0])}
	dc := P.CallsTo(w.fn, "(*Buffer).Diff")[0]
	d0, d1 := resultOf(dc, 0), resultOf(dc, 1)
	fnCalls := an.AllInstrs(w.fn, func(in ssa.Instruction) bool {
		call, ok := in.(*ssa.Call)
		return ok && !call.Call.IsInvoke() && call.Call.StaticCallee() == nil
	})
	if d0 == nil || d1 == nil || len(fnCalls) != 1 {
		w.undecided("COND", "wrapper continues iff fn && ok && diff > 0", "unexpected shape of the wrapper")
		return
	}
	fnRes := P.Lin(fnCalls[0].(*ssa.Call))
	diff, okv := P.Lin(d0), P.Lin(d1)
	w.add("PATH", "user callback runs before the end-of-buffer test", P.Before(w.fn, an.Is(fnCalls[0]), dc), "fn call dominates Diff", dc)
	// every returned value: constant false, or the comparison diff > 0 computed where fn && ok hold
	good := true
	why := ""
	seenCmp := false
	for _, r := range returnsOf(w.fn) {
		for _, v := range c.retVals(r, 0) {
			if bv, isB := constBool(v); isB {
				if bv {
					good, why = false, "the wrapper can return the constant true (it would block at the end of the buffer)"
				}
				continue
			}
			bo, isBin := v.(*ssa.BinOp)
			if !isBin {
				good, why = false, "unexpected return value "+v.String()
				continue
			}
			l := P.CondLit(bo, true)
			if l != lit(diff, an.SPos) {
				good, why = false, "the continue-condition is not diff > 0: "+l.Form+" "+bo.Op.String()
				continue
			}
			seenCmp = true
			got := P.PathCond(w.fn, nil, bo, keepForms(fnRes, okv))
			eq, cex := an.EquivDNF(got, an.DNF{conj(lit(fnRes, an.SPos), lit(okv, an.SPos))})
			if !eq {
				good, why = false, "diff > 0 is consulted under the wrong condition ("+cex+")"
			}
		}
	}
	if !seenCmp && good {
		good, why = false, "no return depends on diff > 0"
	}
	w.add("COND", "wrapper continues iff fn && ok && diff > 0", good, pickS(good, "returns false, or (diff > 0) evaluated where fn returned true and ok holds", why))
}

func init() {
	register(&Prop{
		ID:        "C02",
		Technique: "path rules (dominance / must-pass-through / only-via-edge) and linear-form checks on SSA for the Commit/Rollback state machine and Range's get-fn-commit protocol; atomic sections in the lock simulator",
		Explanation: "Rollback stores 0 to the delta, never calls the producer, and errors (changing nothing) iff the delta is 0; Commit passes exactly the delta to producer.commit, zeroes it only after that call succeeded, in the same hold, and its error exits change nothing; " +
			"package Range defers a rollback before Get, calls the callback only after Get succeeded, Commit only after the callback returned, and sets success only after Commit succeeded, so every other exit (incl. a panic) rolls back; " +
			"Buffer.Range delegates iff Diff reports something available and its wrapper stops (returns false) instead of blocking at the end; Diff = len(buffer) - (committed + delta - base) under consumer then buffer lock.",
		NotDecided: "interplay with concurrent shifts beyond C01's invariant; several goroutines sharing one consumer (only the atomicity of each call is decided).",
		Build: func(c *Ctx) []*an.Oblig {
			consumerCommitRollback(c)
			packageRange(c)
			c.errPolarity("(*consumer).Commit", "Range")
			bufferRangeDiff(c)
			consumerOffsets(c) // eviction is gated by COMMITTED offsets: a rolled-back window must still be in the buffer
			defaultCleaner(c)  // ... and the default cleaner never evicts past the LOWEST committed offset, whatever the order of the offsets
			out := c.sel(func(o *an.Oblig) bool {
				if isUndecided(o) || o.Rule == "ANCHOR" {
					return true
				}
				if ruleIn(o, "G", "AT", "P", "REQ") && funcHas(o, "(*consumer).Commit", "(*consumer).Rollback", "(*consumer).Get", "(*Buffer).commit", "(*Buffer).Diff", "(*Buffer).consumerOffsets") {
					return true
				}
				if o.Rule == "REQ" && subjHas(o, "Diff reads") {
					return true
				}
				if o.Rule == "O" && subjHas(o, "consumer.mutex->Buffer.mutex") {
					return true
				}
				return false
			})
			return append(out, c.C.List...)
		},
		Floors: []Floor{
			floorKey("Commit path rules", 3, "PATH/(*consumer).Commit/"),
			floorKey("Rollback path rules", 2, "PATH/(*consumer).Rollback/"),
			floorKey("Range path rules", 5, "PATH/Range"),
			floorRule("LIN", "LIN", 4),
			floorRule("COND", "COND", 4),
			floorKey("lock order consumer->buffer", 1, "O/", "consumer.mutex->Buffer.mutex"),
			floorKey("AT consumer.Commit", 2, "AT/(*consumer).Commit/"),
			floorKey("Diff snapshot under both locks", 4, "REQ/", "Diff reads"),
		},
	})
}
