package props

import (
	"strings"

	"bbcheck/internal/an"
)

type witness struct {
	what, code string
	mustFail   bool
}

// atomWitnesses: compile-fail witnesses (rule ATOM). Each line is one witness; the lines marked
// mustFail must be rejected by the type checker, the control line must be accepted.
func atomWitnesses(c *Ctx) {
	ws := []witness{
		{"control: atomic access through methods compiles", "func bbW0(x *ChanCaster[chan int, int]) uint64 { return x.state.Load() }", false},
		{"the ChanCaster state word cannot be incremented non-atomically", "func bbW1(x *ChanCaster[chan int, int]) { x.state++ }", true},
		{"the ChanCaster state word cannot be compared non-atomically", "func bbW2(x *ChanCaster[chan int, int]) bool { return x.state == 0 }", true},
		{"the ChanCaster state word cannot be converted to an integer", "func bbW3(x *ChanCaster[chan int, int]) uint64 { return uint64(x.state) }", true},
		{"the ChanPubSub subscriber count cannot be assigned non-atomically", "func bbW4(x *ChanPubSub[chan int, int]) { x.subscribers = 1 }", true},
	}
	runWitnesses(c, ws, "ATOM", "(*ChanCaster).state")
}

func linearAttemptWitnesses(c *Ctx) {
	ws := []witness{
		{"control: receiving from LinearAttempt's channel compiles", "func bbW0() { <-LinearAttempt(nil, 1, 1) }", false},
		{"callers cannot close LinearAttempt's channel", "func bbW1() { close(LinearAttempt(nil, 1, 1)) }", true},
		{"callers cannot send on LinearAttempt's channel", "func bbW2() { LinearAttempt(nil, 1, 1) <- time.Time{} }", true},
	}
	runWitnesses(c, ws, "ATOM", "LinearAttempt")
}

func runWitnesses(c *Ctx, ws []witness, rule, fn string) {
	var sb strings.Builder
	sb.WriteString("package bigbuff\n")
	needTime := false
	for _, w := range ws {
		if strings.Contains(w.code, "time.") {
			needTime = true
		}
	}
	first := 2
	if needTime {
		sb.WriteString("import \"time\"\n")
		first = 3
	}
	for _, w := range ws {
		sb.WriteString(w.code + "\n")
	}
	errs, err := an.TypeErrorsByLine(c.P.Dir, "zz_bbcheck_witness.go", sb.String())
	if err != nil {
		c.C.Undecided(rule, fn, "compile-fail witnesses", "cannot type-check the witness overlay: "+err.Error())
		return
	}
	if len(errs[0]) > 0 {
		c.C.Undecided(rule, fn, "compile-fail witnesses", "unexpected errors outside the witness file: "+strings.Join(errs[0], "; "))
		return
	}
	for i, w := range ws {
		e := errs[first+i]
		if w.mustFail {
			ok := len(e) > 0
			c.C.Add(rule, fn, w.what, ok, pickS(ok, "rejected by the type checker: "+strings.Join(e, "; "), "this witness now type-checks: "+w.code))
		} else {
			ok := len(e) == 0
			c.C.Add(rule, fn, w.what, ok, pickS(ok, "accepted by the type checker", "the control witness is rejected ("+strings.Join(e, "; ")+"): the witness harness is not attributing errors correctly"))
		}
	}
}
