package props

import (
	"go/token"
	"go/types"

	"golang.org/x/tools/go/ssa"

	"bbcheck/internal/an"
)

// retVals resolves the i-th result of a return to the values it can carry: results of functions with
// defers are spilled into cells, so the last store to the cell in the return's block is used (or all
// stores if the block has none).
func (c *Ctx) retVals(r *ssa.Return, i int) []ssa.Value {
	if i >= len(r.Results) {
		return nil
	}
	v := r.Results[i]
	if ld, ok := isLoad(v); ok {
		if cell := c.P.CellOf(ld.X); cell != nil {
			b := r.Block()
			var last ssa.Value
			for _, in := range b.Instrs {
				if in == ssa.Instruction(ld) {
					break
				}
				if st, ok := in.(*ssa.Store); ok && c.P.CellOf(st.Addr) == cell {
					last = st.Val
				}
			}
			if last != nil {
				return c.P.SourcesAt(last, r)
			}
			// a named result read by a bare return: the assignments that reach this return (and nil, if none need to)
			if vals, zero, ok := c.P.ReachingStores(ld); ok && (len(vals) > 0 || zero) {
				var out []ssa.Value
				for _, st := range vals {
					// an assignment whose value was then found nil on every way to this return (err = f(); if err != nil
					// { return }; ...; return) contributes nil
					if c.nilOnEveryPath(st, ld, r) {
						out = append(out, ssa.NewConst(nil, ld.Type()))
						continue
					}
					out = append(out, c.P.Sources(st.Val)...)
				}
				if zero {
					if _, isIface := ld.Type().Underlying().(*types.Interface); isIface || isPointerish(ld.Type()) {
						out = append(out, ssa.NewConst(nil, ld.Type()))
					} else {
						return c.P.Sources(v)
					}
				}
				return out
			}
		}
	}
	// (seen from the return: operands of a join that the branches dominating the return rule out are not candidates)
	return c.P.SourcesAt(v, r)
}

func allNil(vs []ssa.Value) bool {
	if len(vs) == 0 {
		return false
	}
	for _, v := range vs {
		if !isNilConst(v) {
			return false
		}
	}
	return true
}

func anyNil(vs []ssa.Value) bool {
	for _, v := range vs {
		if isNilConst(v) {
			return true
		}
	}
	return false
}

func returnsOf(fn *ssa.Function) []*ssa.Return {
	var out []*ssa.Return
	for _, in := range an.AllInstrs(fn, an.IsReturn) {
		if in.Block() == fn.Recover {
			continue
		}
		out = append(out, in.(*ssa.Return))
	}
	return out
}

// bufferWriterAudit: WR + LIN for Buffer.buffer (C01.2) and the base-offset coupling (C01.3).
func bufferWriterAudit(c *Ctx) {
	P := c.P
	nPut, nShift := 0, 0
	for _, fn := range P.Funcs {
		name := an.FuncName(fn)
		q := &fq{c: c, fn: fn, name: name}
		for _, in := range an.FieldStores(fn, "Buffer.buffer") {
			st := in.(*ssa.Store)
			switch name {
			case "(*Buffer).Put":
				call, ok := st.Val.(*ssa.Call)
				good := false
				if ok {
					if b, isB := call.Call.Value.(*ssa.Builtin); isB && b.Name() == "append" && len(call.Call.Args) == 2 {
						last := fn.Params[len(fn.Params)-1]
						good = an.IsLoadOfField(call.Call.Args[0], "Buffer.buffer") && call.Call.Args[1] == ssa.Value(last)
					}
				}
				nPut++
				q.add("WR", "Buffer.buffer := append(buffer, values...)", good,
					pickS(good, "the stored value is append(load(Buffer.buffer), <the unmodified variadic parameter>...)",
						"Put must store append(b.buffer, values...) with the unmodified variadic parameter (a copy into the buffer's own backing array); found "+st.Val.String()), in)
			case "(*Buffer).cleanupLogic":
				sl, ok := st.Val.(*ssa.Slice)
				good := ok && an.IsLoadOfField(sl.X, "Buffer.buffer") && sl.High == nil && sl.Max == nil && sl.Low != nil
				nShift++
				q.add("WR", "Buffer.buffer := buffer[shift:]", good,
					pickS(good, "the stored value is load(Buffer.buffer)[s:]", "cleanupLogic must only drop a prefix: buffer[s:]; found "+st.Val.String()), in)
				if good {
					// C01.3: offset' - offset == s
					offs := an.FieldStores(fn, "Buffer.offset")
					if q.need(offs, "LIN", "store to Buffer.offset next to the reslice") {
						for _, o := range offs {
							ov := o.(*ssa.Store).Val
							recv := q.param(0)
							want := aF(recv + ".offset").Plus(P.Lin(sl.Low))
							q.expectLin("LIN", "Buffer.offset advances by exactly the dropped prefix", ov, want, o)
						}
					}
				}
			default:
				q.add("WR", "no other writer of Buffer.buffer", false, "Buffer.buffer is stored outside Put (append) and cleanupLogic (drop prefix): the retained suffix of the put order is no longer maintained by construction", in)
			}
		}
		// element writes through a loaded Buffer.buffer
		for _, in := range an.AllInstrs(fn, func(in ssa.Instruction) bool {
			st, ok := in.(*ssa.Store)
			if !ok {
				return false
			}
			ia, ok := st.Addr.(*ssa.IndexAddr)
			if !ok {
				return false
			}
			isB, _ := sliceOfField(P, ia.X, "Buffer.buffer")
			return isB
		}) {
			st := in.(*ssa.Store)
			good := name == "(*Buffer).cleanupLogic" && isNilConst(st.Val)
			q.add("WR", "element stores of Buffer.buffer are nil-ing of the dropped prefix only", good,
				pickS(good, "stores nil inside cleanupLogic", "an element of Buffer.buffer is overwritten (only nil-ing of the dropped prefix in cleanupLogic is allowed)"), in)
		}
		// copy(dst = buffer, ...) / clear(buffer) outside cleanupLogic
		for _, in := range P.CallsTo(fn, "builtin:copy") {
			if a := callArg(in, 0); a != nil && an.IsLoadOfField(a, "Buffer.buffer") {
				q.add("WR", "no copy into Buffer.buffer", false, "copy() writes into Buffer.buffer's elements", in)
			}
		}
	}
	if nPut == 0 {
		c.C.Undecided("WR", "(*Buffer).Put", "Buffer.buffer := append(buffer, values...)", "no store to Buffer.buffer found in Put")
	}
	if nShift == 0 {
		c.C.Undecided("WR", "(*Buffer).cleanupLogic", "Buffer.buffer := buffer[shift:]", "no store to Buffer.buffer found in cleanupLogic")
	}
}

func pickS(ok bool, a, b string) string {
	if ok {
		return a
	}
	return b
}

// getIndex: C01.4 / C03.4 — the index handed to buffer[...] in (*Buffer).get and its guards.
func getIndex(c *Ctx) {
	q := c.F("(*Buffer).get")
	if !q.ok() {
		return
	}
	P := c.P
	b, cons, off := q.param(0), q.param(1), q.param(2)
	idx := aM(b+".consumers", aP(cons)).Plus(aP(off)).Minus(aF(b + ".offset"))
	has := aHas(b+".consumers", aP(cons))
	// element loads of Buffer.buffer
	elems := an.AllInstrs(q.fn, func(in ssa.Instruction) bool {
		ia, ok := in.(*ssa.IndexAddr)
		return ok && an.IsLoadOfField(ia.X, "Buffer.buffer")
	})
	if !q.need(elems, "LIN", "element load buffer[index]") {
		return
	}
	for _, e := range elems {
		ia := e.(*ssa.IndexAddr)
		q.expectLin("LIN", "index = committed + delta - base", ia.Index, idx, e)
		want := an.DNF{conj(lit(has, an.SPos), lit(idx, an.SZero|an.SPos), lit(idx.Minus(aLen(b+".buffer")), an.SNeg))}
		q.expectCond("COND", "value returned iff consumer known and 0 <= index < len(buffer)", e, nil, want,
			keepForms(has, idx, idx.Minus(aLen(b+".buffer"))))
	}
	// returns: a nil error is returned only where index >= 0 (C03.4: a negative index is always an error)
	for _, r := range returnsOf(q.fn) {
		ev := c.retVals(r, 2)
		if !allNil(ev) {
			continue
		}
		got := P.PathCond(q.fn, nil, r, keepForms(idx, has))
		good := len(got) > 0
		if good {
			good, _ = an.ImpliesDNF(got, an.DNF{conj(lit(idx, an.SZero|an.SPos), lit(has, an.SPos))})
		}
		q.add("COND", "nil-error returns require a known consumer and index >= 0", good,
			pickS(good, "every path to this return established has(consumers[c]) and index >= 0", "a return with a nil error is reachable with a negative index or an unknown consumer: "+got.String()), r)
		// value returned with ok=true is the element
		if okv := c.retVals(r, 1); len(okv) == 1 {
			if bv, isB := constBool(okv[0]); isB && bv {
				src := c.retVals(r, 0)
				goodv := len(src) == 1
				if goodv {
					ld, isL := isLoad(src[0])
					goodv = isL
					if isL {
						ia, isIA := ld.X.(*ssa.IndexAddr)
						goodv = isIA && an.IsLoadOfField(ia.X, "Buffer.buffer")
					}
				}
				q.add("PROV", "returned value is buffer[index]", goodv, pickS(goodv, "the value result is the element load", "the value returned with ok=true is not the element buffer[index]"), r)
			}
		}
	}
}

// registerAndCommit: C01.5.
func registerAndCommit(c *Ctx) {
	P := c.P
	if q := c.F("(*Buffer).NewConsumer"); q.ok() {
		ups := an.AllInstrs(q.fn, func(in ssa.Instruction) bool {
			mu, ok := in.(*ssa.MapUpdate)
			return ok && an.IsLoadOfField(mu.Map, "Buffer.consumers")
		})
		if q.need(ups, "LIN", "consumers[c] := offset") {
			for _, u := range ups {
				mu := u.(*ssa.MapUpdate)
				q.expectLin("LIN", "new consumer registered at the current base offset", mu.Value, aF(q.param(0)+".offset"), u)
				fresh := false
				for _, src := range P.Sources(mu.Key) {
					_, fresh = src.(*ssa.Alloc)
					if !fresh {
						break
					}
				}
				q.add("PROV", "registered key is the freshly built consumer", fresh, pickS(fresh, "key is the new consumer object", "the map key is not the consumer constructed in this call"), u)
			}
		}
	}
	if q := c.F("(*Buffer).commit"); q.ok() {
		ups := an.AllInstrs(q.fn, func(in ssa.Instruction) bool {
			mu, ok := in.(*ssa.MapUpdate)
			return ok && an.IsLoadOfField(mu.Map, "Buffer.consumers")
		})
		if q.need(ups, "LIN", "consumers[c] := consumers[c] + offset") {
			for _, u := range ups {
				mu := u.(*ssa.MapUpdate)
				want := aM(q.param(0)+".consumers", aP(q.param(1))).Plus(aP(q.param(2)))
				q.expectLin("LIN", "committed offset advances by exactly the delta", mu.Value, want, u)
				q.add("PROV", "commit updates the committing consumer's entry", srcIs(P, mu.Key, q.fn.Params[1]) && len(P.Sources(mu.Key)) == 1, "key is the consumer parameter", u)
				// unknown consumer => error, no store
				has := aHas(q.param(0)+".consumers", aP(q.param(1)))
				q.expectCond("COND", "the store happens iff the consumer is registered", u, nil, an.DNF{conj(lit(has, an.SPos))}, keepForms(has))
			}
		}
		// ... and nothing else makes commit fail: a registered consumer's commit is never refused (a consumer that read
		// up to a forced trim point without committing has lost nothing; refusing its Commit leaves it Rollback into the
		// removed region as the only way on)
		{
			var okx ssa.Value
			for _, in := range an.AllInstrs(q.fn, func(in ssa.Instruction) bool {
				l, ok := in.(*ssa.Lookup)
				return ok && l.CommaOk && an.IsLoadOfField(l.X, "Buffer.consumers")
			}) {
				okx = resultOf2(in.(*ssa.Lookup), 1)
			}
			ifs, negs := P.IfsOn(q.fn, func(cond ssa.Value) bool { return okx != nil && cond == okx })
			for _, r := range returnsOf(q.fn) {
				if allNil(c.retVals(r, 0)) {
					continue
				}
				good := len(ifs) == 1
				if good {
					miss := 1
					if negs[0] {
						miss = 0
					}
					good = q.onlyViaEdge(r, ifs[0], miss)
				}
				q.add("PATH", "commit fails only for a consumer that is not registered", good, pickS(good, "the error return is reached only through the failed lookup", "commit can refuse a registered consumer: reads it has not lost could never be committed"), r)
			}
		}
	}
	_ = P
}

// consumerGet: C01.6 / C05.7.
func consumerGet(c *Ctx) {
	q := c.F("(*consumer).Get")
	if !q.ok() {
		return
	}
	P := c.P
	recv := q.param(0)
	calls := P.CallsTo(q.fn, "invoke:bigbuff.producer.getAsync")
	if !q.need(calls, "PATH", "call of producer.getAsync") {
		return
	}
	call := calls[0]
	q.expectLin("LIN", "position handed to getAsync is the current delta", callArg(call, 2), aF(recv+".offset"), call)
	q.add("PROV", "getAsync is asked about this consumer", callArg(call, 1) == ssa.Value(q.fn.Params[0]), "second argument is the receiver", call)
	// the consumer's own context is among the cancels (C05.5)
	{
		found := false
		if sl, ok := callArg(call, 3).(*ssa.Slice); ok {
			if arr, ok := sl.X.(*ssa.Alloc); ok {
				for _, r := range *arr.Referrers() {
					if ia, ok := r.(*ssa.IndexAddr); ok {
						for _, r2 := range *ia.Referrers() {
							if st, ok := r2.(*ssa.Store); ok && an.IsLoadOfField(st.Val, "consumer.ctx") {
								found = true
							}
						}
					}
				}
			}
		}
		q.add("PROV", "consumer.ctx is passed as a cancel context", found, pickS(found, "c.ctx is in the variadic cancels", "consumer.Get no longer passes the consumer's context to getAsync: closing the consumer would not wake a blocked Get"), call)
	}
	stores := an.FieldStores(q.fn, "consumer.offset")
	if !q.need(stores, "LIN", "store to consumer.offset") {
		return
	}
	rets := returnsOf(q.fn)
	for _, s := range stores {
		st := s.(*ssa.Store)
		q.expectLin("LIN", "delta advances by exactly one", st.Val, aF(recv+".offset").AddC(1), s)
		q.add("PATH", "delta advances only after getAsync answered", P.Before(q.fn, an.Is(call), s), "store is dominated by the getAsync call", s)
		// every return reachable from the store carries a nil error
		good := true
		reached := 0
		for _, r := range rets {
			if P.PathExists(q.fn, s, an.Is(r), nil, nil) {
				reached++
				if !allNil(c.retVals(r, 1)) {
					good = false
				}
			}
		}
		q.add("PATH", "a Get that returns an error has not advanced the delta", good && reached > 0,
			pickS(good && reached > 0, "every return reachable after the store returns the nil error", "consumer.offset is advanced on a path that returns a non-nil error: the value would be skipped"), s)
	}
	// successful returns: value comes from getAsync's answer, and the delta was advanced
	for _, r := range rets {
		if !allNil(c.retVals(r, 1)) {
			continue
		}
		adv := P.Before(q.fn, an.In(stores), r)
		q.add("PATH", "every successful Get advances the delta", adv, pickS(adv, "return is dominated by a store of offset+1", "a nil-error return does not pass through the advance of consumer.offset: the same value would be delivered again"), r)
		srcs := c.retVals(r, 0)
		okp := len(srcs) > 0
		for _, sv := range srcs {
			fromSync := P.IsCallResult(sv, "invoke:bigbuff.producer.getAsync", 1)
			fromAsync := false
			if ld, isL := isLoad(sv); isL {
				if fa, isF := ld.X.(*ssa.FieldAddr); isF {
					if cell, isA := fa.X.(*ssa.Alloc); isA && fa.Field == 0 {
						for _, cs := range *cell.Referrers() {
							if stc, ok := cs.(*ssa.Store); ok {
								if u, ok := stc.Val.(*ssa.UnOp); ok && u.Op == token.ARROW && P.IsCallResult(u.X, "invoke:bigbuff.producer.getAsync", 0) {
									fromAsync = true
								}
							}
						}
					}
				}
			}
			if !fromSync && !fromAsync {
				okp = false
			}
		}
		q.add("PROV", "returned value is getAsync's answer", okp, pickS(okp, "value is the sync result or the Value received from the answer channel", "the value returned by Get does not come from getAsync's answer"), r)
	}
}

// putReturns: Put succeeds iff it appended. A Put that reports an error after its values went into the buffer lets
// consumers see values of no successful Put (and a retrying producer duplicate them); a nil return without the append
// drops the batch silently.
func putReturns(c *Ctx) {
	P := c.P
	q := c.F("(*Buffer).Put")
	if !q.ok() {
		return
	}
	apps := an.FieldStores(q.fn, "Buffer.buffer")
	if !q.need(apps, "PATH", "the append in Put") {
		return
	}
	for _, r := range returnsOf(q.fn) {
		vs := c.retVals(r, 0)
		after := P.PathExists(q.fn, apps[0], an.Is(r), nil, nil)
		if after {
			ok := allNil(vs)
			q.add("PATH", "a Put that appended its values reports success", ok,
				pickS(ok, "the return after the append yields nil", "Put can return an error after its values were appended and broadcast: consumers then read values of a Put that failed (a producer that retries duplicates them)"), r)
		}
		if anyNil(vs) {
			ok := !P.PathExists(q.fn, nil, an.Is(r), an.In(apps), nil)
			q.add("PATH", "a Put that reports success has appended its values", ok,
				pickS(ok, "the nil return is reached only through the append", "Put can return nil without appending: the batch is dropped silently"), r)
		}
	}
}

func init() {
	register(&Prop{
		ID:        "C01",
		Technique: "representation-invariant audit: who-may-write + linear-form and path-condition equivalence on SSA, atomic-section typestate in the lock simulator",
		Explanation: "the representation invariant of Buffer that makes every consumer's stream a gap-free, duplicate-free run of the put order: (a) Buffer.buffer is only written by append of the unmodified batch in Put and by dropping a prefix in cleanupLogic, element stores only nil the dropped prefix; (b) the base offset advances by exactly the dropped prefix in the same hold; " +
			"(c) get() indexes buffer[committed + delta - base], returns the element iff 0 <= index < len and an error for a negative index; (d) NewConsumer registers at the current base, commit adds exactly the delta; (e) consumer.Get passes its current delta, advances it by one only on success, in one hold of the consumer mutex; " +
			"(f) all of these run under Buffer.mutex / consumer.mutex (write mode for writes), check-then-act pairs are in one uninterrupted hold; Slice returns a copy.",
		NotDecided: "that racing Puts are ordered consistently with real time and program order (semantics of sync.RWMutex, trusted); fairness; the composition of (a)-(f) into the behavioural statement is a manual argument (DESIGN.md 4/C01).",
		Build: func(c *Ctx) []*an.Oblig {
			bufferWriterAudit(c)
			putReturns(c)
			c.errPolarity("(*Buffer).Put", "(*Buffer).get", "(*consumer).Get")
			getIndex(c)
			registerAndCommit(c)
			consumerGet(c)
			getAsync(c)               // the answer a blocked Get receives is the waiter's single send (never a closed channel's zero value)
			consumerCommitRollback(c) // committed offset and delta move together
			out := c.sel(func(o *an.Oblig) bool {
				if isUndecided(o) || o.Rule == "ANCHOR" {
					return true
				}
				if ruleIn(o, "G", "ESC") && subjHas(o, "Buffer.buffer", "Buffer.offset", "Buffer.consumers", "consumer.offset") {
					return true
				}
				if ruleIn(o, "AT") && funcHas(o, "(*Buffer).Put", "(*Buffer).NewConsumer", "(*Buffer).commit", "(*Buffer).cleanupLogic", "(*Buffer).get", "(*consumer).Get", "(*consumer).Commit") {
					return true
				}
				return false
			})
			return append(out, c.C.List...)
		},
		Floors: []Floor{
			floorRule("WR Buffer.buffer writers", "WR", 3),
			floorRule("LIN forms", "LIN", 6),
			floorRule("COND get guards", "COND", 3),
			floorRule("PATH consumer.Get", "PATH", 3),
			floorRule("AT sections", "AT", 7),
			floorKey("G Buffer.buffer", 4, "G/", "Buffer.buffer"),
		},
	})
}

func isPointerish(t types.Type) bool {
	switch t.Underlying().(type) {
	case *types.Pointer, *types.Slice, *types.Map, *types.Chan, *types.Signature:
		return true
	}
	return false
}

// nilOnEveryPath: every path from the assignment st to the return r leaves a nil test of the assigned variable (or of
// the assigned value) through its nil edge.
func (c *Ctx) nilOnEveryPath(st *ssa.Store, ld *ssa.UnOp, r *ssa.Return) bool {
	P := c.P
	fn := r.Parent()
	cell := P.CellOf(ld.X)
	if cell == nil || !(isPointerish(ld.Type()) || func() bool { _, ok := ld.Type().Underlying().(*types.Interface); return ok }()) {
		return false
	}
	isVar := func(v ssa.Value) bool {
		if v == st.Val {
			return true
		}
		if l2, ok := isLoad(v); ok {
			return P.CellOf(l2.X) == cell
		}
		return false
	}
	ifs, negs := P.IfsOn(fn, func(cond ssa.Value) bool {
		b, ok := cond.(*ssa.BinOp)
		return ok && (b.Op == token.EQL || b.Op == token.NEQ) && either(b, isVar, isNilConst)
	})
	if len(ifs) == 0 {
		return false
	}
	type edge struct {
		b *ssa.BasicBlock
		i int
	}
	nilEdges := map[edge]bool{}
	for i, ifi := range ifs {
		b := stripNotV(ifi.Cond).(*ssa.BinOp)
		nilWhenTrue := b.Op == token.EQL
		if negs[i] {
			nilWhenTrue = !nilWhenTrue
		}
		ns := 1
		if nilWhenTrue {
			ns = 0
		}
		nilEdges[edge{ifi.Block(), ns}] = true
	}
	return !P.PathExists(fn, st, an.Is(r), nil, func(b *ssa.BasicBlock, i int) bool { return nilEdges[edge{b, i}] })
}
