package props

import (
	"go/token"
	"strings"

	"golang.org/x/tools/go/ssa"

	"bbcheck/internal/an"
)

// dynCallsOfParam: calls whose callee is the given parameter (directly or through its spill cell).
func dynCallsOfParam(c *Ctx, fn *ssa.Function, prm *ssa.Parameter) []ssa.Instruction {
	return an.AllInstrs(fn, func(in ssa.Instruction) bool {
		cc := an.CallCommonOf(in)
		if cc == nil || cc.IsInvoke() || cc.StaticCallee() != nil {
			return false
		}
		for _, s := range c.P.Sources(cc.Value) {
			if s == ssa.Value(prm) {
				return true
			}
		}
		return false
	})
}

func waitCond(c *Ctx) {
	q := c.F("WaitCond")
	if !q.ok() {
		return
	}
	P := c.P
	fn := q.fn
	if len(fn.Params) != 3 {
		q.undecided("PATH", "signature", "WaitCond's signature changed")
		return
	}
	ctxP, fnP := fn.Params[0], fn.Params[2]
	fnCalls := dynCallsOfParam(c, fn, fnP)
	waits := P.CallsTo(fn, "(*sync.Cond).Wait")
	if !q.need(fnCalls, "PATH", "call of the predicate fn") || !q.need(waits, "PATH", "cond.Wait") {
		return
	}
	fcall := fnCalls[0].(*ssa.Call)
	isFnCall := func(v ssa.Value) bool {
		for _, fc := range fnCalls {
			if v == ssa.Value(fc.(*ssa.Call)) {
				return true
			}
		}
		return false
	}
	// 1. return nil only after fn() == true (the predicate may be evaluated at several sites - a loop specialised on
	// ctx == nil, say - each with its own test)
	ifs, negs := P.IfsOn(fn, isFnCall)
	if len(ifs) != len(fnCalls) || len(ifs) == 0 {
		q.undecided("PATH", "return nil only if the predicate returned true", "the predicate's result is not tested exactly once per evaluation")
		return
	}
	type fedge struct {
		b *ssa.BasicBlock
		i int
	}
	trueEdges, falseEdges := map[fedge]bool{}, map[fedge]bool{}
	for i, ifi := range ifs {
		ts := 0
		if negs[i] {
			ts = 1
		}
		trueEdges[fedge{ifi.Block(), ts}] = true
		falseEdges[fedge{ifi.Block(), 1 - ts}] = true
	}
	cutTrue := func(b *ssa.BasicBlock, i int) bool { return trueEdges[fedge{b, i}] }
	cutFalse := func(b *ssa.BasicBlock, i int) bool { return falseEdges[fedge{b, i}] }
	for _, r := range returnsOf(fn) {
		ev := c.retVals(r, 0)
		if allNil(ev) {
			ok := !P.PathExists(fn, nil, an.Is(r), nil, cutTrue)
			q.add("PATH", "WaitCond returns nil only after the predicate returned true", ok,
				pickS(ok, "the nil return is reachable only through the fn()==true edge", "WaitCond can return nil without the predicate having returned true with the lock held"), r)
			continue
		}
		// other returns: ctx.Err() or a constructor error
		good := len(ev) > 0
		for _, v := range ev {
			if isNilConst(v) {
				good = false
			}
			if !(P.IsCallResult(v, "invoke:context.Context.Err", 0) || P.IsCallResult(v, "errors.New", 0)) {
				good = false
			}
		}
		q.add("PROV", "every other return carries ctx.Err() or an argument error", good, pickS(good, "error value is ctx.Err() / errors.New", "a return of WaitCond carries an unexpected error value"), r)
	}
	// 2. order within an iteration
	errChecks := an.AllInstrs(fn, func(in ssa.Instruction) bool {
		call, ok := in.(*ssa.Call)
		if !ok || !call.Call.IsInvoke() || call.Call.Method.Name() != "Err" {
			return false
		}
		for _, s := range P.Sources(call.Call.Value) {
			if s == ssa.Value(ctxP) {
				return true
			}
		}
		return false
	})
	if q.need(errChecks, "PATH", "ctx.Err() check") {
		// the edge taken when ctx == nil
		nilIf, nilSucc, found := q.nilTestOf(func(v ssa.Value) bool {
			for _, s := range P.Sources(v) {
				if s == ssa.Value(ctxP) {
					return true
				}
			}
			return false
		})
		var cut an.EdgeCut
		if found {
			cut = cutEdge(nilIf, nilSucc)
		}
		// (the context may be tested for nil in several places: all their nil edges are the "no context" case)
		{
			isCtx := func(v ssa.Value) bool {
				for _, s := range P.Sources(v) {
					if s == ssa.Value(ctxP) {
						return true
					}
				}
				return false
			}
			cifs, cnegs := P.IfsOn(fn, func(cond ssa.Value) bool {
				b, ok := cond.(*ssa.BinOp)
				return ok && (b.Op == token.EQL || b.Op == token.NEQ) && either(b, isCtx, isNilConst)
			})
			type edge struct {
				b *ssa.BasicBlock
				i int
			}
			cuts := map[edge]bool{}
			for i, ci := range cifs {
				ns := 0
				if cnegs[i] {
					ns = 1
				}
				if stripNotV(ci.Cond).(*ssa.BinOp).Op == token.NEQ {
					ns = 1 - ns
				}
				cuts[edge{ci.Block(), ns}] = true
			}
			if len(cuts) > 0 {
				cut = func(b *ssa.BasicBlock, i int) bool { return cuts[edge{b, i}] }
			}
		}
		for _, w := range waits {
			// a wait of the no-context case (reachable only through a ctx == nil edge) has no context to re-check
			noCtx := cut != nil && !P.PathExists(fn, nil, an.Is(w), nil, cut)
			bad := !noCtx && P.PathExists(fn, w, func(in ssa.Instruction) bool {
				call, ok := in.(*ssa.Call)
				return ok && isFnCall(call)
			}, an.In(errChecks), cut)
			q.add("PATH", "after every wake-up the context is re-checked before the predicate", !bad,
				pickS(!bad, "every path from Wait back to fn() passes ctx.Err() (when ctx != nil)", "a path leads from cond.Wait back to the predicate without re-checking ctx.Err(): a cancelled waiter would park again"), w)
			okb := P.Before(fn, an.In(fnCalls), w) && !P.PathExists(fn, nil, an.Is(w), nil, cutFalse)
			q.add("PATH", "Wait only after the predicate returned false", okb, "Wait is dominated by fn() and reached through its false edge", w)
		}
		first := !P.PathExists(fn, nil, func(in ssa.Instruction) bool {
			call, ok := in.(*ssa.Call)
			return ok && isFnCall(call)
		}, an.In(errChecks), cut)
		q.add("PATH", "the context is checked before the first predicate evaluation", first, "entry -> fn() passes ctx.Err() when ctx != nil", fcall)
	}
	// 3. watcher: derived context, deferred cancel, broadcast after Done
	wcs := P.CallsTo(fn, "context.WithCancel")
	gos := an.AllInstrs(fn, func(in ssa.Instruction) bool { _, ok := in.(*ssa.Go); return ok })
	if q.need(wcs, "REL", "derived context") && q.need(gos, "GOX", "watcher goroutine") {
		wc := wcs[0]
		cancel := resultOf(wc, 1)
		defs := an.AllInstrs(fn, func(in ssa.Instruction) bool {
			d, ok := in.(*ssa.Defer)
			return ok && cancel != nil && d.Call.Value == cancel
		})
		ok := len(defs) > 0 && P.AfterAll(fn, wc, an.In(defs))
		q.add("REL", "the derived context is cancelled on every exit (watcher exits)", ok,
			pickS(ok, "defer cancel() follows WithCancel on every path", "WaitCond no longer cancels its derived context on every exit: the watcher goroutine leaks until the parent context ends"), wc)
		g := gos[0].(*ssa.Go)
		q.add("PATH", "the watcher is started after the derived context exists", P.Before(fn, an.Is(wc), g), "go is dominated by WithCancel", g)
		if mc, isMC := g.Call.Value.(*ssa.MakeClosure); isMC {
			wf := mc.Fn.(*ssa.Function)
			wq := &fq{c: c, fn: wf, name: an.FuncName(wf)}
			recvs := an.AllInstrs(wf, func(in ssa.Instruction) bool {
				u, ok := in.(*ssa.UnOp)
				return ok && u.Op == token.ARROW
			})
			bcs := P.CallsTo(wf, "(*sync.Cond).Broadcast")
			if wq.need(recvs, "GOX", "<-ctx.Done()") && wq.need(bcs, "PATH", "Broadcast on cancellation") {
				rv := recvs[0].(*ssa.UnOp)
				// Done() of the (derived) ctx cell
				fromCtx := false
				if call, isC := rv.X.(*ssa.Call); isC && call.Call.IsInvoke() && call.Call.Method.Name() == "Done" {
					if ld, isL := isLoad(call.Call.Value); isL {
						if cell := P.CellOf(ld.X); cell != nil && cell.Parent() == fn {
							// the derived context is stored into that cell before the go statement
							for _, st := range P.CellStores(cell) {
								if st.Val == resultOf(wc, 0) && P.Before(fn, an.Is(st), g) {
									fromCtx = true
								}
							}
						}
					}
				}
				wq.add("GOX", "the watcher waits on the derived context", fromCtx, pickS(fromCtx, "<-Done() of the context derived by WithCancel (released by the deferred cancel)", "the watcher does not block on the derived context: nothing guarantees its exit"), rv)
				wq.add("PATH", "Broadcast happens after cancellation", P.Before(wf, an.Is(rv), bcs[0]), "Broadcast is dominated by <-Done()", bcs[0])
				// ... always: once the context is done the watcher cannot return without having broadcast (a watcher that
				// skips the broadcast because the waiter "is not parked right now" loses the wake-up when the cancellation
				// lands between the waiter's ctx.Err() check and its cond.Wait())
				always := P.AfterAll(wf, rv, an.In(bcs))
				wq.add("PATH", "every cancellation is followed by a Broadcast", always, pickS(always, "from <-Done() every path to the watcher's return passes Broadcast", "the watcher can return after the context ended without broadcasting: a waiter that parks a moment later is never woken"), rv)
			}
		}
	}
}

func getAsync(c *Ctx) {
	q := c.F("(*Buffer).getAsync")
	if !q.ok() {
		return
	}
	P := c.P
	gs := closuresOf(q.fn, func(f *ssa.Function) bool { return len(P.CallsTo(f, "WaitCond")) > 0 })
	if len(gs) != 1 {
		q.undecided("PATH", "sender goroutine", "expected one closure of getAsync calling WaitCond")
		return
	}
	g := &fq{c: c, fn: gs[0], name: an.FuncName(gs[0])}
	wc := P.CallsTo(g.fn, "WaitCond")[0]
	// cond argument is Buffer.cond
	g.add("PROV", "waits on the buffer's cond", an.IsLoadOfField(callArg(wc, 1), "Buffer.cond"), "second argument of WaitCond is b.cond", wc)
	// combined context
	ccs := P.CallsTo(g.fn, "CombineContext")
	if g.need(ccs, "PROV", "CombineContext") {
		cc := ccs[0]
		g.add("PROV", "WaitCond waits under the combined context", srcIs(P, callArg(wc, 0), cc.(*ssa.Call)) && len(P.Sources(callArg(wc, 0))) == 1, "first argument of WaitCond is CombineContext(...)", wc)
		ctxOK := false
		for _, s := range P.Sources(callArg(cc, 0)) {
			if prm, ok := s.(*ssa.Parameter); ok && prm.Parent() == q.fn && prm == q.fn.Params[1] {
				ctxOK = true
			}
		}
		g.add("PROV", "the caller's context is the primary", ctxOK, pickS(ctxOK, "first operand is getAsync's ctx", "the caller's context is not the primary of the combined context"), cc)
		// the others: b.ctx and cancels...
		hasBufCtx, hasCancels := false, false
		for _, a := range P.CallsTo(g.fn, "builtin:append") {
			arg := callArg(a, 1)
			if sl, ok := arg.(*ssa.Slice); ok {
				if arr, ok := sl.X.(*ssa.Alloc); ok {
					for _, r := range *arr.Referrers() {
						if ia, ok := r.(*ssa.IndexAddr); ok {
							for _, r2 := range *ia.Referrers() {
								if st, ok := r2.(*ssa.Store); ok && an.IsLoadOfField(st.Val, "Buffer.ctx") {
									hasBufCtx = true
								}
							}
						}
					}
				}
			}
			for _, s := range P.Sources(arg) {
				if prm, ok := s.(*ssa.Parameter); ok && prm.Parent() == q.fn && prm == q.fn.Params[len(q.fn.Params)-1] {
					hasCancels = true
				}
			}
		}
		_, viaAppend := callArg(cc, 1).(*ssa.Call)
		g.add("PROV", "Buffer.ctx is among the cancelling contexts", hasBufCtx && viaAppend, pickS(hasBufCtx, "b.ctx is appended to the others", "closing the buffer no longer cancels a blocked Get: b.ctx is not passed to CombineContext"), cc)
		g.add("PROV", "every caller-supplied cancel context is included", hasCancels && viaAppend, pickS(hasCancels, "cancels... is appended to the others", "the cancels (consumer context) are not passed to CombineContext"), cc)
	}
	// the predicate evaluates get(c, offset) with getAsync's own arguments
	ps := closuresOf(g.fn, func(f *ssa.Function) bool { return len(P.CallsTo(f, "(*Buffer).get")) > 0 })
	if len(ps) == 1 {
		pq := &fq{c: c, fn: ps[0], name: an.FuncName(ps[0])}
		gc := P.CallsTo(ps[0], "(*Buffer).get")[0]
		okc, oko := false, false
		for _, s := range P.Sources(callArg(gc, 1)) {
			if s == ssa.Value(q.fn.Params[2]) {
				okc = true
			}
		}
		for _, s := range P.Sources(callArg(gc, 2)) {
			if s == ssa.Value(q.fn.Params[3]) {
				oko = true
			}
		}
		pq.add("PROV", "the waiter re-evaluates get() for the same consumer and position", okc && oko, "get(c, offset) with getAsync's parameters", gc)
		// the answer is filled in consistently with get()'s verdict: Error only from a non-nil err, Value only when found
		errv, okv := resultOf2(gc.(*ssa.Call), 2), resultOf2(gc.(*ssa.Call), 1)
		if errv != nil && okv != nil && an.Host(gc.Parent()) == gc.Parent() {
			// (only when get() is called and judged in the predicate itself; through a helper this shape is not decided)
			ifn, ns, found := pq.nilTestOf(func(v ssa.Value) bool { return v == errv })
			okIfs, okNegs := P.IfsOn(ps[0], func(cond ssa.Value) bool { return cond == okv })
			for _, st := range an.AllInstrs(ps[0], func(in ssa.Instruction) bool {
				s, ok := in.(*ssa.Store)
				return ok && (strings.HasSuffix(an.FieldOfAddr(s.Addr), ".Error") || strings.HasSuffix(an.FieldOfAddr(s.Addr), ".Value"))
			}) {
				isErr := strings.HasSuffix(an.FieldOfAddr(st.(*ssa.Store).Addr), ".Error")
				good := found
				// a store of a value joined from several arms is judged arm by arm (an arm that stores nil reports nothing)
				for _, tp := range storeTuples(st.(*ssa.Store)) {
					if isNilConst(tp.val) {
						continue
					}
					if found && isErr {
						good = good && pq.onlyViaEdge(tp.site, ifn, 1-ns) && tp.val == errv
					} else if found {
						g2 := pq.onlyViaEdge(tp.site, ifn, ns) && len(okIfs) == 1
						if g2 {
							ts := 0
							if okNegs[0] {
								ts = 1
							}
							g2 = pq.onlyViaEdge(tp.site, okIfs[0], ts)
						}
						good = good && g2
					}
				}
				pq.add("PATH", pickS(isErr, "the waiter reports an error only if get() failed", "the waiter reports a value only if get() found one"), good,
					pickS(good, pickS(isErr, "result.Error = err only through err != nil", "result.Value = v only through err == nil and ok"), "the waiter's answer is not tied to get()'s verdict (a blocked Get could return a nil value with a nil error, or swallow an error)"), st)
			}
		}
		// ... and ends the wait as soon as get() has a verdict: from the failed side of the error test, and from the found
		// side of the ok test, the predicate can only return true (an error that is merely recorded leaves the Get parked:
		// a consumer that fell behind while blocked is never told)
		if errv != nil && okv != nil && an.Host(gc.Parent()) == gc.Parent() {
			ifn, ns, found := pq.nilTestOf(func(v ssa.Value) bool { return v == errv })
			okIfs, okNegs := P.IfsOn(ps[0], func(cond ssa.Value) bool { return cond == okv })
			if found && len(okIfs) == 1 {
				ts := 0
				if okNegs[0] {
					ts = 1
				}
				good := true
				for _, r := range returnsOf(ps[0]) {
					// (a return of a value joined from several arms is judged arm by arm)
					for _, tp := range c.returnTuples(r) {
						fromErr := P.PathExists(ps[0], ifn, an.Is(tp.site), nil, cutEdge(ifn, ns))
						fromOK := P.PathExists(ps[0], okIfs[0], an.Is(tp.site), nil, cutEdge(okIfs[0], 1-ts))
						if !fromErr && !fromOK {
							continue
						}
						vs := []ssa.Value{tp.vals[0]}
						if tp.site == ssa.Instruction(r) {
							vs = c.retVals(r, 0)
						}
						for _, v := range vs {
							if bv, isB := constBool(v); !isB || !bv {
								good = false
							}
						}
					}
				}
				pq.add("PATH", "a verdict of get() ends the wait", good, pickS(good, "after err != nil, and after ok, the predicate returns true", "the predicate can ask to keep waiting although get() failed or found the value: the blocked Get is not woken with that answer"), gc)
			}
		}
		// ... on EVERY wake-up: no evaluation of the predicate answers without consulting get() (a verdict taken from a
		// position computed earlier goes stale when the cleaner shifts the buffer while the Get is parked)
		skip := P.PathExists(ps[0], nil, an.IsReturn, an.Is(gc), nil)
		pq.add("PATH", "every evaluation of the waiter's predicate consults get()", !skip,
			pickS(!skip, "get(c, offset) lies on every path through the predicate", "the predicate can answer without calling get(): a wake-up can be discarded on a stale condition (e.g. an index cached before the cleaner shifted the buffer) and the blocked Get stays parked although its value is available"), gc)
	} else {
		g.undecided("PROV", "predicate", "expected one predicate closure calling get")
	}
	// what ended the wait is what the Get reports: outside the predicate, the only error put into the answer is
	// WaitCond's own (the caller's ctx.Err() is nil when the wait was ended by Buffer.Close or the consumer's context:
	// the Get would return (nil, nil) and advance)
	for _, st := range an.AllInstrs(g.fn, func(in ssa.Instruction) bool {
		s, ok := in.(*ssa.Store)
		return ok && strings.HasSuffix(an.FieldOfAddr(s.Addr), ".Error")
	}) {
		okv := true
		for _, tp := range storeTuples(st.(*ssa.Store)) {
			if isNilConst(tp.val) {
				continue
			}
			for _, sv := range P.Sources(tp.val) {
				if sv != ssa.Value(wc.(ssa.Value)) {
					okv = false
				}
			}
		}
		g.add("PROV", "a wait ended by cancellation reports the error WaitCond returned", okv, pickS(okv, "result.Error = the error of WaitCond", "the answer's error is not WaitCond's: a wait ended by another member of the combined context can be reported as success"), st)
	}
	// out has capacity 1 and is sent exactly once after WaitCond
	sends := an.AllInstrs(g.fn, func(in ssa.Instruction) bool { _, ok := in.(*ssa.Send); return ok })
	if g.need(sends, "GOX", "send of the answer") {
		ok := len(sends) == 1 && P.Before(g.fn, an.Is(wc), sends[0]) && !P.InCycle(sends[0])
		if ok {
			mk, isMk := P.Sources(sends[0].(*ssa.Send).Chan)[0].(*ssa.MakeChan)
			if isMk {
				cv, isC := constInt(mk.Size)
				ok = isC && cv >= 1
			} else {
				ok = false
			}
		}
		g.add("GOX", "the answer is sent exactly once into a buffered channel", ok, pickS(ok, "one send, after WaitCond, on make(chan, 1)", "the sender can block forever or answer twice (the answer channel must be buffered and sent once)"), sends[0])
		// ... on every path, and the channel is never closed: the receiver reads exactly one answer, never the zero value
		// of a closed channel (which it would take for "value nil, no error")
		always := !P.PathExists(g.fn, nil, an.IsReturn, an.Is(sends[0]), nil)
		closes := an.AllInstrs(g.fn, func(in ssa.Instruction) bool {
			cc := an.CallCommonOf(in)
			if cc == nil {
				return false
			}
			b, isB := cc.Value.(*ssa.Builtin)
			return isB && b.Name() == "close"
		})
		g.add("GOX", "a blocked Get is always answered by the waiter's own send", always && len(closes) == 0,
			pickS(always && len(closes) == 0, "no return of the waiter without the send; the answer channel is never closed", "the waiter can finish without sending (or closes the answer channel): the blocked Get would hang, or read a zero answer and return a value nobody put"), sends[0])
	}
}

func init() {
	register(&Prop{
		ID:        "C05",
		Technique: "monitor no-lost-wake-up skeleton: path rules on WaitCond's SSA (dominance, only-via-edge), broadcast-under-lock and write=>broadcast typestate from the lock simulator, provenance of the combined context",
		Explanation: "WaitCond returns nil only through the fn()==true edge, every other return carries ctx.Err()/an argument error; on every iteration (after every wake-up) ctx.Err() is checked before fn(), Wait follows a false predicate and lies in a loop; the watcher goroutine waits on the derived context (released by a deferred cancel on every exit), takes cond.L and only then broadcasts; " +
			"both in-package WaitCond call sites hold the lock aliased to cond.L and pass Buffer.cond; getAsync's waiter evaluates get() under the write lock with the caller's ctx + Buffer.ctx + every cancel context combined; every state change a blocked Get depends on (Put, delete, cleanupLogic, commit, NewConsumer, watcher) broadcasts under the lock after the change; Signal is not accepted as a broadcast; a failing Get does not advance the consumer (C01.6).",
		NotDecided: "promptness (time); fairness of sync.Cond.",
		Build: func(c *Ctx) []*an.Oblig {
			waitCond(c)
			getAsync(c)
			consumerGet(c)
			c.errPolarity("(*consumer).Get", "WaitCond", "(*Buffer).get", "(*Buffer).getAsync")
			ensureRecheck(c, false) // a replaced cond strands the waiters parked on the old one
			cleanupLogic(c)         // the cleaner repeats its pass, holding the lock every wake-up needs, while a pass reports a change: it must make progress
			out := c.sel(func(o *an.Oblig) bool {
				if isUndecided(o) || o.Rule == "ANCHOR" {
					return true
				}
				if ruleIn(o, "S", "SL") && (subjHas(o, "Buffer.") || funcHas(o, "WaitCond")) {
					return true
				}
				if ruleIn(o, "WL", "P", "B") && funcHas(o, "WaitCond") {
					return true
				}
				if ruleIn(o, "G") && funcHas(o, "(*Buffer).get", "(*Buffer).getAsync") {
					return true
				}
				// every wake-up path needs Buffer.mutex in write mode: a reader that takes it twice (re-entrant RLock) deadlocks
				// with the first writer that arrives in between and pins it for ever
				if ruleIn(o, "P") && subjHas(o, "acquire:Buffer.mutex") {
					return true
				}
				// the position handed to the waiter stays valid until the delta is advanced: one hold of the consumer mutex
				if ruleIn(o, "AT") && funcHas(o, "(*consumer).Get") {
					return true
				}
				// a lock-order cycle between the consumer and buffer locks pins Buffer.mutex: the watcher, Put and Close
				// could never take cond.L, so a parked Get would never be woken
				if o.Rule == "O" && subjHas(o, "Buffer.mutex", "consumer.mutex") {
					return true
				}
				return false
			})
			return append(out, c.C.List...)
		},
		Floors: []Floor{
			floorKey("WaitCond path rules", 5, "PATH/WaitCond/"),
			floorKey("WaitCond watcher", 3, "/WaitCond$go1/"),
			floorKey("WaitCond REL", 1, "REL/WaitCond/"),
			floorKey("WL", 1, "WL/WaitCond/"),
			floorKey("SL watcher", 1, "SL/WaitCond$go1/"),
			floorKey("getAsync provenance", 5, "PROV/(*Buffer).getAsync$go1"),
			floorRule("S Buffer predicates", "S", 5),
			floorKey("locker held at Wait in every context", 1, "P/WaitCond/wait:"),
		},
	})
}
