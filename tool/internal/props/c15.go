package props

import (
	"go/token"
	"go/types"
	"strings"

	"golang.org/x/tools/go/ssa"

	"bbcheck/internal/an"
)

func phiNamed(fn *ssa.Function, name string) []*ssa.Phi {
	var out []*ssa.Phi
	for _, in := range an.AllInstrs(fn, func(in ssa.Instruction) bool { _, ok := in.(*ssa.Phi); return ok }) {
		if in.(*ssa.Phi).Comment == name {
			out = append(out, in.(*ssa.Phi))
		}
	}
	return out
}

// selectCaseAppends classifies the appends of reflect.SelectCase values in fn by the Dir constant
// of the appended composite literal (1 = send, 2 = recv).
func selectCaseAppends(p *an.Prog, fn *ssa.Function) (send, recv []ssa.Instruction) {
	for _, a := range p.CallsTo(fn, "builtin:append") {
		sl, ok := callArg(a, 1).(*ssa.Slice)
		if !ok {
			continue
		}
		arr, ok := sl.X.(*ssa.Alloc)
		if !ok {
			continue
		}
		for _, r := range *arr.Referrers() {
			ia, ok := r.(*ssa.IndexAddr)
			if !ok {
				continue
			}
			for _, r2 := range *ia.Referrers() {
				st, ok := r2.(*ssa.Store)
				if !ok {
					continue
				}
				ld, ok := isLoad(st.Val)
				if !ok {
					continue
				}
				lit, ok := ld.X.(*ssa.Alloc)
				if !ok {
					continue
				}
				for _, r3 := range *lit.Referrers() {
					fa, ok := r3.(*ssa.FieldAddr)
					if !ok || an.FieldOfAddr(fa) != "SelectCase.Dir" {
						continue
					}
					for _, r4 := range *fa.Referrers() {
						if s4, ok := r4.(*ssa.Store); ok {
							if k, isK := constInt(s4.Val); isK {
								if k == 1 {
									send = append(send, a)
								} else if k == 2 {
									recv = append(recv, a)
								}
							}
						}
					}
				}
			}
		}
	}
	return
}

func notifierRules(c *Ctx) {
	P := c.P
	reflectKinds(c, "notifier.go")
	typeNilableRule(c) // an untyped nil is offered exactly to element types that have a nil
	// valueOfNotifierTarget returns only for a channel that can be sent to (the premise of every later reflect use of a
	// subscriber's target; reflect.Select panics on a send case with a receive-only channel)
	if q := c.F("valueOfNotifierTarget"); q.ok() {
		send, okS := P.PkgConstInt("reflect", "SendDir")
		dIfs, dNegs := P.IfsOn(q.fn, func(cond ssa.Value) bool {
			b, ok := cond.(*ssa.BinOp)
			if !ok || (b.Op != token.EQL && b.Op != token.NEQ) {
				return false
			}
			isMask := func(v ssa.Value) bool {
				a, isA := v.(*ssa.BinOp)
				if !isA || a.Op != token.AND {
					return false
				}
				kx, okx := constInt(a.X)
				ky, oky := constInt(a.Y)
				return okS && ((okx && kx == send) || (oky && ky == send))
			}
			isSend := func(v ssa.Value) bool { k, isK := constInt(v); return okS && isK && k == send }
			return either(b, isMask, isSend)
		})
		okd := len(dIfs) == 1
		if okd {
			eq := 0
			if dNegs[0] {
				eq = 1
			}
			if stripNotV(dIfs[0].Cond).(*ssa.BinOp).Op == token.NEQ {
				eq = 1 - eq
			}
			for _, r := range returnsOf(q.fn) {
				if !q.onlyViaEdge(r, dIfs[0], eq) {
					okd = false
				}
			}
		}
		q.add("PATH", "only a channel that can be sent to is accepted as a target", okd, pickS(okd, "the normal return is reached only through dir&SendDir == SendDir", "a receive-only channel can be registered as a target: the next Publish would panic inside reflect.Select"))
		// subscribers store exactly that validated value
		if sq := c.F("(*Notifier).SubscribeContext"); sq.ok() {
			okt := true
			sts := an.FieldStores(sq.fn, "notifierSubscriber.target")
			for _, st := range sts {
				if !P.IsCallResult(st.(*ssa.Store).Val, "valueOfNotifierTarget", 0) {
					okt = false
				}
			}
			for _, fn := range P.Funcs {
				if fn != sq.fn && len(an.FieldStores(fn, "notifierSubscriber.target")) > 0 {
					okt = false
				}
			}
			sq.add("PROV", "a subscriber's target is the validated channel value", okt && len(sts) > 0, "target := valueOfNotifierTarget(target), stored nowhere else", sts...)
		}
	}
	c.delegates("(*Notifier).Publish", "(*Notifier).PublishContext", "recv", "nil", "p1", "p2")
	c.delegates("(*Notifier).Subscribe", "(*Notifier).SubscribeContext", "recv", "nil", "p1", "p2")
	// SubscribeCancel: the watcher that unsubscribes on cancellation is started only after the subscription was made.
	// (Started earlier, a duplicate Subscribe - which panics and, via the deferred cancel, fires the watcher - would
	// remove the ORIGINAL subscription: "duplicate Subscribe panics without changing the registry".)
	if q := c.F("(*Notifier).SubscribeCancel"); q.ok() {
		subs := P.CallsTo(q.fn, "(*Notifier).SubscribeContext")
		gos := an.AllInstrs(q.fn, func(in ssa.Instruction) bool { _, ok := in.(*ssa.Go); return ok })
		if q.need(subs, "PATH", "SubscribeContext call in SubscribeCancel") && q.need(gos, "PATH", "watcher goroutine of SubscribeCancel") {
			for _, g := range gos {
				ok := P.Before(q.fn, an.In(subs), g)
				q.add("PATH", "the cancellation watcher starts only after the subscription was registered", ok,
					pickS(ok, "SubscribeContext precedes the go statement on every path", "the watcher that calls Unsubscribe can be running before SubscribeContext succeeded: when that call panics (duplicate subscription) the deferred cancel makes the watcher remove the subscription that was already there"), g)
			}
		}
	}
	// panic-before-mutation
	for _, name := range []string{"(*Notifier).SubscribeContext", "(*Notifier).Unsubscribe"} {
		q := c.F(name)
		if !q.ok() {
			continue
		}
		muts := an.AllInstrs(q.fn, func(in ssa.Instruction) bool {
			switch x := in.(type) {
			case *ssa.MapUpdate:
				return true
			case *ssa.Store:
				return an.FieldOfAddr(x.Addr) == "Notifier.subscribers"
			case *ssa.Call:
				if b, ok := x.Call.Value.(*ssa.Builtin); ok && b.Name() == "delete" {
					return true
				}
			}
			return false
		})
		if !q.need(muts, "PATH", "registry mutation") {
			continue
		}
		for _, m := range muts {
			ok := !P.PathExists(q.fn, m, an.IsPanic, nil, nil)
			q.add("PATH", "a panicking call leaves the registry unchanged", ok, pickS(ok, "no panic is reachable after this mutation", "the registry is modified on a path that then panics (duplicate Subscribe / unmatched Unsubscribe must not change it)"), m)
		}
		pn := an.AllInstrs(q.fn, an.IsPanic)
		q.add("PATH", "misuse panics", len(pn) >= 1, "a panic exit exists", pn...)
		if name == "(*Notifier).SubscribeContext" {
			// an existing record is never overwritten: the record is written only on the not-found side of the lookup
			// of (key, target) - whatever state the existing subscription is in
			var looks []ssa.Instruction
			for _, in := range an.AllInstrs(q.fn, func(in ssa.Instruction) bool {
				l, ok := in.(*ssa.Lookup)
				if !ok || !l.CommaOk {
					return false
				}
				mt, isMap := l.X.Type().Underlying().(*types.Map)
				if !isMap {
					return false
				}
				_, named := mt.Elem().(*types.Named)
				return named && strings.HasSuffix(mt.Elem().String(), ".notifierSubscriber")
			}) {
				looks = append(looks, in)
			}
			var recs []ssa.Instruction
			for _, m := range muts {
				if mu, ok := m.(*ssa.MapUpdate); ok && strings.HasSuffix(mu.Value.Type().String(), ".notifierSubscriber") && !strings.HasPrefix(mu.Value.Type().String(), "map[") {
					recs = append(recs, m)
				}
			}
			if q.need(looks, "PATH", "lookup of the (key, target) record") && q.need(recs, "PATH", "store of the (key, target) record") {
				okx := resultOf2(looks[0].(*ssa.Lookup), 1)
				ifs, negs := P.IfsOn(q.fn, func(cond ssa.Value) bool { return okx != nil && cond == okx })
				good := len(ifs) == 1
				if good {
					miss := 1
					if negs[0] {
						miss = 0
					}
					for _, m := range recs {
						if !q.onlyViaEdge(m, ifs[0], miss) {
							good = false
						}
					}
				}
				q.add("PATH", "a duplicate subscription always panics, whatever the state of the existing one", good, pickS(good, "the record is stored only on the not-found side of the lookup", "the record of an existing subscription can be overwritten: a second Subscribe for the same key and target returns normally, and the first owner's Unsubscribe then removes the second subscription"), recs...)
			}
		}
		if name == "(*Notifier).Unsubscribe" {
			// found => delete and return; not found => panic
			dels := P.CallsTo(q.fn, "builtin:delete")
			okd := len(dels) >= 1
			for _, r := range returnsOf(q.fn) {
				if !P.Before(q.fn, an.In(dels), r) {
					okd = false
				}
			}
			q.add("PATH", "Unsubscribe returns normally only after removing the subscription", okd, "every return is dominated by a delete", dels...)
		}
	}
	q := c.F("(*Notifier).PublishContext")
	if !q.ok() {
		return
	}
	fn := q.fn
	sendA, recvA := selectCaseAppends(P, fn)
	nexts := an.AllInstrs(fn, func(in ssa.Instruction) bool { _, ok := in.(*ssa.Next); return ok })
	if len(sendA) != 1 || len(nexts) != 1 {
		q.undecided("PATH", "case construction", "expected one append of a send case and one range over the key's subscribers")
		return
	}
	send := sendA[0]
	nx := nexts[0]
	body := nx.Block().Succs[0]
	isNext := an.Is(nx)
	// subscriber context cancelled => skipped
	errIfs, _ := P.IfsOn(fn, func(cond ssa.Value) bool {
		b, ok := cond.(*ssa.BinOp)
		if !ok || (b.Op != token.NEQ && b.Op != token.EQL) {
			return false
		}
		return either(b, func(v ssa.Value) bool {
			call, ok := v.(*ssa.Call)
			return ok && call.Call.IsInvoke() && call.Call.Method.Name() == "Err" && an.FieldOfAddr(loadAddr(call.Call.Value)) == "notifierSubscriber.ctx"
		}, isNilConst)
	})
	if len(errIfs) == 1 {
		ifi := errIfs[0]
		b := stripNotV(ifi.Cond).(*ssa.BinOp)
		nonNilSucc := 0
		if b.Op == token.EQL {
			nonNilSucc = 1
		}
		leak := P.PathExists(fn, ifi, an.Is(send), isNext, cutEdge(ifi, 1-nonNilSucc))
		q.add("PATH", "a subscription whose context is cancelled gets no send case", !leak, pickS(!leak, "from sub.ctx.Err() != nil the send-case append is unreachable within the iteration", "a subscriber with a cancelled context can still be sent to"), send)
	} else {
		q.undecided("PATH", "a subscription whose context is cancelled gets no send case", "the sub.ctx.Err() test was not found exactly once")
	}
	// type filter: only through AssignableTo == true, or (invalid value and nilable element)
	var asgIf, nilIf *ssa.If
	for _, blk := range fn.Blocks {
		ifi, ok := blk.Instrs[len(blk.Instrs)-1].(*ssa.If)
		if !ok {
			continue
		}
		if call, ok := stripNotV(ifi.Cond).(*ssa.Call); ok {
			switch P.CalleeName(&call.Call) {
			case "invoke:reflect.Type.AssignableTo":
				asgIf = ifi
			case "typeNilable":
				nilIf = ifi
			}
		}
	}
	if asgIf == nil {
		q.add("PATH", "incompatible element types receive nothing", false, "the AssignableTo filter is gone: a subscriber with an incompatible channel type would make reflect.Select panic or receive a wrong value")
	} else {
		cut := func(b *ssa.BasicBlock, i int) bool {
			if b == asgIf.Block() && i == 0 {
				return true
			}
			if nilIf != nil && b == nilIf.Block() && i == 0 {
				return true
			}
			return false
		}
		leak := P.PathExists(fn, body.Instrs[0], an.Is(send), isNext, cut)
		q.add("PATH", "incompatible element types receive nothing", !leak, pickS(!leak, "the send case is appended only through AssignableTo == true (or, for an untyped nil, a nilable element type)", "a send case can be appended without the value being assignable to the channel's element type"), send)
		// the test is value.Type().AssignableTo(target.Type().Elem())
		call := stripNotV(asgIf.Cond).(*ssa.Call)
		okv := false
		if tc, ok := call.Call.Value.(*ssa.Call); ok && P.CalleeName(&tc.Call) == "(reflect.Value).Type" {
			if vo, ok := tc.Call.Args[0].(*ssa.Call); ok && P.CalleeName(&vo.Call) == "reflect.ValueOf" && vo.Call.Args[0] != nil {
				okv = usesValue(P, vo.Call.Args[0], fn.Params[3])
			}
		}
		q.add("PROV", "eligibility is decided on the published value itself (loop-invariant)", okv, pickS(okv, "reflect.ValueOf(value).Type().AssignableTo(elem)", "the value tested for assignability is not reflect.ValueOf(value) itself (e.g. a loop-carried copy modified for an earlier subscriber): later subscribers would be filtered by another subscriber's type"), call)
	}
	// what is sent: the published value (or the zero value of the element type for an untyped nil)
	for _, in := range an.AllInstrs(fn, func(in ssa.Instruction) bool {
		st, ok := in.(*ssa.Store)
		return ok && an.FieldOfAddr(st.Addr) == "SelectCase.Send"
	}) {
		ok := true
		for _, s := range P.SourcesAt(in.(*ssa.Store).Val, in) {
			isVO := P.IsCallResult(s, "reflect.ValueOf", 0) && usesValue(P, s.(*ssa.Call).Call.Args[0], fn.Params[3])
			isZ := P.IsCallResult(s, "reflect.Zero", 0)
			if !isVO && !isZ {
				ok = false
			}
		}
		q.add("PROV", "what is sent is the published value", ok, "Send is reflect.ValueOf(value) (or reflect.Zero(elem) for an untyped nil)", in)
	}
	// failure (context) cases only for subscriptions with a context, ref = len(successCases) before the append
	if len(recvA) >= 1 {
		var fc ssa.Instruction
		for _, r := range recvA {
			if P.InCycle(r) {
				fc = r
			}
		}
		if fc != nil {
			ctxIfs, _ := P.IfsOn(fn, func(cond ssa.Value) bool {
				b, ok := cond.(*ssa.BinOp)
				return ok && b.Op == token.NEQ && either(b, func(v ssa.Value) bool { return an.FieldOfAddr(loadAddr(v)) == "notifierSubscriber.ctx" }, isNilConst)
			})
			okf := false
			for _, ifi := range ctxIfs {
				if !P.PathExists(fn, body.Instrs[0], an.Is(fc), isNext, cutEdge(ifi, 0)) && ifi.Block().Dominates(fc.Block()) && ifi.Block() != body {
					okf = true
				}
			}
			q.add("PATH", "a cancellation case exists exactly for subscriptions that have a context", okf, "the failure-case append is reached only through sub.ctx != nil", fc)
			// the ref
			var ref ssa.Instruction
			for _, a := range P.CallsTo(fn, "builtin:append") {
				if a.Block() == fc.Block() && a != fc {
					ref = a
				}
			}
			if ref == nil {
				q.add("LIN", "each cancellation case records the index of the send it guards", false, "no failureRefs append next to the failure-case append")
			} else {
				var elem ssa.Value
				if sl, ok := callArg(ref, 1).(*ssa.Slice); ok {
					if arr, ok := sl.X.(*ssa.Alloc); ok {
						for _, r := range *arr.Referrers() {
							if ia, ok := r.(*ssa.IndexAddr); ok {
								for _, r2 := range *ia.Referrers() {
									if st, ok := r2.(*ssa.Store); ok {
										elem = st.Val
									}
								}
							}
						}
					}
				}
				okl := false
				if call, ok := elem.(*ssa.Call); ok {
					if b, isB := call.Call.Value.(*ssa.Builtin); isB && b.Name() == "len" {
						okl = call.Call.Args[0] == callArg(send, 0)
					}
				}
				okl = okl && !P.PathExists(fn, send, an.Is(ref), isNext, nil)
				q.add("LIN", "each cancellation case records the index of the send it guards", okl, pickS(okl, "ref = len(successCases) taken before this subscription's send case is appended", "the recorded index is not len(successCases) before the append: a cancellation would remove another subscriber's send"), ref)
			}
		}
	}
	// main loop: leaves only when nothing is pending or the exit case fired
	sels := P.CallsTo(fn, "reflect.Select")
	if q.need(sels, "PATH", "reflect.Select") {
		sel := sels[0]
		q.add("WL", "Publish keeps selecting until every send is resolved", P.InCycle(sel), "Select lies in a loop", sel)
		// the case list handed to Select is rebuilt on every iteration as exit ++ failure ++ success (the index
		// arithmetic that follows subtracts len(exitCases) and len(failureCases) in that order)
		{
			okl := false
			var chain []ssa.Value
			v := callArg(sel, 0)
			for i := 0; i < 4; i++ {
				call, ok := v.(*ssa.Call)
				if !ok {
					break
				}
				bi, ok := call.Call.Value.(*ssa.Builtin)
				if !ok || bi.Name() != "append" {
					break
				}
				chain = append([]ssa.Value{call.Call.Args[1]}, chain...)
				v = call.Call.Args[0]
			}
			if mk, ok := v.(*ssa.MakeSlice); ok && len(chain) == 3 && mk.Block() == sel.Block() {
				if l, isK := constInt(mk.Len); isK && l == 0 {
					names := []string{}
					for _, cv := range chain {
						if ph, ok := cv.(*ssa.Phi); ok {
							names = append(names, ph.Comment)
						} else {
							names = append(names, "?")
						}
					}
					// roles, not names: first operand is loop-invariant (exit cases), the other two are the loop-carried
					// lists; the middle one is the one whose length is subtracted second
					_, inv := chain[0].(*ssa.Phi)
					p1, ok1 := chain[1].(*ssa.Phi)
					p2, ok2 := chain[2].(*ssa.Phi)
					okl = ok1 && ok2 && p1.Block() == p2.Block() && P.InCycle(p1) && (!inv || !P.InCycle(chain[0].(*ssa.Phi)) || chain[0].(*ssa.Phi).Block() != p1.Block())
					_ = names
				}
			}
			q.add("PROV", "every Select sees a fresh exit ++ cancellation ++ send case list", okl,
				pickS(okl, "the argument is append(append(append(make(0, n), exit...), failure...), success...) built in the Select's block", "the case list handed to reflect.Select is not rebuilt from scratch as exit ++ failure ++ success on every iteration: the index arithmetic after it would address the wrong subscriber"), sel)
			if okl {
				c15Index(q, fn, sel, chain)
			}
		}
		chosen := resultOf(sel, 0)
		for _, r := range returnsOf(fn) {
			if !P.PathExists(fn, sel, an.Is(r), nil, nil) {
				// an early return, before anything was offered: only because the publish context is already cancelled or
				// nobody is subscribed under the key
				why := ""
				eifs, enegs := P.IfsOn(fn, func(cond ssa.Value) bool {
					b, ok := cond.(*ssa.BinOp)
					if !ok || (b.Op != token.EQL && b.Op != token.NEQ) {
						return false
					}
					return either(b, func(v ssa.Value) bool {
						call, isC := v.(*ssa.Call)
						return isC && call.Call.IsInvoke() && call.Call.Method.Name() == "Err" && srcIs(P, call.Call.Value, fn.Params[1])
					}, isNilConst)
				})
				for i, ifi := range eifs {
					nn := 0
					if enegs[i] {
						nn = 1
					}
					if stripNotV(ifi.Cond).(*ssa.BinOp).Op == token.EQL {
						nn = 1 - nn
					}
					if q.onlyViaEdge(r, ifi, nn) {
						why = "reached only through ctx.Err() != nil"
					}
				}
				zifs, znegs := P.IfsOn(fn, func(cond ssa.Value) bool {
					b, ok := cond.(*ssa.BinOp)
					if !ok || (b.Op != token.EQL && b.Op != token.NEQ) {
						return false
					}
					return either(b, func(v ssa.Value) bool {
						call, isC := v.(*ssa.Call)
						if !isC {
							return false
						}
						bi, isB := call.Call.Value.(*ssa.Builtin)
						if !isB || bi.Name() != "len" {
							return false
						}
						for _, src := range P.Sources(call.Call.Args[0]) {
							if lk, isLk := src.(*ssa.Lookup); isLk && an.IsLoadOfField(lk.X, "Notifier.subscribers") {
								return true
							}
						}
						return false
					}, isZero)
				})
				for i, ifi := range zifs {
					zs := 0
					if znegs[i] {
						zs = 1
					}
					if stripNotV(ifi.Cond).(*ssa.BinOp).Op == token.NEQ {
						zs = 1 - zs
					}
					if q.onlyViaEdge(r, ifi, zs) {
						why = "reached only through len(subscribers[key]) == 0"
					}
				}
				q.add("PATH", "Publish gives up before offering the value only if its context is cancelled or nobody is subscribed", why != "",
					pickS(why != "", why, "PublishContext can return without offering the value to anybody although its context is live and the key has subscribers (a guard is inverted)"), r)
				continue
			}
			// either through the loop guard (len == 0) or through chosen < len(exitCases)
			lenIfs, _ := P.IfsOn(fn, func(cond ssa.Value) bool {
				b, ok := cond.(*ssa.BinOp)
				if !ok || b.Op != token.NEQ {
					return false
				}
				return either(b, func(v ssa.Value) bool {
					call, ok := v.(*ssa.Call)
					if !ok {
						return false
					}
					bi, ok := call.Call.Value.(*ssa.Builtin)
					return ok && bi.Name() == "len"
				}, isZero)
			})
			exitIfs, _ := P.IfsOn(fn, func(cond ssa.Value) bool {
				b, ok := cond.(*ssa.BinOp)
				if !ok {
					return false
				}
				op, _, isC := cmpOf(b, isVal(chosen))
				return isC && op == token.LSS
			})
			ok := false
			for _, ifi := range lenIfs {
				if P.InCycle(ifi) && q.onlyViaEdge(r, ifi, 1) {
					ok = true
				}
			}
			for _, ifi := range exitIfs {
				if !P.PathExists(fn, sel, an.Is(r), nil, cutEdge(ifi, 0)) {
					ok = true
				}
			}
			if !ok {
				// one return shared by both ways out: nothing else leads to it
				var cuts []an.EdgeCut
				for _, ifi := range lenIfs {
					if P.InCycle(ifi) {
						cuts = append(cuts, cutEdge(ifi, 1))
					}
				}
				for _, ifi := range exitIfs {
					cuts = append(cuts, cutEdge(ifi, 0))
				}
				if len(cuts) >= 2 {
					ok = !P.PathExists(fn, sel, an.Is(r), nil, func(b *ssa.BasicBlock, i int) bool {
						for _, c := range cuts {
							if c(b, i) {
								return true
							}
						}
						return false
					})
				}
			}
			q.add("PATH", "Publish returns only when every pending send is resolved or its own context fired", ok, "return through len(successCases) == 0 or the exit case", r)
		}
		// re-basing: whenever a send case is removed (copy on successCases), the refs behind it are decremented,
		// whichever case fired
		decs := an.AllInstrs(fn, func(in ssa.Instruction) bool {
			st, ok := in.(*ssa.Store)
			if !ok {
				return false
			}
			ia, ok := st.Addr.(*ssa.IndexAddr)
			if !ok {
				return false
			}
			bo, ok := st.Val.(*ssa.BinOp)
			if !ok || bo.Op != token.SUB {
				return false
			}
			k, isK := constInt(bo.Y)
			_, isInt := ia.X.Type().Underlying().(*types.Slice)
			return isK && k == 1 && isInt && strings.Contains(ia.X.Type().String(), "int")
		})
		failIfs, _ := P.IfsOn(fn, func(cond ssa.Value) bool {
			b, ok := cond.(*ssa.BinOp)
			if !ok {
				return false
			}
			op, _, isC := cmpOf(b, func(v ssa.Value) bool {
				bo, ok := v.(*ssa.BinOp)
				return ok && bo.Op == token.SUB && bo.X == chosen
			})
			return isC && op == token.LSS
		})
		if len(decs) == 0 || len(failIfs) == 0 {
			q.add("PATH", "removing a send re-bases the later references on every branch", false, "the decrement of the later failureRefs, or the failure-case branch, was not found")
		} else {
			copies := P.CallsTo(fn, "builtin:copy")
			okr := true
			for _, side := range []int{0, 1} {
				// from each side of the failure/success branch the decrement loop is still reachable before the removal
				reach := P.PathExists(fn, failIfs[0], an.In(decs), an.In(copies), cutEdge(failIfs[0], 1-side))
				if !reach {
					okr = false
				}
			}
			q.add("PATH", "removing a send re-bases the later references on every branch", okr,
				pickS(okr, "the decrement loop is reachable before the removal from both the cancellation branch and the delivered branch", "the references behind the removed send are re-based on one branch only: after a cancellation the remaining cancellation cases would point at the wrong sends (wrong subscriber dropped, or an out-of-range panic)"), decs[0])
		}
	}
}

func loadAddr(v ssa.Value) ssa.Value {
	if ld, ok := isLoad(v); ok {
		return ld.X
	}
	return nil
}

func init() {
	register(&Prop{
		ID:        "C15",
		Technique: "guarded-by from the lock simulator, panic-before-mutation and eligibility path rules on SSA, linear forms over the select loop's index arithmetic, reflect validity typestate",
		Explanation: "the registry is mutated only under the write lock and read under the read lock for the whole publish; in SubscribeContext/Unsubscribe no panic is reachable after a registry mutation and Unsubscribe returns only after deleting; a send case is appended only if the subscription's context is not cancelled and the value is assignable to the element type (or, for an untyped nil, the element type is nilable), decided on reflect.ValueOf(value) itself; what is sent is that value (or the element's zero value); " +
			"a cancellation case exists exactly for subscriptions with a context and records len(successCases) before the send is appended; Publish leaves its loop only when no send is pending or its own context fired; removing a send re-bases the later references on both branches; the index arithmetic of the select loop on linear forms: the fired index is split as chosen-len(exit) / chosen-len(exit)-len(cancellation) with the boundary tests against those lengths, each removal is copy(l[i:], l[i+1:]) + l[:len(l)-1] carried round the loop, the send removed is references[fired cancellation] or the delivered one, the cancellation case removed is the fired one or the one whose reference was compared equal, and exactly the references greater than the removed index are decremented over the whole list; every reflect.ValueOf use is valid (the defect repaired by 78a952c).",
		NotDecided: "exactly-once delivery as a statement about every run: the per-step index relations above are decided, their composition over all rounds (an induction over the loop that uses the ascending order of the reference list, which the early break of the re-basing loop relies on) is not.",
		Build: func(c *Ctx) []*an.Oblig {
			rvObligations(c, func(fn string) bool { return strings.Contains(fn, "Notifier") || fn == "valueOfNotifierTarget" })
			notifierRules(c)
			subscribeCancelContext(c)
			out := c.sel(func(o *an.Oblig) bool {
				if isUndecided(o) || o.Rule == "ANCHOR" {
					return true
				}
				return ruleIn(o, "G", "B", "P", "PX") && funcHas(o, "(*Notifier)")
			})
			return append(out, c.C.List...)
		},
		Floors: []Floor{
			floorRule("RV", "RV", 2),
			floorKey("panic-before-mutation", 2, "a panicking call leaves the registry unchanged"),
			floorKey("PublishContext paths", 6, "/(*Notifier).PublishContext/"),
			floorKey("G Notifier.subscribers", 5, "G/", "Notifier.subscribers"),
		},
	})
}

// subscribeCancelContext: the subscription made by SubscribeCancel lives under the very context that the returned
// cancel function cancels (and that the unsubscribing watcher waits for). Registered under the parent instead, cancel
// neither stops deliveries nor releases a publisher blocked on the target - which then holds the read lock the
// watcher's Unsubscribe needs, for ever.
func subscribeCancelContext(c *Ctx) {
	P := c.P
	q := c.F("(*Notifier).SubscribeCancel")
	if !q.ok() {
		return
	}
	wcs := P.CallsTo(q.fn, "context.WithCancel")
	subs := P.CallsTo(q.fn, "(*Notifier).SubscribeContext")
	if !q.need(wcs, "PROV", "derived context") || !q.need(subs, "PROV", "SubscribeContext call") {
		return
	}
	derived, cancel := resultOf(wcs[0], 0), resultOf(wcs[0], 1)
	// the context argument as it is at the call (the variable may have held the parent before)
	arg := callArg(subs[0], 1)
	okc := arg == derived
	if !okc {
		if rv, ok := P.ReachingStore(arg); ok {
			okc = rv == derived
		}
	}
	q.add("PROV", "the subscription is registered under the context that the returned cancel cancels", okc && len(wcs) == 1 && len(subs) == 1,
		pickS(okc, "SubscribeContext(derived, key, target) with derived, cancel := WithCancel(parent)", "the subscription is registered under another context than the one the returned cancel function cancels: cancel does not stop deliveries to it and does not release a publisher blocked on it"), subs[0])
	for _, r := range returnsOf(q.fn) {
		okr := false
		for _, v := range c.retVals(r, 0) {
			okr = v == cancel
			if !okr {
				break
			}
		}
		q.add("PROV", "the function returned is that context's cancel", okr, "return cancel of the same WithCancel", r)
	}
}
