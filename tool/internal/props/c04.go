package props

import (
	"go/token"
	"go/types"
	"strings"

	"golang.org/x/tools/go/ssa"

	"bbcheck/internal/an"
)

// cooldownProtocol: C04.3 / C04.4 — the cleaner's cooldown cells and the start of the cleaner.
func cooldownProtocol(c *Ctx) {
	P := c.P
	q := c.F("(*Buffer).cleanup")
	if !q.ok() {
		return
	}
	// the cooldown cells, identified by what they are (not by their names): the captured *time.Timer
	// cell and the captured bool cell of cleanup()
	var timer, bc *ssa.Alloc
	for _, in := range an.AllInstrs(q.fn, func(in ssa.Instruction) bool { _, ok := in.(*ssa.Alloc); return ok }) {
		al := in.(*ssa.Alloc)
		if !P.Captured(al) {
			continue
		}
		switch al.Type().Underlying().(*types.Pointer).Elem().String() {
		case "*time.Timer":
			timer = al
		case "bool":
			bc = al
		}
	}
	if timer == nil || bc == nil {
		q.undecided("PATH", "cooldown cells", "the timer / broadcast cells of cleanup() were not found")
		return
	}
	// the cleanup closure: the one that calls cleanupLogic
	cls := closuresOf(q.fn, func(f *ssa.Function) bool { return len(P.CallsTo(f, "(*Buffer).cleanupLogic")) > 0 })
	if len(cls) != 1 {
		q.undecided("PATH", "cleanup closure", "expected exactly one closure of cleanup() calling cleanupLogic")
		return
	}
	cl := &fq{c: c, fn: cls[0], name: an.FuncName(cls[0])}
	logic := P.CallsTo(cl.fn, "(*Buffer).cleanupLogic")
	setTrue := an.AllInstrs(cl.fn, func(in ssa.Instruction) bool {
		st, ok := in.(*ssa.Store)
		if !ok || P.CellOf(st.Addr) != bc {
			return false
		}
		b, isB := constBool(st.Val)
		return isB && b
	})
	// every exit either ran the cleaner or remembered the change
	for _, r := range returnsOf(cl.fn) {
		skipped := P.PathExists(cl.fn, nil, an.Is(r), func(in ssa.Instruction) bool {
			return an.In(logic)(in) || an.In(setTrue)(in)
		}, nil)
		cl.add("PATH", "a change seen during a cooldown is remembered", !skipped,
			pickS(!skipped, "every path to this return ran cleanupLogic or set broadcast = true", "the cleanup closure can return without cleaning and without setting the broadcast flag: a change made during a cooldown would never be acted on"), r)
	}
	// a clean that shifted something must be followed by a re-evaluation: the Broadcast performed by cleanupLogic
	// cannot wake the cleaner (it is the goroutine running it), so the closure itself has to consult the result:
	// test it, loop on it, or store it into the re-broadcast flag
	for _, lc := range logic {
		call, isCall := lc.(*ssa.Call)
		if !isCall {
			continue
		}
		uses := func(in ssa.Instruction) bool {
			switch x := in.(type) {
			case *ssa.If:
				return usesValue(P, stripNotV(x.Cond), call) || stripNotV(x.Cond) == ssa.Value(call)
			case *ssa.Store:
				return P.CellOf(x.Addr) == bc && usesValue(P, x.Val, call)
			}
			return false
		}
		ignored := false
		for _, r := range returnsOf(cl.fn) {
			if P.PathExists(cl.fn, lc, an.Is(r), uses, nil) {
				ignored = true
			}
		}
		cl.add("PATH", "a clean that changed the buffer is followed by a re-check", !ignored,
			pickS(!ignored, "every path from cleanupLogic() to a return tests its result or stores it into the re-broadcast flag", "the result of cleanupLogic() is ignored: when a cleaner pass removes only part of what can be removed (e.g. FixedBufferCleaner's forced trim), nothing ever triggers the next pass - the broadcast made by cleanupLogic cannot wake the goroutine that is running it - and fully consumed values stay in the buffer"), lc)
	}
	// a non-nil timer store is followed by the timer goroutine
	gos := an.AllInstrs(cl.fn, func(in ssa.Instruction) bool { _, ok := in.(*ssa.Go); return ok })
	for _, in := range an.AllInstrs(cl.fn, func(in ssa.Instruction) bool {
		st, ok := in.(*ssa.Store)
		return ok && P.CellOf(st.Addr) == timer && !isNilConst(st.Val)
	}) {
		ok := len(gos) > 0 && P.AfterAll(cl.fn, in, an.In(gos))
		cl.add("PATH", "arming the cooldown always starts the timer goroutine", ok, pickS(ok, "store of the timer is followed by go on every path", "the cooldown timer can be armed without the goroutine that clears it: cleaning would stop for ever"), in)
	}
	// the cooldown timer is never re-armed / stopped elsewhere
	var resets []ssa.Instruction
	for _, f := range append([]*ssa.Function{q.fn}, allNested(q.fn)...) {
		resets = append(resets, P.CallsTo(f, "(*time.Timer).Reset")...)
	}
	q.add("WR", "the cooldown timer is never re-armed", len(resets) == 0, pickS(len(resets) == 0, "no Reset call in cleanup() or its closures", "the cooldown timer is re-armed (Reset): a steady stream of changes would postpone cleaning indefinitely (the delay is no longer bounded by the cooldown)"), resets...)
	// timer goroutine
	if len(gos) == 1 {
		if mc, ok := gos[0].(*ssa.Go).Call.Value.(*ssa.MakeClosure); ok {
			tg := mc.Fn.(*ssa.Function)
			tq := &fq{c: c, fn: tg, name: an.FuncName(tg)}
			recvs := an.AllInstrs(tg, func(in ssa.Instruction) bool {
				u, ok := in.(*ssa.UnOp)
				return ok && u.Op == token.ARROW
			})
			var dcl *ssa.Function
			var dfr ssa.Instruction
			for _, d := range an.AllInstrs(tg, func(in ssa.Instruction) bool { _, ok := in.(*ssa.Defer); return ok }) {
				if m2, ok := d.(*ssa.Defer).Call.Value.(*ssa.MakeClosure); ok {
					f := m2.Fn.(*ssa.Function)
					if len(P.CallsTo(f, "(*sync.Cond).Broadcast")) > 0 {
						dcl, dfr = f, d
					}
				}
			}
			if dcl == nil || len(recvs) == 0 {
				tq.add("PATH", "the timer goroutine re-broadcasts on exit", false, "no deferred closure broadcasting on Buffer.cond, or no wait on the timer, in the timer goroutine")
			} else {
				tq.add("PATH", "the re-broadcast is deferred before waiting on the timer", P.Before(tg, an.Is(dfr), recvs[0]), "the defer dominates <-timer.C", dfr)
				dq := &fq{c: c, fn: dcl, name: an.FuncName(dcl)}
				// timer := nil on every path
				nilStores := an.AllInstrs(dcl, func(in ssa.Instruction) bool {
					st, ok := in.(*ssa.Store)
					return ok && P.CellOf(st.Addr) == timer && isNilConst(st.Val)
				})
				okn := len(nilStores) > 0 && !P.PathExists(dcl, nil, an.IsReturn, an.In(nilStores), nil)
				dq.add("PATH", "the cooldown is always cleared when the timer goroutine exits", okn, pickS(okn, "timer = nil on every path", "the timer goroutine can exit without clearing the cooldown: cleaning would stop for ever"), nilStores...)
				// broadcast iff the flag is set
				bcs := P.CallsTo(dcl, "(*sync.Cond).Broadcast")
				ifs, negs := P.IfsOn(dcl, func(cond ssa.Value) bool {
					ld, ok := isLoad(cond)
					return ok && P.CellOf(ld.X) == bc
				})
				if len(ifs) == 1 {
					ts := 0
					if negs[0] {
						ts = 1
					}
					always := !P.PathExists(dcl, nil, an.IsReturn, an.In(bcs), cutEdge(ifs[0], 1-ts))
					dq.add("PATH", "a remembered change is re-broadcast when the cooldown ends", always, pickS(always, "Broadcast on every path through broadcast == true", "the remembered change is not always re-broadcast"), bcs[0])
					dq.add("PROV", "the re-broadcast is on Buffer.cond", an.IsLoadOfField(callArg(bcs[0], 0), "Buffer.cond"), "receiver is b.cond", bcs[0])
				} else {
					dq.undecided("PATH", "a remembered change is re-broadcast when the cooldown ends", "the broadcast flag is not tested exactly once")
				}
			}
		}
	}
	// C04.4: the cleaner is started where cond is created, and its predicate never returns true
	started := false
	for _, fn := range P.Funcs {
		sts := an.FieldStores(fn, "Buffer.cond")
		if len(sts) == 0 {
			continue
		}
		g := P.CallsTo(fn, "(*Buffer).cleanup")
		var gg []ssa.Instruction
		for _, x := range g {
			if _, isGo := x.(*ssa.Go); isGo {
				gg = append(gg, x)
			}
		}
		fq0 := &fq{c: c, fn: fn, name: an.FuncName(fn)}
		for _, st := range sts {
			ok := len(gg) > 0 && P.AfterAll(fn, st, an.In(gg))
			fq0.add("PATH", "creating the cond starts the cleaner goroutine", ok, pickS(ok, "store of Buffer.cond is followed by go b.cleanup() on every path", "Buffer.cond can be created without starting the cleaner: nothing would ever be reclaimed"), st)
			if ok {
				started = true
			}
		}
	}
	if !started {
		q.add("PATH", "creating the cond starts the cleaner goroutine", false, "no initialiser of Buffer.cond starts the cleaner")
	}
	wcs := P.CallsTo(q.fn, "WaitCond")
	if q.need(wcs, "PATH", "the cleaner's WaitCond") {
		wc := wcs[0]
		q.add("PROV", "the cleaner waits on Buffer.cond under the buffer's context", an.IsLoadOfField(callArg(wc, 1), "Buffer.cond") && an.IsLoadOfField(callArg(wc, 0), "Buffer.ctx"), "WaitCond(b.ctx, b.cond, ...)", wc)
		if mc, ok := callArg(wc, 2).(*ssa.MakeClosure); ok {
			pf := mc.Fn.(*ssa.Function)
			pq := &fq{c: c, fn: pf, name: an.FuncName(pf)}
			allFalse := true
			for _, r := range returnsOf(pf) {
				for _, v := range c.retVals(r, 0) {
					if b, isB := constBool(v); !isB || b {
						allFalse = false
					}
				}
			}
			pq.add("PATH", "the cleaner reacts to every broadcast for the life of the buffer", allFalse, pickS(allFalse, "its predicate always returns false (it runs until b.ctx is cancelled)", "the cleaner's predicate can return true: the cleaner would stop"))
			// it calls the cleanup closure with the configured cooldown
			okc := false
			for _, in := range an.AllInstrs(pf, func(in ssa.Instruction) bool { _, ok := in.(*ssa.Call); return ok }) {
				call := in.(*ssa.Call)
				if call.Call.StaticCallee() == nil && !call.Call.IsInvoke() && len(call.Call.Args) == 1 {
					if ld, isL := isLoad(call.Call.Args[0]); isL && an.FieldOfAddr(ld.X) == "CleanerConfig.Cooldown" {
						// ... of the configuration current at THIS pass: Buffer.cleaner is re-read inside the predicate
						// (SetCleanerConfig replaces the pointer; a copy taken once would pin the first cooldown for ever)
						if fa, isFA := ld.X.(*ssa.FieldAddr); isFA && an.IsLoadOfField(fa.X, "Buffer.cleaner") {
							okc = true
						}
					}
				}
			}
			{
				// every wake-up is acted on: no way through the predicate avoids the cleanup closure (a "nothing changed
				// since the last look" shortcut also swallows the timer's re-broadcast of a change seen during a cooldown)
				var cl []ssa.Instruction
				for _, in := range an.AllInstrs(pf, func(in ssa.Instruction) bool { _, ok := in.(*ssa.Call); return ok }) {
					call := in.(*ssa.Call)
					if call.Call.StaticCallee() == nil && !call.Call.IsInvoke() && len(call.Call.Args) == 1 {
						cl = append(cl, in)
					}
				}
				every := len(cl) > 0 && !P.PathExists(pf, nil, an.IsReturn, an.In(cl), nil)
				pq.add("PATH", "every wake-up of the cleaner runs the cleanup closure", every, pickS(every, "every path through the predicate calls cleanup(cooldown)", "the cleaner's predicate can return without calling the cleanup closure: a broadcast (in particular the one that ends a cooldown) is dropped, and what it announced is reclaimed only when something else happens"))
			}
			pq.add("PROV", "the cooldown is the configured one", okc, pickS(okc, "cleanup(b.cleaner.Cooldown), Buffer.cleaner re-read on every pass", "the cooldown handed to cleanup() is not read from the current Buffer.cleaner on every pass: a later SetCleanerConfig would never take effect for the cleaner goroutine"))
		}
	}
}

func allNested(fn *ssa.Function) []*ssa.Function {
	var out []*ssa.Function
	for _, a := range fn.AnonFuncs {
		out = append(out, a)
		out = append(out, allNested(a)...)
	}
	return out
}

func init() {
	register(&Prop{
		ID:        "C04",
		Technique: "typestate over condition variables on SSA (predicate write => Broadcast; Broadcast holds the cond's locker), path rules on the cooldown closures, who-may-call audit of the cooldown timer",
		Explanation: "every write to a predicate field of Buffer.cond (consumers, buffer, offset) in Put, NewConsumer, delete, commit, cleanupLogic is followed by a Broadcast (not Signal) before the lock is released; every Broadcast on Buffer.cond holds Buffer.mutex, including the cooldown timer's re-broadcast (the defect repaired by f449357); " +
			"cooldown protocol: every exit of the cleanup closure either ran cleanupLogic or set the broadcast flag, arming the timer always starts the timer goroutine, whose deferred exit clears the timer on every path and re-broadcasts iff the flag is set; the timer is never re-armed; the cooldown cells share one lock; the cleaner goroutine is started where cond is created, its predicate never returns true, and it uses the configured cooldown.",
		NotDecided: "the delay bound itself (time); FixedBufferCleaner's quiescent size as a number (decided: the forced trim size - target iff size > max, handed out for every configuration, consulted on every pass, and a pass that removed something is followed by another).",
		Build: func(c *Ctx) []*an.Oblig {
			cooldownProtocol(c)
			cleanerAlwaysConsulted(c)
			cleanupLogic(c)         // what a pass removes, and that a pass which reports a change has made progress
			fixedBufferCleaner(c)   // the forced trim that bounds a quiescent buffer by max
			ensureRecheck(c, false) // a racing first use that re-runs the default-cleaner initialiser replaces a configured cleaner (FixedBufferCleaner, the cooldown) behind SetCleanerConfig's back
			out := c.sel(func(o *an.Oblig) bool {
				if isUndecided(o) || o.Rule == "ANCHOR" {
					return true
				}
				if ruleIn(o, "S") && subjHas(o, "Buffer.") {
					return true
				}
				if ruleIn(o, "SL") && subjHas(o, "Buffer.cond") {
					return true
				}
				if ruleIn(o, "G") && subjHas(o, "cell:") && (strings.Contains(o.Subject, "timer") || strings.Contains(o.Subject, "broadcast")) {
					return true
				}
				if ruleIn(o, "P", "WL", "SL") && funcHas(o, "WaitCond") {
					return true
				}
				if ruleIn(o, "AT") && funcHas(o, "(*Buffer).cleanup") {
					return true
				}
				return false
			})
			return append(out, c.C.List...)
		},
		Floors: []Floor{
			floorKey("S in Put", 1, "S/(*Buffer).Put/"),
			floorKey("S in NewConsumer", 1, "S/(*Buffer).NewConsumer/"),
			floorKey("S in delete", 1, "S/(*Buffer).delete/"),
			floorKey("S in commit", 1, "S/(*Buffer).commit/"),
			floorKey("S in cleanupLogic", 2, "S/(*Buffer).cleanupLogic/"),
			floorRule("SL broadcast sites on Buffer.cond", "SL", 6),
			floorKey("cooldown cells", 2, "G/(*Buffer).cleanup/cell:"),
			floorKey("cooldown closure path rules", 2, "PATH/(*Buffer).cleanup$fn1/"),
			floorKey("timer goroutine exit", 2, "PATH/(*Buffer).cleanup$fn1$go1$defer1/"),
			floorRule("cleaner start / predicate", "PATH", 7),
		},
	})
}

// cleanerAlwaysConsulted: every run of cleanupLogic asks the configured cleaner (also with no consumers:
// FixedBufferCleaner bounds the buffer regardless of consumers).
func cleanerAlwaysConsulted(c *Ctx) {
	q := c.F("(*Buffer).cleanupLogic")
	if !q.ok() {
		return
	}
	P := c.P
	calls := P.CallsTo(q.fn, "field:CleanerConfig.Cleaner")
	if !q.need(calls, "PATH", "call of the configured cleaner") {
		return
	}
	skipped := P.PathExists(q.fn, nil, an.IsReturn, an.In(calls), nil)
	q.add("PATH", "every cleanup pass consults the configured cleaner", !skipped,
		pickS(!skipped, "no return of cleanupLogic is reachable without calling the cleaner", "cleanupLogic can return without calling the cleaner (e.g. when there are no consumers): a size-bounding cleaner such as FixedBufferCleaner would never run and the buffer grows without bound"), calls[0])
	// and consumerOffsets always returns a (possibly empty) list once the buffer is initialised
}
