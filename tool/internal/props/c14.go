package props

import (
	"go/token"
	"golang.org/x/tools/go/ssa"

	"bbcheck/internal/an"
)

func workersRules(c *Ctx) {
	c.delegates("(*Workers).Wrap$ret1", "(*Workers).Call", "recv", "p1", "p2")
	c.returnsField("(*Workers).Count", "Workers.count", "Count must report the number of live workers (zero after Wait)")
	P := c.P
	if q := c.F("(*Workers).Call"); q.ok() {
		w, cnt := q.param(0), q.param(1)
		gos := P.CallsTo(q.fn, "(*Workers).worker")
		var goI []ssa.Instruction
		for _, g := range gos {
			if _, ok := g.(*ssa.Go); ok {
				goI = append(goI, g)
			}
		}
		if q.need(goI, "COND", "go w.worker()") {
			g := goI[0]
			// the count as read by the loop guard that decides this spawn
			var at ssa.Instruction = g
			if len(g.Block().Preds) > 0 {
				for _, ld := range an.FieldLoads(q.fn, "Workers.count") {
					if ld.Block() == g.Block().Preds[0] {
						at = ld
					}
				}
			}
			d := P.FieldAt(w+".count", at).Minus(aP(cnt))
			// from the loop head: spawn iff count < requested
			got := P.PathCond(q.fn, g.Block().Preds[0], g, keepForms(d))
			if len(g.Block().Preds) == 0 {
				got = P.PathCond(q.fn, nil, g, keepForms(d))
			}
			ok, cex := an.EquivDNF(got, an.DNF{conj(lit(d, an.SNeg))})
			if !ok {
				// the same as a countdown of the precomputed deficit: for missing := requested - count; missing > 0; missing--
				if hi, _, lo, okb := loopBound(P, g); okb && lo == 0 {
					if hin, isIn := hi.(ssa.Instruction); isIn {
						pre := false
						for _, pb := range g.Block().Preds {
							for _, pp := range pb.Preds {
								pre = pre || pp == hin.Block()
							}
							pre = pre || pb == hin.Block()
						}
						for _, st := range an.FieldStores(q.fn, "Workers.count") {
							if st.Block() == hin.Block() && P.Before(q.fn, an.Is(hin), st) {
								pre = false
							}
						}
						if pre && P.Lin(hi).Equal(aP(cnt).Minus(P.FieldAt(w+".count", hin))) {
							ok = true
						}
					}
				}
			}
			q.add("COND", "a worker is spawned iff count < requested count", ok, pickS(ok, "go reached iff count - requested < 0", "a worker is spawned iff ["+got.String()+"]; "+cex), g)
			q.add("WL", "workers are topped up in a loop", P.InCycle(g), "the spawn lies in a loop re-reading count", g)
			cs := an.FieldStores(q.fn, "Workers.count")
			if q.need(cs, "LIN", "count++") {
				for _, s := range cs {
					q.expectLin("LIN", "each spawn is counted exactly once", s.(*ssa.Store).Val, P.FieldAt(w+".count", readOf(s)).AddC(1), s)
					same := s.Block() == g.Block() && P.Before(q.fn, an.Is(s), g)
					q.add("PATH", "count is incremented in the block that spawns", same, "count++ precedes go in the same block", s)
				}
			}
		}
		// the submitted function runs only in a counted worker: Call itself (and Wrap) never invokes it
		{
			var dyn []ssa.Instruction
			for _, in := range an.AllInstrs(q.fn, func(in ssa.Instruction) bool {
				cc := an.CallCommonOf(in)
				if cc == nil || cc.IsInvoke() || cc.StaticCallee() != nil {
					return false
				}
				_, isB := cc.Value.(*ssa.Builtin)
				return !isB
			}) {
				dyn = append(dyn, in)
			}
			q.add("WR", "the submitted function is run by a worker, never by the caller", len(dyn) == 0, pickS(len(dyn) == 0, "Call contains no call of a function value", "Call invokes a function value itself: that execution holds no worker slot, so more functions than requested can run at once and Wait / Count do not see it"), dyn...)
		}
		for _, s := range an.FieldStores(q.fn, "Workers.target") {
			ok := s.(*ssa.Store).Val == ssa.Value(q.fn.Params[1])
			q.add("PROV", "target is the requested count", ok, "stores the count parameter", s)
		}
		// the reply channel: make(chan, 1), enqueued and received from
		mks := an.AllInstrs(q.fn, func(in ssa.Instruction) bool { _, ok := in.(*ssa.MakeChan); return ok })
		if q.need(mks, "GOX", "reply channel") {
			mk := mks[0].(*ssa.MakeChan)
			cv, isC := constInt(mk.Size)
			q.add("GOX", "the reply channel is buffered", isC && cv >= 1, pickS(isC && cv >= 1, "make(chan, 1): the worker's single send never blocks", "the reply channel is unbuffered: a worker would block until Call receives"), mk)
			recvOK := false
			for _, in := range an.AllInstrs(q.fn, func(in ssa.Instruction) bool {
				u, ok := in.(*ssa.UnOp)
				return ok && u.Op.String() == "<-"
			}) {
				for _, s := range P.Sources(in.(*ssa.UnOp).X) {
					if s == ssa.Value(mk) {
						recvOK = true
					}
				}
			}
			q.add("PROV", "Call waits on the channel it enqueued", recvOK, "receives from its own reply channel", mk)
		}
		// panics on count <= 0 before anything else (check)
		if ck := c.F("(*Workers).check"); ck.ok() {
			pn := an.AllInstrs(ck.fn, an.IsPanic)
			d := aP(ck.param(1))
			good := false
			for _, p := range pn {
				got := P.PathCond(ck.fn, nil, p, keepForms(d))
				if ok, _ := an.EquivDNF(got, an.DNF{conj(lit(d, an.SNeg|an.SZero))}); ok {
					good = true
				}
			}
			ck.add("COND", "count <= 0 panics (target >= 1 always)", good, "a panic is reached iff count <= 0", pn...)
			calls := P.CallsTo(q.fn, "(*Workers).check")
			locks := P.CallsTo(q.fn, "(*sync.Mutex).Lock")
			okb := len(calls) > 0 && len(locks) > 0 && P.Before(q.fn, an.In(calls), locks[0])
			q.add("PATH", "arguments are validated before anything is enqueued", okb, "check() dominates the lock", calls...)
		}
	}
	q := c.F("(*Workers).worker")
	if !q.ok() {
		return
	}
	w := q.param(0)
	cs := an.FieldStores(q.fn, "Workers.count")
	if q.need(cs, "LIN", "count--") {
		for _, s := range cs {
			q.expectLin("LIN", "an exiting worker is uncounted exactly once", s.(*ssa.Store).Val, P.FieldAt(w+".count", readOf(s)).AddC(-1), s)
			twice := P.PathExists(q.fn, s, an.In(cs), nil, nil)
			q.add("PATH", "no path decrements twice", !twice, "no path from the decrement to another decrement", s)
			ql, ct := P.LenAt(w+".queue", s), P.FieldAt(w+".count", s).Minus(P.FieldAt(w+".target", s))
			got := P.PathCond(q.fn, nil, s, keepForms(ql, ct))
			ok, cex := an.EquivDNF(got, an.DNF{conj(lit(ql, an.SZero)), conj(lit(ct, an.SPos))})
			q.add("COND", "a worker exits iff the queue is empty or count > target", ok,
				pickS(ok, "exit branch reached iff len(queue) == 0 or count - target > 0", "the exit guard changed: a worker exits iff ["+got.String()+"] (with a non-empty queue this can strand queued calls); "+cex), s)
		}
		for _, r := range returnsOf(q.fn) {
			ok := P.Before(q.fn, an.In(cs), r)
			q.add("PATH", "every exit uncounts the worker", ok, pickS(ok, "return dominated by count--", "worker() can return without decrementing count: Wait would never return / capacity is lost"), r)
		}
	}
	// dequeue head
	qst := an.FieldStores(q.fn, "Workers.queue")
	if q.need(qst, "LIN", "dequeue") {
		for _, s := range qst {
			sl, ok := s.(*ssa.Store).Val.(*ssa.Slice)
			good := ok && an.IsLoadOfField(sl.X, "Workers.queue") && sl.High == nil && sl.Low != nil
			if good {
				lv, isC := constInt(sl.Low)
				good = isC && lv == 1
			}
			q.add("LIN", "the queue drops exactly its head", good, pickS(good, "queue = queue[1:]", "the dequeue is not queue[1:] (FIFO order / no starvation relies on taking the oldest item)"), s)
		}
		items := an.AllInstrs(q.fn, func(in ssa.Instruction) bool {
			ld, ok := isLoad0(in)
			if !ok {
				return false
			}
			ia, ok := ld.X.(*ssa.IndexAddr)
			return ok && an.IsLoadOfField(ia.X, "Workers.queue")
		})
		if q.need(items, "LIN", "item := queue[0]") {
			for _, it := range items {
				iv, isC := constInt(it.(*ssa.UnOp).X.(*ssa.IndexAddr).Index)
				q.add("LIN", "the item taken is the head of the queue", isC && iv == 0, pickS(isC && iv == 0, "item = queue[0]", "the item taken is not queue[0]: the oldest call can starve"), it)
			}
		}
	}
	// per item closure
	its := closuresOf(q.fn, func(f *ssa.Function) bool {
		return len(an.AllInstrs(f, func(in ssa.Instruction) bool { _, ok := in.(*ssa.Send); return ok })) > 0
	})
	if len(its) != 1 {
		q.undecided("PATH", "per-item closure", "expected one closure of worker() that sends the result")
		return
	}
	it := &fq{c: c, fn: its[0], name: an.FuncName(its[0])}
	calls := an.AllInstrs(it.fn, func(in ssa.Instruction) bool {
		call, ok := in.(*ssa.Call)
		return ok && !call.Call.IsInvoke() && call.Call.StaticCallee() == nil
	})
	sends := an.AllInstrs(it.fn, func(in ssa.Instruction) bool { _, ok := in.(*ssa.Send); return ok })
	if len(calls) != 1 || len(sends) != 1 {
		it.add("PATH", "the function is called exactly once and its result sent once", false, "expected exactly one call of item.value and one send")
		return
	}
	call, send := calls[0].(*ssa.Call), sends[0].(*ssa.Send)
	once := !P.InCycle(call) && !P.InCycle(send) && P.Before(it.fn, an.Is(call), send)
	it.add("PATH", "the function is called exactly once and its result sent once", once, "one call, one send, call before send, neither in a loop", call)
	// what is sent is what was returned
	okp := false
	if ld, isL := isLoad(send.X); isL {
		if cell, isA := ld.X.(*ssa.Alloc); isA {
			n := 0
			for _, r := range *cell.Referrers() {
				if fa, ok := r.(*ssa.FieldAddr); ok {
					for _, r2 := range *fa.Referrers() {
						if st, ok := r2.(*ssa.Store); ok {
							if ex, ok := st.Val.(*ssa.Extract); ok && ex.Tuple == ssa.Value(call) && ex.Index == fa.Field {
								n++
							}
						}
					}
				}
			}
			okp = n == 2
		}
	}
	it.add("PROV", "the reply is exactly the function's (result, error)", okp, "both fields of the sent struct are the call's results", send)
	// close(item.output) deferred
	cl := an.AllInstrs(it.fn, func(in ssa.Instruction) bool {
		d, ok := in.(*ssa.Defer)
		if !ok {
			return false
		}
		b, ok := d.Call.Value.(*ssa.Builtin)
		return ok && b.Name() == "close"
	})
	okc := len(cl) == 1 && P.Before(it.fn, an.Is(cl[0]), call)
	it.add("ONCE", "the reply channel is closed after the single send", okc, pickS(okc, "defer close(item.output) registered before the call (so also on panic)", "the reply channel is not closed by a defer registered before the call"), cl...)
}

func init() {
	register(&Prop{
		ID:        "C14",
		Technique: "spawn/exit accounting by linear forms and path-condition equivalence on SSA; atomic-section typestate (enqueue->spawn, exit-decision->decrement) and conditional-broadcast rule from the lock simulator",
		Explanation: "all four fields are accessed only under Workers.mutex; a worker is spawned iff count < requested, counted by exactly +1 in the spawning block, in the same hold as the enqueue and target := requested; a worker exits iff len(queue) == 0 or count > target, uncounts itself exactly once on every exit in the hold in which it decided to leave, and broadcasts when count reaches 0; " +
			"the item taken is queue[0] and the queue becomes queue[1:] in one hold; per item the function is called exactly once, its (result, error) is what is sent, once, into a capacity-1 channel that is closed by a defer; Call receives from the channel it enqueued; count <= 0 panics (so target >= 1); Wait waits in a loop for count == 0.",
		NotDecided: "starvation freedom as a liveness statement (the exit guard and FIFO dequeue are decided; 'eventually' is the composition); the instantaneous bound as a statement about time.",
		Build: func(c *Ctx) []*an.Oblig {
			workersRules(c)
			out := c.sel(func(o *an.Oblig) bool {
				if isUndecided(o) || o.Rule == "ANCHOR" {
					return true
				}
				if ruleIn(o, "G", "AT", "S", "SL", "WL", "P", "B") && funcHas(o, "(*Workers)") {
					return true
				}
				return false
			})
			return append(out, c.C.List...)
		},
		Floors: []Floor{
			floorRule("COND", "COND", 3),
			floorRule("LIN", "LIN", 4),
			floorKey("worker exit paths", 2, "PATH/(*Workers).worker/"),
			floorKey("per-item", 3, "/(*Workers).worker$call1/"),
			floorKey("AT Workers", 5, "AT/(*Workers)"),
			floorKey("G Workers.count", 4, "G/", "Workers.count"),
			floorKey("S Workers.count", 1, "S/(*Workers).worker/"),
		},
	})
}

// readOf: for a read-modify-write store (x.n = x.n + 1) the load it is computed from; the store itself otherwise.
func readOf(st ssa.Instruction) ssa.Instruction {
	if s, ok := st.(*ssa.Store); ok {
		if bo, isB := s.Val.(*ssa.BinOp); isB {
			for _, v := range []ssa.Value{bo.X, bo.Y} {
				if u, isU := v.(*ssa.UnOp); isU && u.Op == token.MUL {
					return u
				}
			}
		}
	}
	return st
}
