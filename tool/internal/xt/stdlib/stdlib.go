// Copyright 2022 The Go Authors. All rights reserved.
// Use of this source code is governed by a BSD-style
// license that can be found in the LICENSE file.

//go:generate go run generate.go

// Package stdlib provides a table of all exported symbols in the
// standard library, along with the version at which they first
// appeared.
package stdlib

import (
	"fmt"
	"strings"
)

type Symbol struct {
	Name    string
	Kind    Kind
	Version Version // Go version that first included the symbol
}

// A Kind indicates the kind of a symbol:
// function, variable, constant, type, and so on.
type Kind int8

const (
	Invalid Kind = iota // Example name:
	Type                // "Buffer"
	Func                // "Println"
	Var                 // "EOF"
	Const               // "Pi"
	Field               // "Point.X"
	Method              // "(*Buffer).Grow"
)

func (kind Kind) String() string {
	return [...]string{
		Invalid: "invalid",
		Type:    "type",
		Func:    "func",
		Var:     "var",
		Const:   "const",
		Field:   "field",
		Method:  "method",
	}[kind]
}

// A Version represents a version of Go of the form "go1.%d".
type Version int8

// String returns a version string of the form "go1.23", without allocating.
func (v Version) String() string { return versions[v] }

var versions [30]string // (increase constant as needed)

func init() {
	for i := range versions {
		versions[i] = fmt.Sprintf("go1.%d", i)
	}
}

// HasPackage reports whether the specified package path is part of
// the standard library's public API.
func HasPackage(path string) bool {
	_, ok := PackageSymbols[path]
	return ok
}

// SplitField splits the field symbol name into type and field
// components. It must be called only on Field symbols.
//
// Example: "File.Package" -> ("File", "Package")
func (sym *Symbol) SplitField() (typename, name string) {
	if sym.Kind != Field {
		panic("not a field")
	}
	typename, name, _ = strings.Cut(sym.Name, ".")
	return
}

// SplitMethod splits the method symbol name into pointer, receiver,
// and method components. It must be called only on Method symbols.
//
// Example: "(*Buffer).Grow" -> (true, "Buffer", "Grow")
func (sym *Symbol) SplitMethod() (ptr bool, recv, name string) {
	if sym.Kind != Method {
		panic("not a method")
	}
	recv, name, _ = strings.Cut(sym.Name, ".")
	recv = recv[len("(") : len(recv)-len(")")]
	ptr = recv[0] == '*'
	if ptr {
		recv = recv[len("*"):]
	}
	return
}
