// Copyright 2023 The Go Authors. All rights reserved.
// Use of this source code is governed by a BSD-style
// license that can be found in the LICENSE file.

/*
Package inline implements inlining of Go function calls.

The client provides information about the caller and callee,
including the source text, syntax tree, and type information, and
the inliner returns the modified source file for the caller, or an
error if the inlining operation is invalid (for example because the
function body refers to names that are inaccessible to the caller).

Although this interface demands more information from the client
than might seem necessary, it enables smoother integration with
existing batch and interactive tools that have their own ways of
managing the processes of reading, parsing, and type-checking
packages. In particular, this package does not assume that the
caller and callee belong to the same token.FileSet or
types.Importer realms.

There are many aspects to a function call. It is the only construct
that can simultaneously bind multiple variables of different
explicit types, with implicit assignment conversions. (Neither var
nor := declarations can do that.) It defines the scope of control
labels, of return statements, and of defer statements. Arguments
and results of function calls may be tuples even though tuples are
not first-class values in Go, and a tuple-valued call expression
may be "spread" across the argument list of a call or the operands
of a return statement. All these unique features mean that in the
general case, not everything that can be expressed by a function
call can be expressed without one.

So, in general, inlining consists of modifying a function or method
call expression f(a1, ..., an) so that the name of the function f
is replaced ("literalized") by a literal copy of the function
declaration, with free identifiers suitably modified to use the
locally appropriate identifiers or perhaps constant argument
values.

Inlining must not change the semantics of the call. Semantics
preservation is crucial for clients such as codebase maintenance
tools that automatically inline all calls to designated functions
on a large scale. Such tools must not introduce subtle behavior
changes. (Fully inlining a call is dynamically observable using
reflection over the call stack, but this exception to the rule is
explicitly allowed.)

In many cases it is possible to entirely replace ("reduce") the
call by a copy of the function's body in which parameters have been
replaced by arguments. The inliner supports a number of reduction
strategies, and we expect this set to grow. Nonetheless, sound
reduction is surprisingly tricky.

The inliner is in some ways like an optimizing compiler. A compiler
is considered correct if it doesn't change the meaning of the
program in translation from source language to target language. An
optimizing compiler exploits the particulars of the input to
generate better code, where "better" usually means more efficient.
When a case is found in which it emits suboptimal code, the
compiler is improved to recognize more cases, or more rules, and
more exceptions to rules; this process has no end. Inlining is
similar except that "better" code means tidier code. The baseline
translation (literalization) is correct, but there are endless
rules--and exceptions to rules--by which the output can be
improved.

The following section lists some of the challenges, and ways in
which they can be addressed.

  - All effects of the call argument expressions must be preserved,
    both in their number (they must not be eliminated or repeated),
    and in their order (both with respect to other arguments, and any
    effects in the callee function).

    This must be the case even if the corresponding parameters are
    never referenced, are referenced multiple times, referenced in
    a different order from the arguments, or referenced within a
    nested function that may be executed an arbitrary number of
    times.

    Currently, parameter replacement is not applied to arguments
    with effects, but with further analysis of the sequence of
    strict effects within the callee we could relax this constraint.

  - When not all parameters can be substituted by their arguments
    (e.g. due to possible effects), if the call appears in a
    statement context, the inliner may introduce a var declaration
    that declares the parameter variables (with the correct types)
    and assigns them to their corresponding argument values.
    The rest of the function body may then follow.
    For example, the call

    f(1, 2)

    to the function

    func f(x, y int32) { stmts }

    may be reduced to

    { var x, y int32 = 1, 2; stmts }.

    There are many reasons why this is not always possible. For
    example, true parameters are statically resolved in the same
    scope, and are dynamically assigned their arguments in
    parallel; but each spec in a var declaration is statically
    resolved in sequence and dynamically executed in sequence, so
    earlier parameters may shadow references in later ones.

  - Even an argument expression as simple as ptr.x may not be
    referentially transparent, because another argument may have the
    effect of changing the value of ptr.

    This constraint could be relaxed by some kind of alias or
    escape analysis that proves that ptr cannot be mutated during
    the call.

  - Although constants are referentially transparent, as a matter of
    style we do not wish to duplicate literals that are referenced
    multiple times in the body because this undoes proper factoring.
    Also, string literals may be arbitrarily large.

  - If the function body consists of statements other than just
    "return expr", in some contexts it may be syntactically
    impossible to reduce the call. Consider:

    if x := f(); cond { ... }

    Go has no equivalent to Lisp's progn or Rust's blocks,
    nor ML's let expressions (let param = arg in body);
    its closest equivalent is func(param){body}(arg).
    Reduction strategies must therefore consider the syntactic
    context of the call.

    In such situations we could work harder to extract a statement
    context for the call, by transforming it to:

    { x := f(); if cond { ... } }

  - Similarly, without the equivalent of Rust-style blocks and
    first-class tuples, there is no general way to reduce a call
    to a function such as

    func(params)(args)(results) { stmts; return expr }

    to an expression such as

    { var params = args; stmts; expr }

    or even a statement such as

    results = { var params = args; stmts; expr }

    Consequently the declaration and scope of the result variables,
    and the assignment and control-flow implications of the return
    statement, must be dealt with by cases.

  - A standalone call statement that calls a function whose body is
    "return expr" cannot be simply replaced by the body expression
    if it is not itself a call or channel receive expression; it is
    necessary to explicitly discard the result using "_ = expr".

    Similarly, if the body is a call expression, only calls to some
    built-in functions with no result (such as copy or panic) are
    permitted as statements, whereas others (such as append) return
    a result that must be used, even if just by discarding.

  - If a parameter or result variable is updated by an assignment
    within the function body, it cannot always be safely replaced
    by a variable in the caller. For example, given

    func f(a int) int { a++; return a }

    The call y = f(x) cannot be replaced by { x++; y = x } because
    this would change the value of the caller's variable x.
    Only if the caller is finished with x is this safe.

    A similar argument applies to parameter or result variables
    that escape: by eliminating a variable, inlining would change
    the identity of the variable that escapes.

  - If the function body uses 'defer' and the inlined call is not a
    tail-call, inlining may delay the deferred effects.

  - Because the scope of a control label is the entire function, a
    call cannot be reduced if the caller and callee have intersecting
    sets of control labels. (It is possible to α-rename any
    conflicting ones, but our colleagues building C++ refactoring
    tools report that, when tools must choose new identifiers, they
    generally do a poor job.)

  - Given

    func f() uint8 { return 0 }

    var x any = f()

    reducing the call to var x any = 0 is unsound because it
    discards the implicit conversion to uint8. We may need to make
    each argument-to-parameter conversion explicit if the types
    differ. Assignments to variadic parameters may need to
    explicitly construct a slice.

    An analogous problem applies to the implicit assignments in
    return statements:

    func g() any { return f() }

    Replacing the call f() with 0 would silently lose a
    conversion to uint8 and change the behavior of the program.

  - When inlining a call f(1, x, g()) where those parameters are
    unreferenced, we should be able to avoid evaluating 1 and x
    since they are pure and thus have no effect. But x may be the
    last reference to a local variable in the caller, so removing
    it would cause a compilation error. Parameter substitution must
    avoid making the caller's local variables unreferenced (or must
    be prepared to eliminate the declaration too---this is where an
    iterative framework for simplification would really help).

  - An expression such as s[i] may be valid if s and i are
    variables but invalid if either or both of them are constants.
    For example, a negative constant index s[-1] is always out of
    bounds, and even a non-negative constant index may be out of
    bounds depending on the particular string constant (e.g.
    "abc"[4]).

    So, if a parameter participates in any expression that is
    subject to additional compile-time checks when its operands are
    constant, it may be unsafe to substitute that parameter by a
    constant argument value (#62664).

More complex callee functions are inlinable with more elaborate and
invasive changes to the statements surrounding the call expression.

TODO(adonovan): future work:

  - Handle more of the above special cases by careful analysis,
    thoughtful factoring of the large design space, and thorough
    test coverage.

  - Compute precisely (not conservatively) when parameter
    substitution would remove the last reference to a caller local
    variable, and blank out the local instead of retreating from
    the substitution.

  - Afford the client more control such as a limit on the total
    increase in line count, or a refusal to inline using the
    general approach (replacing name by function literal). This
    could be achieved by returning metadata alongside the result
    and having the client conditionally discard the change.

  - Support inlining of generic functions, replacing type parameters
    by their instantiations.

  - Support inlining of calls to function literals ("closures").
    But note that the existing algorithm makes widespread assumptions
    that the callee is a package-level function or method.

  - Eliminate explicit conversions of "untyped" literals inserted
    conservatively when they are redundant. For example, the
    conversion int32(1) is redundant when this value is used only as a
    slice index; but it may be crucial if it is used in x := int32(1)
    as it changes the type of x, which may have further implications.
    The conversions may also be important to the falcon analysis.

  - Allow non-'go' build systems such as Bazel/Blaze a chance to
    decide whether an import is accessible using logic other than
    "/internal/" path segments. This could be achieved by returning
    the list of added import paths instead of a text diff.

  - Inlining a function from another module may change the
    effective version of the Go language spec that governs it. We
    should probably make the client responsible for rejecting
    attempts to inline from newer callees to older callers, since
    there's no way for this package to access module versions.

  - Use an alternative implementation of the import-organizing
    operation that doesn't require operating on a complete file
    (and reformatting). Then return the results in a higher-level
    form as a set of import additions and deletions plus a single
    diff that encloses the call expression. This interface could
    perhaps be implemented atop imports.Process by post-processing
    its result to obtain the abstract import changes and discarding
    its formatted output.
*/
package inline
