// Copyright 2023 The Go Authors. All rights reserved.
// Use of this source code is governed by a BSD-style
// license that can be found in the LICENSE file.

package inline

// This file defines the analysis of the callee function.

import (
	"bytes"
	"encoding/gob"
	"fmt"
	"go/ast"
	"go/parser"
	"go/token"
	"go/types"
	"strings"

	"bbcheck/internal/xt/typeparams"
	"bbcheck/internal/xt/typesinternal"
	"golang.org/x/tools/go/types/typeutil"
)

// A Callee holds information about an inlinable function. Gob-serializable.
type Callee struct {
	impl gobCallee
}

func (callee *Callee) String() string { return callee.impl.Name }

type gobCallee struct {
	Content []byte // file content, compacted to a single func decl

	// results of type analysis (does not reach go/types data structures)
	PkgPath          string                 // package path of declaring package
	Name             string                 // user-friendly name for error messages
	Unexported       []string               // names of free objects that are unexported
	FreeRefs         []freeRef              // locations of references to free objects
	FreeObjs         []object               // descriptions of free objects
	ValidForCallStmt bool                   // function body is "return expr" where expr is f() or <-ch
	NumResults       int                    // number of results (according to type, not ast.FieldList)
	Params           []*paramInfo           // information about parameters (incl. receiver)
	Results          []*paramInfo           // information about result variables
	Effects          []int                  // order in which parameters are evaluated (see calleefx)
	HasDefer         bool                   // uses defer
	HasBareReturn    bool                   // uses bare return in non-void function
	Returns          [][]returnOperandFlags // metadata about result expressions for each return
	Labels           []string               // names of all control labels
	Falcon           falconResult           // falcon constraint system
	RecvBase         string                 // (bbcheck) generic receiver's base type name, "" if not generic
	RecvTypeParams   []string               // (bbcheck) the receiver's names for the type parameters
}

// returnOperandFlags records metadata about a single result expression in a return
// statement.
type returnOperandFlags int

const (
	nonTrivialResult returnOperandFlags = 1 << iota // return operand has non-trivial conversion to result type
	untypedNilResult                                // return operand is nil literal
)

// A freeRef records a reference to a free object. Gob-serializable.
// (This means free relative to the FuncDecl as a whole, i.e. excluding parameters.)
type freeRef struct {
	Offset int // byte offset of the reference relative to the FuncDecl
	Object int // index into Callee.freeObjs
}

// An object abstracts a free types.Object referenced by the callee. Gob-serializable.
type object struct {
	Name    string // Object.Name()
	Kind    string // one of {var,func,const,type,pkgname,nil,builtin}
	PkgPath string // path of object's package (or imported package if kind="pkgname")
	PkgName string // name of object's package (or imported package if kind="pkgname")
	// TODO(rfindley): should we also track LocalPkgName here? Do we want to
	// preserve the local package name?
	ValidPos bool      // Object.Pos().IsValid()
	Shadow   shadowMap // shadowing info for the object's refs
}

// AnalyzeCallee analyzes a function that is a candidate for inlining
// and returns a Callee that describes it. The Callee object, which is
// serializable, can be passed to one or more subsequent calls to
// Inline, each with a different Caller.
//
// This design allows separate analysis of callers and callees in the
// golang.org/x/tools/go/analysis framework: the inlining information
// about a callee can be recorded as a "fact".
//
// The content should be the actual input to the compiler, not the
// apparent source file according to any //line directives that
// may be present within it.
func AnalyzeCallee(logf func(string, ...any), fset *token.FileSet, pkg *types.Package, info *types.Info, decl *ast.FuncDecl, content []byte) (*Callee, error) {
	checkInfoFields(info)

	// The client is expected to have determined that the callee
	// is a function with a declaration (not a built-in or var).
	fn := info.Defs[decl.Name].(*types.Func)
	sig := fn.Type().(*types.Signature)

	logf("analyzeCallee %v @ %v", fn, fset.PositionFor(decl.Pos(), false))

	// Create user-friendly name ("pkg.Func" or "(pkg.T).Method")
	var name string
	if sig.Recv() == nil {
		name = fmt.Sprintf("%s.%s", fn.Pkg().Name(), fn.Name())
	} else {
		name = fmt.Sprintf("(%s).%s", types.TypeString(sig.Recv().Type(), (*types.Package).Name), fn.Name())
	}

	if decl.Body == nil {
		return nil, fmt.Errorf("cannot inline function %s as it has no body", name)
	}

	// TODO(adonovan): support inlining of instantiated generic
	// functions by replacing each occurrence of a type parameter
	// T by its instantiating type argument (e.g. int). We'll need
	// to wrap the instantiating type in parens when it's not an
	// ident or qualified ident to prevent "if x == struct{}"
	// parsing ambiguity, or "T(x)" where T = "*int" or "func()"
	// from misparsing.
	// (bbcheck) A method of a generic type is accepted when it is inlined into another method of the same type
	// whose receiver names the type parameters identically: the callee's references to them then mean the same in
	// the caller, textually. The caller side is checked in inline().
	var recvTypeParams []string
	var recvBase string
	if decl.Type.TypeParams != nil {
		return nil, fmt.Errorf("cannot inline generic function %s: type parameters are not yet supported", name)
	}
	if funcHasTypeParams(decl) {
		recvBase, recvTypeParams = recvTypeParamNames(decl)
		if recvBase == "" {
			return nil, fmt.Errorf("cannot inline generic function %s: type parameters are not yet supported", name)
		}
	}

	// Record the location of all free references in the FuncDecl.
	// (Parameters are not free by this definition.)
	var (
		fieldObjs    = fieldObjs(sig)
		freeObjIndex = make(map[types.Object]int)
		freeObjs     []object
		freeRefs     []freeRef // free refs that may need renaming
		unexported   []string  // free refs to unexported objects, for later error checks
	)
	var f func(n ast.Node) bool
	visit := func(n ast.Node) { ast.Inspect(n, f) }
	var stack []ast.Node
	stack = append(stack, decl.Type) // for scope of function itself
	f = func(n ast.Node) bool {
		if n != nil {
			stack = append(stack, n) // push
		} else {
			stack = stack[:len(stack)-1] // pop
		}
		switch n := n.(type) {
		case *ast.SelectorExpr:
			// Check selections of free fields/methods.
			if sel, ok := info.Selections[n]; ok &&
				!within(sel.Obj().Pos(), decl) &&
				!n.Sel.IsExported() {
				sym := fmt.Sprintf("(%s).%s", info.TypeOf(n.X), n.Sel.Name)
				unexported = append(unexported, sym)
			}

			// Don't recur into SelectorExpr.Sel.
			visit(n.X)
			return false

		case *ast.CompositeLit:
			// Check for struct literals that refer to unexported fields,
			// whether keyed or unkeyed. (Logic assumes well-typedness.)
			litType := typeparams.Deref(info.TypeOf(n))
			if s, ok := typeparams.CoreType(litType).(*types.Struct); ok {
				if n.Type != nil {
					visit(n.Type)
				}
				for i, elt := range n.Elts {
					var field *types.Var
					var value ast.Expr
					if kv, ok := elt.(*ast.KeyValueExpr); ok {
						field = info.Uses[kv.Key.(*ast.Ident)].(*types.Var)
						value = kv.Value
					} else {
						field = s.Field(i)
						value = elt
					}
					if !within(field.Pos(), decl) && !field.Exported() {
						sym := fmt.Sprintf("(%s).%s", litType, field.Name())
						unexported = append(unexported, sym)
					}

					// Don't recur into KeyValueExpr.Key.
					visit(value)
				}
				return false
			}

		case *ast.Ident:
			if obj, ok := info.Uses[n]; ok {
				// Methods and fields are handled by SelectorExpr and CompositeLit.
				if isField(obj) || isMethod(obj) {
					panic(obj)
				}
				// Inv: id is a lexical reference.

				// A reference to an unexported package-level declaration
				// cannot be inlined into another package.
				if !n.IsExported() &&
					obj.Pkg() != nil && obj.Parent() == obj.Pkg().Scope() {
					unexported = append(unexported, n.Name)
				}

				// Record free reference (incl. self-reference).
				if obj == fn || !within(obj.Pos(), decl) {
					objidx, ok := freeObjIndex[obj]
					if !ok {
						objidx = len(freeObjIndex)
						var pkgPath, pkgName string
						if pn, ok := obj.(*types.PkgName); ok {
							pkgPath = pn.Imported().Path()
							pkgName = pn.Imported().Name()
						} else if obj.Pkg() != nil {
							pkgPath = obj.Pkg().Path()
							pkgName = obj.Pkg().Name()
						}
						freeObjs = append(freeObjs, object{
							Name:     obj.Name(),
							Kind:     objectKind(obj),
							PkgName:  pkgName,
							PkgPath:  pkgPath,
							ValidPos: obj.Pos().IsValid(),
						})
						freeObjIndex[obj] = objidx
					}

					freeObjs[objidx].Shadow = freeObjs[objidx].Shadow.add(info, fieldObjs, obj.Name(), stack)

					freeRefs = append(freeRefs, freeRef{
						Offset: int(n.Pos() - decl.Pos()),
						Object: objidx,
					})
				}
			}
		}
		return true
	}
	visit(decl)

	// Analyze callee body for "return expr" form,
	// where expr is f() or <-ch. These forms are
	// safe to inline as a standalone statement.
	validForCallStmt := false
	if len(decl.Body.List) != 1 {
		// not just a return statement
	} else if ret, ok := decl.Body.List[0].(*ast.ReturnStmt); ok && len(ret.Results) == 1 {
		validForCallStmt = func() bool {
			switch expr := ast.Unparen(ret.Results[0]).(type) {
			case *ast.CallExpr: // f(x)
				callee := typeutil.Callee(info, expr)
				if callee == nil {
					return false // conversion T(x)
				}

				// The only non-void built-in functions that may be
				// called as a statement are copy and recover
				// (though arguably a call to recover should never
				// be inlined as that changes its behavior).
				if builtin, ok := callee.(*types.Builtin); ok {
					return builtin.Name() == "copy" ||
						builtin.Name() == "recover"
				}

				return true // ordinary call f()

			case *ast.UnaryExpr: // <-x
				return expr.Op == token.ARROW // channel receive <-ch
			}

			// No other expressions are valid statements.
			return false
		}()
	}

	// Record information about control flow in the callee
	// (but not any nested functions).
	var (
		hasDefer      = false
		hasBareReturn = false
		returnInfo    [][]returnOperandFlags
		labels        []string
	)
	ast.Inspect(decl.Body, func(n ast.Node) bool {
		switch n := n.(type) {
		case *ast.FuncLit:
			return false // prune traversal
		case *ast.DeferStmt:
			hasDefer = true
		case *ast.LabeledStmt:
			labels = append(labels, n.Label.Name)
		case *ast.ReturnStmt:

			// Are implicit assignment conversions
			// to result variables all trivial?
			var resultInfo []returnOperandFlags
			if len(n.Results) > 0 {
				argInfo := func(i int) (ast.Expr, types.Type) {
					expr := n.Results[i]
					return expr, info.TypeOf(expr)
				}
				if len(n.Results) == 1 && sig.Results().Len() > 1 {
					// Spread return: return f() where f.Results > 1.
					tuple := info.TypeOf(n.Results[0]).(*types.Tuple)
					argInfo = func(i int) (ast.Expr, types.Type) {
						return nil, tuple.At(i).Type()
					}
				}
				for i := 0; i < sig.Results().Len(); i++ {
					expr, typ := argInfo(i)
					var flags returnOperandFlags
					if typ == types.Typ[types.UntypedNil] { // untyped nil is preserved by go/types
						flags |= untypedNilResult
					}
					if !trivialConversion(info.Types[expr].Value, typ, sig.Results().At(i).Type()) {
						flags |= nonTrivialResult
					}
					resultInfo = append(resultInfo, flags)
				}
			} else if sig.Results().Len() > 0 {
				hasBareReturn = true
			}
			returnInfo = append(returnInfo, resultInfo)
		}
		return true
	})

	// Reject attempts to inline cgo-generated functions.
	for _, obj := range freeObjs {
		// There are others (iconst fconst sconst fpvar macro)
		// but this is probably sufficient.
		if strings.HasPrefix(obj.Name, "_Cfunc_") ||
			strings.HasPrefix(obj.Name, "_Ctype_") ||
			strings.HasPrefix(obj.Name, "_Cvar_") {
			return nil, fmt.Errorf("cannot inline cgo-generated functions")
		}
	}

	// Compact content to just the FuncDecl.
	//
	// As a space optimization, we don't retain the complete
	// callee file content; all we need is "package _; func f() { ... }".
	// This reduces the size of analysis facts.
	//
	// Offsets in the callee information are "relocatable"
	// since they are all relative to the FuncDecl.

	content = append([]byte("package _\n"),
		content[offsetOf(fset, decl.Pos()):offsetOf(fset, decl.End())]...)
	// Sanity check: re-parse the compacted content.
	if _, _, err := parseCompact(content); err != nil {
		return nil, err
	}

	params, results, effects, falcon := analyzeParams(logf, fset, info, decl)
	return &Callee{gobCallee{
		Content:          content,
		PkgPath:          pkg.Path(),
		Name:             name,
		Unexported:       unexported,
		FreeObjs:         freeObjs,
		FreeRefs:         freeRefs,
		ValidForCallStmt: validForCallStmt,
		NumResults:       sig.Results().Len(),
		Params:           params,
		Results:          results,
		Effects:          effects,
		HasDefer:         hasDefer,
		HasBareReturn:    hasBareReturn,
		Returns:          returnInfo,
		Labels:           labels,
		Falcon:           falcon,
		RecvBase:         recvBase,
		RecvTypeParams:   recvTypeParams,
	}}, nil
}

// parseCompact parses a Go source file of the form "package _\n func f() { ... }"
// and returns the sole function declaration.
func parseCompact(content []byte) (*token.FileSet, *ast.FuncDecl, error) {
	fset := token.NewFileSet()
	const mode = parser.ParseComments | parser.SkipObjectResolution | parser.AllErrors
	f, err := parser.ParseFile(fset, "callee.go", content, mode)
	if err != nil {
		return nil, nil, fmt.Errorf("internal error: cannot compact file: %v", err)
	}
	return fset, f.Decls[0].(*ast.FuncDecl), nil
}

// A paramInfo records information about a callee receiver, parameter, or result variable.
type paramInfo struct {
	Name        string    // parameter name (may be blank, or even "")
	Index       int       // index within signature
	IsResult    bool      // false for receiver or parameter, true for result variable
	IsInterface bool      // parameter has a (non-type parameter) interface type
	Assigned    bool      // parameter appears on left side of an assignment statement
	Escapes     bool      // parameter has its address taken
	Refs        []refInfo // information about references to parameter within body
	Shadow      shadowMap // shadowing info for the above refs; see [shadowMap]
	FalconType  string    // name of this parameter's type (if basic) in the falcon system
}

type refInfo struct {
	Offset           int  // FuncDecl-relative byte offset of parameter ref within body
	Assignable       bool // ref appears in context of assignment to known type
	IfaceAssignment  bool // ref is being assigned to an interface
	AffectsInference bool // ref type may affect type inference
	// IsSelectionOperand indicates whether the parameter reference is the
	// operand of a selection (param.f). If so, and param's argument is itself
	// a receiver parameter (a common case), we don't need to desugar (&v or *ptr)
	// the selection: if param.Method is a valid selection, then so is param.fieldOrMethod.
	IsSelectionOperand bool
}

// analyzeParams computes information about parameters of function fn,
// including a simple "address taken" escape analysis.
//
// It returns two new arrays, one of the receiver and parameters, and
// the other of the result variables of function fn.
//
// The input must be well-typed.
func analyzeParams(logf func(string, ...any), fset *token.FileSet, info *types.Info, decl *ast.FuncDecl) (params, results []*paramInfo, effects []int, _ falconResult) {
	fnobj, ok := info.Defs[decl.Name]
	if !ok {
		panic(fmt.Sprintf("%s: no func object for %q",
			fset.PositionFor(decl.Name.Pos(), false), decl.Name)) // ill-typed?
	}
	sig := fnobj.Type().(*types.Signature)

	paramInfos := make(map[*types.Var]*paramInfo)
	{
		newParamInfo := func(param *types.Var, isResult bool) *paramInfo {
			info := &paramInfo{
				Name:        param.Name(),
				IsResult:    isResult,
				Index:       len(paramInfos),
				IsInterface: isNonTypeParamInterface(param.Type()),
			}
			paramInfos[param] = info
			return info
		}
		if sig.Recv() != nil {
			params = append(params, newParamInfo(sig.Recv(), false))
		}
		for i := 0; i < sig.Params().Len(); i++ {
			params = append(params, newParamInfo(sig.Params().At(i), false))
		}
		for i := 0; i < sig.Results().Len(); i++ {
			results = append(results, newParamInfo(sig.Results().At(i), true))
		}
	}

	// Search function body for operations &x, x.f(), and x = y
	// where x is a parameter, and record it.
	escape(info, decl, func(v *types.Var, escapes bool) {
		if info := paramInfos[v]; info != nil {
			if escapes {
				info.Escapes = true
			} else {
				info.Assigned = true
			}
		}
	})

	// Record locations of all references to parameters.
	// And record the set of intervening definitions for each parameter.
	//
	// TODO(adonovan): combine this traversal with the one that computes
	// FreeRefs. The tricky part is that calleefx needs this one first.
	fieldObjs := fieldObjs(sig)
	var stack []ast.Node
	stack = append(stack, decl.Type) // for scope of function itself
	ast.Inspect(decl.Body, func(n ast.Node) bool {
		if n != nil {
			stack = append(stack, n) // push
		} else {
			stack = stack[:len(stack)-1] // pop
		}

		if id, ok := n.(*ast.Ident); ok {
			if v, ok := info.Uses[id].(*types.Var); ok {
				if pinfo, ok := paramInfos[v]; ok {
					// Record ref information, and any intervening (shadowing) names.
					//
					// If the parameter v has an interface type, and the reference id
					// appears in a context where assignability rules apply, there may be
					// an implicit interface-to-interface widening. In that case it is
					// not necessary to insert an explicit conversion from the argument
					// to the parameter's type.
					//
					// Contrapositively, if param is not an interface type, then the
					// assignment may lose type information, for example in the case that
					// the substituted expression is an untyped constant or unnamed type.
					assignable, ifaceAssign, affectsInference := analyzeAssignment(info, stack)
					ref := refInfo{
						Offset:             int(n.Pos() - decl.Pos()),
						Assignable:         assignable,
						IfaceAssignment:    ifaceAssign,
						AffectsInference:   affectsInference,
						IsSelectionOperand: isSelectionOperand(stack),
					}
					pinfo.Refs = append(pinfo.Refs, ref)
					pinfo.Shadow = pinfo.Shadow.add(info, fieldObjs, pinfo.Name, stack)
				}
			}
		}
		return true
	})

	// Compute subset and order of parameters that are strictly evaluated.
	// (Depends on Refs computed above.)
	effects = calleefx(info, decl.Body, paramInfos)
	logf("effects list = %v", effects)

	falcon := falcon(logf, fset, paramInfos, info, decl)

	return params, results, effects, falcon
}

// -- callee helpers --

// analyzeAssignment looks at the the given stack, and analyzes certain
// attributes of the innermost expression.
//
// In all cases we 'fail closed' when we cannot detect (or for simplicity
// choose not to detect) the condition in question, meaning we err on the side
// of the more restrictive rule. This is noted for each result below.
//
//   - assignable reports whether the expression is used in a position where
//     assignability rules apply, such as in an actual assignment, as call
//     argument, or in a send to a channel. Defaults to 'false'. If assignable
//     is false, the other two results are irrelevant.
//   - ifaceAssign reports whether that assignment is to an interface type.
//     This is important as we want to preserve the concrete type in that
//     assignment. Defaults to 'true'. Notably, if the assigned type is a type
//     parameter, we assume that it could have interface type.
//   - affectsInference is (somewhat vaguely) defined as whether or not the
//     type of the operand may affect the type of the surrounding syntax,
//     through type inference. It is infeasible to completely reverse engineer
//     type inference, so we over approximate: if the expression is an argument
//     to a call to a generic function (but not method!) that uses type
//     parameters, assume that unification of that argument may affect the
//     inferred types.
func analyzeAssignment(info *types.Info, stack []ast.Node) (assignable, ifaceAssign, affectsInference bool) {
	remaining, parent, expr := exprContext(stack)
	if parent == nil {
		return false, false, false
	}

	// TODO(golang/go#70638): simplify when types.Info records implicit conversions.

	// Types do not need to match for assignment to a variable.
	if assign, ok := parent.(*ast.AssignStmt); ok {
		for i, v := range assign.Rhs {
			if v == expr {
				if i >= len(assign.Lhs) {
					return false, false, false // ill typed
				}
				// Check to see if the assignment is to an interface type.
				if i < len(assign.Lhs) {
					// TODO: We could handle spread calls here, but in current usage expr
					// is an ident.
					if id, _ := assign.Lhs[i].(*ast.Ident); id != nil && info.Defs[id] != nil {
						// Types must match for a defining identifier in a short variable
						// declaration.
						return false, false, false
					}
					// In all other cases, types should be known.
					typ := info.TypeOf(assign.Lhs[i])
					return true, typ == nil || types.IsInterface(typ), false
				}
				// Default:
				return assign.Tok == token.ASSIGN, true, false
			}
		}
	}

	// Types do not need to match for an initializer with known type.
	if spec, ok := parent.(*ast.ValueSpec); ok && spec.Type != nil {
		for _, v := range spec.Values {
			if v == expr {
				typ := info.TypeOf(spec.Type)
				return true, typ == nil || types.IsInterface(typ), false
			}
		}
	}

	// Types do not need to match for index expresions.
	if ix, ok := parent.(*ast.IndexExpr); ok {
		if ix.Index == expr {
			typ := info.TypeOf(ix.X)
			if typ == nil {
				return true, true, false
			}
			m, _ := typeparams.CoreType(typ).(*types.Map)
			return true, m == nil || types.IsInterface(m.Key()), false
		}
	}

	// Types do not need to match for composite literal keys, values, or
	// fields.
	if kv, ok := parent.(*ast.KeyValueExpr); ok {
		var under types.Type
		if len(remaining) > 0 {
			if complit, ok := remaining[len(remaining)-1].(*ast.CompositeLit); ok {
				if typ := info.TypeOf(complit); typ != nil {
					// Unpointer to allow for pointers to slices or arrays, which are
					// permitted as the types of nested composite literals without a type
					// name.
					under = typesinternal.Unpointer(typeparams.CoreType(typ))
				}
			}
		}
		if kv.Key == expr { // M{expr: ...}: assign to map key
			m, _ := under.(*types.Map)
			return true, m == nil || types.IsInterface(m.Key()), false
		}
		if kv.Value == expr {
			switch under := under.(type) {
			case interface{ Elem() types.Type }: // T{...: expr}: assign to map/array/slice element
				return true, types.IsInterface(under.Elem()), false
			case *types.Struct: // Struct{k: expr}
				if id, _ := kv.Key.(*ast.Ident); id != nil {
					for fi := 0; fi < under.NumFields(); fi++ {
						field := under.Field(fi)
						if info.Uses[id] == field {
							return true, types.IsInterface(field.Type()), false
						}
					}
				}
			default:
				return true, true, false
			}
		}
	}
	if lit, ok := parent.(*ast.CompositeLit); ok {
		for i, v := range lit.Elts {
			if v == expr {
				typ := info.TypeOf(lit)
				if typ == nil {
					return true, true, false
				}
				// As in the KeyValueExpr case above, unpointer to handle pointers to
				// array/slice literals.
				under := typesinternal.Unpointer(typeparams.CoreType(typ))
				switch under := under.(type) {
				case interface{ Elem() types.Type }: // T{expr}: assign to map/array/slice element
					return true, types.IsInterface(under.Elem()), false
				case *types.Struct: // Struct{expr}: assign to unkeyed struct field
					if i < under.NumFields() {
						return true, types.IsInterface(under.Field(i).Type()), false
					}
				}
				return true, true, false
			}
		}
	}

	// Types do not need to match for values sent to a channel.
	if send, ok := parent.(*ast.SendStmt); ok {
		if send.Value == expr {
			typ := info.TypeOf(send.Chan)
			if typ == nil {
				return true, true, false
			}
			ch, _ := typeparams.CoreType(typ).(*types.Chan)
			return true, ch == nil || types.IsInterface(ch.Elem()), false
		}
	}

	// Types do not need to match for an argument to a call, unless the
	// corresponding parameter has type parameters, as in that case the
	// argument type may affect inference.
	if call, ok := parent.(*ast.CallExpr); ok {
		if _, ok := isConversion(info, call); ok {
			return false, false, false // redundant conversions are handled at the call site
		}
		// Ordinary call. Could be a call of a func, builtin, or function value.
		for i, arg := range call.Args {
			if arg == expr {
				typ := info.TypeOf(call.Fun)
				if typ == nil {
					return true, true, false
				}
				sig, _ := typeparams.CoreType(typ).(*types.Signature)
				if sig != nil {
					// Find the relevant parameter type, accounting for variadics.
					paramType := paramTypeAtIndex(sig, call, i)
					ifaceAssign := paramType == nil || types.IsInterface(paramType)
					affectsInference := false
					if fn := typeutil.StaticCallee(info, call); fn != nil {
						if sig2 := fn.Type().(*types.Signature); sig2.Recv() == nil {
							originParamType := paramTypeAtIndex(sig2, call, i)
							affectsInference = originParamType == nil || new(typeparams.Free).Has(originParamType)
						}
					}
					return true, ifaceAssign, affectsInference
				}
			}
		}
	}

	return false, false, false
}

// paramTypeAtIndex returns the effective parameter type at the given argument
// index in call, if valid.
func paramTypeAtIndex(sig *types.Signature, call *ast.CallExpr, index int) types.Type {
	if plen := sig.Params().Len(); sig.Variadic() && index >= plen-1 && !call.Ellipsis.IsValid() {
		if s, ok := sig.Params().At(plen - 1).Type().(*types.Slice); ok {
			return s.Elem()
		}
	} else if index < plen {
		return sig.Params().At(index).Type()
	}
	return nil // ill typed
}

// exprContext returns the innermost parent->child expression nodes for the
// given outer-to-inner stack, after stripping parentheses, along with the
// remaining stack up to the parent node.
//
// If no such context exists, returns (nil, nil).
func exprContext(stack []ast.Node) (remaining []ast.Node, parent ast.Node, expr ast.Expr) {
	expr, _ = stack[len(stack)-1].(ast.Expr)
	if expr == nil {
		return nil, nil, nil
	}
	i := len(stack) - 2
	for ; i >= 0; i-- {
		if pexpr, ok := stack[i].(*ast.ParenExpr); ok {
			expr = pexpr
		} else {
			parent = stack[i]
			break
		}
	}
	if parent == nil {
		return nil, nil, nil
	}
	// inv: i is the index of parent in the stack.
	return stack[:i], parent, expr
}

// isSelectionOperand reports whether the innermost node of stack is operand
// (x) of a selection x.f.
func isSelectionOperand(stack []ast.Node) bool {
	_, parent, expr := exprContext(stack)
	if parent == nil {
		return false
	}
	sel, ok := parent.(*ast.SelectorExpr)
	return ok && sel.X == expr
}

// A shadowMap records information about shadowing at any of the parameter's
// references within the callee decl.
//
// For each name shadowed at a reference to the parameter within the callee
// body, shadow map records the 1-based index of the callee decl parameter
// causing the shadowing, or -1, if the shadowing is not due to a callee decl.
// A value of zero (or missing) indicates no shadowing. By convention,
// self-shadowing is excluded from the map.
//
// For example, in the following callee
//
//	func f(a, b int) int {
//		c := 2 + b
//		return a + c
//	}
//
// the shadow map of a is {b: 2, c: -1}, because b is shadowed by the 2nd
// parameter. The shadow map of b is {a: 1}, because c is not shadowed at the
// use of b.
type shadowMap map[string]int

// add returns the [shadowMap] augmented by the set of names
// locally shadowed at the location of the reference in the callee
// (identified by the stack). The name of the reference itself is
// excluded.
//
// These shadowed names may not be used in a replacement expression
// for the reference.
func (s shadowMap) add(info *types.Info, paramIndexes map[types.Object]int, exclude string, stack []ast.Node) shadowMap {
	for _, n := range stack {
		if scope := scopeFor(info, n); scope != nil {
			for _, name := range scope.Names() {
				if name != exclude {
					if s == nil {
						s = make(shadowMap)
					}
					obj := scope.Lookup(name)
					if idx, ok := paramIndexes[obj]; ok {
						s[name] = idx + 1
					} else {
						s[name] = -1
					}
				}
			}
		}
	}
	return s
}

// fieldObjs returns a map of each types.Object defined by the given signature
// to its index in the parameter list. Parameters with missing or blank name
// are skipped.
func fieldObjs(sig *types.Signature) map[types.Object]int {
	m := make(map[types.Object]int)
	for i := range sig.Params().Len() {
		if p := sig.Params().At(i); p.Name() != "" && p.Name() != "_" {
			m[p] = i
		}
	}
	return m
}

func isField(obj types.Object) bool {
	if v, ok := obj.(*types.Var); ok && v.IsField() {
		return true
	}
	return false
}

func isMethod(obj types.Object) bool {
	if f, ok := obj.(*types.Func); ok && f.Type().(*types.Signature).Recv() != nil {
		return true
	}
	return false
}

// -- serialization --

var (
	_ gob.GobEncoder = (*Callee)(nil)
	_ gob.GobDecoder = (*Callee)(nil)
)

func (callee *Callee) GobEncode() ([]byte, error) {
	var out bytes.Buffer
	if err := gob.NewEncoder(&out).Encode(callee.impl); err != nil {
		return nil, err
	}
	return out.Bytes(), nil
}

func (callee *Callee) GobDecode(data []byte) error {
	return gob.NewDecoder(bytes.NewReader(data)).Decode(&callee.impl)
}

// recvTypeParamNames returns the base type name and the type parameter names of a generic receiver
// (func (x *T[A, B]) ...), or "" if any of them is not a plain identifier.
func recvTypeParamNames(decl *ast.FuncDecl) (string, []string) {
	if decl.Recv == nil || len(decl.Recv.List) == 0 {
		return "", nil
	}
	t := decl.Recv.List[0].Type
	if u, ok := t.(*ast.StarExpr); ok {
		t = u.X
	}
	var base ast.Expr
	var idx []ast.Expr
	switch x := t.(type) {
	case *ast.IndexExpr:
		base, idx = x.X, []ast.Expr{x.Index}
	case *ast.IndexListExpr:
		base, idx = x.X, x.Indices
	default:
		return "", nil
	}
	b, ok := base.(*ast.Ident)
	if !ok {
		return "", nil
	}
	var names []string
	for _, e := range idx {
		id, ok := e.(*ast.Ident)
		if !ok || id.Name == "_" {
			return "", nil
		}
		names = append(names, id.Name)
	}
	return b.Name, names
}
