// Copyright 2023 The Go Authors. All rights reserved.
// Use of this source code is governed by a BSD-style
// license that can be found in the LICENSE file.

package inline

// This file defines the analysis of callee effects.

import (
	"go/ast"
	"go/token"
	"go/types"
)

const (
	rinf = -1 //  R∞: arbitrary read from memory
	winf = -2 //  W∞: arbitrary write to memory (or unknown control)
)

// calleefx returns a list of parameter indices indicating the order
// in which parameters are first referenced during evaluation of the
// callee, relative both to each other and to other effects of the
// callee (if any), such as arbitrary reads (rinf) and arbitrary
// effects (winf), including unknown control flow. Each parameter
// that is referenced appears once in the list.
//
// For example, the effects list of this function:
//
//	func f(x, y, z int) int {
//	    return y + x + g() + z
//	}
//
// is [1 0 -2 2], indicating reads of y and x, followed by the unknown
// effects of the g() call. and finally the read of parameter z. This
// information is used during inlining to ascertain when it is safe
// for parameter references to be replaced by their corresponding
// argument expressions. Such substitutions are permitted only when
// they do not cause "write" operations (those with effects) to
// commute with "read" operations (those that have no effect but are
// not pure). Impure operations may be reordered with other impure
// operations, and pure operations may be reordered arbitrarily.
//
// The analysis ignores the effects of runtime panics, on the
// assumption that well-behaved programs shouldn't encounter them.
func calleefx(info *types.Info, body *ast.BlockStmt, paramInfos map[*types.Var]*paramInfo) []int {
	// This traversal analyzes the callee's statements (in syntax
	// form, though one could do better with SSA) to compute the
	// sequence of events of the following kinds:
	//
	// 1  read of a parameter variable.
	// 2. reads from other memory.
	// 3. writes to memory

	var effects []int // indices of parameters, or rinf/winf (-ve)
	seen := make(map[int]bool)
	effect := func(i int) {
		if !seen[i] {
			seen[i] = true
			effects = append(effects, i)
		}
	}

	// unknown is called for statements of unknown effects (or control).
	unknown := func() {
		effect(winf)

		// Ensure that all remaining parameters are "seen"
		// after we go into the unknown (unless they are
		// unreferenced by the function body). This lets us
		// not bother implementing the complete traversal into
		// control structures.
		//
		// TODO(adonovan): add them in a deterministic order.
		// (This is not a bug but determinism is good.)
		for _, pinfo := range paramInfos {
			if !pinfo.IsResult && len(pinfo.Refs) > 0 {
				effect(pinfo.Index)
			}
		}
	}

	var visitExpr func(n ast.Expr)
	var visitStmt func(n ast.Stmt) bool
	visitExpr = func(n ast.Expr) {
		switch n := n.(type) {
		case *ast.Ident:
			if v, ok := info.Uses[n].(*types.Var); ok && !v.IsField() {
				// Use of global?
				if v.Parent() == v.Pkg().Scope() {
					effect(rinf) // read global var
				}

				// Use of parameter?
				if pinfo, ok := paramInfos[v]; ok && !pinfo.IsResult {
					effect(pinfo.Index) // read parameter var
				}

				// Use of local variables is ok.
			}

		case *ast.BasicLit:
			// no effect

		case *ast.FuncLit:
			// A func literal has no read or write effect
			// until called, and (most) function calls are
			// considered to have arbitrary effects.
			// So, no effect.

		case *ast.CompositeLit:
			for _, elt := range n.Elts {
				visitExpr(elt) // note: visits KeyValueExpr
			}

		case *ast.ParenExpr:
			visitExpr(n.X)

		case *ast.SelectorExpr:
			if seln, ok := info.Selections[n]; ok {
				visitExpr(n.X)

				// See types.SelectionKind for background.
				switch seln.Kind() {
				case types.MethodExpr:
					// A method expression T.f acts like a
					// reference to a func decl,
					// so it doesn't read x until called.

				case types.MethodVal, types.FieldVal:
					// A field or method value selection x.f
					// reads x if the selection indirects a pointer.

					if indirectSelection(seln) {
						effect(rinf)
					}
				}
			} else {
				// qualified identifier: treat like unqualified
				visitExpr(n.Sel)
			}

		case *ast.IndexExpr:
			if tv := info.Types[n.Index]; tv.IsType() {
				// no effect (G[T] instantiation)
			} else {
				visitExpr(n.X)
				visitExpr(n.Index)
				switch tv.Type.Underlying().(type) {
				case *types.Slice, *types.Pointer: // []T, *[n]T (not string, [n]T)
					effect(rinf) // indirect read of slice/array element
				}
			}

		case *ast.IndexListExpr:
			// no effect (M[K,V] instantiation)

		case *ast.SliceExpr:
			visitExpr(n.X)
			visitExpr(n.Low)
			visitExpr(n.High)
			visitExpr(n.Max)

		case *ast.TypeAssertExpr:
			visitExpr(n.X)

		case *ast.CallExpr:
			if info.Types[n.Fun].IsType() {
				// conversion T(x)
				visitExpr(n.Args[0])
			} else {
				// call f(args)
				visitExpr(n.Fun)
				for i, arg := range n.Args {
					if i == 0 && info.Types[arg].IsType() {
						continue // new(T), make(T, n)
					}
					visitExpr(arg)
				}

				// The pure built-ins have no effects beyond
				// those of their operands (not even memory reads).
				// All other calls have unknown effects.
				if !callsPureBuiltin(info, n) {
					unknown() // arbitrary effects
				}
			}

		case *ast.StarExpr:
			visitExpr(n.X)
			effect(rinf) // *ptr load or store depends on state of heap

		case *ast.UnaryExpr: // + - ! ^ & ~ <-
			visitExpr(n.X)
			if n.Op == token.ARROW {
				unknown() // effect: channel receive
			}

		case *ast.BinaryExpr:
			visitExpr(n.X)
			visitExpr(n.Y)

		case *ast.KeyValueExpr:
			visitExpr(n.Key) // may be a struct field
			visitExpr(n.Value)

		case *ast.BadExpr:
			// no effect

		case nil:
			// optional subtree

		default:
			// type syntax: unreachable given traversal
			panic(n)
		}
	}

	// visitStmt's result indicates the continuation:
	// false for return, true for the next statement.
	//
	// We could treat return as an unknown, but this way
	// yields definite effects for simple sequences like
	// {S1; S2; return}, so unreferenced parameters are
	// not spuriously added to the effects list, and thus
	// not spuriously disqualified from elimination.
	visitStmt = func(n ast.Stmt) bool {
		switch n := n.(type) {
		case *ast.DeclStmt:
			decl := n.Decl.(*ast.GenDecl)
			for _, spec := range decl.Specs {
				switch spec := spec.(type) {
				case *ast.ValueSpec:
					for _, v := range spec.Values {
						visitExpr(v)
					}

				case *ast.TypeSpec:
					// no effect
				}
			}

		case *ast.LabeledStmt:
			return visitStmt(n.Stmt)

		case *ast.ExprStmt:
			visitExpr(n.X)

		case *ast.SendStmt:
			visitExpr(n.Chan)
			visitExpr(n.Value)
			unknown() // effect: channel send

		case *ast.IncDecStmt:
			visitExpr(n.X)
			unknown() // effect: variable increment

		case *ast.AssignStmt:
			for _, lhs := range n.Lhs {
				visitExpr(lhs)
			}
			for _, rhs := range n.Rhs {
				visitExpr(rhs)
			}
			for _, lhs := range n.Lhs {
				id, _ := lhs.(*ast.Ident)
				if id != nil && id.Name == "_" {
					continue // blank assign has no effect
				}
				if n.Tok == token.DEFINE && id != nil && info.Defs[id] != nil {
					continue // new var declared by := has no effect
				}
				unknown() // assignment to existing var
				break
			}

		case *ast.GoStmt:
			visitExpr(n.Call.Fun)
			for _, arg := range n.Call.Args {
				visitExpr(arg)
			}
			unknown() // effect: create goroutine

		case *ast.DeferStmt:
			visitExpr(n.Call.Fun)
			for _, arg := range n.Call.Args {
				visitExpr(arg)
			}
			unknown() // effect: push defer

		case *ast.ReturnStmt:
			for _, res := range n.Results {
				visitExpr(res)
			}
			return false

		case *ast.BlockStmt:
			for _, stmt := range n.List {
				if !visitStmt(stmt) {
					return false
				}
			}

		case *ast.BranchStmt:
			unknown() // control flow

		case *ast.IfStmt:
			visitStmt(n.Init)
			visitExpr(n.Cond)
			unknown() // control flow

		case *ast.SwitchStmt:
			visitStmt(n.Init)
			visitExpr(n.Tag)
			unknown() // control flow

		case *ast.TypeSwitchStmt:
			visitStmt(n.Init)
			visitStmt(n.Assign)
			unknown() // control flow

		case *ast.SelectStmt:
			unknown() // control flow

		case *ast.ForStmt:
			visitStmt(n.Init)
			visitExpr(n.Cond)
			unknown() // control flow

		case *ast.RangeStmt:
			visitExpr(n.X)
			unknown() // control flow

		case *ast.EmptyStmt, *ast.BadStmt:
			// no effect

		case nil:
			// optional subtree

		default:
			panic(n)
		}
		return true
	}
	visitStmt(body)

	return effects
}
