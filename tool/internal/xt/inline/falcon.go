// Copyright 2023 The Go Authors. All rights reserved.
// Use of this source code is governed by a BSD-style
// license that can be found in the LICENSE file.

package inline

// This file defines the callee side of the "fallible constant" analysis.

import (
	"fmt"
	"go/ast"
	"go/constant"
	"go/format"
	"go/token"
	"go/types"
	"strconv"
	"strings"

	"bbcheck/internal/xt/typeparams"
	"golang.org/x/tools/go/types/typeutil"
)

// falconResult is the result of the analysis of the callee.
type falconResult struct {
	Types       []falconType // types for falcon constraint environment
	Constraints []string     // constraints (Go expressions) on values of fallible constants
}

// A falconType specifies the name and underlying type of a synthetic
// defined type for use in falcon constraints.
//
// Unique types from callee code are bijectively mapped onto falcon
// types so that constraints are independent of callee type
// information but preserve type equivalence classes.
//
// Fresh names are deliberately obscure to avoid shadowing even if a
// callee parameter has a nanme like "int" or "any".
type falconType struct {
	Name string
	Kind types.BasicKind // string/number/bool
}

// falcon identifies "fallible constant" expressions, which are
// expressions that may fail to compile if one or more of their
// operands is changed from non-constant to constant.
//
// Consider:
//
//	func sub(s string, i, j int) string { return s[i:j] }
//
// If parameters are replaced by constants, the compiler is
// required to perform these additional checks:
//
//   - if i is constant, 0 <= i.
//   - if s and i are constant, i <= len(s).
//   - ditto for j.
//   - if i and j are constant, i <= j.
//
// s[i:j] is thus a "fallible constant" expression dependent on {s, i,
// j}. Each falcon creates a set of conditional constraints across one
// or more parameter variables.
//
//   - When inlining a call such as sub("abc", -1, 2), the parameter i
//     cannot be eliminated by substitution as its argument value is
//     negative.
//
//   - When inlining sub("", 2, 1), all three parameters cannot be
//     simultaneously eliminated by substitution without violating i
//     <= len(s) and j <= len(s), but the parameters i and j could be
//     safely eliminated without s.
//
// Parameters that cannot be eliminated must remain non-constant,
// either in the form of a binding declaration:
//
//	{ var i int = -1; return "abc"[i:2] }
//
// or a parameter of a literalization:
//
//	func (i int) string { return "abc"[i:2] }(-1)
//
// These example expressions are obviously doomed to fail at run
// time, but in realistic cases such expressions are dominated by
// appropriate conditions that make them reachable only when safe:
//
//	if 0 <= i && i <= j && j <= len(s) { _ = s[i:j] }
//
// (In principle a more sophisticated inliner could entirely eliminate
// such unreachable blocks based on the condition being always-false
// for the given parameter substitution, but this is tricky to do safely
// because the type-checker considers only a single configuration.
// Consider: if runtime.GOOS == "linux" { ... }.)
//
// We believe this is an exhaustive list of "fallible constant" operations:
//
//   - switch z { case x: case y } 	// duplicate case values
//   - s[i], s[i:j], s[i:j:k]		// index out of bounds (0 <= i <= j <= k <= len(s))
//   - T{x: 0}				// index out of bounds, duplicate index
//   - x/y, x%y, x/=y, x%=y		// integer division by zero; minint/-1 overflow
//   - x+y, x-y, x*y			// arithmetic overflow
//   - x<<y				// shift out of range
//   - -x				// negation of minint
//   - T(x)				// value out of range
//
// The fundamental reason for this elaborate algorithm is that the
// "separate analysis" of callee and caller, as required when running
// in an environment such as unitchecker, means that there is no way
// for us to simply invoke the type checker on the combination of
// caller and callee code, as by the time we analyze the caller, we no
// longer have access to type information for the callee (and, in
// particular, any of its direct dependencies that are not direct
// dependencies of the caller). So, in effect, we are forced to map
// the problem in a neutral (callee-type-independent) constraint
// system that can be verified later.
func falcon(logf func(string, ...any), fset *token.FileSet, params map[*types.Var]*paramInfo, info *types.Info, decl *ast.FuncDecl) falconResult {

	st := &falconState{
		logf:   logf,
		fset:   fset,
		params: params,
		info:   info,
		decl:   decl,
	}

	// type mapping
	st.int = st.typename(types.Typ[types.Int])
	st.any = "interface{}" // don't use "any" as it may be shadowed
	for obj, info := range st.params {
		if isBasic(obj.Type(), types.IsConstType) {
			info.FalconType = st.typename(obj.Type())
		}
	}

	st.stmt(st.decl.Body)

	return st.result
}

type falconState struct {
	// inputs
	logf   func(string, ...any)
	fset   *token.FileSet
	params map[*types.Var]*paramInfo
	info   *types.Info
	decl   *ast.FuncDecl

	// working state
	int       string
	any       string
	typenames typeutil.Map

	result falconResult
}

// typename returns the name in the falcon constraint system
// of a given string/number/bool type t. Falcon types are
// specified directly in go/types data structures rather than
// by name, avoiding potential shadowing conflicts with
// confusing parameter names such as "int".
//
// Also, each distinct type (as determined by types.Identical)
// is mapped to a fresh type in the falcon system so that we
// can map the types in the callee code into a neutral form
// that does not depend on imports, allowing us to detect
// potential conflicts such as
//
//	map[any]{T1(1): 0, T2(1): 0}
//
// where T1=T2.
func (st *falconState) typename(t types.Type) string {
	name, ok := st.typenames.At(t).(string)
	if !ok {
		basic := t.Underlying().(*types.Basic)

		// That dot ۰ is an Arabic zero numeral U+06F0.
		// It is very unlikely to appear in a real program.
		// TODO(adonovan): use a non-heuristic solution.
		name = fmt.Sprintf("%s۰%d", basic, st.typenames.Len())
		st.typenames.Set(t, name)
		st.logf("falcon: emit type %s %s // %q", name, basic, t)
		st.result.Types = append(st.result.Types, falconType{
			Name: name,
			Kind: basic.Kind(),
		})
	}
	return name
}

// -- constraint emission --

// emit emits a Go expression that must have a legal type.
// In effect, we let the go/types constant folding algorithm
// do most of the heavy lifting (though it may be hard to
// believe from the complexity of this algorithm!).
func (st *falconState) emit(constraint ast.Expr) {
	var out strings.Builder
	if err := format.Node(&out, st.fset, constraint); err != nil {
		panic(err) // can't happen
	}
	syntax := out.String()
	st.logf("falcon: emit constraint %s", syntax)
	st.result.Constraints = append(st.result.Constraints, syntax)
}

// emitNonNegative emits an []T{}[index] constraint,
// which ensures index is non-negative if constant.
func (st *falconState) emitNonNegative(index ast.Expr) {
	st.emit(&ast.IndexExpr{
		X: &ast.CompositeLit{
			Type: &ast.ArrayType{
				Elt: makeIdent(st.int),
			},
		},
		Index: index,
	})
}

// emitMonotonic emits an []T{}[i:j] constraint,
// which ensures i <= j if both are constant.
func (st *falconState) emitMonotonic(i, j ast.Expr) {
	st.emit(&ast.SliceExpr{
		X: &ast.CompositeLit{
			Type: &ast.ArrayType{
				Elt: makeIdent(st.int),
			},
		},
		Low:  i,
		High: j,
	})
}

// emitUnique emits a T{elem1: 0, ... elemN: 0} constraint,
// which ensures that all constant elems are unique.
// T may be a map, slice, or array depending
// on the desired check semantics.
func (st *falconState) emitUnique(typ ast.Expr, elems []ast.Expr) {
	if len(elems) > 1 {
		var elts []ast.Expr
		for _, elem := range elems {
			elts = append(elts, &ast.KeyValueExpr{
				Key:   elem,
				Value: makeIntLit(0),
			})
		}
		st.emit(&ast.CompositeLit{
			Type: typ,
			Elts: elts,
		})
	}
}

// -- traversal --

// The traversal functions scan the callee body for expressions that
// are not constant but would become constant if the parameter vars
// were redeclared as constants, and emits for each one a constraint
// (a Go expression) with the property that it will not type-check
// (using types.CheckExpr) if the particular argument values are
// unsuitable.
//
// These constraints are checked by Inline with the actual
// constant argument values. Violations cause it to reject
// parameters as candidates for substitution.

func (st *falconState) stmt(s ast.Stmt) {
	ast.Inspect(s, func(n ast.Node) bool {
		switch n := n.(type) {
		case ast.Expr:
			_ = st.expr(n)
			return false // skip usual traversal

		case *ast.AssignStmt:
			switch n.Tok {
			case token.QUO_ASSIGN, token.REM_ASSIGN:
				// x /= y
				// Possible "integer division by zero"
				// Emit constraint: 1/y.
				_ = st.expr(n.Lhs[0])
				kY := st.expr(n.Rhs[0])
				if kY, ok := kY.(ast.Expr); ok {
					op := token.QUO
					if n.Tok == token.REM_ASSIGN {
						op = token.REM
					}
					st.emit(&ast.BinaryExpr{
						Op: op,
						X:  makeIntLit(1),
						Y:  kY,
					})
				}
				return false // skip usual traversal
			}

		case *ast.SwitchStmt:
			if n.Init != nil {
				st.stmt(n.Init)
			}
			tBool := types.Type(types.Typ[types.Bool])
			tagType := tBool // default: true
			if n.Tag != nil {
				st.expr(n.Tag)
				tagType = st.info.TypeOf(n.Tag)
			}

			// Possible "duplicate case value".
			// Emit constraint map[T]int{v1: 0, ..., vN:0}
			// to ensure all maybe-constant case values are unique
			// (unless switch tag is boolean, which is relaxed).
			var unique []ast.Expr
			for _, clause := range n.Body.List {
				clause := clause.(*ast.CaseClause)
				for _, caseval := range clause.List {
					if k := st.expr(caseval); k != nil {
						unique = append(unique, st.toExpr(k))
					}
				}
				for _, stmt := range clause.Body {
					st.stmt(stmt)
				}
			}
			if unique != nil && !types.Identical(tagType.Underlying(), tBool) {
				tname := st.any
				if !types.IsInterface(tagType) {
					tname = st.typename(tagType)
				}
				t := &ast.MapType{
					Key:   makeIdent(tname),
					Value: makeIdent(st.int),
				}
				st.emitUnique(t, unique)
			}
		}
		return true
	})
}

// fieldTypes visits the .Type of each field in the list.
func (st *falconState) fieldTypes(fields *ast.FieldList) {
	if fields != nil {
		for _, field := range fields.List {
			_ = st.expr(field.Type)
		}
	}
}

// expr visits the expression (or type) and returns a
// non-nil result if the expression is constant or would
// become constant if all suitable function parameters were
// redeclared as constants.
//
// If the expression is constant, st.expr returns its type
// and value (types.TypeAndValue). If the expression would
// become constant, st.expr returns an ast.Expr tree whose
// leaves are literals and parameter references, and whose
// interior nodes are operations that may become constant,
// such as -x, x+y, f(x), and T(x). We call these would-be
// constant expressions "fallible constants", since they may
// fail to type-check for some values of x, i, and j. (We
// refer to the non-nil cases collectively as "maybe
// constant", and the nil case as "definitely non-constant".)
//
// As a side effect, st.expr emits constraints for each
// fallible constant expression; this is its main purpose.
//
// Consequently, st.expr must visit the entire subtree so
// that all necessary constraints are emitted. It may not
// short-circuit the traversal when it encounters a constant
// subexpression as constants may contain arbitrary other
// syntax that may impose constraints. Consider (as always)
// this contrived but legal example of a type parameter (!)
// that contains statement syntax:
//
//	func f[T [unsafe.Sizeof(func() { stmts })]int]()
//
// There is no need to emit constraints for (e.g.) s[i] when s
// and i are already constants, because we know the expression
// is sound, but it is sometimes easier to emit these
// redundant constraints than to avoid them.
func (st *falconState) expr(e ast.Expr) (res any) { // = types.TypeAndValue | ast.Expr
	tv := st.info.Types[e]
	if tv.Value != nil {
		// A constant value overrides any other result.
		defer func() { res = tv }()
	}

	switch e := e.(type) {
	case *ast.Ident:
		if v, ok := st.info.Uses[e].(*types.Var); ok {
			if _, ok := st.params[v]; ok && isBasic(v.Type(), types.IsConstType) {
				return e // reference to constable parameter
			}
		}
		// (References to *types.Const are handled by the defer.)

	case *ast.BasicLit:
		// constant

	case *ast.ParenExpr:
		return st.expr(e.X)

	case *ast.FuncLit:
		_ = st.expr(e.Type)
		st.stmt(e.Body)
		// definitely non-constant

	case *ast.CompositeLit:
		// T{k: v, ...}, where T ∈ {array,*array,slice,map},
		// imposes a constraint that all constant k are
		// distinct and, for arrays [n]T, within range 0-n.
		//
		// Types matter, not just values. For example,
		// an interface-keyed map may contain keys
		// that are numerically equal so long as they
		// are of distinct types. For example:
		//
		//   type myint int
		//   map[any]bool{1: true, 1:        true} // error: duplicate key
		//   map[any]bool{1: true, int16(1): true} // ok
		//   map[any]bool{1: true, myint(1): true} // ok
		//
		// This can be asserted by emitting a
		// constraint of the form T{k1: 0, ..., kN: 0}.
		if e.Type != nil {
			_ = st.expr(e.Type)
		}
		t := types.Unalias(typeparams.Deref(tv.Type))
		var uniques []ast.Expr
		for _, elt := range e.Elts {
			if kv, ok := elt.(*ast.KeyValueExpr); ok {
				if !is[*types.Struct](t) {
					if k := st.expr(kv.Key); k != nil {
						uniques = append(uniques, st.toExpr(k))
					}
				}
				_ = st.expr(kv.Value)
			} else {
				_ = st.expr(elt)
			}
		}
		if uniques != nil {
			// Inv: not a struct.

			// The type T in constraint T{...} depends on the CompLit:
			// - for a basic-keyed map, use map[K]int;
			// - for an interface-keyed map, use map[any]int;
			// - for a slice, use []int;
			// - for an array or *array, use [n]int.
			// The last two entail progressively stronger index checks.
			var ct ast.Expr // type syntax for constraint
			switch t := typeparams.CoreType(t).(type) {
			case *types.Map:
				if types.IsInterface(t.Key()) {
					ct = &ast.MapType{
						Key:   makeIdent(st.any),
						Value: makeIdent(st.int),
					}
				} else {
					ct = &ast.MapType{
						Key:   makeIdent(st.typename(t.Key())),
						Value: makeIdent(st.int),
					}
				}
			case *types.Array: // or *array
				ct = &ast.ArrayType{
					Len: makeIntLit(t.Len()),
					Elt: makeIdent(st.int),
				}
			default:
				panic(fmt.Sprintf("%T: %v", t, t))
			}
			st.emitUnique(ct, uniques)
		}
		// definitely non-constant

	case *ast.SelectorExpr:
		_ = st.expr(e.X)
		_ = st.expr(e.Sel)
		// The defer is sufficient to handle
		// qualified identifiers (pkg.Const).
		// All other cases are definitely non-constant.

	case *ast.IndexExpr:
		if tv.IsType() {
			// type C[T]
			_ = st.expr(e.X)
			_ = st.expr(e.Index)
		} else {
			// term x[i]
			//
			// Constraints (if x is slice/string/array/*array, not map):
			// - i >= 0
			//     if i is a fallible constant
			// - i < len(x)
			//     if x is array/*array and
			//     i is a fallible constant;
			//  or if s is a string and both i,
			//     s are maybe-constants,
			//     but not both are constants.
			kX := st.expr(e.X)
			kI := st.expr(e.Index)
			if kI != nil && !is[*types.Map](st.info.TypeOf(e.X).Underlying()) {
				if kI, ok := kI.(ast.Expr); ok {
					st.emitNonNegative(kI)
				}
				// Emit constraint to check indices against known length.
				// TODO(adonovan): factor with SliceExpr logic.
				var x ast.Expr
				if kX != nil {
					// string
					x = st.toExpr(kX)
				} else if arr, ok := typeparams.CoreType(typeparams.Deref(st.info.TypeOf(e.X))).(*types.Array); ok {
					// array, *array
					x = &ast.CompositeLit{
						Type: &ast.ArrayType{
							Len: makeIntLit(arr.Len()),
							Elt: makeIdent(st.int),
						},
					}
				}
				if x != nil {
					st.emit(&ast.IndexExpr{
						X:     x,
						Index: st.toExpr(kI),
					})
				}
			}
		}
		// definitely non-constant

	case *ast.SliceExpr:
		// x[low:high:max]
		//
		// Emit non-negative constraints for each index,
		// plus low <= high <= max <= len(x)
		// for each pair that are maybe-constant
		// but not definitely constant.

		kX := st.expr(e.X)
		var kLow, kHigh, kMax any
		if e.Low != nil {
			kLow = st.expr(e.Low)
			if kLow != nil {
				if kLow, ok := kLow.(ast.Expr); ok {
					st.emitNonNegative(kLow)
				}
			}
		}
		if e.High != nil {
			kHigh = st.expr(e.High)
			if kHigh != nil {
				if kHigh, ok := kHigh.(ast.Expr); ok {
					st.emitNonNegative(kHigh)
				}
				if kLow != nil {
					st.emitMonotonic(st.toExpr(kLow), st.toExpr(kHigh))
				}
			}
		}
		if e.Max != nil {
			kMax = st.expr(e.Max)
			if kMax != nil {
				if kMax, ok := kMax.(ast.Expr); ok {
					st.emitNonNegative(kMax)
				}
				if kHigh != nil {
					st.emitMonotonic(st.toExpr(kHigh), st.toExpr(kMax))
				}
			}
		}

		// Emit constraint to check indices against known length.
		var x ast.Expr
		if kX != nil {
			// string
			x = st.toExpr(kX)
		} else if arr, ok := typeparams.CoreType(typeparams.Deref(st.info.TypeOf(e.X))).(*types.Array); ok {
			// array, *array
			x = &ast.CompositeLit{
				Type: &ast.ArrayType{
					Len: makeIntLit(arr.Len()),
					Elt: makeIdent(st.int),
				},
			}
		}
		if x != nil {
			// Avoid slice[::max] if kHigh is nonconstant (nil).
			high, max := st.toExpr(kHigh), st.toExpr(kMax)
			if high == nil {
				high = max // => slice[:max:max]
			}
			st.emit(&ast.SliceExpr{
				X:    x,
				Low:  st.toExpr(kLow),
				High: high,
				Max:  max,
			})
		}
		// definitely non-constant

	case *ast.TypeAssertExpr:
		_ = st.expr(e.X)
		if e.Type != nil {
			_ = st.expr(e.Type)
		}

	case *ast.CallExpr:
		_ = st.expr(e.Fun)
		if tv, ok := st.info.Types[e.Fun]; ok && tv.IsType() {
			// conversion T(x)
			//
			// Possible "value out of range".
			kX := st.expr(e.Args[0])
			if kX != nil && isBasic(tv.Type, types.IsConstType) {
				conv := convert(makeIdent(st.typename(tv.Type)), st.toExpr(kX))
				if is[ast.Expr](kX) {
					st.emit(conv)
				}
				return conv
			}
			return nil // definitely non-constant
		}

		// call f(x)

		all := true // all args are possibly-constant
		kArgs := make([]ast.Expr, len(e.Args))
		for i, arg := range e.Args {
			if kArg := st.expr(arg); kArg != nil {
				kArgs[i] = st.toExpr(kArg)
			} else {
				all = false
			}
		}

		// Calls to built-ins with fallibly constant arguments
		// may become constant. All other calls are either
		// constant or non-constant
		if id, ok := e.Fun.(*ast.Ident); ok && all && tv.Value == nil {
			if builtin, ok := st.info.Uses[id].(*types.Builtin); ok {
				switch builtin.Name() {
				case "len", "imag", "real", "complex", "min", "max":
					return &ast.CallExpr{
						Fun:      id,
						Args:     kArgs,
						Ellipsis: e.Ellipsis,
					}
				}
			}
		}

	case *ast.StarExpr: // *T, *ptr
		_ = st.expr(e.X)

	case *ast.UnaryExpr:
		// + - ! ^ & <- ~
		//
		// Possible "negation of minint".
		// Emit constraint: -x
		kX := st.expr(e.X)
		if kX != nil && !is[types.TypeAndValue](kX) {
			if e.Op == token.SUB {
				st.emit(&ast.UnaryExpr{
					Op: e.Op,
					X:  st.toExpr(kX),
				})
			}

			return &ast.UnaryExpr{
				Op: e.Op,
				X:  st.toExpr(kX),
			}
		}

	case *ast.BinaryExpr:
		kX := st.expr(e.X)
		kY := st.expr(e.Y)
		switch e.Op {
		case token.QUO, token.REM:
			// x/y, x%y
			//
			// Possible "integer division by zero" or
			// "minint / -1" overflow.
			// Emit constraint: x/y or 1/y
			if kY != nil {
				if kX == nil {
					kX = makeIntLit(1)
				}
				st.emit(&ast.BinaryExpr{
					Op: e.Op,
					X:  st.toExpr(kX),
					Y:  st.toExpr(kY),
				})
			}

		case token.ADD, token.SUB, token.MUL:
			// x+y, x-y, x*y
			//
			// Possible "arithmetic overflow".
			// Emit constraint: x+y
			if kX != nil && kY != nil {
				st.emit(&ast.BinaryExpr{
					Op: e.Op,
					X:  st.toExpr(kX),
					Y:  st.toExpr(kY),
				})
			}

		case token.SHL, token.SHR:
			// x << y, x >> y
			//
			// Possible "constant shift too large".
			// Either operand may be too large individually,
			// and they may be too large together.
			// Emit constraint:
			//    x << y (if both maybe-constant)
			//    x << 0 (if y is non-constant)
			//    1 << y (if x is non-constant)
			if kX != nil || kY != nil {
				x := st.toExpr(kX)
				if x == nil {
					x = makeIntLit(1)
				}
				y := st.toExpr(kY)
				if y == nil {
					y = makeIntLit(0)
				}
				st.emit(&ast.BinaryExpr{
					Op: e.Op,
					X:  x,
					Y:  y,
				})
			}

		case token.LSS, token.GTR, token.EQL, token.NEQ, token.LEQ, token.GEQ:
			// < > == != <= <=
			//
			// A "x cmp y" expression with constant operands x, y is
			// itself constant, but I can't see how a constant bool
			// could be fallible: the compiler doesn't reject duplicate
			// boolean cases in a switch, presumably because boolean
			// switches are less like n-way branches and more like
			// sequential if-else chains with possibly overlapping
			// conditions; and there is (sadly) no way to convert a
			// boolean constant to an int constant.
		}
		if kX != nil && kY != nil {
			return &ast.BinaryExpr{
				Op: e.Op,
				X:  st.toExpr(kX),
				Y:  st.toExpr(kY),
			}
		}

	// types
	//
	// We need to visit types (and even type parameters)
	// in order to reach all the places where things could go wrong:
	//
	// 	const (
	// 		s = ""
	// 		i = 0
	// 	)
	// 	type C[T [unsafe.Sizeof(func() { _ = s[i] })]int] bool

	case *ast.IndexListExpr:
		_ = st.expr(e.X)
		for _, expr := range e.Indices {
			_ = st.expr(expr)
		}

	case *ast.Ellipsis:
		if e.Elt != nil {
			_ = st.expr(e.Elt)
		}

	case *ast.ArrayType:
		if e.Len != nil {
			_ = st.expr(e.Len)
		}
		_ = st.expr(e.Elt)

	case *ast.StructType:
		st.fieldTypes(e.Fields)

	case *ast.FuncType:
		st.fieldTypes(e.TypeParams)
		st.fieldTypes(e.Params)
		st.fieldTypes(e.Results)

	case *ast.InterfaceType:
		st.fieldTypes(e.Methods)

	case *ast.MapType:
		_ = st.expr(e.Key)
		_ = st.expr(e.Value)

	case *ast.ChanType:
		_ = st.expr(e.Value)
	}
	return
}

// toExpr converts the result of visitExpr to a falcon expression.
// (We don't do this in visitExpr as we first need to discriminate
// constants from maybe-constants.)
func (st *falconState) toExpr(x any) ast.Expr {
	switch x := x.(type) {
	case nil:
		return nil

	case types.TypeAndValue:
		lit := makeLiteral(x.Value)
		if !isBasic(x.Type, types.IsUntyped) {
			// convert to "typed" type
			lit = &ast.CallExpr{
				Fun:  makeIdent(st.typename(x.Type)),
				Args: []ast.Expr{lit},
			}
		}
		return lit

	case ast.Expr:
		return x

	default:
		panic(x)
	}
}

func makeLiteral(v constant.Value) ast.Expr {
	switch v.Kind() {
	case constant.Bool:
		// Rather than refer to the true or false built-ins,
		// which could be shadowed by poorly chosen parameter
		// names, we use 0 == 0 for true and 0 != 0 for false.
		op := token.EQL
		if !constant.BoolVal(v) {
			op = token.NEQ
		}
		return &ast.BinaryExpr{
			Op: op,
			X:  makeIntLit(0),
			Y:  makeIntLit(0),
		}

	case constant.String:
		return &ast.BasicLit{
			Kind:  token.STRING,
			Value: v.ExactString(),
		}

	case constant.Int:
		return &ast.BasicLit{
			Kind:  token.INT,
			Value: v.ExactString(),
		}

	case constant.Float:
		return &ast.BasicLit{
			Kind:  token.FLOAT,
			Value: v.ExactString(),
		}

	case constant.Complex:
		// The components could be float or int.
		y := makeLiteral(constant.Imag(v))
		y.(*ast.BasicLit).Value += "i" // ugh
		if re := constant.Real(v); !consteq(re, kZeroInt) {
			// complex: x + yi
			y = &ast.BinaryExpr{
				Op: token.ADD,
				X:  makeLiteral(re),
				Y:  y,
			}
		}
		return y

	default:
		panic(v.Kind())
	}
}

func makeIntLit(x int64) *ast.BasicLit {
	return &ast.BasicLit{
		Kind:  token.INT,
		Value: strconv.FormatInt(x, 10),
	}
}

func isBasic(t types.Type, info types.BasicInfo) bool {
	basic, ok := t.Underlying().(*types.Basic)
	return ok && basic.Info()&info != 0
}
