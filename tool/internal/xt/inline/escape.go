// Copyright 2023 The Go Authors. All rights reserved.
// Use of this source code is governed by a BSD-style
// license that can be found in the LICENSE file.

package inline

import (
	"fmt"
	"go/ast"
	"go/token"
	"go/types"
)

// escape implements a simple "address-taken" escape analysis. It
// calls f for each local variable that appears on the left side of an
// assignment (escapes=false) or has its address taken (escapes=true).
// The initialization of a variable by its declaration does not count
// as an assignment.
func escape(info *types.Info, root ast.Node, f func(v *types.Var, escapes bool)) {

	// lvalue is called for each address-taken expression or LHS of assignment.
	// Supported forms are: x, (x), x[i], x.f, *x, T{}.
	var lvalue func(e ast.Expr, escapes bool)
	lvalue = func(e ast.Expr, escapes bool) {
		switch e := e.(type) {
		case *ast.Ident:
			if v, ok := info.Uses[e].(*types.Var); ok {
				if !isPkgLevel(v) {
					f(v, escapes)
				}
			}
		case *ast.ParenExpr:
			lvalue(e.X, escapes)
		case *ast.IndexExpr:
			// TODO(adonovan): support generics without assuming e.X has a core type.
			// Consider:
			//
			// func Index[T interface{ [3]int | []int }](t T, i int) *int {
			//     return &t[i]
			// }
			//
			// We must traverse the normal terms and check
			// whether any of them is an array.
			//
			// We assume TypeOf returns non-nil.
			if _, ok := info.TypeOf(e.X).Underlying().(*types.Array); ok {
				lvalue(e.X, escapes) // &a[i] on array
			}
		case *ast.SelectorExpr:
			// We assume TypeOf returns non-nil.
			if _, ok := info.TypeOf(e.X).Underlying().(*types.Struct); ok {
				lvalue(e.X, escapes) // &s.f on struct
			}
		case *ast.StarExpr:
			// *ptr indirects an existing pointer
		case *ast.CompositeLit:
			// &T{...} creates a new variable
		default:
			panic(fmt.Sprintf("&x on %T", e)) // unreachable in well-typed code
		}
	}

	// Search function body for operations &x, x.f(), x++, and x = y
	// where x is a parameter. Each of these treats x as an address.
	ast.Inspect(root, func(n ast.Node) bool {
		switch n := n.(type) {
		case *ast.UnaryExpr:
			if n.Op == token.AND {
				lvalue(n.X, true) // &x
			}

		case *ast.CallExpr:
			// implicit &x in method call x.f(),
			// where x has type T and method is (*T).f
			if sel, ok := n.Fun.(*ast.SelectorExpr); ok {
				if seln, ok := info.Selections[sel]; ok &&
					seln.Kind() == types.MethodVal &&
					isPointer(seln.Obj().Type().Underlying().(*types.Signature).Recv().Type()) {
					tArg, indirect := effectiveReceiver(seln)
					if !indirect && !isPointer(tArg) {
						lvalue(sel.X, true) // &x.f
					}
				}
			}

		case *ast.AssignStmt:
			for _, lhs := range n.Lhs {
				if id, ok := lhs.(*ast.Ident); ok &&
					info.Defs[id] != nil &&
					n.Tok == token.DEFINE {
					// declaration: doesn't count
				} else {
					lvalue(lhs, false)
				}
			}

		case *ast.IncDecStmt:
			lvalue(n.X, false)
		}
		return true
	})
}
