// Copyright 2023 The Go Authors. All rights reserved.
// Use of this source code is governed by a BSD-style
// license that can be found in the LICENSE file.

package inline

// This file defines various common helpers.

import (
	"go/ast"
	"go/constant"
	"go/token"
	"go/types"
	"reflect"
	"strings"

	"bbcheck/internal/xt/typeparams"
)

func is[T any](x any) bool {
	_, ok := x.(T)
	return ok
}

// TODO(adonovan): use go1.21's slices.Index.
func index[T comparable](slice []T, x T) int {
	for i, elem := range slice {
		if elem == x {
			return i
		}
	}
	return -1
}

func btoi(b bool) int {
	if b {
		return 1
	} else {
		return 0
	}
}

func offsetOf(fset *token.FileSet, pos token.Pos) int {
	return fset.PositionFor(pos, false).Offset
}

// objectKind returns an object's kind (e.g. var, func, const, typename).
func objectKind(obj types.Object) string {
	return strings.TrimPrefix(strings.ToLower(reflect.TypeOf(obj).String()), "*types.")
}

// within reports whether pos is within the half-open interval [n.Pos, n.End).
func within(pos token.Pos, n ast.Node) bool {
	return n.Pos() <= pos && pos < n.End()
}

// trivialConversion reports whether it is safe to omit the implicit
// value-to-variable conversion that occurs in argument passing or
// result return. The only case currently allowed is converting from
// untyped constant to its default type (e.g. 0 to int).
//
// The reason for this check is that converting from A to B to C may
// yield a different result than converting A directly to C: consider
// 0 to int32 to any.
//
// trivialConversion under-approximates trivial conversions, as unfortunately
// go/types does not record the type of an expression *before* it is implicitly
// converted, and therefore it cannot distinguish typed constant
// expressions from untyped constant expressions. For example, in the
// expression `c + 2`, where c is a uint32 constant, trivialConversion does not
// detect that the default type of this expression is actually uint32, not untyped
// int.
//
// We could, of course, do better here by reverse engineering some of go/types'
// constant handling. That may or may not be worthwhile.
//
// Example: in func f() int32 { return 0 },
// the type recorded for 0 is int32, not untyped int;
// although it is Identical to the result var,
// the conversion is non-trivial.
func trivialConversion(fromValue constant.Value, from, to types.Type) bool {
	if fromValue != nil {
		var defaultType types.Type
		switch fromValue.Kind() {
		case constant.Bool:
			defaultType = types.Typ[types.Bool]
		case constant.String:
			defaultType = types.Typ[types.String]
		case constant.Int:
			defaultType = types.Typ[types.Int]
		case constant.Float:
			defaultType = types.Typ[types.Float64]
		case constant.Complex:
			defaultType = types.Typ[types.Complex128]
		default:
			return false
		}
		return types.Identical(defaultType, to)
	}
	return types.Identical(from, to)
}

func checkInfoFields(info *types.Info) {
	assert(info.Defs != nil, "types.Info.Defs is nil")
	assert(info.Implicits != nil, "types.Info.Implicits is nil")
	assert(info.Scopes != nil, "types.Info.Scopes is nil")
	assert(info.Selections != nil, "types.Info.Selections is nil")
	assert(info.Types != nil, "types.Info.Types is nil")
	assert(info.Uses != nil, "types.Info.Uses is nil")
}

func funcHasTypeParams(decl *ast.FuncDecl) bool {
	// generic function?
	if decl.Type.TypeParams != nil {
		return true
	}
	// method on generic type?
	if decl.Recv != nil {
		t := decl.Recv.List[0].Type
		if u, ok := t.(*ast.StarExpr); ok {
			t = u.X
		}
		return is[*ast.IndexExpr](t) || is[*ast.IndexListExpr](t)
	}
	return false
}

// intersects reports whether the maps' key sets intersect.
func intersects[K comparable, T1, T2 any](x map[K]T1, y map[K]T2) bool {
	if len(x) > len(y) {
		return intersects(y, x)
	}
	for k := range x {
		if _, ok := y[k]; ok {
			return true
		}
	}
	return false
}

// convert returns syntax for the conversion T(x).
func convert(T, x ast.Expr) *ast.CallExpr {
	// The formatter generally adds parens as needed,
	// but before go1.22 it had a bug (#63362) for
	// channel types that requires this workaround.
	if ch, ok := T.(*ast.ChanType); ok && ch.Dir == ast.RECV {
		T = &ast.ParenExpr{X: T}
	}
	return &ast.CallExpr{
		Fun:  T,
		Args: []ast.Expr{x},
	}
}

// isPointer reports whether t's core type is a pointer.
func isPointer(t types.Type) bool {
	return is[*types.Pointer](typeparams.CoreType(t))
}

// indirectSelection is like seln.Indirect() without bug #8353.
func indirectSelection(seln *types.Selection) bool {
	// Work around bug #8353 in Selection.Indirect when Kind=MethodVal.
	if seln.Kind() == types.MethodVal {
		tArg, indirect := effectiveReceiver(seln)
		if indirect {
			return true
		}

		tParam := seln.Obj().Type().Underlying().(*types.Signature).Recv().Type()
		return isPointer(tArg) && !isPointer(tParam) // implicit *
	}

	return seln.Indirect()
}

// effectiveReceiver returns the effective type of the method
// receiver after all implicit field selections (but not implicit * or
// & operations) have been applied.
//
// The boolean indicates whether any implicit field selection was indirect.
func effectiveReceiver(seln *types.Selection) (types.Type, bool) {
	assert(seln.Kind() == types.MethodVal, "not MethodVal")
	t := seln.Recv()
	indices := seln.Index()
	indirect := false
	for _, index := range indices[:len(indices)-1] {
		if isPointer(t) {
			indirect = true
			t = typeparams.MustDeref(t)
		}
		t = typeparams.CoreType(t).(*types.Struct).Field(index).Type()
	}
	return t, indirect
}
