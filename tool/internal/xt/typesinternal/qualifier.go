// Copyright 2024 The Go Authors. All rights reserved.
// Use of this source code is governed by a BSD-style
// license that can be found in the LICENSE file.

package typesinternal

import (
	"go/ast"
	"go/types"
	"strconv"
)

// FileQualifier returns a [types.Qualifier] function that qualifies
// imported symbols appropriately based on the import environment of a given
// file.
// If the same package is imported multiple times, the last appearance is
// recorded.
func FileQualifier(f *ast.File, pkg *types.Package) types.Qualifier {
	// Construct mapping of import paths to their defined names.
	// It is only necessary to look at renaming imports.
	imports := make(map[string]string)
	for _, imp := range f.Imports {
		if imp.Name != nil && imp.Name.Name != "_" {
			path, _ := strconv.Unquote(imp.Path.Value)
			imports[path] = imp.Name.Name
		}
	}

	// Define qualifier to replace full package paths with names of the imports.
	return func(p *types.Package) string {
		if p == nil || p == pkg {
			return ""
		}

		if name, ok := imports[p.Path()]; ok {
			if name == "." {
				return ""
			} else {
				return name
			}
		}

		// If there is no local renaming, fall back to the package name.
		return p.Name()
	}
}
