// Copyright 2024 The Go Authors. All rights reserved.
// Use of this source code is governed by a BSD-style
// license that can be found in the LICENSE file.

package typesinternal

import (
	"go/types"

	"bbcheck/internal/xt/stdlib"
	"bbcheck/internal/xt/versions"
)

// TooNewStdSymbols computes the set of package-level symbols
// exported by pkg that are not available at the specified version.
// The result maps each symbol to its minimum version.
//
// The pkg is allowed to contain type errors.
func TooNewStdSymbols(pkg *types.Package, version string) map[types.Object]string {
	disallowed := make(map[types.Object]string)

	// Pass 1: package-level symbols.
	symbols := stdlib.PackageSymbols[pkg.Path()]
	for _, sym := range symbols {
		symver := sym.Version.String()
		if versions.Before(version, symver) {
			switch sym.Kind {
			case stdlib.Func, stdlib.Var, stdlib.Const, stdlib.Type:
				disallowed[pkg.Scope().Lookup(sym.Name)] = symver
			}
		}
	}

	// Pass 2: fields and methods.
	//
	// We allow fields and methods if their associated type is
	// disallowed, as otherwise we would report false positives
	// for compatibility shims. Consider:
	//
	//   //go:build go1.22
	//   type T struct { F std.Real } // correct new API
	//
	//   //go:build !go1.22
	//   type T struct { F fake } // shim
	//   type fake struct { ... }
	//   func (fake) M () {}
	//
	// These alternative declarations of T use either the std.Real
	// type, introduced in go1.22, or a fake type, for the field
	// F. (The fakery could be arbitrarily deep, involving more
	// nested fields and methods than are shown here.) Clients
	// that use the compatibility shim T will compile with any
	// version of go, whether older or newer than go1.22, but only
	// the newer version will use the std.Real implementation.
	//
	// Now consider a reference to method M in new(T).F.M() in a
	// module that requires a minimum of go1.21. The analysis may
	// occur using a version of Go higher than 1.21, selecting the
	// first version of T, so the method M is Real.M. This would
	// spuriously cause the analyzer to report a reference to a
	// too-new symbol even though this expression compiles just
	// fine (with the fake implementation) using go1.21.
	for _, sym := range symbols {
		symVersion := sym.Version.String()
		if !versions.Before(version, symVersion) {
			continue // allowed
		}

		var obj types.Object
		switch sym.Kind {
		case stdlib.Field:
			typename, name := sym.SplitField()
			if t := pkg.Scope().Lookup(typename); t != nil && disallowed[t] == "" {
				obj, _, _ = types.LookupFieldOrMethod(t.Type(), false, pkg, name)
			}

		case stdlib.Method:
			ptr, recvname, name := sym.SplitMethod()
			if t := pkg.Scope().Lookup(recvname); t != nil && disallowed[t] == "" {
				obj, _, _ = types.LookupFieldOrMethod(t.Type(), ptr, pkg, name)
			}
		}
		if obj != nil {
			disallowed[obj] = symVersion
		}
	}

	return disallowed
}
