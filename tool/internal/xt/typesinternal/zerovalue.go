// Copyright 2024 The Go Authors. All rights reserved.
// Use of this source code is governed by a BSD-style
// license that can be found in the LICENSE file.

package typesinternal

import (
	"fmt"
	"go/ast"
	"go/token"
	"go/types"
	"strings"
)

// ZeroString returns the string representation of the zero value for any type t.
// The boolean result indicates whether the type is or contains an invalid type
// or a non-basic (constraint) interface type.
//
// Even for invalid input types, ZeroString may return a partially correct
// string representation. The caller should use the returned isValid boolean
// to determine the validity of the expression.
//
// When assigning to a wider type (such as 'any'), it's the caller's
// responsibility to handle any necessary type conversions.
//
// This string can be used on the right-hand side of an assignment where the
// left-hand side has that explicit type.
// References to named types are qualified by an appropriate (optional)
// qualifier function.
// Exception: This does not apply to tuples. Their string representation is
// informational only and cannot be used in an assignment.
//
// See [ZeroExpr] for a variant that returns an [ast.Expr].
func ZeroString(t types.Type, qual types.Qualifier) (_ string, isValid bool) {
	switch t := t.(type) {
	case *types.Basic:
		switch {
		case t.Info()&types.IsBoolean != 0:
			return "false", true
		case t.Info()&types.IsNumeric != 0:
			return "0", true
		case t.Info()&types.IsString != 0:
			return `""`, true
		case t.Kind() == types.UnsafePointer:
			fallthrough
		case t.Kind() == types.UntypedNil:
			return "nil", true
		case t.Kind() == types.Invalid:
			return "invalid", false
		default:
			panic(fmt.Sprintf("ZeroString for unexpected type %v", t))
		}

	case *types.Pointer, *types.Slice, *types.Chan, *types.Map, *types.Signature:
		return "nil", true

	case *types.Interface:
		if !t.IsMethodSet() {
			return "invalid", false
		}
		return "nil", true

	case *types.Named:
		switch under := t.Underlying().(type) {
		case *types.Struct, *types.Array:
			return types.TypeString(t, qual) + "{}", true
		default:
			return ZeroString(under, qual)
		}

	case *types.Alias:
		switch t.Underlying().(type) {
		case *types.Struct, *types.Array:
			return types.TypeString(t, qual) + "{}", true
		default:
			// A type parameter can have alias but alias type's underlying type
			// can never be a type parameter.
			// Use types.Unalias to preserve the info of type parameter instead
			// of call Underlying() going right through and get the underlying
			// type of the type parameter which is always an interface.
			return ZeroString(types.Unalias(t), qual)
		}

	case *types.Array, *types.Struct:
		return types.TypeString(t, qual) + "{}", true

	case *types.TypeParam:
		// Assumes func new is not shadowed.
		return "*new(" + types.TypeString(t, qual) + ")", true

	case *types.Tuple:
		// Tuples are not normal values.
		// We are currently format as "(t[0], ..., t[n])". Could be something else.
		isValid := true
		components := make([]string, t.Len())
		for i := 0; i < t.Len(); i++ {
			comp, ok := ZeroString(t.At(i).Type(), qual)

			components[i] = comp
			isValid = isValid && ok
		}
		return "(" + strings.Join(components, ", ") + ")", isValid

	case *types.Union:
		// Variables of these types cannot be created, so it makes
		// no sense to ask for their zero value.
		panic(fmt.Sprintf("invalid type for a variable: %v", t))

	default:
		panic(t) // unreachable.
	}
}

// ZeroExpr returns the ast.Expr representation of the zero value for any type t.
// The boolean result indicates whether the type is or contains an invalid type
// or a non-basic (constraint) interface type.
//
// Even for invalid input types, ZeroExpr may return a partially correct ast.Expr
// representation. The caller should use the returned isValid boolean to determine
// the validity of the expression.
//
// This function is designed for types suitable for variables and should not be
// used with Tuple or Union types.References to named types are qualified by an
// appropriate (optional) qualifier function.
//
// See [ZeroString] for a variant that returns a string.
func ZeroExpr(t types.Type, qual types.Qualifier) (_ ast.Expr, isValid bool) {
	switch t := t.(type) {
	case *types.Basic:
		switch {
		case t.Info()&types.IsBoolean != 0:
			return &ast.Ident{Name: "false"}, true
		case t.Info()&types.IsNumeric != 0:
			return &ast.BasicLit{Kind: token.INT, Value: "0"}, true
		case t.Info()&types.IsString != 0:
			return &ast.BasicLit{Kind: token.STRING, Value: `""`}, true
		case t.Kind() == types.UnsafePointer:
			fallthrough
		case t.Kind() == types.UntypedNil:
			return ast.NewIdent("nil"), true
		case t.Kind() == types.Invalid:
			return &ast.BasicLit{Kind: token.STRING, Value: `"invalid"`}, false
		default:
			panic(fmt.Sprintf("ZeroExpr for unexpected type %v", t))
		}

	case *types.Pointer, *types.Slice, *types.Chan, *types.Map, *types.Signature:
		return ast.NewIdent("nil"), true

	case *types.Interface:
		if !t.IsMethodSet() {
			return &ast.BasicLit{Kind: token.STRING, Value: `"invalid"`}, false
		}
		return ast.NewIdent("nil"), true

	case *types.Named:
		switch under := t.Underlying().(type) {
		case *types.Struct, *types.Array:
			return &ast.CompositeLit{
				Type: TypeExpr(t, qual),
			}, true
		default:
			return ZeroExpr(under, qual)
		}

	case *types.Alias:
		switch t.Underlying().(type) {
		case *types.Struct, *types.Array:
			return &ast.CompositeLit{
				Type: TypeExpr(t, qual),
			}, true
		default:
			return ZeroExpr(types.Unalias(t), qual)
		}

	case *types.Array, *types.Struct:
		return &ast.CompositeLit{
			Type: TypeExpr(t, qual),
		}, true

	case *types.TypeParam:
		return &ast.StarExpr{ // *new(T)
			X: &ast.CallExpr{
				// Assumes func new is not shadowed.
				Fun: ast.NewIdent("new"),
				Args: []ast.Expr{
					ast.NewIdent(t.Obj().Name()),
				},
			},
		}, true

	case *types.Tuple:
		// Unlike ZeroString, there is no ast.Expr can express tuple by
		// "(t[0], ..., t[n])".
		panic(fmt.Sprintf("invalid type for a variable: %v", t))

	case *types.Union:
		// Variables of these types cannot be created, so it makes
		// no sense to ask for their zero value.
		panic(fmt.Sprintf("invalid type for a variable: %v", t))

	default:
		panic(t) // unreachable.
	}
}

// IsZeroExpr uses simple syntactic heuristics to report whether expr
// is a obvious zero value, such as 0, "", nil, or false.
// It cannot do better without type information.
func IsZeroExpr(expr ast.Expr) bool {
	switch e := expr.(type) {
	case *ast.BasicLit:
		return e.Value == "0" || e.Value == `""`
	case *ast.Ident:
		return e.Name == "nil" || e.Name == "false"
	default:
		return false
	}
}

// TypeExpr returns syntax for the specified type. References to named types
// are qualified by an appropriate (optional) qualifier function.
// It may panic for types such as Tuple or Union.
func TypeExpr(t types.Type, qual types.Qualifier) ast.Expr {
	switch t := t.(type) {
	case *types.Basic:
		switch t.Kind() {
		case types.UnsafePointer:
			return &ast.SelectorExpr{X: ast.NewIdent(qual(types.NewPackage("unsafe", "unsafe"))), Sel: ast.NewIdent("Pointer")}
		default:
			return ast.NewIdent(t.Name())
		}

	case *types.Pointer:
		return &ast.UnaryExpr{
			Op: token.MUL,
			X:  TypeExpr(t.Elem(), qual),
		}

	case *types.Array:
		return &ast.ArrayType{
			Len: &ast.BasicLit{
				Kind:  token.INT,
				Value: fmt.Sprintf("%d", t.Len()),
			},
			Elt: TypeExpr(t.Elem(), qual),
		}

	case *types.Slice:
		return &ast.ArrayType{
			Elt: TypeExpr(t.Elem(), qual),
		}

	case *types.Map:
		return &ast.MapType{
			Key:   TypeExpr(t.Key(), qual),
			Value: TypeExpr(t.Elem(), qual),
		}

	case *types.Chan:
		dir := ast.ChanDir(t.Dir())
		if t.Dir() == types.SendRecv {
			dir = ast.SEND | ast.RECV
		}
		return &ast.ChanType{
			Dir:   dir,
			Value: TypeExpr(t.Elem(), qual),
		}

	case *types.Signature:
		var params []*ast.Field
		for i := 0; i < t.Params().Len(); i++ {
			params = append(params, &ast.Field{
				Type: TypeExpr(t.Params().At(i).Type(), qual),
				Names: []*ast.Ident{
					{
						Name: t.Params().At(i).Name(),
					},
				},
			})
		}
		if t.Variadic() {
			last := params[len(params)-1]
			last.Type = &ast.Ellipsis{Elt: last.Type.(*ast.ArrayType).Elt}
		}
		var returns []*ast.Field
		for i := 0; i < t.Results().Len(); i++ {
			returns = append(returns, &ast.Field{
				Type: TypeExpr(t.Results().At(i).Type(), qual),
			})
		}
		return &ast.FuncType{
			Params: &ast.FieldList{
				List: params,
			},
			Results: &ast.FieldList{
				List: returns,
			},
		}

	case *types.TypeParam:
		pkgName := qual(t.Obj().Pkg())
		if pkgName == "" || t.Obj().Pkg() == nil {
			return ast.NewIdent(t.Obj().Name())
		}
		return &ast.SelectorExpr{
			X:   ast.NewIdent(pkgName),
			Sel: ast.NewIdent(t.Obj().Name()),
		}

	// types.TypeParam also implements interface NamedOrAlias. To differentiate,
	// case TypeParam need to be present before case NamedOrAlias.
	// TODO(hxjiang): remove this comment once TypeArgs() is added to interface
	// NamedOrAlias.
	case NamedOrAlias:
		var expr ast.Expr = ast.NewIdent(t.Obj().Name())
		if pkgName := qual(t.Obj().Pkg()); pkgName != "." && pkgName != "" {
			expr = &ast.SelectorExpr{
				X:   ast.NewIdent(pkgName),
				Sel: expr.(*ast.Ident),
			}
		}

		// TODO(hxjiang): call t.TypeArgs after adding method TypeArgs() to
		// typesinternal.NamedOrAlias.
		if hasTypeArgs, ok := t.(interface{ TypeArgs() *types.TypeList }); ok {
			if typeArgs := hasTypeArgs.TypeArgs(); typeArgs != nil && typeArgs.Len() > 0 {
				var indices []ast.Expr
				for i := range typeArgs.Len() {
					indices = append(indices, TypeExpr(typeArgs.At(i), qual))
				}
				expr = &ast.IndexListExpr{
					X:       expr,
					Indices: indices,
				}
			}
		}

		return expr

	case *types.Struct:
		return ast.NewIdent(t.String())

	case *types.Interface:
		return ast.NewIdent(t.String())

	case *types.Union:
		if t.Len() == 0 {
			panic("Union type should have at least one term")
		}
		// Same as go/ast, the return expression will put last term in the
		// Y field at topmost level of BinaryExpr.
		// For union of type "float32 | float64 | int64", the structure looks
		// similar to:
		// {
		// 	X: {
		// 		X: float32,
		// 		Op: |
		// 		Y: float64,
		// 	}
		// 	Op: |,
		// 	Y: int64,
		// }
		var union ast.Expr
		for i := range t.Len() {
			term := t.Term(i)
			termExpr := TypeExpr(term.Type(), qual)
			if term.Tilde() {
				termExpr = &ast.UnaryExpr{
					Op: token.TILDE,
					X:  termExpr,
				}
			}
			if i == 0 {
				union = termExpr
			} else {
				union = &ast.BinaryExpr{
					X:  union,
					Op: token.OR,
					Y:  termExpr,
				}
			}
		}
		return union

	case *types.Tuple:
		panic("invalid input type types.Tuple")

	default:
		panic("unreachable")
	}
}
