// Copyright 2020 The Go Authors. All rights reserved.
// Use of this source code is governed by a BSD-style
// license that can be found in the LICENSE file.

package typesinternal

//go:generate stringer -type=ErrorCode

type ErrorCode int

// This file defines the error codes that can be produced during type-checking.
// Collectively, these codes provide an identifier that may be used to
// implement special handling for certain types of errors.
//
// Error codes should be fine-grained enough that the exact nature of the error
// can be easily determined, but coarse enough that they are not an
// implementation detail of the type checking algorithm. As a rule-of-thumb,
// errors should be considered equivalent if there is a theoretical refactoring
// of the type checker in which they are emitted in exactly one place. For
// example, the type checker emits different error messages for "too many
// arguments" and "too few arguments", but one can imagine an alternative type
// checker where this check instead just emits a single "wrong number of
// arguments", so these errors should have the same code.
//
// Error code names should be as brief as possible while retaining accuracy and
// distinctiveness. In most cases names should start with an adjective
// describing the nature of the error (e.g. "invalid", "unused", "misplaced"),
// and end with a noun identifying the relevant language object. For example,
// "DuplicateDecl" or "InvalidSliceExpr". For brevity, naming follows the
// convention that "bad" implies a problem with syntax, and "invalid" implies a
// problem with types.

const (
	// InvalidSyntaxTree occurs if an invalid syntax tree is provided
	// to the type checker. It should never happen.
	InvalidSyntaxTree ErrorCode = -1
)

const (
	_ ErrorCode = iota

	// Test is reserved for errors that only apply while in self-test mode.
	Test

	/* package names */

	// BlankPkgName occurs when a package name is the blank identifier "_".
	//
	// Per the spec:
	//  "The PackageName must not be the blank identifier."
	BlankPkgName

	// MismatchedPkgName occurs when a file's package name doesn't match the
	// package name already established by other files.
	MismatchedPkgName

	// InvalidPkgUse occurs when a package identifier is used outside of a
	// selector expression.
	//
	// Example:
	//  import "fmt"
	//
	//  var _ = fmt
	InvalidPkgUse

	/* imports */

	// BadImportPath occurs when an import path is not valid.
	BadImportPath

	// BrokenImport occurs when importing a package fails.
	//
	// Example:
	//  import "amissingpackage"
	BrokenImport

	// ImportCRenamed occurs when the special import "C" is renamed. "C" is a
	// pseudo-package, and must not be renamed.
	//
	// Example:
	//  import _ "C"
	ImportCRenamed

	// UnusedImport occurs when an import is unused.
	//
	// Example:
	//  import "fmt"
	//
	//  func main() {}
	UnusedImport

	/* initialization */

	// InvalidInitCycle occurs when an invalid cycle is detected within the
	// initialization graph.
	//
	// Example:
	//  var x int = f()
	//
	//  func f() int { return x }
	InvalidInitCycle

	/* decls */

	// DuplicateDecl occurs when an identifier is declared multiple times.
	//
	// Example:
	//  var x = 1
	//  var x = 2
	DuplicateDecl

	// InvalidDeclCycle occurs when a declaration cycle is not valid.
	//
	// Example:
	//  import "unsafe"
	//
	//  type T struct {
	//  	a [n]int
	//  }
	//
	//  var n = unsafe.Sizeof(T{})
	InvalidDeclCycle

	// InvalidTypeCycle occurs when a cycle in type definitions results in a
	// type that is not well-defined.
	//
	// Example:
	//  import "unsafe"
	//
	//  type T [unsafe.Sizeof(T{})]int
	InvalidTypeCycle

	/* decls > const */

	// InvalidConstInit occurs when a const declaration has a non-constant
	// initializer.
	//
	// Example:
	//  var x int
	//  const _ = x
	InvalidConstInit

	// InvalidConstVal occurs when a const value cannot be converted to its
	// target type.
	//
	// TODO(findleyr): this error code and example are not very clear. Consider
	// removing it.
	//
	// Example:
	//  const _ = 1 << "hello"
	InvalidConstVal

	// InvalidConstType occurs when the underlying type in a const declaration
	// is not a valid constant type.
	//
	// Example:
	//  const c *int = 4
	InvalidConstType

	/* decls > var (+ other variable assignment codes) */

	// UntypedNilUse occurs when the predeclared (untyped) value nil is used to
	// initialize a variable declared without an explicit type.
	//
	// Example:
	//  var x = nil
	UntypedNilUse

	// WrongAssignCount occurs when the number of values on the right-hand side
	// of an assignment or initialization expression does not match the number
	// of variables on the left-hand side.
	//
	// Example:
	//  var x = 1, 2
	WrongAssignCount

	// UnassignableOperand occurs when the left-hand side of an assignment is
	// not assignable.
	//
	// Example:
	//  func f() {
	//  	const c = 1
	//  	c = 2
	//  }
	UnassignableOperand

	// NoNewVar occurs when a short variable declaration (':=') does not declare
	// new variables.
	//
	// Example:
	//  func f() {
	//  	x := 1
	//  	x := 2
	//  }
	NoNewVar

	// MultiValAssignOp occurs when an assignment operation (+=, *=, etc) does
	// not have single-valued left-hand or right-hand side.
	//
	// Per the spec:
	//  "In assignment operations, both the left- and right-hand expression lists
	//  must contain exactly one single-valued expression"
	//
	// Example:
	//  func f() int {
	//  	x, y := 1, 2
	//  	x, y += 1
	//  	return x + y
	//  }
	MultiValAssignOp

	// InvalidIfaceAssign occurs when a value of type T is used as an
	// interface, but T does not implement a method of the expected interface.
	//
	// Example:
	//  type I interface {
	//  	f()
	//  }
	//
	//  type T int
	//
	//  var x I = T(1)
	InvalidIfaceAssign

	// InvalidChanAssign occurs when a chan assignment is invalid.
	//
	// Per the spec, a value x is assignable to a channel type T if:
	//  "x is a bidirectional channel value, T is a channel type, x's type V and
	//  T have identical element types, and at least one of V or T is not a
	//  defined type."
	//
	// Example:
	//  type T1 chan int
	//  type T2 chan int
	//
	//  var x T1
	//  // Invalid assignment because both types are named
	//  var _ T2 = x
	InvalidChanAssign

	// IncompatibleAssign occurs when the type of the right-hand side expression
	// in an assignment cannot be assigned to the type of the variable being
	// assigned.
	//
	// Example:
	//  var x []int
	//  var _ int = x
	IncompatibleAssign

	// UnaddressableFieldAssign occurs when trying to assign to a struct field
	// in a map value.
	//
	// Example:
	//  func f() {
	//  	m := make(map[string]struct{i int})
	//  	m["foo"].i = 42
	//  }
	UnaddressableFieldAssign

	/* decls > type (+ other type expression codes) */

	// NotAType occurs when the identifier used as the underlying type in a type
	// declaration or the right-hand side of a type alias does not denote a type.
	//
	// Example:
	//  var S = 2
	//
	//  type T S
	NotAType

	// InvalidArrayLen occurs when an array length is not a constant value.
	//
	// Example:
	//  var n = 3
	//  var _ = [n]int{}
	InvalidArrayLen

	// BlankIfaceMethod occurs when a method name is '_'.
	//
	// Per the spec:
	//  "The name of each explicitly specified method must be unique and not
	//  blank."
	//
	// Example:
	//  type T interface {
	//  	_(int)
	//  }
	BlankIfaceMethod

	// IncomparableMapKey occurs when a map key type does not support the == and
	// != operators.
	//
	// Per the spec:
	//  "The comparison operators == and != must be fully defined for operands of
	//  the key type; thus the key type must not be a function, map, or slice."
	//
	// Example:
	//  var x map[T]int
	//
	//  type T []int
	IncomparableMapKey

	// InvalidIfaceEmbed occurs when a non-interface type is embedded in an
	// interface.
	//
	// Example:
	//  type T struct {}
	//
	//  func (T) m()
	//
	//  type I interface {
	//  	T
	//  }
	InvalidIfaceEmbed

	// InvalidPtrEmbed occurs when an embedded field is of the pointer form *T,
	// and T itself is itself a pointer, an unsafe.Pointer, or an interface.
	//
	// Per the spec:
	//  "An embedded field must be specified as a type name T or as a pointer to
	//  a non-interface type name *T, and T itself may not be a pointer type."
	//
	// Example:
	//  type T *int
	//
	//  type S struct {
	//  	*T
	//  }
	InvalidPtrEmbed

	/* decls > func and method */

	// BadRecv occurs when a method declaration does not have exactly one
	// receiver parameter.
	//
	// Example:
	//  func () _() {}
	BadRecv

	// InvalidRecv occurs when a receiver type expression is not of the form T
	// or *T, or T is a pointer type.
	//
	// Example:
	//  type T struct {}
	//
	//  func (**T) m() {}
	InvalidRecv

	// DuplicateFieldAndMethod occurs when an identifier appears as both a field
	// and method name.
	//
	// Example:
	//  type T struct {
	//  	m int
	//  }
	//
	//  func (T) m() {}
	DuplicateFieldAndMethod

	// DuplicateMethod occurs when two methods on the same receiver type have
	// the same name.
	//
	// Example:
	//  type T struct {}
	//  func (T) m() {}
	//  func (T) m(i int) int { return i }
	DuplicateMethod

	/* decls > special */

	// InvalidBlank occurs when a blank identifier is used as a value or type.
	//
	// Per the spec:
	//  "The blank identifier may appear as an operand only on the left-hand side
	//  of an assignment."
	//
	// Example:
	//  var x = _
	InvalidBlank

	// InvalidIota occurs when the predeclared identifier iota is used outside
	// of a constant declaration.
	//
	// Example:
	//  var x = iota
	InvalidIota

	// MissingInitBody occurs when an init function is missing its body.
	//
	// Example:
	//  func init()
	MissingInitBody

	// InvalidInitSig occurs when an init function declares parameters or
	// results.
	//
	// Example:
	//  func init() int { return 1 }
	InvalidInitSig

	// InvalidInitDecl occurs when init is declared as anything other than a
	// function.
	//
	// Example:
	//  var init = 1
	InvalidInitDecl

	// InvalidMainDecl occurs when main is declared as anything other than a
	// function, in a main package.
	InvalidMainDecl

	/* exprs */

	// TooManyValues occurs when a function returns too many values for the
	// expression context in which it is used.
	//
	// Example:
	//  func ReturnTwo() (int, int) {
	//  	return 1, 2
	//  }
	//
	//  var x = ReturnTwo()
	TooManyValues

	// NotAnExpr occurs when a type expression is used where a value expression
	// is expected.
	//
	// Example:
	//  type T struct {}
	//
	//  func f() {
	//  	T
	//  }
	NotAnExpr

	/* exprs > const */

	// TruncatedFloat occurs when a float constant is truncated to an integer
	// value.
	//
	// Example:
	//  var _ int = 98.6
	TruncatedFloat

	// NumericOverflow occurs when a numeric constant overflows its target type.
	//
	// Example:
	//  var x int8 = 1000
	NumericOverflow

	/* exprs > operation */

	// UndefinedOp occurs when an operator is not defined for the type(s) used
	// in an operation.
	//
	// Example:
	//  var c = "a" - "b"
	UndefinedOp

	// MismatchedTypes occurs when operand types are incompatible in a binary
	// operation.
	//
	// Example:
	//  var a = "hello"
	//  var b = 1
	//  var c = a - b
	MismatchedTypes

	// DivByZero occurs when a division operation is provable at compile
	// time to be a division by zero.
	//
	// Example:
	//  const divisor = 0
	//  var x int = 1/divisor
	DivByZero

	// NonNumericIncDec occurs when an increment or decrement operator is
	// applied to a non-numeric value.
	//
	// Example:
	//  func f() {
	//  	var c = "c"
	//  	c++
	//  }
	NonNumericIncDec

	/* exprs > ptr */

	// UnaddressableOperand occurs when the & operator is applied to an
	// unaddressable expression.
	//
	// Example:
	//  var x = &1
	UnaddressableOperand

	// InvalidIndirection occurs when a non-pointer value is indirected via the
	// '*' operator.
	//
	// Example:
	//  var x int
	//  var y = *x
	InvalidIndirection

	/* exprs > [] */

	// NonIndexableOperand occurs when an index operation is applied to a value
	// that cannot be indexed.
	//
	// Example:
	//  var x = 1
	//  var y = x[1]
	NonIndexableOperand

	// InvalidIndex occurs when an index argument is not of integer type,
	// negative, or out-of-bounds.
	//
	// Example:
	//  var s = [...]int{1,2,3}
	//  var x = s[5]
	//
	// Example:
	//  var s = []int{1,2,3}
	//  var _ = s[-1]
	//
	// Example:
	//  var s = []int{1,2,3}
	//  var i string
	//  var _ = s[i]
	InvalidIndex

	// SwappedSliceIndices occurs when constant indices in a slice expression
	// are decreasing in value.
	//
	// Example:
	//  var _ = []int{1,2,3}[2:1]
	SwappedSliceIndices

	/* operators > slice */

	// NonSliceableOperand occurs when a slice operation is applied to a value
	// whose type is not sliceable, or is unaddressable.
	//
	// Example:
	//  var x = [...]int{1, 2, 3}[:1]
	//
	// Example:
	//  var x = 1
	//  var y = 1[:1]
	NonSliceableOperand

	// InvalidSliceExpr occurs when a three-index slice expression (a[x:y:z]) is
	// applied to a string.
	//
	// Example:
	//  var s = "hello"
	//  var x = s[1:2:3]
	InvalidSliceExpr

	/* exprs > shift */

	// InvalidShiftCount occurs when the right-hand side of a shift operation is
	// either non-integer, negative, or too large.
	//
	// Example:
	//  var (
	//  	x string
	//  	y int = 1 << x
	//  )
	InvalidShiftCount

	// InvalidShiftOperand occurs when the shifted operand is not an integer.
	//
	// Example:
	//  var s = "hello"
	//  var x = s << 2
	InvalidShiftOperand

	/* exprs > chan */

	// InvalidReceive occurs when there is a channel receive from a value that
	// is either not a channel, or is a send-only channel.
	//
	// Example:
	//  func f() {
	//  	var x = 1
	//  	<-x
	//  }
	InvalidReceive

	// InvalidSend occurs when there is a channel send to a value that is not a
	// channel, or is a receive-only channel.
	//
	// Example:
	//  func f() {
	//  	var x = 1
	//  	x <- "hello!"
	//  }
	InvalidSend

	/* exprs > literal */

	// DuplicateLitKey occurs when an index is duplicated in a slice, array, or
	// map literal.
	//
	// Example:
	//  var _ = []int{0:1, 0:2}
	//
	// Example:
	//  var _ = map[string]int{"a": 1, "a": 2}
	DuplicateLitKey

	// MissingLitKey occurs when a map literal is missing a key expression.
	//
	// Example:
	//  var _ = map[string]int{1}
	MissingLitKey

	// InvalidLitIndex occurs when the key in a key-value element of a slice or
	// array literal is not an integer constant.
	//
	// Example:
	//  var i = 0
	//  var x = []string{i: "world"}
	InvalidLitIndex

	// OversizeArrayLit occurs when an array literal exceeds its length.
	//
	// Example:
	//  var _ = [2]int{1,2,3}
	OversizeArrayLit

	// MixedStructLit occurs when a struct literal contains a mix of positional
	// and named elements.
	//
	// Example:
	//  var _ = struct{i, j int}{i: 1, 2}
	MixedStructLit

	// InvalidStructLit occurs when a positional struct literal has an incorrect
	// number of values.
	//
	// Example:
	//  var _ = struct{i, j int}{1,2,3}
	InvalidStructLit

	// MissingLitField occurs when a struct literal refers to a field that does
	// not exist on the struct type.
	//
	// Example:
	//  var _ = struct{i int}{j: 2}
	MissingLitField

	// DuplicateLitField occurs when a struct literal contains duplicated
	// fields.
	//
	// Example:
	//  var _ = struct{i int}{i: 1, i: 2}
	DuplicateLitField

	// UnexportedLitField occurs when a positional struct literal implicitly
	// assigns an unexported field of an imported type.
	UnexportedLitField

	// InvalidLitField occurs when a field name is not a valid identifier.
	//
	// Example:
	//  var _ = struct{i int}{1: 1}
	InvalidLitField

	// UntypedLit occurs when a composite literal omits a required type
	// identifier.
	//
	// Example:
	//  type outer struct{
	//  	inner struct { i int }
	//  }
	//
	//  var _ = outer{inner: {1}}
	UntypedLit

	// InvalidLit occurs when a composite literal expression does not match its
	// type.
	//
	// Example:
	//  type P *struct{
	//  	x int
	//  }
	//  var _ = P {}
	InvalidLit

	/* exprs > selector */

	// AmbiguousSelector occurs when a selector is ambiguous.
	//
	// Example:
	//  type E1 struct { i int }
	//  type E2 struct { i int }
	//  type T struct { E1; E2 }
	//
	//  var x T
	//  var _ = x.i
	AmbiguousSelector

	// UndeclaredImportedName occurs when a package-qualified identifier is
	// undeclared by the imported package.
	//
	// Example:
	//  import "go/types"
	//
	//  var _ = types.NotAnActualIdentifier
	UndeclaredImportedName

	// UnexportedName occurs when a selector refers to an unexported identifier
	// of an imported package.
	//
	// Example:
	//  import "reflect"
	//
	//  type _ reflect.flag
	UnexportedName

	// UndeclaredName occurs when an identifier is not declared in the current
	// scope.
	//
	// Example:
	//  var x T
	UndeclaredName

	// MissingFieldOrMethod occurs when a selector references a field or method
	// that does not exist.
	//
	// Example:
	//  type T struct {}
	//
	//  var x = T{}.f
	MissingFieldOrMethod

	/* exprs > ... */

	// BadDotDotDotSyntax occurs when a "..." occurs in a context where it is
	// not valid.
	//
	// Example:
	//  var _ = map[int][...]int{0: {}}
	BadDotDotDotSyntax

	// NonVariadicDotDotDot occurs when a "..." is used on the final argument to
	// a non-variadic function.
	//
	// Example:
	//  func printArgs(s []string) {
	//  	for _, a := range s {
	//  		println(a)
	//  	}
	//  }
	//
	//  func f() {
	//  	s := []string{"a", "b", "c"}
	//  	printArgs(s...)
	//  }
	NonVariadicDotDotDot

	// MisplacedDotDotDot occurs when a "..." is used somewhere other than the
	// final argument to a function call.
	//
	// Example:
	//  func printArgs(args ...int) {
	//  	for _, a := range args {
	//  		println(a)
	//  	}
	//  }
	//
	//  func f() {
	//  	a := []int{1,2,3}
	//  	printArgs(0, a...)
	//  }
	MisplacedDotDotDot

	// InvalidDotDotDotOperand occurs when a "..." operator is applied to a
	// single-valued operand.
	//
	// Example:
	//  func printArgs(args ...int) {
	//  	for _, a := range args {
	//  		println(a)
	//  	}
	//  }
	//
	//  func f() {
	//  	a := 1
	//  	printArgs(a...)
	//  }
	//
	// Example:
	//  func args() (int, int) {
	//  	return 1, 2
	//  }
	//
	//  func printArgs(args ...int) {
	//  	for _, a := range args {
	//  		println(a)
	//  	}
	//  }
	//
	//  func g() {
	//  	printArgs(args()...)
	//  }
	InvalidDotDotDotOperand

	// InvalidDotDotDot occurs when a "..." is used in a non-variadic built-in
	// function.
	//
	// Example:
	//  var s = []int{1, 2, 3}
	//  var l = len(s...)
	InvalidDotDotDot

	/* exprs > built-in */

	// UncalledBuiltin occurs when a built-in function is used as a
	// function-valued expression, instead of being called.
	//
	// Per the spec:
	//  "The built-in functions do not have standard Go types, so they can only
	//  appear in call expressions; they cannot be used as function values."
	//
	// Example:
	//  var _ = copy
	UncalledBuiltin

	// InvalidAppend occurs when append is called with a first argument that is
	// not a slice.
	//
	// Example:
	//  var _ = append(1, 2)
	InvalidAppend

	// InvalidCap occurs when an argument to the cap built-in function is not of
	// supported type.
	//
	// See https://golang.org/ref/spec#Length_and_capacity for information on
	// which underlying types are supported as arguments to cap and len.
	//
	// Example:
	//  var s = 2
	//  var x = cap(s)
	InvalidCap

	// InvalidClose occurs when close(...) is called with an argument that is
	// not of channel type, or that is a receive-only channel.
	//
	// Example:
	//  func f() {
	//  	var x int
	//  	close(x)
	//  }
	InvalidClose

	// InvalidCopy occurs when the arguments are not of slice type or do not
	// have compatible type.
	//
	// See https://golang.org/ref/spec#Appending_and_copying_slices for more
	// information on the type requirements for the copy built-in.
	//
	// Example:
	//  func f() {
	//  	var x []int
	//  	y := []int64{1,2,3}
	//  	copy(x, y)
	//  }
	InvalidCopy

	// InvalidComplex occurs when the complex built-in function is called with
	// arguments with incompatible types.
	//
	// Example:
	//  var _ = complex(float32(1), float64(2))
	InvalidComplex

	// InvalidDelete occurs when the delete built-in function is called with a
	// first argument that is not a map.
	//
	// Example:
	//  func f() {
	//  	m := "hello"
	//  	delete(m, "e")
	//  }
	InvalidDelete

	// InvalidImag occurs when the imag built-in function is called with an
	// argument that does not have complex type.
	//
	// Example:
	//  var _ = imag(int(1))
	InvalidImag

	// InvalidLen occurs when an argument to the len built-in function is not of
	// supported type.
	//
	// See https://golang.org/ref/spec#Length_and_capacity for information on
	// which underlying types are supported as arguments to cap and len.
	//
	// Example:
	//  var s = 2
	//  var x = len(s)
	InvalidLen

	// SwappedMakeArgs occurs when make is called with three arguments, and its
	// length argument is larger than its capacity argument.
	//
	// Example:
	//  var x = make([]int, 3, 2)
	SwappedMakeArgs

	// InvalidMake occurs when make is called with an unsupported type argument.
	//
	// See https://golang.org/ref/spec#Making_slices_maps_and_channels for
	// information on the types that may be created using make.
	//
	// Example:
	//  var x = make(int)
	InvalidMake

	// InvalidReal occurs when the real built-in function is called with an
	// argument that does not have complex type.
	//
	// Example:
	//  var _ = real(int(1))
	InvalidReal

	/* exprs > assertion */

	// InvalidAssert occurs when a type assertion is applied to a
	// value that is not of interface type.
	//
	// Example:
	//  var x = 1
	//  var _ = x.(float64)
	InvalidAssert

	// ImpossibleAssert occurs for a type assertion x.(T) when the value x of
	// interface cannot have dynamic type T, due to a missing or mismatching
	// method on T.
	//
	// Example:
	//  type T int
	//
	//  func (t *T) m() int { return int(*t) }
	//
	//  type I interface { m() int }
	//
	//  var x I
	//  var _ = x.(T)
	ImpossibleAssert

	/* exprs > conversion */

	// InvalidConversion occurs when the argument type cannot be converted to the
	// target.
	//
	// See https://golang.org/ref/spec#Conversions for the rules of
	// convertibility.
	//
	// Example:
	//  var x float64
	//  var _ = string(x)
	InvalidConversion

	// InvalidUntypedConversion occurs when an there is no valid implicit
	// conversion from an untyped value satisfying the type constraints of the
	// context in which it is used.
	//
	// Example:
	//  var _ = 1 + ""
	InvalidUntypedConversion

	/* offsetof */

	// BadOffsetofSyntax occurs when unsafe.Offsetof is called with an argument
	// that is not a selector expression.
	//
	// Example:
	//  import "unsafe"
	//
	//  var x int
	//  var _ = unsafe.Offsetof(x)
	BadOffsetofSyntax

	// InvalidOffsetof occurs when unsafe.Offsetof is called with a method
	// selector, rather than a field selector, or when the field is embedded via
	// a pointer.
	//
	// Per the spec:
	//
	//  "If f is an embedded field, it must be reachable without pointer
	//  indirections through fields of the struct. "
	//
	// Example:
	//  import "unsafe"
	//
	//  type T struct { f int }
	//  type S struct { *T }
	//  var s S
	//  var _ = unsafe.Offsetof(s.f)
	//
	// Example:
	//  import "unsafe"
	//
	//  type S struct{}
	//
	//  func (S) m() {}
	//
	//  var s S
	//  var _ = unsafe.Offsetof(s.m)
	InvalidOffsetof

	/* control flow > scope */

	// UnusedExpr occurs when a side-effect free expression is used as a
	// statement. Such a statement has no effect.
	//
	// Example:
	//  func f(i int) {
	//  	i*i
	//  }
	UnusedExpr

	// UnusedVar occurs when a variable is declared but unused.
	//
	// Example:
	//  func f() {
	//  	x := 1
	//  }
	UnusedVar

	// MissingReturn occurs when a function with results is missing a return
	// statement.
	//
	// Example:
	//  func f() int {}
	MissingReturn

	// WrongResultCount occurs when a return statement returns an incorrect
	// number of values.
	//
	// Example:
	//  func ReturnOne() int {
	//  	return 1, 2
	//  }
	WrongResultCount

	// OutOfScopeResult occurs when the name of a value implicitly returned by
	// an empty return statement is shadowed in a nested scope.
	//
	// Example:
	//  func factor(n int) (i int) {
	//  	for i := 2; i < n; i++ {
	//  		if n%i == 0 {
	//  			return
	//  		}
	//  	}
	//  	return 0
	//  }
	OutOfScopeResult

	/* control flow > if */

	// InvalidCond occurs when an if condition is not a boolean expression.
	//
	// Example:
	//  func checkReturn(i int) {
	//  	if i {
	//  		panic("non-zero return")
	//  	}
	//  }
	InvalidCond

	/* control flow > for */

	// InvalidPostDecl occurs when there is a declaration in a for-loop post
	// statement.
	//
	// Example:
	//  func f() {
	//  	for i := 0; i < 10; j := 0 {}
	//  }
	InvalidPostDecl

	// InvalidChanRange occurs when a send-only channel used in a range
	// expression.
	//
	// Example:
	//  func sum(c chan<- int) {
	//  	s := 0
	//  	for i := range c {
	//  		s += i
	//  	}
	//  }
	InvalidChanRange

	// InvalidIterVar occurs when two iteration variables are used while ranging
	// over a channel.
	//
	// Example:
	//  func f(c chan int) {
	//  	for k, v := range c {
	//  		println(k, v)
	//  	}
	//  }
	InvalidIterVar

	// InvalidRangeExpr occurs when the type of a range expression is not array,
	// slice, string, map, or channel.
	//
	// Example:
	//  func f(i int) {
	//  	for j := range i {
	//  		println(j)
	//  	}
	//  }
	InvalidRangeExpr

	/* control flow > switch */

	// MisplacedBreak occurs when a break statement is not within a for, switch,
	// or select statement of the innermost function definition.
	//
	// Example:
	//  func f() {
	//  	break
	//  }
	MisplacedBreak

	// MisplacedContinue occurs when a continue statement is not within a for
	// loop of the innermost function definition.
	//
	// Example:
	//  func sumeven(n int) int {
	//  	proceed := func() {
	//  		continue
	//  	}
	//  	sum := 0
	//  	for i := 1; i <= n; i++ {
	//  		if i % 2 != 0 {
	//  			proceed()
	//  		}
	//  		sum += i
	//  	}
	//  	return sum
	//  }
	MisplacedContinue

	// MisplacedFallthrough occurs when a fallthrough statement is not within an
	// expression switch.
	//
	// Example:
	//  func typename(i interface{}) string {
	//  	switch i.(type) {
	//  	case int64:
	//  		fallthrough
	//  	case int:
	//  		return "int"
	//  	}
	//  	return "unsupported"
	//  }
	MisplacedFallthrough

	// DuplicateCase occurs when a type or expression switch has duplicate
	// cases.
	//
	// Example:
	//  func printInt(i int) {
	//  	switch i {
	//  	case 1:
	//  		println("one")
	//  	case 1:
	//  		println("One")
	//  	}
	//  }
	DuplicateCase

	// DuplicateDefault occurs when a type or expression switch has multiple
	// default clauses.
	//
	// Example:
	//  func printInt(i int) {
	//  	switch i {
	//  	case 1:
	//  		println("one")
	//  	default:
	//  		println("One")
	//  	default:
	//  		println("1")
	//  	}
	//  }
	DuplicateDefault

	// BadTypeKeyword occurs when a .(type) expression is used anywhere other
	// than a type switch.
	//
	// Example:
	//  type I interface {
	//  	m()
	//  }
	//  var t I
	//  var _ = t.(type)
	BadTypeKeyword

	// InvalidTypeSwitch occurs when .(type) is used on an expression that is
	// not of interface type.
	//
	// Example:
	//  func f(i int) {
	//  	switch x := i.(type) {}
	//  }
	InvalidTypeSwitch

	// InvalidExprSwitch occurs when a switch expression is not comparable.
	//
	// Example:
	//  func _() {
	//  	var a struct{ _ func() }
	//  	switch a /* ERROR cannot switch on a */ {
	//  	}
	//  }
	InvalidExprSwitch

	/* control flow > select */

	// InvalidSelectCase occurs when a select case is not a channel send or
	// receive.
	//
	// Example:
	//  func checkChan(c <-chan int) bool {
	//  	select {
	//  	case c:
	//  		return true
	//  	default:
	//  		return false
	//  	}
	//  }
	InvalidSelectCase

	/* control flow > labels and jumps */

	// UndeclaredLabel occurs when an undeclared label is jumped to.
	//
	// Example:
	//  func f() {
	//  	goto L
	//  }
	UndeclaredLabel

	// DuplicateLabel occurs when a label is declared more than once.
	//
	// Example:
	//  func f() int {
	//  L:
	//  L:
	//  	return 1
	//  }
	DuplicateLabel

	// MisplacedLabel occurs when a break or continue label is not on a for,
	// switch, or select statement.
	//
	// Example:
	//  func f() {
	//  L:
	//  	a := []int{1,2,3}
	//  	for _, e := range a {
	//  		if e > 10 {
	//  			break L
	//  		}
	//  		println(a)
	//  	}
	//  }
	MisplacedLabel

	// UnusedLabel occurs when a label is declared but not used.
	//
	// Example:
	//  func f() {
	//  L:
	//  }
	UnusedLabel

	// JumpOverDecl occurs when a label jumps over a variable declaration.
	//
	// Example:
	//  func f() int {
	//  	goto L
	//  	x := 2
	//  L:
	//  	x++
	//  	return x
	//  }
	JumpOverDecl

	// JumpIntoBlock occurs when a forward jump goes to a label inside a nested
	// block.
	//
	// Example:
	//  func f(x int) {
	//  	goto L
	//  	if x > 0 {
	//  	L:
	//  		print("inside block")
	//  	}
	// }
	JumpIntoBlock

	/* control flow > calls */

	// InvalidMethodExpr occurs when a pointer method is called but the argument
	// is not addressable.
	//
	// Example:
	//  type T struct {}
	//
	//  func (*T) m() int { return 1 }
	//
	//  var _ = T.m(T{})
	InvalidMethodExpr

	// WrongArgCount occurs when too few or too many arguments are passed by a
	// function call.
	//
	// Example:
	//  func f(i int) {}
	//  var x = f()
	WrongArgCount

	// InvalidCall occurs when an expression is called that is not of function
	// type.
	//
	// Example:
	//  var x = "x"
	//  var y = x()
	InvalidCall

	/* control flow > suspended */

	// UnusedResults occurs when a restricted expression-only built-in function
	// is suspended via go or defer. Such a suspension discards the results of
	// these side-effect free built-in functions, and therefore is ineffectual.
	//
	// Example:
	//  func f(a []int) int {
	//  	defer len(a)
	//  	return i
	//  }
	UnusedResults

	// InvalidDefer occurs when a deferred expression is not a function call,
	// for example if the expression is a type conversion.
	//
	// Example:
	//  func f(i int) int {
	//  	defer int32(i)
	//  	return i
	//  }
	InvalidDefer

	// InvalidGo occurs when a go expression is not a function call, for example
	// if the expression is a type conversion.
	//
	// Example:
	//  func f(i int) int {
	//  	go int32(i)
	//  	return i
	//  }
	InvalidGo

	// All codes below were added in Go 1.17.

	/* decl */

	// BadDecl occurs when a declaration has invalid syntax.
	BadDecl

	// RepeatedDecl occurs when an identifier occurs more than once on the left
	// hand side of a short variable declaration.
	//
	// Example:
	//  func _() {
	//  	x, y, y := 1, 2, 3
	//  }
	RepeatedDecl

	/* unsafe */

	// InvalidUnsafeAdd occurs when unsafe.Add is called with a
	// length argument that is not of integer type.
	//
	// Example:
	//  import "unsafe"
	//
	//  var p unsafe.Pointer
	//  var _ = unsafe.Add(p, float64(1))
	InvalidUnsafeAdd

	// InvalidUnsafeSlice occurs when unsafe.Slice is called with a
	// pointer argument that is not of pointer type or a length argument
	// that is not of integer type, negative, or out of bounds.
	//
	// Example:
	//  import "unsafe"
	//
	//  var x int
	//  var _ = unsafe.Slice(x, 1)
	//
	// Example:
	//  import "unsafe"
	//
	//  var x int
	//  var _ = unsafe.Slice(&x, float64(1))
	//
	// Example:
	//  import "unsafe"
	//
	//  var x int
	//  var _ = unsafe.Slice(&x, -1)
	//
	// Example:
	//  import "unsafe"
	//
	//  var x int
	//  var _ = unsafe.Slice(&x, uint64(1) << 63)
	InvalidUnsafeSlice

	// All codes below were added in Go 1.18.

	/* features */

	// UnsupportedFeature occurs when a language feature is used that is not
	// supported at this Go version.
	UnsupportedFeature

	/* type params */

	// NotAGenericType occurs when a non-generic type is used where a generic
	// type is expected: in type or function instantiation.
	//
	// Example:
	//  type T int
	//
	//  var _ T[int]
	NotAGenericType

	// WrongTypeArgCount occurs when a type or function is instantiated with an
	// incorrect number of type arguments, including when a generic type or
	// function is used without instantiation.
	//
	// Errors involving failed type inference are assigned other error codes.
	//
	// Example:
	//  type T[p any] int
	//
	//  var _ T[int, string]
	//
	// Example:
	//  func f[T any]() {}
	//
	//  var x = f
	WrongTypeArgCount

	// CannotInferTypeArgs occurs when type or function type argument inference
	// fails to infer all type arguments.
	//
	// Example:
	//  func f[T any]() {}
	//
	//  func _() {
	//  	f()
	//  }
	//
	// Example:
	//   type N[P, Q any] struct{}
	//
	//   var _ N[int]
	CannotInferTypeArgs

	// InvalidTypeArg occurs when a type argument does not satisfy its
	// corresponding type parameter constraints.
	//
	// Example:
	//  type T[P ~int] struct{}
	//
	//  var _ T[string]
	InvalidTypeArg // arguments? InferenceFailed

	// InvalidInstanceCycle occurs when an invalid cycle is detected
	// within the instantiation graph.
	//
	// Example:
	//  func f[T any]() { f[*T]() }
	InvalidInstanceCycle

	// InvalidUnion occurs when an embedded union or approximation element is
	// not valid.
	//
	// Example:
	//  type _ interface {
	//   	~int | interface{ m() }
	//  }
	InvalidUnion

	// MisplacedConstraintIface occurs when a constraint-type interface is used
	// outside of constraint position.
	//
	// Example:
	//   type I interface { ~int }
	//
	//   var _ I
	MisplacedConstraintIface

	// InvalidMethodTypeParams occurs when methods have type parameters.
	//
	// It cannot be encountered with an AST parsed using go/parser.
	InvalidMethodTypeParams

	// MisplacedTypeParam occurs when a type parameter is used in a place where
	// it is not permitted.
	//
	// Example:
	//  type T[P any] P
	//
	// Example:
	//  type T[P any] struct{ *P }
	MisplacedTypeParam

	// InvalidUnsafeSliceData occurs when unsafe.SliceData is called with
	// an argument that is not of slice type. It also occurs if it is used
	// in a package compiled for a language version before go1.20.
	//
	// Example:
	//  import "unsafe"
	//
	//  var x int
	//  var _ = unsafe.SliceData(x)
	InvalidUnsafeSliceData

	// InvalidUnsafeString occurs when unsafe.String is called with
	// a length argument that is not of integer type, negative, or
	// out of bounds. It also occurs if it is used in a package
	// compiled for a language version before go1.20.
	//
	// Example:
	//  import "unsafe"
	//
	//  var b [10]byte
	//  var _ = unsafe.String(&b[0], -1)
	InvalidUnsafeString

	// InvalidUnsafeStringData occurs if it is used in a package
	// compiled for a language version before go1.20.
	_ // not used anymore

)
