// Copyright 2024 The Go Authors. All rights reserved.
// Use of this source code is governed by a BSD-style
// license that can be found in the LICENSE file.

package typesinternal

import (
	"fmt"
	"go/types"

	"golang.org/x/tools/go/types/typeutil"
)

// ForEachElement calls f for type T and each type reachable from its
// type through reflection. It does this by recursively stripping off
// type constructors; in addition, for each named type N, the type *N
// is added to the result as it may have additional methods.
//
// The caller must provide an initially empty set used to de-duplicate
// identical types, potentially across multiple calls to ForEachElement.
// (Its final value holds all the elements seen, matching the arguments
// passed to f.)
//
// TODO(adonovan): share/harmonize with go/callgraph/rta.
func ForEachElement(rtypes *typeutil.Map, msets *typeutil.MethodSetCache, T types.Type, f func(types.Type)) {
	var visit func(T types.Type, skip bool)
	visit = func(T types.Type, skip bool) {
		if !skip {
			if seen, _ := rtypes.Set(T, true).(bool); seen {
				return // de-dup
			}

			f(T) // notify caller of new element type
		}

		// Recursion over signatures of each method.
		tmset := msets.MethodSet(T)
		for i := 0; i < tmset.Len(); i++ {
			sig := tmset.At(i).Type().(*types.Signature)
			// It is tempting to call visit(sig, false)
			// but, as noted in golang.org/cl/65450043,
			// the Signature.Recv field is ignored by
			// types.Identical and typeutil.Map, which
			// is confusing at best.
			//
			// More importantly, the true signature rtype
			// reachable from a method using reflection
			// has no receiver but an extra ordinary parameter.
			// For the Read method of io.Reader we want:
			//   func(Reader, []byte) (int, error)
			// but here sig is:
			//   func([]byte) (int, error)
			// with .Recv = Reader (though it is hard to
			// notice because it doesn't affect Signature.String
			// or types.Identical).
			//
			// TODO(adonovan): construct and visit the correct
			// non-method signature with an extra parameter
			// (though since unnamed func types have no methods
			// there is essentially no actual demand for this).
			//
			// TODO(adonovan): document whether or not it is
			// safe to skip non-exported methods (as RTA does).
			visit(sig.Params(), true)  // skip the Tuple
			visit(sig.Results(), true) // skip the Tuple
		}

		switch T := T.(type) {
		case *types.Alias:
			visit(types.Unalias(T), skip) // emulates the pre-Alias behavior

		case *types.Basic:
			// nop

		case *types.Interface:
			// nop---handled by recursion over method set.

		case *types.Pointer:
			visit(T.Elem(), false)

		case *types.Slice:
			visit(T.Elem(), false)

		case *types.Chan:
			visit(T.Elem(), false)

		case *types.Map:
			visit(T.Key(), false)
			visit(T.Elem(), false)

		case *types.Signature:
			if T.Recv() != nil {
				panic(fmt.Sprintf("Signature %s has Recv %s", T, T.Recv()))
			}
			visit(T.Params(), true)  // skip the Tuple
			visit(T.Results(), true) // skip the Tuple

		case *types.Named:
			// A pointer-to-named type can be derived from a named
			// type via reflection.  It may have methods too.
			visit(types.NewPointer(T), false)

			// Consider 'type T struct{S}' where S has methods.
			// Reflection provides no way to get from T to struct{S},
			// only to S, so the method set of struct{S} is unwanted,
			// so set 'skip' flag during recursion.
			visit(T.Underlying(), true) // skip the unnamed type

		case *types.Array:
			visit(T.Elem(), false)

		case *types.Struct:
			for i, n := 0, T.NumFields(); i < n; i++ {
				// TODO(adonovan): document whether or not
				// it is safe to skip non-exported fields.
				visit(T.Field(i).Type(), false)
			}

		case *types.Tuple:
			for i, n := 0, T.Len(); i < n; i++ {
				visit(T.At(i).Type(), false)
			}

		case *types.TypeParam, *types.Union:
			// forEachReachable must not be called on parameterized types.
			panic(T)

		default:
			panic(T)
		}
	}
	visit(T, false)
}
