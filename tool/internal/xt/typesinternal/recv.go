// Copyright 2024 The Go Authors. All rights reserved.
// Use of this source code is governed by a BSD-style
// license that can be found in the LICENSE file.

package typesinternal

import (
	"go/types"
)

// ReceiverNamed returns the named type (if any) associated with the
// type of recv, which may be of the form N or *N, or aliases thereof.
// It also reports whether a Pointer was present.
//
// The named result may be nil in ill-typed code.
func ReceiverNamed(recv *types.Var) (isPtr bool, named *types.Named) {
	t := recv.Type()
	if ptr, ok := types.Unalias(t).(*types.Pointer); ok {
		isPtr = true
		t = ptr.Elem()
	}
	named, _ = types.Unalias(t).(*types.Named)
	return
}

// Unpointer returns T given *T or an alias thereof.
// For all other types it is the identity function.
// It does not look at underlying types.
// The result may be an alias.
//
// Use this function to strip off the optional pointer on a receiver
// in a field or method selection, without losing the named type
// (which is needed to compute the method set).
//
// See also [typeparams.MustDeref], which removes one level of
// indirection from the type, regardless of named types (analogous to
// a LOAD instruction).
func Unpointer(t types.Type) types.Type {
	if ptr, ok := types.Unalias(t).(*types.Pointer); ok {
		return ptr.Elem()
	}
	return t
}
