// Copyright 2024 The Go Authors. All rights reserved.
// Use of this source code is governed by a BSD-style
// license that can be found in the LICENSE file.

package aliases

import (
	"go/token"
	"go/types"
)

// Package aliases defines backward compatible shims
// for the types.Alias type representation added in 1.22.
// This defines placeholders for x/tools until 1.26.

// NewAlias creates a new TypeName in Package pkg that
// is an alias for the type rhs.
//
// The enabled parameter determines whether the resulting [TypeName]'s
// type is an [types.Alias]. Its value must be the result of a call to
// [Enabled], which computes the effective value of
// GODEBUG=gotypesalias=... by invoking the type checker. The Enabled
// function is expensive and should be called once per task (e.g.
// package import), not once per call to NewAlias.
//
// Precondition: enabled || len(tparams)==0.
// If materialized aliases are disabled, there must not be any type parameters.
func NewAlias(enabled bool, pos token.Pos, pkg *types.Package, name string, rhs types.Type, tparams []*types.TypeParam) *types.TypeName {
	if enabled {
		tname := types.NewTypeName(pos, pkg, name, nil)
		SetTypeParams(types.NewAlias(tname, rhs), tparams)
		return tname
	}
	if len(tparams) > 0 {
		panic("cannot create an alias with type parameters when gotypesalias is not enabled")
	}
	return types.NewTypeName(pos, pkg, name, rhs)
}
