// Copyright 2024 The Go Authors. All rights reserved.
// Use of this source code is governed by a BSD-style
// license that can be found in the LICENSE file.

package aliases

import (
	"go/ast"
	"go/parser"
	"go/token"
	"go/types"
)

// Rhs returns the type on the right-hand side of the alias declaration.
func Rhs(alias *types.Alias) types.Type {
	if alias, ok := any(alias).(interface{ Rhs() types.Type }); ok {
		return alias.Rhs() // go1.23+
	}

	// go1.22's Alias didn't have the Rhs method,
	// so Unalias is the best we can do.
	return types.Unalias(alias)
}

// TypeParams returns the type parameter list of the alias.
func TypeParams(alias *types.Alias) *types.TypeParamList {
	if alias, ok := any(alias).(interface{ TypeParams() *types.TypeParamList }); ok {
		return alias.TypeParams() // go1.23+
	}
	return nil
}

// SetTypeParams sets the type parameters of the alias type.
func SetTypeParams(alias *types.Alias, tparams []*types.TypeParam) {
	if alias, ok := any(alias).(interface {
		SetTypeParams(tparams []*types.TypeParam)
	}); ok {
		alias.SetTypeParams(tparams) // go1.23+
	} else if len(tparams) > 0 {
		panic("cannot set type parameters of an Alias type in go1.22")
	}
}

// TypeArgs returns the type arguments used to instantiate the Alias type.
func TypeArgs(alias *types.Alias) *types.TypeList {
	if alias, ok := any(alias).(interface{ TypeArgs() *types.TypeList }); ok {
		return alias.TypeArgs() // go1.23+
	}
	return nil // empty (go1.22)
}

// Origin returns the generic Alias type of which alias is an instance.
// If alias is not an instance of a generic alias, Origin returns alias.
func Origin(alias *types.Alias) *types.Alias {
	if alias, ok := any(alias).(interface{ Origin() *types.Alias }); ok {
		return alias.Origin() // go1.23+
	}
	return alias // not an instance of a generic alias (go1.22)
}

// Enabled reports whether [NewAlias] should create [types.Alias] types.
//
// This function is expensive! Call it sparingly.
func Enabled() bool {
	// The only reliable way to compute the answer is to invoke go/types.
	// We don't parse the GODEBUG environment variable, because
	// (a) it's tricky to do so in a manner that is consistent
	//     with the godebug package; in particular, a simple
	//     substring check is not good enough. The value is a
	//     rightmost-wins list of options. But more importantly:
	// (b) it is impossible to detect changes to the effective
	//     setting caused by os.Setenv("GODEBUG"), as happens in
	//     many tests. Therefore any attempt to cache the result
	//     is just incorrect.
	fset := token.NewFileSet()
	f, _ := parser.ParseFile(fset, "a.go", "package p; type A = int", parser.SkipObjectResolution)
	pkg, _ := new(types.Config).Check("p", fset, []*ast.File{f}, nil)
	_, enabled := pkg.Scope().Lookup("A").Type().(*types.Alias)
	return enabled
}
