// Copyright 2023 The Go Authors. All rights reserved.
// Use of this source code is governed by a BSD-style
// license that can be found in the LICENSE file.

package astutil

import (
	"go/ast"
	"reflect"
)

// CloneNode returns a deep copy of a Node.
// It omits pointers to ast.{Scope,Object} variables.
func CloneNode[T ast.Node](n T) T {
	return cloneNode(n).(T)
}

func cloneNode(n ast.Node) ast.Node {
	var clone func(x reflect.Value) reflect.Value
	set := func(dst, src reflect.Value) {
		src = clone(src)
		if src.IsValid() {
			dst.Set(src)
		}
	}
	clone = func(x reflect.Value) reflect.Value {
		switch x.Kind() {
		case reflect.Ptr:
			if x.IsNil() {
				return x
			}
			// Skip fields of types potentially involved in cycles.
			switch x.Interface().(type) {
			case *ast.Object, *ast.Scope:
				return reflect.Zero(x.Type())
			}
			y := reflect.New(x.Type().Elem())
			set(y.Elem(), x.Elem())
			return y

		case reflect.Struct:
			y := reflect.New(x.Type()).Elem()
			for i := 0; i < x.Type().NumField(); i++ {
				set(y.Field(i), x.Field(i))
			}
			return y

		case reflect.Slice:
			if x.IsNil() {
				return x
			}
			y := reflect.MakeSlice(x.Type(), x.Len(), x.Cap())
			for i := 0; i < x.Len(); i++ {
				set(y.Index(i), x.Index(i))
			}
			return y

		case reflect.Interface:
			y := reflect.New(x.Type()).Elem()
			set(y, x.Elem())
			return y

		case reflect.Array, reflect.Chan, reflect.Func, reflect.Map, reflect.UnsafePointer:
			panic(x) // unreachable in AST

		default:
			return x // bool, string, number
		}
	}
	return clone(reflect.ValueOf(n)).Interface().(ast.Node)
}
