// Copyright 2021 The Go Authors. All rights reserved.
// Use of this source code is governed by a BSD-style
// license that can be found in the LICENSE file.

// Package typeparams contains common utilities for writing tools that
// interact with generic Go code, as introduced with Go 1.18. It
// supplements the standard library APIs. Notably, the StructuralTerms
// API computes a minimal representation of the structural
// restrictions on a type parameter.
//
// An external version of these APIs is available in the
// golang.org/x/exp/typeparams module.
package typeparams

import (
	"go/ast"
	"go/token"
	"go/types"
)

// UnpackIndexExpr extracts data from AST nodes that represent index
// expressions.
//
// For an ast.IndexExpr, the resulting indices slice will contain exactly one
// index expression. For an ast.IndexListExpr (go1.18+), it may have a variable
// number of index expressions.
//
// For nodes that don't represent index expressions, the first return value of
// UnpackIndexExpr will be nil.
func UnpackIndexExpr(n ast.Node) (x ast.Expr, lbrack token.Pos, indices []ast.Expr, rbrack token.Pos) {
	switch e := n.(type) {
	case *ast.IndexExpr:
		return e.X, e.Lbrack, []ast.Expr{e.Index}, e.Rbrack
	case *ast.IndexListExpr:
		return e.X, e.Lbrack, e.Indices, e.Rbrack
	}
	return nil, token.NoPos, nil, token.NoPos
}

// PackIndexExpr returns an *ast.IndexExpr or *ast.IndexListExpr, depending on
// the cardinality of indices. Calling PackIndexExpr with len(indices) == 0
// will panic.
func PackIndexExpr(x ast.Expr, lbrack token.Pos, indices []ast.Expr, rbrack token.Pos) ast.Expr {
	switch len(indices) {
	case 0:
		panic("empty indices")
	case 1:
		return &ast.IndexExpr{
			X:      x,
			Lbrack: lbrack,
			Index:  indices[0],
			Rbrack: rbrack,
		}
	default:
		return &ast.IndexListExpr{
			X:       x,
			Lbrack:  lbrack,
			Indices: indices,
			Rbrack:  rbrack,
		}
	}
}

// IsTypeParam reports whether t is a type parameter (or an alias of one).
func IsTypeParam(t types.Type) bool {
	_, ok := types.Unalias(t).(*types.TypeParam)
	return ok
}
