// Copyright 2022 The Go Authors. All rights reserved.
// Use of this source code is governed by a BSD-style
// license that can be found in the LICENSE file.

package typeparams

import (
	"fmt"
	"go/types"
)

// CoreType returns the core type of T or nil if T does not have a core type.
//
// See https://go.dev/ref/spec#Core_types for the definition of a core type.
func CoreType(T types.Type) types.Type {
	U := T.Underlying()
	if _, ok := U.(*types.Interface); !ok {
		return U // for non-interface types,
	}

	terms, err := NormalTerms(U)
	if len(terms) == 0 || err != nil {
		// len(terms) -> empty type set of interface.
		// err != nil => U is invalid, exceeds complexity bounds, or has an empty type set.
		return nil // no core type.
	}

	U = terms[0].Type().Underlying()
	var identical int // i in [0,identical) => Identical(U, terms[i].Type().Underlying())
	for identical = 1; identical < len(terms); identical++ {
		if !types.Identical(U, terms[identical].Type().Underlying()) {
			break
		}
	}

	if identical == len(terms) {
		// https://go.dev/ref/spec#Core_types
		// "There is a single type U which is the underlying type of all types in the type set of T"
		return U
	}
	ch, ok := U.(*types.Chan)
	if !ok {
		return nil // no core type as identical < len(terms) and U is not a channel.
	}
	// https://go.dev/ref/spec#Core_types
	// "the type chan E if T contains only bidirectional channels, or the type chan<- E or
	// <-chan E depending on the direction of the directional channels present."
	for chans := identical; chans < len(terms); chans++ {
		curr, ok := terms[chans].Type().Underlying().(*types.Chan)
		if !ok {
			return nil
		}
		if !types.Identical(ch.Elem(), curr.Elem()) {
			return nil // channel elements are not identical.
		}
		if ch.Dir() == types.SendRecv {
			// ch is bidirectional. We can safely always use curr's direction.
			ch = curr
		} else if curr.Dir() != types.SendRecv && ch.Dir() != curr.Dir() {
			// ch and curr are not bidirectional and not the same direction.
			return nil
		}
	}
	return ch
}

// NormalTerms returns a slice of terms representing the normalized structural
// type restrictions of a type, if any.
//
// For all types other than *types.TypeParam, *types.Interface, and
// *types.Union, this is just a single term with Tilde() == false and
// Type() == typ. For *types.TypeParam, *types.Interface, and *types.Union, see
// below.
//
// Structural type restrictions of a type parameter are created via
// non-interface types embedded in its constraint interface (directly, or via a
// chain of interface embeddings). For example, in the declaration type
// T[P interface{~int; m()}] int the structural restriction of the type
// parameter P is ~int.
//
// With interface embedding and unions, the specification of structural type
// restrictions may be arbitrarily complex. For example, consider the
// following:
//
//	type A interface{ ~string|~[]byte }
//
//	type B interface{ int|string }
//
//	type C interface { ~string|~int }
//
//	type T[P interface{ A|B; C }] int
//
// In this example, the structural type restriction of P is ~string|int: A|B
// expands to ~string|~[]byte|int|string, which reduces to ~string|~[]byte|int,
// which when intersected with C (~string|~int) yields ~string|int.
//
// NormalTerms computes these expansions and reductions, producing a
// "normalized" form of the embeddings. A structural restriction is normalized
// if it is a single union containing no interface terms, and is minimal in the
// sense that removing any term changes the set of types satisfying the
// constraint. It is left as a proof for the reader that, modulo sorting, there
// is exactly one such normalized form.
//
// Because the minimal representation always takes this form, NormalTerms
// returns a slice of tilde terms corresponding to the terms of the union in
// the normalized structural restriction. An error is returned if the type is
// invalid, exceeds complexity bounds, or has an empty type set. In the latter
// case, NormalTerms returns ErrEmptyTypeSet.
//
// NormalTerms makes no guarantees about the order of terms, except that it
// is deterministic.
func NormalTerms(typ types.Type) ([]*types.Term, error) {
	switch typ := typ.Underlying().(type) {
	case *types.TypeParam:
		return StructuralTerms(typ)
	case *types.Union:
		return UnionTermSet(typ)
	case *types.Interface:
		return InterfaceTermSet(typ)
	default:
		return []*types.Term{types.NewTerm(false, typ)}, nil
	}
}

// Deref returns the type of the variable pointed to by t,
// if t's core type is a pointer; otherwise it returns t.
//
// Do not assume that Deref(T)==T implies T is not a pointer:
// consider "type T *T", for example.
//
// TODO(adonovan): ideally this would live in typesinternal, but that
// creates an import cycle. Move there when we melt this package down.
func Deref(t types.Type) types.Type {
	if ptr, ok := CoreType(t).(*types.Pointer); ok {
		return ptr.Elem()
	}
	return t
}

// MustDeref returns the type of the variable pointed to by t.
// It panics if t's core type is not a pointer.
//
// TODO(adonovan): ideally this would live in typesinternal, but that
// creates an import cycle. Move there when we melt this package down.
func MustDeref(t types.Type) types.Type {
	if ptr, ok := CoreType(t).(*types.Pointer); ok {
		return ptr.Elem()
	}
	panic(fmt.Sprintf("%v is not a pointer", t))
}
