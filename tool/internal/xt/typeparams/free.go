// Copyright 2024 The Go Authors. All rights reserved.
// Use of this source code is governed by a BSD-style
// license that can be found in the LICENSE file.

package typeparams

import (
	"go/types"

	"bbcheck/internal/xt/aliases"
)

// Free is a memoization of the set of free type parameters within a
// type. It makes a sequence of calls to [Free.Has] for overlapping
// types more efficient. The zero value is ready for use.
//
// NOTE: Adapted from go/types/infer.go. If it is later exported, factor.
type Free struct {
	seen map[types.Type]bool
}

// Has reports whether the specified type has a free type parameter.
func (w *Free) Has(typ types.Type) (res bool) {
	// detect cycles
	if x, ok := w.seen[typ]; ok {
		return x
	}
	if w.seen == nil {
		w.seen = make(map[types.Type]bool)
	}
	w.seen[typ] = false
	defer func() {
		w.seen[typ] = res
	}()

	switch t := typ.(type) {
	case nil, *types.Basic: // TODO(gri) should nil be handled here?
		break

	case *types.Alias:
		if aliases.TypeParams(t).Len() > aliases.TypeArgs(t).Len() {
			return true // This is an uninstantiated Alias.
		}
		// The expansion of an alias can have free type parameters,
		// whether or not the alias itself has type parameters:
		//
		//   func _[K comparable]() {
		//     type Set      = map[K]bool // free(Set)      = {K}
		//     type MapTo[V] = map[K]V    // free(Map[foo]) = {V}
		//   }
		//
		// So, we must Unalias.
		return w.Has(types.Unalias(t))

	case *types.Array:
		return w.Has(t.Elem())

	case *types.Slice:
		return w.Has(t.Elem())

	case *types.Struct:
		for i, n := 0, t.NumFields(); i < n; i++ {
			if w.Has(t.Field(i).Type()) {
				return true
			}
		}

	case *types.Pointer:
		return w.Has(t.Elem())

	case *types.Tuple:
		n := t.Len()
		for i := 0; i < n; i++ {
			if w.Has(t.At(i).Type()) {
				return true
			}
		}

	case *types.Signature:
		// t.tparams may not be nil if we are looking at a signature
		// of a generic function type (or an interface method) that is
		// part of the type we're testing. We don't care about these type
		// parameters.
		// Similarly, the receiver of a method may declare (rather than
		// use) type parameters, we don't care about those either.
		// Thus, we only need to look at the input and result parameters.
		return w.Has(t.Params()) || w.Has(t.Results())

	case *types.Interface:
		for i, n := 0, t.NumMethods(); i < n; i++ {
			if w.Has(t.Method(i).Type()) {
				return true
			}
		}
		terms, err := InterfaceTermSet(t)
		if err != nil {
			return false // ill typed
		}
		for _, term := range terms {
			if w.Has(term.Type()) {
				return true
			}
		}

	case *types.Map:
		return w.Has(t.Key()) || w.Has(t.Elem())

	case *types.Chan:
		return w.Has(t.Elem())

	case *types.Named:
		args := t.TypeArgs()
		if params := t.TypeParams(); params.Len() > args.Len() {
			return true // this is an uninstantiated named type.
		}
		for i, n := 0, args.Len(); i < n; i++ {
			if w.Has(args.At(i)) {
				return true
			}
		}
		return w.Has(t.Underlying()) // recurse for types local to parameterized functions

	case *types.TypeParam:
		return true

	default:
		panic(t) // unreachable
	}

	return false
}
