// Copyright 2021 The Go Authors. All rights reserved.
// Use of this source code is governed by a BSD-style
// license that can be found in the LICENSE file.

package typeparams

import (
	"errors"
	"fmt"
	"go/types"
	"os"
	"strings"
)

//go:generate go run copytermlist.go

const debug = false

var ErrEmptyTypeSet = errors.New("empty type set")

// StructuralTerms returns a slice of terms representing the normalized
// structural type restrictions of a type parameter, if any.
//
// Structural type restrictions of a type parameter are created via
// non-interface types embedded in its constraint interface (directly, or via a
// chain of interface embeddings). For example, in the declaration
//
//	type T[P interface{~int; m()}] int
//
// the structural restriction of the type parameter P is ~int.
//
// With interface embedding and unions, the specification of structural type
// restrictions may be arbitrarily complex. For example, consider the
// following:
//
//	type A interface{ ~string|~[]byte }
//
//	type B interface{ int|string }
//
//	type C interface { ~string|~int }
//
//	type T[P interface{ A|B; C }] int
//
// In this example, the structural type restriction of P is ~string|int: A|B
// expands to ~string|~[]byte|int|string, which reduces to ~string|~[]byte|int,
// which when intersected with C (~string|~int) yields ~string|int.
//
// StructuralTerms computes these expansions and reductions, producing a
// "normalized" form of the embeddings. A structural restriction is normalized
// if it is a single union containing no interface terms, and is minimal in the
// sense that removing any term changes the set of types satisfying the
// constraint. It is left as a proof for the reader that, modulo sorting, there
// is exactly one such normalized form.
//
// Because the minimal representation always takes this form, StructuralTerms
// returns a slice of tilde terms corresponding to the terms of the union in
// the normalized structural restriction. An error is returned if the
// constraint interface is invalid, exceeds complexity bounds, or has an empty
// type set. In the latter case, StructuralTerms returns ErrEmptyTypeSet.
//
// StructuralTerms makes no guarantees about the order of terms, except that it
// is deterministic.
func StructuralTerms(tparam *types.TypeParam) ([]*types.Term, error) {
	constraint := tparam.Constraint()
	if constraint == nil {
		return nil, fmt.Errorf("%s has nil constraint", tparam)
	}
	iface, _ := constraint.Underlying().(*types.Interface)
	if iface == nil {
		return nil, fmt.Errorf("constraint is %T, not *types.Interface", constraint.Underlying())
	}
	return InterfaceTermSet(iface)
}

// InterfaceTermSet computes the normalized terms for a constraint interface,
// returning an error if the term set cannot be computed or is empty. In the
// latter case, the error will be ErrEmptyTypeSet.
//
// See the documentation of StructuralTerms for more information on
// normalization.
func InterfaceTermSet(iface *types.Interface) ([]*types.Term, error) {
	return computeTermSet(iface)
}

// UnionTermSet computes the normalized terms for a union, returning an error
// if the term set cannot be computed or is empty. In the latter case, the
// error will be ErrEmptyTypeSet.
//
// See the documentation of StructuralTerms for more information on
// normalization.
func UnionTermSet(union *types.Union) ([]*types.Term, error) {
	return computeTermSet(union)
}

func computeTermSet(typ types.Type) ([]*types.Term, error) {
	tset, err := computeTermSetInternal(typ, make(map[types.Type]*termSet), 0)
	if err != nil {
		return nil, err
	}
	if tset.terms.isEmpty() {
		return nil, ErrEmptyTypeSet
	}
	if tset.terms.isAll() {
		return nil, nil
	}
	var terms []*types.Term
	for _, term := range tset.terms {
		terms = append(terms, types.NewTerm(term.tilde, term.typ))
	}
	return terms, nil
}

// A termSet holds the normalized set of terms for a given type.
//
// The name termSet is intentionally distinct from 'type set': a type set is
// all types that implement a type (and includes method restrictions), whereas
// a term set just represents the structural restrictions on a type.
type termSet struct {
	complete bool
	terms    termlist
}

func indentf(depth int, format string, args ...interface{}) {
	fmt.Fprintf(os.Stderr, strings.Repeat(".", depth)+format+"\n", args...)
}

func computeTermSetInternal(t types.Type, seen map[types.Type]*termSet, depth int) (res *termSet, err error) {
	if t == nil {
		panic("nil type")
	}

	if debug {
		indentf(depth, "%s", t.String())
		defer func() {
			if err != nil {
				indentf(depth, "=> %s", err)
			} else {
				indentf(depth, "=> %s", res.terms.String())
			}
		}()
	}

	const maxTermCount = 100
	if tset, ok := seen[t]; ok {
		if !tset.complete {
			return nil, fmt.Errorf("cycle detected in the declaration of %s", t)
		}
		return tset, nil
	}

	// Mark the current type as seen to avoid infinite recursion.
	tset := new(termSet)
	defer func() {
		tset.complete = true
	}()
	seen[t] = tset

	switch u := t.Underlying().(type) {
	case *types.Interface:
		// The term set of an interface is the intersection of the term sets of its
		// embedded types.
		tset.terms = allTermlist
		for i := 0; i < u.NumEmbeddeds(); i++ {
			embedded := u.EmbeddedType(i)
			if _, ok := embedded.Underlying().(*types.TypeParam); ok {
				return nil, fmt.Errorf("invalid embedded type %T", embedded)
			}
			tset2, err := computeTermSetInternal(embedded, seen, depth+1)
			if err != nil {
				return nil, err
			}
			tset.terms = tset.terms.intersect(tset2.terms)
		}
	case *types.Union:
		// The term set of a union is the union of term sets of its terms.
		tset.terms = nil
		for i := 0; i < u.Len(); i++ {
			t := u.Term(i)
			var terms termlist
			switch t.Type().Underlying().(type) {
			case *types.Interface:
				tset2, err := computeTermSetInternal(t.Type(), seen, depth+1)
				if err != nil {
					return nil, err
				}
				terms = tset2.terms
			case *types.TypeParam, *types.Union:
				// A stand-alone type parameter or union is not permitted as union
				// term.
				return nil, fmt.Errorf("invalid union term %T", t)
			default:
				if t.Type() == types.Typ[types.Invalid] {
					continue
				}
				terms = termlist{{t.Tilde(), t.Type()}}
			}
			tset.terms = tset.terms.union(terms)
			if len(tset.terms) > maxTermCount {
				return nil, fmt.Errorf("exceeded max term count %d", maxTermCount)
			}
		}
	case *types.TypeParam:
		panic("unreachable")
	default:
		// For all other types, the term set is just a single non-tilde term
		// holding the type itself.
		if u != types.Typ[types.Invalid] {
			tset.terms = termlist{{false, t}}
		}
	}
	return tset, nil
}

// under is a facade for the go/types internal function of the same name. It is
// used by typeterm.go.
func under(t types.Type) types.Type {
	return t.Underlying()
}
