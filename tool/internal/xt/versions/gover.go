// Copyright 2023 The Go Authors. All rights reserved.
// Use of this source code is governed by a BSD-style
// license that can be found in the LICENSE file.

// This is a fork of internal/gover for use by x/tools until
// go1.21 and earlier are no longer supported by x/tools.

package versions

import "strings"

// A gover is a parsed Go gover: major[.Minor[.Patch]][kind[pre]]
// The numbers are the original decimal strings to avoid integer overflows
// and since there is very little actual math. (Probably overflow doesn't matter in practice,
// but at the time this code was written, there was an existing test that used
// go1.99999999999, which does not fit in an int on 32-bit platforms.
// The "big decimal" representation avoids the problem entirely.)
type gover struct {
	major string // decimal
	minor string // decimal or ""
	patch string // decimal or ""
	kind  string // "", "alpha", "beta", "rc"
	pre   string // decimal or ""
}

// compare returns -1, 0, or +1 depending on whether
// x < y, x == y, or x > y, interpreted as toolchain versions.
// The versions x and y must not begin with a "go" prefix: just "1.21" not "go1.21".
// Malformed versions compare less than well-formed versions and equal to each other.
// The language version "1.21" compares less than the release candidate and eventual releases "1.21rc1" and "1.21.0".
func compare(x, y string) int {
	vx := parse(x)
	vy := parse(y)

	if c := cmpInt(vx.major, vy.major); c != 0 {
		return c
	}
	if c := cmpInt(vx.minor, vy.minor); c != 0 {
		return c
	}
	if c := cmpInt(vx.patch, vy.patch); c != 0 {
		return c
	}
	if c := strings.Compare(vx.kind, vy.kind); c != 0 { // "" < alpha < beta < rc
		return c
	}
	if c := cmpInt(vx.pre, vy.pre); c != 0 {
		return c
	}
	return 0
}

// lang returns the Go language version. For example, lang("1.2.3") == "1.2".
func lang(x string) string {
	v := parse(x)
	if v.minor == "" || v.major == "1" && v.minor == "0" {
		return v.major
	}
	return v.major + "." + v.minor
}

// isValid reports whether the version x is valid.
func isValid(x string) bool {
	return parse(x) != gover{}
}

// parse parses the Go version string x into a version.
// It returns the zero version if x is malformed.
func parse(x string) gover {
	var v gover

	// Parse major version.
	var ok bool
	v.major, x, ok = cutInt(x)
	if !ok {
		return gover{}
	}
	if x == "" {
		// Interpret "1" as "1.0.0".
		v.minor = "0"
		v.patch = "0"
		return v
	}

	// Parse . before minor version.
	if x[0] != '.' {
		return gover{}
	}

	// Parse minor version.
	v.minor, x, ok = cutInt(x[1:])
	if !ok {
		return gover{}
	}
	if x == "" {
		// Patch missing is same as "0" for older versions.
		// Starting in Go 1.21, patch missing is different from explicit .0.
		if cmpInt(v.minor, "21") < 0 {
			v.patch = "0"
		}
		return v
	}

	// Parse patch if present.
	if x[0] == '.' {
		v.patch, x, ok = cutInt(x[1:])
		if !ok || x != "" {
			// Note that we are disallowing prereleases (alpha, beta, rc) for patch releases here (x != "").
			// Allowing them would be a bit confusing because we already have:
			//	1.21 < 1.21rc1
			// But a prerelease of a patch would have the opposite effect:
			//	1.21.3rc1 < 1.21.3
			// We've never needed them before, so let's not start now.
			return gover{}
		}
		return v
	}

	// Parse prerelease.
	i := 0
	for i < len(x) && (x[i] < '0' || '9' < x[i]) {
		if x[i] < 'a' || 'z' < x[i] {
			return gover{}
		}
		i++
	}
	if i == 0 {
		return gover{}
	}
	v.kind, x = x[:i], x[i:]
	if x == "" {
		return v
	}
	v.pre, x, ok = cutInt(x)
	if !ok || x != "" {
		return gover{}
	}

	return v
}

// cutInt scans the leading decimal number at the start of x to an integer
// and returns that value and the rest of the string.
func cutInt(x string) (n, rest string, ok bool) {
	i := 0
	for i < len(x) && '0' <= x[i] && x[i] <= '9' {
		i++
	}
	if i == 0 || x[0] == '0' && i != 1 { // no digits or unnecessary leading zero
		return "", "", false
	}
	return x[:i], x[i:], true
}

// cmpInt returns cmp.Compare(x, y) interpreting x and y as decimal numbers.
// (Copied from golang.org/x/mod/semver's compareInt.)
func cmpInt(x, y string) int {
	if x == y {
		return 0
	}
	if len(x) < len(y) {
		return -1
	}
	if len(x) > len(y) {
		return +1
	}
	if x < y {
		return -1
	} else {
		return +1
	}
}
