// Copyright 2023 The Go Authors. All rights reserved.
// Use of this source code is governed by a BSD-style
// license that can be found in the LICENSE file.

package versions

import (
	"go/ast"
	"go/types"
)

// FileVersion returns a file's Go version.
// The reported version is an unknown Future version if a
// version cannot be determined.
func FileVersion(info *types.Info, file *ast.File) string {
	// In tools built with Go >= 1.22, the Go version of a file
	// follow a cascades of sources:
	// 1) types.Info.FileVersion, which follows the cascade:
	//   1.a) file version (ast.File.GoVersion),
	//   1.b) the package version (types.Config.GoVersion), or
	// 2) is some unknown Future version.
	//
	// File versions require a valid package version to be provided to types
	// in Config.GoVersion. Config.GoVersion is either from the package's module
	// or the toolchain (go run). This value should be provided by go/packages
	// or unitchecker.Config.GoVersion.
	if v := info.FileVersions[file]; IsValid(v) {
		return v
	}
	// Note: we could instead return runtime.Version() [if valid].
	// This would act as a max version on what a tool can support.
	return Future
}
