// Copyright 2023 The Go Authors. All rights reserved.
// Use of this source code is governed by a BSD-style
// license that can be found in the LICENSE file.

package versions

import (
	"strings"
)

// Note: If we use build tags to use go/versions when go >=1.22,
// we run into go.dev/issue/53737. Under some operations users would see an
// import of "go/versions" even if they would not compile the file.
// For example, during `go get -u ./...` (go.dev/issue/64490) we do not try to include
// For this reason, this library just a clone of go/versions for the moment.

// Lang returns the Go language version for version x.
// If x is not a valid version, Lang returns the empty string.
// For example:
//
//	Lang("go1.21rc2") = "go1.21"
//	Lang("go1.21.2") = "go1.21"
//	Lang("go1.21") = "go1.21"
//	Lang("go1") = "go1"
//	Lang("bad") = ""
//	Lang("1.21") = ""
func Lang(x string) string {
	v := lang(stripGo(x))
	if v == "" {
		return ""
	}
	return x[:2+len(v)] // "go"+v without allocation
}

// Compare returns -1, 0, or +1 depending on whether
// x < y, x == y, or x > y, interpreted as Go versions.
// The versions x and y must begin with a "go" prefix: "go1.21" not "1.21".
// Invalid versions, including the empty string, compare less than
// valid versions and equal to each other.
// The language version "go1.21" compares less than the
// release candidate and eventual releases "go1.21rc1" and "go1.21.0".
// Custom toolchain suffixes are ignored during comparison:
// "go1.21.0" and "go1.21.0-bigcorp" are equal.
func Compare(x, y string) int { return compare(stripGo(x), stripGo(y)) }

// IsValid reports whether the version x is valid.
func IsValid(x string) bool { return isValid(stripGo(x)) }

// stripGo converts from a "go1.21" version to a "1.21" version.
// If v does not start with "go", stripGo returns the empty string (a known invalid version).
func stripGo(v string) string {
	v, _, _ = strings.Cut(v, "-") // strip -bigcorp suffix.
	if len(v) < 2 || v[:2] != "go" {
		return ""
	}
	return v[2:]
}
