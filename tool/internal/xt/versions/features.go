// Copyright 2023 The Go Authors. All rights reserved.
// Use of this source code is governed by a BSD-style
// license that can be found in the LICENSE file.

package versions

// This file contains predicates for working with file versions to
// decide when a tool should consider a language feature enabled.

// GoVersions that features in x/tools can be gated to.
const (
	Go1_18 = "go1.18"
	Go1_19 = "go1.19"
	Go1_20 = "go1.20"
	Go1_21 = "go1.21"
	Go1_22 = "go1.22"
)

// Future is an invalid unknown Go version sometime in the future.
// Do not use directly with Compare.
const Future = ""

// AtLeast reports whether the file version v comes after a Go release.
//
// Use this predicate to enable a behavior once a certain Go release
// has happened (and stays enabled in the future).
func AtLeast(v, release string) bool {
	if v == Future {
		return true // an unknown future version is always after y.
	}
	return Compare(Lang(v), Lang(release)) >= 0
}

// Before reports whether the file version v is strictly before a Go release.
//
// Use this predicate to disable a behavior once a certain Go release
// has happened (and stays enabled in the future).
func Before(v, release string) bool {
	if v == Future {
		return false // an unknown future version happens after y.
	}
	return Compare(Lang(v), Lang(release)) < 0
}
